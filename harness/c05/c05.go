// Package c05 ties the routing model (Model/C05.lean: proxy function composition, PAC result
// parsing, scheme dispatch, --connect-to) to the real proxy: generated configurations
// {none, static http/https/socks5, PAC, custom function} x direct-domains x proxy-localhost mode x
// connect-to lists are started for real, generated targets are requested (plain, CONNECT, inside an
// intercepted tunnel), and the dial log, the listener that accepted the connection and the first line
// it read are compared with the model and with the property's decision table.
//
// The targets of one configuration are a request SEQUENCE served by one proxy instance: several requests
// to the same host[:port] with different paths, queries and schemes (plain, inside an intercepted tunnel,
// CONNECT), on one client connection / tunnel and on several. PAC scripts decide on the whole URL
// (shExpMatch(url, …), substring/indexOf tests, host globs; throwing or returning a malformed result for
// some URLs only). The model is asked once per sequence (`C05 routeseq`: the instance folded over the
// requests) and the k-th observation is compared with its k-th answer.
package c05

import (
	"crypto/tls"
	"encoding/json"
	"errors"
	"fmt"
	"net"
	"strings"
	"sync"
	"time"

	"github.com/saucelabs/forwarder"
	"github.com/saucelabs/forwarder/verifharness/core"
	"github.com/saucelabs/forwarder/verifharness/srcgen"
	"github.com/saucelabs/forwarder/verifharness/reqmodel"
	"github.com/saucelabs/forwarder/verifharness/rig"
)

func init() { core.Register("C05", core.Scenario{Run: Run, Replay: Replay, Prepare: srcgen.PrepareC05}) }

const deadAddr = "127.0.0.1:1"

// hops is one set of scripted listeners (one per worker: activity is attributed by counters).
type hops struct {
	origin, proxyA, redirA, redirB *rig.Peer
	proxyB, proxyC                 *rig.Peer // TLS
	socks                          *rig.Socks5
	caFile                         string
	byAddr                         map[string]string // listener address -> name
}

func (h *hops) peers() map[string]*rig.Peer {
	return map[string]*rig.Peer{"origin": h.origin, "proxyA": h.proxyA, "redirA": h.redirA, "redirB": h.redirB, "proxyB": h.proxyB, "proxyC": h.proxyC, "socks": h.socks.Peer}
}

func (h *hops) close() {
	for _, p := range h.peers() {
		p.Close()
	}
}

func newHops(ctx *core.Ctx, n int) (*hops, error) {
	h := &hops{byAddr: map[string]string{}}
	var err error
	resolve := func(string) string { return h.origin.Addr }
	if h.origin, err = rig.NewForwardProxy("origin", func(string) string { return "" }); err != nil {
		return nil, err
	}
	if h.proxyA, err = rig.NewForwardProxy("proxyA", resolve); err != nil {
		return nil, err
	}
	if h.redirA, err = rig.NewForwardProxy("redirA", resolve); err != nil {
		return nil, err
	}
	if h.redirB, err = rig.NewForwardProxy("redirB", resolve); err != nil {
		return nil, err
	}
	ca, err := rig.NewCA("verif c05 CA")
	if err != nil {
		return nil, err
	}
	// one certificate for every name an HTTPS upstream has in a case (the family members of gen.go included)
	leaf, err := ca.ValidLeaf(tlsUpstreamNames...)
	if err != nil {
		return nil, err
	}
	if h.proxyB, err = rig.NewTLSForwardProxy("proxyB", &tls.Config{Certificates: []tls.Certificate{leaf}}, resolve); err != nil {
		return nil, err
	}
	if h.proxyC, err = rig.NewTLSForwardProxy("proxyC", &tls.Config{Certificates: []tls.Certificate{leaf}}, resolve); err != nil {
		return nil, err
	}
	if h.socks, err = rig.NewSocks5("socks", resolve); err != nil {
		return nil, err
	}
	if h.caFile, err = ca.WriteFile(ctx.Root+"/.work", fmt.Sprintf("c05-ca-%d-%d.pem", time.Now().UnixNano(), n)); err != nil {
		return nil, err
	}
	for name, p := range h.peers() {
		h.byAddr[p.Addr] = name
	}
	return h, nil
}

func (h *hops) reset() {
	for _, p := range h.peers() {
		p.Reset()
	}
	h.socks.ResetRequests()
}

// readTimedOut: some scripted proxy gave up waiting for the first bytes of a connection.
func (h *hops) readTimedOut() bool {
	for _, p := range h.peers() {
		for _, ex := range p.Log() {
			var ne net.Error
			if ex.Req == nil && ex.Err != nil && errors.As(ex.Err, &ne) && ne.Timeout() {
				return true
			}
		}
	}
	return false
}

func (h *hops) accepts() map[string]int64 {
	out := map[string]int64{}
	for n, p := range h.peers() {
		if a := p.Accepts(); a > 0 {
			out[n] = a
		}
	}
	return out
}

// target is one request of a case.
type target struct {
	Kind      string  `json:"kind"`      // "plain" | "connect" | "mitm"
	Authority string  `json:"authority"` // host[:port] as the client writes it
	Absolute  bool    `json:"absolute,omitempty"`
	ID        string  `json:"id"`
	Path      string  `json:"path,omitempty"` // "" = /r
	Query     *string `json:"query,omitempty"`
	// Reuse: sent on the client connection (plain) or inside the tunnel (mitm) the previous target of the
	// same kind left open, if any
	Reuse bool `json:"reuse,omitempty"`
}

func (t *target) path() string {
	if t.Path == "" {
		return "/r"
	}
	return t.Path
}

// requestURI is path?query as written on the wire.
func (t *target) requestURI() string {
	if t.Query != nil {
		return t.path() + "?" + *t.Query
	}
	return t.path()
}

// seqReq is what the proxy function sees of the target.
func (t *target) seqReq() reqmodel.SeqReq {
	switch t.Kind {
	case "connect":
		return reqmodel.SeqReq{Connect: true, Host: t.Authority}
	case "mitm":
		return reqmodel.SeqReq{Scheme: "https", Host: t.Authority, Path: t.path(), Query: t.Query}
	}
	return reqmodel.SeqReq{Scheme: "http", Host: t.Authority, Path: t.path(), Query: t.Query}
}

// rcase is one configuration with its targets. Listener addresses appear symbolically in ConnectTo
// (DstHost "@origin" etc.) so that a case replays with fresh listeners.
type rcase struct {
	Kind      string            `json:"kind"` // "routing"
	Route     reqmodel.RouteCfg `json:"route"`
	LocalMode string            `json:"local_mode"` // deny | allow | direct
	MITM      bool              `json:"mitm,omitempty"`
	NGen      int               `json:"n_generated_rules"` // connect-to rules in front of the fixed routes
	// Hosts: text of the hosts file the instance is constructed on ("" = the machine's own); Env: name of the
	// environment profile of the process the instance runs in ("" = the harness's own environment), see child.go
	Hosts   string   `json:"hosts,omitempty"`
	Env     string   `json:"env,omitempty"`
	Targets []target `json:"targets"`
	// Family: label of the upstream family the configuration selects among ("" = none), see genFamilyCase
	Family string `json:"family,omitempty"`
	// genLabels: histogram labels of the rule-list generator for a real --direct-domains list (not replayed)
	genLabels []string
}

// oneTarget is the replayable form of one evaluation: the target with the requests the same proxy
// instance served before it.
type oneTarget struct {
	Kind      string            `json:"kind"` // "one"
	Route     reqmodel.RouteCfg `json:"route"`
	LocalMode string            `json:"local_mode"`
	MITM      bool              `json:"mitm,omitempty"`
	NGen      int               `json:"n_generated_rules"`
	Hosts     string            `json:"hosts,omitempty"`
	Env       string            `json:"env,omitempty"`
	History   []target          `json:"history,omitempty"`
	Target    target            `json:"target"`
}

// concrete replaces symbolic destinations by this worker's listener addresses.
func (h *hops) concrete(rc reqmodel.RouteCfg) reqmodel.RouteCfg {
	out := rc
	out.ConnectTo = nil
	for _, p := range rc.ConnectTo {
		if strings.HasPrefix(p.DstHost, "@") {
			if peer, ok := h.peers()[p.DstHost[1:]]; ok {
				host, port, _ := net.SplitHostPort(peer.Addr)
				p.DstHost, p.DstPort = host, port
			}
		}
		out.ConnectTo = append(out.ConnectTo, p)
	}
	return out
}

var localNamesOnce struct {
	sync.Once
	v []string
}

type dialRec struct{ Pre, Post string }

func runCase(ctx *core.Ctx, h *hops, rc *rcase) {
	if rc.Route.DirectSet && rc.Route.DirectRaw != nil {
		// a rule that is ITSELF an alternation Go's regexp/syntax factors with loss of a fold-case flag (C17: foldRisk)
		// is outside the model's regular-expression semantics: such a list is not run
		if strings.Contains(ctx.Model.MustAsk("C17", "risk", reqmodel.RawRulesToken(rc.Route.DirectRaw)), "1") {
			ctx.Count("direct-domains/outside-model/rule-inside-go-alternation-factoring")
			return
		}
		for _, l := range rc.genLabels {
			ctx.Count("direct-domains/" + l)
		}
	}
	view := viewOf(rc.Hosts)
	names := view.localNames()
	route := h.concrete(rc.Route)
	route.LocalhostDirect = rc.LocalMode == "direct"
	fc := reqmodel.FullCfg{
		Base:  reqmodel.Cfg{Name: "fwdverif", Tag: "unknown-tag", TimeAllowed: true, LocalNames: names, DenyLocal: rc.LocalMode == "deny", MITM: rc.MITM},
		Route: route,
	}
	opts, err := reqmodel.ProxyOpts(&fc, nil, nil, []string{h.caFile})
	if err != nil {
		ctx.Crash("proxy starts with a valid configuration", "", rc, err.Error())
		return
	}
	var dmu sync.Mutex
	var dials []dialRec
	var pairs []forwarder.HostPortPair
	pairs = append(pairs, opts.ConnectTo...)
	opts.ConnectTo = nil
	real := forwarder.DialRedirectFromHostPortPairs(pairs)
	inner := opts.Transport
	opts.Transport = func(tc *forwarder.HTTPTransportConfig) {
		inner(tc)
		tc.RedirectFunc = func(network, address string) (string, string) {
			n, post := real(network, address)
			dmu.Lock()
			dials = append(dials, dialRec{address, post})
			dmu.Unlock()
			if _, ok := h.byAddr[post]; !ok && !child.isSink(post) {
				return n, deadAddr // never leave the scripted listeners
			}
			return n, post
		}
	}
	p, err := startProxyOn(ctx, opts, view)
	if err != nil {
		ctx.Crash("proxy starts with a valid configuration", "", rc, err.Error())
		return
	}
	defer p.Stop()

	// the model: this instance folded over the whole request sequence
	var reqs []reqmodel.SeqReq
	for i := range rc.Targets {
		reqs = append(reqs, rc.Targets[i].seqReq())
	}
	answers := reqmodel.AskRouteSeqEnv(ctx.Model, &route, view.own, reqs, child.ambient())

	sess := &session{addr: p.Addr}
	defer sess.close()
	var seen []*routed
	for i := range rc.Targets {
		t := rc.Targets[i]
		one := oneTarget{Kind: "one", Route: rc.Route, LocalMode: rc.LocalMode, MITM: rc.MITM, NGen: rc.NGen, Hosts: rc.Hosts, Env: rc.Env, History: rc.Targets[:i:i], Target: t}
		fresh := func() {
			h.reset()
			dmu.Lock()
			dials = nil
			dmu.Unlock()
		}
		fresh()
		ob := sess.exchange(&t, fresh)
		if ob.Status >= 500 && h.readTimedOut() {
			// a scripted proxy gives the head of a connection one second to arrive (so that a peer speaking another
			// protocol cannot stall the scenario); on a machine under load the proxy under test can be slower than
			// that. The observation is taken once more: a head that is really never sent is missing again.
			ctx.Count("rig/listener-read-timeout-observation-repeated")
			fresh()
			ob = sess.exchange(&t, fresh)
		}
		// let late accepts land: every live dial accepted and the counters stable
		deadline := time.Now().Add(time.Second)
		stable, last := 0, int64(-1)
		for time.Now().Before(deadline) {
			var total int64
			for _, a := range h.accepts() {
				total += a
			}
			live := 0
			dmu.Lock()
			for _, d := range dials {
				if _, ok := h.byAddr[d.Post]; ok {
					live++
				}
			}
			dmu.Unlock()
			if int(total) >= live && total == last {
				stable++
				if stable >= 3 {
					break
				}
			} else {
				stable = 0
			}
			last = total
			time.Sleep(400 * time.Microsecond)
		}
		dmu.Lock()
		ob.Dials = append([]dialRec(nil), dials...)
		dmu.Unlock()
		ob.Accepts = h.accepts()
		ob.FirstLines = map[string]string{}
		for n, peer := range h.peers() {
			if lg := peer.Log(); len(lg) > 0 && lg[0].Req != nil {
				ob.FirstLines[n] = lg[0].Req.Method + " " + lg[0].Req.Target
			}
		}
		for _, sr := range h.socks.Requests() {
			ob.SocksTargets = append(ob.SocksTargets, sr.Target)
		}
		ctx.Count(fmt.Sprintf("seq/position=%d", min(i, 8)))
		if rc.Family != "" {
			countFamily(ctx, rc, answers, i)
		}
		evaluate(ctx, h, &fc, one, &t, ob, &answers[i])
		// the same request served twice by one instance is routed the same way both times
		cur := &routed{key: fmt.Sprintf("%s|%s|%v|%s", t.Kind, t.Authority, t.Absolute, t.requestURI()), status: ob.Status, dials: ob.Dials, err: ob.Err}
		for _, prev := range seen {
			if prev.key != cur.key || prev.err != "" || cur.err != "" {
				continue
			}
			ctx.Count("seq/repeated-request")
			if (prev.status >= 400) != (cur.status >= 400) || fmt.Sprint(prev.dials) != fmt.Sprint(cur.dials) {
				ctx.SpecFail("the routing of a request does not depend on what the proxy served before: the same request is routed the same way each time", "",
					one, ob.String(), fmt.Sprintf("earlier in this sequence: status %d dials %v", prev.status, prev.dials))
			}
			break
		}
		seen = append(seen, cur)
	}
}

// countFamily: histogram of what the i-th request of a family case meets - a hop that differs from an earlier hop of
// the sequence only in its port, only in its host, only in its scheme, or only in the spelling of its host.
func countFamily(ctx *core.Ctx, rc *rcase, answers []reqmodel.SeqAnswer, i int) {
	cur := answers[i].Route
	ctx.Count("family/" + rc.Family)
	if cur.Kind != "proxy" {
		return
	}
	ch, cp, err := net.SplitHostPort(cur.Addr)
	if err != nil {
		return
	}
	kind := rc.Targets[i].Kind
	seen := map[string]bool{}
	for j := 0; j < i; j++ {
		prev := answers[j].Route
		if prev.Kind != "proxy" {
			continue
		}
		ph, pp, err := net.SplitHostPort(prev.Addr)
		if err != nil || prev.Addr == cur.Addr && prev.Proxy == cur.Proxy {
			continue
		}
		rel := ""
		switch {
		case prev.Addr == cur.Addr:
			rel = "same-address-other-scheme"
		case ph == ch && pp != cp:
			rel = "same-host-other-port"
		case ph != ch && strings.EqualFold(strings.TrimSuffix(ph, "."), strings.TrimSuffix(ch, ".")):
			rel = "other-spelling-of-host"
		case pp == cp:
			rel = "same-port-other-host"
		default:
			continue
		}
		rel += "/" + kind + "-after-" + rc.Targets[j].Kind
		if !seen[rel] {
			seen[rel] = true
			ctx.Count("family/sibling-visited-before/" + rel)
		}
	}
}

type routed struct {
	key    string
	status int
	dials  []dialRec
	err    string
}

// observed is what one target caused.
type observed struct {
	Status       int               `json:"status"`
	Err          string            `json:"err,omitempty"`
	Reused       bool              `json:"reused_connection,omitempty"`
	Dials        []dialRec         `json:"dials"`
	Accepts      map[string]int64  `json:"accepts"`
	FirstLines   map[string]string `json:"first_lines"`
	SocksTargets []string          `json:"socks_targets,omitempty"`
}

func (o *observed) String() string { b, _ := json.Marshal(o); return string(b) }

// session is the client side of one request sequence: the connections targets may share.
type session struct {
	addr   string
	plain  *rig.Client // idle keep-alive connection to the proxy
	tunnel *rig.Client // TLS session inside an intercepted tunnel
}

func (s *session) close() {
	if s.plain != nil {
		s.plain.Close()
		s.plain = nil
	}
	if s.tunnel != nil {
		s.tunnel.Close()
		s.tunnel = nil
	}
}

func keepsAlive(res *rig.Msg) bool {
	for _, f := range res.Fields {
		if strings.EqualFold(f.Name, "Connection") && strings.Contains(strings.ToLower(f.Value), "close") {
			return false
		}
	}
	return res.Proto == "HTTP/1.1" && res.Framing != "eof"
}

// roundTrip sends one GET on c and reads the response.
func roundTrip(c *rig.Client, line string, t *target) (*rig.Msg, error) {
	if err := c.Send([]byte(fmt.Sprintf("%s\r\nHost: %s\r\nCase-Id: %s\r\n\r\n", line, t.Authority, t.ID)), nil); err != nil {
		return nil, err
	}
	return c.ReadResponse("GET", 8*time.Second)
}

// exchange sends the target's request(s) and returns the status of the decisive response. A target with
// Reuse goes out on the connection / tunnel the previous one left open; when the proxy has closed that
// in the meantime the observation is started afresh (fresh()) on a new connection.
func (s *session) exchange(t *target, fresh func()) *observed {
	ob := &observed{}
	switch t.Kind {
	case "connect":
		c, err := rig.Dial(s.addr)
		if err != nil {
			ob.Err = err.Error()
			return ob
		}
		defer c.Close()
		c.Send([]byte(fmt.Sprintf("CONNECT %s HTTP/1.1\r\nHost: %s\r\nCase-Id: %s\r\n\r\n", t.Authority, t.Authority, t.ID)), nil)
		res, err := c.ReadResponse("CONNECT", 8*time.Second)
		if err != nil {
			ob.Err = err.Error()
			return ob
		}
		ob.Status = res.Status
	case "plain":
		line := "GET " + t.requestURI() + " HTTP/1.1"
		if t.Absolute {
			line = "GET http://" + t.Authority + t.requestURI() + " HTTP/1.1"
		}
		if t.Reuse && s.plain != nil {
			c := s.plain
			s.plain = nil
			if res, err := roundTrip(c, line, t); err == nil {
				ob.Status, ob.Reused = res.Status, true
				if keepsAlive(res) {
					s.plain = c
				} else {
					c.Close()
				}
				return ob
			}
			c.Close()
			fresh()
		}
		if s.plain != nil {
			s.plain.Close()
			s.plain = nil
		}
		c, err := rig.Dial(s.addr)
		if err != nil {
			ob.Err = err.Error()
			return ob
		}
		res, err := roundTrip(c, line, t)
		if err != nil {
			c.Close()
			ob.Err = err.Error()
			return ob
		}
		ob.Status = res.Status
		if keepsAlive(res) {
			s.plain = c
		} else {
			c.Close()
		}
	case "mitm":
		line := "GET " + t.requestURI() + " HTTP/1.1"
		if t.Reuse && s.tunnel != nil {
			c := s.tunnel
			s.tunnel = nil
			if res, err := roundTrip(c, line, t); err == nil {
				ob.Status, ob.Reused = res.Status, true
				if keepsAlive(res) {
					s.tunnel = c
				} else {
					c.Close()
				}
				return ob
			}
			c.Close()
			fresh()
		}
		if s.tunnel != nil {
			s.tunnel.Close()
			s.tunnel = nil
		}
		// the tunnel is opened towards a name that passes every control and is intercepted locally;
		// the request inside names the real target in Host
		c, err := rig.Dial(s.addr)
		if err != nil {
			ob.Err = err.Error()
			return ob
		}
		c.Send([]byte("CONNECT tunnel.test:443 HTTP/1.1\r\nHost: tunnel.test:443\r\n\r\n"), nil)
		res, err := c.ReadResponse("CONNECT", 8*time.Second)
		if err != nil || res.Status != 200 {
			c.Close()
			ob.Err = fmt.Sprintf("mitm CONNECT: %v %+v", err, res)
			return ob
		}
		if _, err := c.StartTLS("tunnel.test", nil, true); err != nil {
			c.Close()
			ob.Err = err.Error()
			return ob
		}
		res, err = roundTrip(c, line, t)
		if err != nil {
			c.Close()
			ob.Err = err.Error()
			return ob
		}
		ob.Status = res.Status
		if keepsAlive(res) {
			s.tunnel = c
		} else {
			c.Close()
		}
	}
	return ob
}

func localNames() []string {
	localNamesOnce.Do(func() { localNamesOnce.v = readLocalNames() })
	return localNamesOnce.v
}

func Run(ctx *core.Ctx) {
	maybeChild(ctx)
	ctx.SetRule("generated configurations {no upstream, static http/https/socks5 proxy, PAC script, custom proxy function} x " +
		"direct-domains include/exclude lists x proxy-localhost deny/allow/direct x connect-to lists (generated rules with empty fields in front of the fixed routes), " +
		"each started as a real proxy (forwarder.NewHTTPProxy) and serving a SEQUENCE of 4-8 requests, most of them to one host[:port] with different paths, queries, " +
		"schemes and kinds (plain origin/absolute form, CONNECT, request inside an intercepted tunnel), on one client connection / tunnel and on several; " +
		"PAC scripts are decision lists over (url, host): shExpMatch(url|host, glob), url.substring/indexOf tests, host == k, negations and conjunctions, a host table and a final return, " +
		"each branch returning a string from the result grammar (keywords in any case, unknown ones, h:p, [v6]:p, missing/empty/non-numeric/out-of-range port, extra spaces, several ';' entries), an arbitrary string, a number, or throwing; " +
		"target hosts include localhost, loopback literals and every name the machine's hosts file maps to a loopback address; " +
		"60% of the direct-domains lists are REAL RULE LISTS from C17's generator (1-6 Go regular expressions with inline flags, groups, anchors, alternations, case-sensitive classes, excludes; " +
		"44% built around an unscoped flag group in front of another rule or a letter one rule has in upper case and another case-folded), most requests of such a sequence going to hosts derived " +
		"from the rules (example matches, case variants, near misses), judged with one regexp per rule; the matcher the flag values are read into is also compared at API level on all derived subjects; " +
		"the model is one instance folded over the whole sequence (C05 routeseq), compared position by position; " +
		"a quarter of the configurations select among 2-4 members of an UPSTREAM FAMILY (one host several ports - plain, TLS, SOCKS5 -, one port several hosts, one host:port under both schemes, " +
		"case / trailing-dot / IP-literal spellings of one address; PAC host table, URL rules or custom function; each host:port led to a scripted proxy of its own) and their sequence visits the members " +
		"in every order (plain, CONNECT, intercepted): each request is dialled to, accepted by and spoken to in the protocol of exactly the proxy selected for it; " +
		"the same in child processes whose ENVIRONMENT names recording sink proxies (HTTP_PROXY / HTTPS_PROXY / ALL_PROXY / NO_PROXY in upper, lower and mixed case, " +
		"NO_PROXY naming a target or not) with the no-upstream class over-represented: the sinks must never be dialled, the model takes the environment as an input; " +
		"half of a child's cases construct the instance on a GENERATED HOSTS FILE (mixed-case loopback aliases, other records) and aim at its names in several letter cases; " +
		"dial RETRIES: a connect-to rule maps a live listener's address (as IP literal or as localhost; origin of a plain request, CONNECT target, upstream proxy) to a port that " +
		"refuses the first k = 0..Retry.Attempts attempts (opened when the dialer's own retry counter shows k attempts), rule lists with non-matching rules in front and matching " +
		"rules behind: the unmapped address and the later rules' destination must see no connection, the request succeeds iff an attempt within the budget connects; " +
		"non-trivial = the configuration has a proxy function or a generated connect-to rule applies, or the case runs in an environment child / on a generated hosts file / is a retry case; " +
		"distinct = distinct (configuration, environment, hosts file, target)")
	checkHostsFile(ctx)
	for _, c := range core.LoadCorpus(ctx.Root, "C05") {
		Replay(ctx, c)
	}
	pacAPI(ctx)
	directAPI(ctx)
	retryCases(ctx)
	// the same in child processes whose environment names proxies, partly on generated hosts files (child.go);
	// they run beside the cases of this process
	waitChildren := startChildren(ctx)
	nCases := ctx.N(800, 9000)
	jobs := make(chan *rcase, 32)
	var wg sync.WaitGroup
	for w := 0; w < 10; w++ {
		wg.Add(1)
		go func(w int) {
			defer wg.Done()
			h, err := newHops(ctx, w)
			if err != nil {
				core.Fatalf("cannot start scripted hops: %v", err)
			}
			defer h.close()
			for rc := range jobs {
				runCase(ctx, h, rc)
			}
		}(w)
	}
	for i := 0; i < nCases; i++ {
		r := ctx.Rng.Sub()
		rc := genCase(r)
		if i < 3 {
			ctx.Sample(rc)
		}
		jobs <- rc
	}
	close(jobs)
	wg.Wait()
	waitChildren()
}

// checkHostsFile compares hostsfile.LocalhostAliases (what NewHTTPProxy appends to the localhost names)
// with the harness's own reading of /etc/hosts.
func checkHostsFile(ctx *core.Ctx) {
	localNames()
	own := map[string]bool{}
	for _, a := range hostsAliases.own {
		own[a] = true
	}
	pkg := map[string]bool{}
	for _, a := range hostsAliases.pkg {
		pkg[a] = true
	}
	same := len(own) == len(pkg)
	for a := range own {
		if !pkg[a] {
			same = false
		}
	}
	ctx.Case("hostsfile", len(own) > 0)
	if !same {
		ctx.Disagree("hostsfile.LocalhostAliases = names /etc/hosts maps to a loopback address", map[string]any{"kind": "hostsfile"}, fmt.Sprint(hostsAliases.pkg), fmt.Sprint(hostsAliases.own))
	} else {
		ctx.TraceValidated()
	}
	ctx.Count(fmt.Sprintf("hosts-file/aliases-usable-as-targets=%d", len(aliasTargets())))
}

func Replay(ctx *core.Ctx, raw json.RawMessage) {
	maybeChild(ctx)
	var k struct {
		Kind string `json:"kind"`
	}
	json.Unmarshal(raw, &k)
	var rc rcase
	switch k.Kind {
	case "hostsfile":
		checkHostsFile(ctx)
		return
	case "direct-list":
		var c directCase
		if err := json.Unmarshal(raw, &c); err != nil {
			core.Fatalf("bad C05 case: %v", err)
		}
		checkDirectList(ctx, &c)
		return
	case "pac-string", "redirect", "splithostport":
		return // API-level cases are regenerated by pacAPI on every run
	case "environment":
		var j childJob
		if err := json.Unmarshal(raw, &j); err != nil {
			core.Fatalf("bad C05 case: %v", err)
		}
		runChild(ctx, j)
		return
	case "hostsfile-generated":
		var hf struct {
			Hosts string `json:"hosts"`
		}
		json.Unmarshal(raw, &hf)
		rc = rcase{Kind: "routing", Route: reqmodel.RouteCfg{Base: "none"}, LocalMode: "allow", Hosts: hf.Hosts, Env: child.profile()}
		rc.Targets = []target{{Kind: "plain", Authority: "localhost", ID: "replay"}}
		h, err := newHops(ctx, 98)
		if err != nil {
			core.Fatalf("cannot start scripted hops: %v", err)
		}
		defer h.close()
		runCase(ctx, h, &rc)
		return
	case "retry":
		var c retryCase
		if err := json.Unmarshal(raw, &c); err != nil {
			core.Fatalf("bad C05 case: %v", err)
		}
		runRetryCase(ctx, &c)
		return
	case "one":
		var o oneTarget
		if err := json.Unmarshal(raw, &o); err != nil {
			core.Fatalf("bad C05 case: %v", err)
		}
		rc = rcase{Kind: "routing", Route: o.Route, LocalMode: o.LocalMode, MITM: o.MITM, NGen: o.NGen, Hosts: o.Hosts, Env: o.Env, Targets: append(append([]target{}, o.History...), o.Target)}
	default:
		if err := json.Unmarshal(raw, &rc); err != nil {
			core.Fatalf("bad C05 case: %v", err)
		}
	}
	if rc.Env != child.profile() {
		// the case belongs to a process with that environment
		runChild(ctx, childJob{Profile: rc.Env, Cases: []rcase{rc}})
		return
	}
	h, err := newHops(ctx, 99)
	if err != nil {
		core.Fatalf("cannot start scripted hops: %v", err)
	}
	defer h.close()
	runCase(ctx, h, &rc)
}
