// Package c05 ties the routing model (Model/C05.lean: proxy function composition, PAC result
// parsing, scheme dispatch, --connect-to) to the real proxy: generated configurations
// {none, static http/https/socks5, PAC, custom function} x direct-domains x proxy-localhost mode x
// connect-to lists are started for real, generated targets are requested (plain, CONNECT, inside an
// intercepted tunnel), and the dial log, the listener that accepted the connection and the first line
// it read are compared with the model and with the property's decision table.
package c05

import (
	"crypto/tls"
	"encoding/json"
	"fmt"
	"net"
	"strings"
	"sync"
	"time"

	"github.com/saucelabs/forwarder"
	"github.com/saucelabs/forwarder/verifharness/core"
	"github.com/saucelabs/forwarder/verifharness/reqmodel"
	"github.com/saucelabs/forwarder/verifharness/rig"
)

func init() { core.Register("C05", core.Scenario{Run: Run, Replay: Replay}) }

const deadAddr = "127.0.0.1:1"

// hops is one set of scripted listeners (one per worker: activity is attributed by counters).
type hops struct {
	origin, proxyA, redirA, redirB *rig.Peer
	proxyB                         *rig.Peer // TLS
	socks                          *rig.Socks5
	caFile                         string
	byAddr                         map[string]string // listener address -> name
}

func (h *hops) peers() map[string]*rig.Peer {
	return map[string]*rig.Peer{"origin": h.origin, "proxyA": h.proxyA, "redirA": h.redirA, "redirB": h.redirB, "proxyB": h.proxyB, "socks": h.socks.Peer}
}

func (h *hops) close() {
	for _, p := range h.peers() {
		p.Close()
	}
}

func newHops(ctx *core.Ctx, n int) (*hops, error) {
	h := &hops{byAddr: map[string]string{}}
	var err error
	resolve := func(string) string { return h.origin.Addr }
	if h.origin, err = rig.NewForwardProxy("origin", func(string) string { return "" }); err != nil {
		return nil, err
	}
	if h.proxyA, err = rig.NewForwardProxy("proxyA", resolve); err != nil {
		return nil, err
	}
	if h.redirA, err = rig.NewForwardProxy("redirA", resolve); err != nil {
		return nil, err
	}
	if h.redirB, err = rig.NewForwardProxy("redirB", resolve); err != nil {
		return nil, err
	}
	ca, err := rig.NewCA("verif c05 CA")
	if err != nil {
		return nil, err
	}
	leaf, err := ca.ValidLeaf("proxyb.test")
	if err != nil {
		return nil, err
	}
	if h.proxyB, err = rig.NewTLSForwardProxy("proxyB", &tls.Config{Certificates: []tls.Certificate{leaf}}, resolve); err != nil {
		return nil, err
	}
	if h.socks, err = rig.NewSocks5("socks", resolve); err != nil {
		return nil, err
	}
	if h.caFile, err = ca.WriteFile(ctx.Root+"/.work", fmt.Sprintf("c05-ca-%d-%d.pem", time.Now().UnixNano(), n)); err != nil {
		return nil, err
	}
	for name, p := range h.peers() {
		h.byAddr[p.Addr] = name
	}
	return h, nil
}

func (h *hops) reset() {
	for _, p := range h.peers() {
		p.Reset()
	}
	h.socks.ResetRequests()
}

func (h *hops) accepts() map[string]int64 {
	out := map[string]int64{}
	for n, p := range h.peers() {
		if a := p.Accepts(); a > 0 {
			out[n] = a
		}
	}
	return out
}

// target is one request of a case.
type target struct {
	Kind      string `json:"kind"`      // "plain" | "connect" | "mitm"
	Authority string `json:"authority"` // host[:port] as the client writes it
	Absolute  bool   `json:"absolute,omitempty"`
	ID        string `json:"id"`
}

// rcase is one configuration with its targets. Listener addresses appear symbolically in ConnectTo
// (DstHost "@origin" etc.) so that a case replays with fresh listeners.
type rcase struct {
	Kind      string            `json:"kind"` // "routing"
	Route     reqmodel.RouteCfg `json:"route"`
	LocalMode string            `json:"local_mode"` // deny | allow | direct
	MITM      bool              `json:"mitm,omitempty"`
	NGen      int               `json:"n_generated_rules"` // connect-to rules in front of the fixed routes
	Targets   []target          `json:"targets"`
}

type oneTarget struct {
	Kind      string            `json:"kind"` // "one"
	Route     reqmodel.RouteCfg `json:"route"`
	LocalMode string            `json:"local_mode"`
	MITM      bool              `json:"mitm,omitempty"`
	NGen      int               `json:"n_generated_rules"`
	Target    target            `json:"target"`
}

// concrete replaces symbolic destinations by this worker's listener addresses.
func (h *hops) concrete(rc reqmodel.RouteCfg) reqmodel.RouteCfg {
	out := rc
	out.ConnectTo = nil
	for _, p := range rc.ConnectTo {
		if strings.HasPrefix(p.DstHost, "@") {
			if peer, ok := h.peers()[p.DstHost[1:]]; ok {
				host, port, _ := net.SplitHostPort(peer.Addr)
				p.DstHost, p.DstPort = host, port
			}
		}
		out.ConnectTo = append(out.ConnectTo, p)
	}
	return out
}

var localNamesOnce struct {
	sync.Once
	v []string
}

type dialRec struct{ Pre, Post string }

func runCase(ctx *core.Ctx, h *hops, rc *rcase) {
	names := localNames()
	route := h.concrete(rc.Route)
	route.LocalhostDirect = rc.LocalMode == "direct"
	fc := reqmodel.FullCfg{
		Base:  reqmodel.Cfg{Name: "fwdverif", Tag: "unknown-tag", TimeAllowed: true, LocalNames: names, DenyLocal: rc.LocalMode == "deny", MITM: rc.MITM},
		Route: route,
	}
	opts, err := reqmodel.ProxyOpts(&fc, nil, nil, []string{h.caFile})
	if err != nil {
		ctx.Crash("proxy starts with a valid configuration", "", rc, err.Error())
		return
	}
	var dmu sync.Mutex
	var dials []dialRec
	var pairs []forwarder.HostPortPair
	pairs = append(pairs, opts.ConnectTo...)
	opts.ConnectTo = nil
	real := forwarder.DialRedirectFromHostPortPairs(pairs)
	inner := opts.Transport
	opts.Transport = func(tc *forwarder.HTTPTransportConfig) {
		inner(tc)
		tc.RedirectFunc = func(network, address string) (string, string) {
			n, post := real(network, address)
			dmu.Lock()
			dials = append(dials, dialRec{address, post})
			dmu.Unlock()
			if _, ok := h.byAddr[post]; !ok {
				return n, deadAddr // never leave the scripted listeners
			}
			return n, post
		}
	}
	p, err := rig.StartProxy(opts)
	if err != nil {
		ctx.Crash("proxy starts with a valid configuration", "", rc, err.Error())
		return
	}
	defer p.Stop()

	for i := range rc.Targets {
		t := rc.Targets[i]
		one := oneTarget{Kind: "one", Route: rc.Route, LocalMode: rc.LocalMode, MITM: rc.MITM, NGen: rc.NGen, Target: t}
		h.reset()
		dmu.Lock()
		dials = nil
		dmu.Unlock()
		ob := exchange(p.Addr, &t)
		// let late accepts land: every live dial accepted and the counters stable
		deadline := time.Now().Add(time.Second)
		stable, last := 0, int64(-1)
		for time.Now().Before(deadline) {
			var total int64
			for _, a := range h.accepts() {
				total += a
			}
			live := 0
			dmu.Lock()
			for _, d := range dials {
				if _, ok := h.byAddr[d.Post]; ok {
					live++
				}
			}
			dmu.Unlock()
			if int(total) >= live && total == last {
				stable++
				if stable >= 3 {
					break
				}
			} else {
				stable = 0
			}
			last = total
			time.Sleep(400 * time.Microsecond)
		}
		dmu.Lock()
		ob.Dials = append([]dialRec(nil), dials...)
		dmu.Unlock()
		ob.Accepts = h.accepts()
		ob.FirstLines = map[string]string{}
		for n, peer := range h.peers() {
			if lg := peer.Log(); len(lg) > 0 && lg[0].Req != nil {
				ob.FirstLines[n] = lg[0].Req.Method + " " + lg[0].Req.Target
			}
		}
		for _, sr := range h.socks.Requests() {
			ob.SocksTargets = append(ob.SocksTargets, sr.Target)
		}
		evaluate(ctx, h, &fc, one, &t, ob)
	}
}

// observed is what one target caused.
type observed struct {
	Status       int               `json:"status"`
	Err          string            `json:"err,omitempty"`
	Dials        []dialRec         `json:"dials"`
	Accepts      map[string]int64  `json:"accepts"`
	FirstLines   map[string]string `json:"first_lines"`
	SocksTargets []string          `json:"socks_targets,omitempty"`
}

func (o *observed) String() string { b, _ := json.Marshal(o); return string(b) }

// exchange sends the target's request(s) and returns the status of the decisive response.
func exchange(addr string, t *target) *observed {
	ob := &observed{}
	c, err := rig.Dial(addr)
	if err != nil {
		ob.Err = err.Error()
		return ob
	}
	defer c.Close()
	switch t.Kind {
	case "connect":
		c.Send([]byte(fmt.Sprintf("CONNECT %s HTTP/1.1\r\nHost: %s\r\nCase-Id: %s\r\n\r\n", t.Authority, t.Authority, t.ID)), nil)
		res, err := c.ReadResponse("CONNECT", 8*time.Second)
		if err != nil {
			ob.Err = err.Error()
			return ob
		}
		ob.Status = res.Status
	case "plain":
		line := "GET /r HTTP/1.1"
		if t.Absolute {
			line = "GET http://" + t.Authority + "/r HTTP/1.1"
		}
		c.Send([]byte(fmt.Sprintf("%s\r\nHost: %s\r\nCase-Id: %s\r\n\r\n", line, t.Authority, t.ID)), nil)
		res, err := c.ReadResponse("GET", 8*time.Second)
		if err != nil {
			ob.Err = err.Error()
			return ob
		}
		ob.Status = res.Status
	case "mitm":
		// the tunnel is opened towards a name that passes every control and is intercepted locally;
		// the request inside names the real target in Host
		c.Send([]byte("CONNECT tunnel.test:443 HTTP/1.1\r\nHost: tunnel.test:443\r\n\r\n"), nil)
		res, err := c.ReadResponse("CONNECT", 8*time.Second)
		if err != nil || res.Status != 200 {
			ob.Err = fmt.Sprintf("mitm CONNECT: %v %+v", err, res)
			return ob
		}
		if _, err := c.StartTLS("tunnel.test", nil, true); err != nil {
			ob.Err = err.Error()
			return ob
		}
		c.Send([]byte(fmt.Sprintf("GET /r HTTP/1.1\r\nHost: %s\r\nCase-Id: %s\r\n\r\n", t.Authority, t.ID)), nil)
		res, err = c.ReadResponse("GET", 8*time.Second)
		if err != nil {
			ob.Err = err.Error()
			return ob
		}
		ob.Status = res.Status
	}
	return ob
}

func localNames() []string {
	localNamesOnce.Do(func() { localNamesOnce.v = readLocalNames() })
	return localNamesOnce.v
}

func Run(ctx *core.Ctx) {
	ctx.SetRule("generated configurations {no upstream, static http/https/socks5 proxy, PAC script returning generated strings per host, custom proxy function} x " +
		"direct-domains include/exclude lists x proxy-localhost deny/allow/direct x connect-to lists (generated rules with empty fields in front of the fixed routes), " +
		"each started as a real proxy; targets with explicit/implicit ports, as plain request (origin/absolute form), CONNECT, and request inside an intercepted tunnel; " +
		"PAC strings from a grammar (keywords in any case, unknown ones, h:p, [v6]:p, missing/empty/non-numeric port, extra spaces, several ';' entries) and arbitrary strings; " +
		"non-trivial = the configuration has a proxy function or a generated connect-to rule applies; distinct = distinct (configuration, target)")
	for _, c := range core.LoadCorpus(ctx.Root, "C05") {
		Replay(ctx, c)
	}
	pacAPI(ctx)
	nCases := ctx.N(800, 9000)
	jobs := make(chan *rcase, 32)
	var wg sync.WaitGroup
	for w := 0; w < 10; w++ {
		wg.Add(1)
		go func(w int) {
			defer wg.Done()
			h, err := newHops(ctx, w)
			if err != nil {
				core.Fatalf("cannot start scripted hops: %v", err)
			}
			defer h.close()
			for rc := range jobs {
				runCase(ctx, h, rc)
			}
		}(w)
	}
	for i := 0; i < nCases; i++ {
		r := ctx.Rng.Sub()
		rc := genCase(r)
		if i < 3 {
			ctx.Sample(rc)
		}
		jobs <- rc
	}
	close(jobs)
	wg.Wait()
}

func Replay(ctx *core.Ctx, raw json.RawMessage) {
	var k struct {
		Kind string `json:"kind"`
	}
	json.Unmarshal(raw, &k)
	var rc rcase
	switch k.Kind {
	case "one":
		var o oneTarget
		if err := json.Unmarshal(raw, &o); err != nil {
			core.Fatalf("bad C05 case: %v", err)
		}
		rc = rcase{Kind: "routing", Route: o.Route, LocalMode: o.LocalMode, MITM: o.MITM, NGen: o.NGen, Targets: []target{o.Target}}
	default:
		if err := json.Unmarshal(raw, &rc); err != nil {
			core.Fatalf("bad C05 case: %v", err)
		}
	}
	h, err := newHops(ctx, 99)
	if err != nil {
		core.Fatalf("cannot start scripted hops: %v", err)
	}
	defer h.close()
	runCase(ctx, h, &rc)
}
