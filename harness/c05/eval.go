package c05

import (
	"fmt"
	"net"
	"net/netip"
	"net/url"
	"os"
	"regexp"
	"strconv"
	"strings"

	"github.com/saucelabs/forwarder/hostsfile"
	"github.com/saucelabs/forwarder/verifharness/core"
	"github.com/saucelabs/forwarder/verifharness/reqmodel"
	"github.com/saucelabs/forwarder/verifharness/rig"
)

// hostsFileLoopbackNames reads the machine's hosts file independently of /repo/hostsfile: every name on
// a line whose address is a loopback address (127.0.0.0/8, ::1), in file order, without duplicates.
func hostsFileLoopbackNames(path string) ([]string, error) {
	raw, err := os.ReadFile(path)
	if err != nil {
		return nil, err
	}
	var out []string
	seen := map[string]bool{}
	for _, line := range strings.Split(string(raw), "\n") {
		if i := strings.IndexByte(line, '#'); i >= 0 {
			line = line[:i]
		}
		f := strings.Fields(line)
		if len(f) < 2 {
			continue
		}
		a, err := netip.ParseAddr(f[0])
		if err != nil || !a.Unmap().IsLoopback() {
			continue
		}
		for _, n := range f[1:] {
			if !seen[n] {
				seen[n] = true
				out = append(out, n)
			}
		}
	}
	return out, nil
}

var hostsAliases struct {
	own, pkg []string
}

// readLocalNames is hp.localhost as NewHTTPProxy composes it: the three built-in names followed by the
// hosts-file aliases of loopback addresses. The aliases are read by the harness's own parser; what
// hostsfile.LocalhostAliases (the function the proxy calls) returns is kept for comparison.
func readLocalNames() []string {
	own, err := hostsFileLoopbackNames("/etc/hosts")
	if err != nil {
		core.Fatalf("cannot read /etc/hosts: %v", err)
	}
	pkg, err := hostsfile.LocalhostAliases()
	if err != nil {
		core.Fatalf("cannot read localhost aliases: %v", err)
	}
	hostsAliases.own, hostsAliases.pkg = own, pkg
	return (&hostsView{own: own}).localNames()
}

// hostsView is a hosts file as a case sees it: the names it gives to loopback addresses (as spelt) and the
// names only other records carry. The zero text is the machine's own file.
type hostsView struct {
	text  string
	own   []string
	other []string
}

func machineView() *hostsView {
	localNames()
	return &hostsView{own: hostsAliases.own}
}

// viewOf reads a generated hosts file with the harness's own reader ("" = the machine's file).
func viewOf(text string) *hostsView {
	if text == "" {
		return machineView()
	}
	v := &hostsView{text: text}
	v.own, v.other = reqmodel.LoopbackNames(reqmodel.ParseHosts(text))
	return v
}

// localNames is hp.localhost as NewHTTPProxy composes it: the built-in names, then the aliases lower-cased.
func (v *hostsView) localNames() []string {
	out := []string{"localhost", "0.0.0.0", "::"}
	for _, a := range v.own {
		out = append(out, strings.ToLower(a))
	}
	return out
}

func usableAsTarget(a string) bool {
	ok := a != "" && strings.ToLower(a) != "localhost"
	for i := 0; i < len(a); i++ {
		c := a[i]
		if !(c >= 'a' && c <= 'z' || c >= 'A' && c <= 'Z' || c >= '0' && c <= '9' || c == '-' || c == '.') {
			ok = false
		}
	}
	return ok
}

// aliasTargets are the aliases usable as request targets; otherTargets the names of other records.
func (v *hostsView) aliasTargets() []string {
	var out []string
	for _, a := range v.own {
		if usableAsTarget(a) {
			out = append(out, a)
		}
	}
	return out
}

func (v *hostsView) otherTargets() []string {
	var out []string
	for _, a := range v.other {
		if usableAsTarget(a) {
			out = append(out, a)
		}
	}
	return out
}

// aliasTargets are the hosts-file aliases usable as request targets (plain host names other than the
// built-in "localhost").
func aliasTargets() []string { return machineView().aliasTargets() }

func hostnameOf(authority string) (string, bool) {
	u, err := url.Parse("http://" + authority)
	if err != nil || u.Host == "" {
		return "", false
	}
	return u.Hostname(), true
}

func isLocalhostSpec(names []string, host string) bool {
	h := strings.ToLower(host)
	for _, n := range names {
		if n == h {
			return true
		}
	}
	a, err := netip.ParseAddr(h)
	return err == nil && a.Zone() == "" && (a.Unmap().IsLoopback() || a.Unmap().IsUnspecified())
}

// ---- the property's decision table, written out independently of the model ----

type specHop struct {
	Kind   string // skip | error | direct | proxy
	Why    string
	Proxy  string // http | https | socks5
	Addr   string // proxy host:port
	Socks4 bool
}

var pacModes = map[string]string{"PROXY": "http", "HTTP": "http", "HTTPS": "https", "SOCKS5": "socks5", "SOCKS": "socks", "SOCKS4": "socks4"}

// specPac reads the first entry of a PAC result the way the property words it.
func specPac(s string) specHop {
	for i := 0; i < len(s); i++ {
		if s[i] >= 0x80 {
			return specHop{Kind: "error", Why: "non-ascii"}
		}
	}
	if s == "" {
		return specHop{Kind: "direct"}
	}
	first, _, _ := strings.Cut(s, ";")
	first = strings.TrimSpace(first)
	if first == "" || first == "DIRECT" {
		return specHop{Kind: "direct"}
	}
	kw, hp, ok := strings.Cut(first, " ")
	if !ok {
		return specHop{Kind: "error", Why: "missing host:port"}
	}
	host, port, err := net.SplitHostPort(hp)
	if err != nil {
		return specHop{Kind: "error", Why: "unparsable host:port"}
	}
	// "an entry whose host:port cannot be parsed fails the request": a host that is empty or holds a
	// blank, a port that is not a decimal number in 0..65535
	valid := host != "" && !strings.ContainsAny(host, " \t") && port != "" && len(strings.TrimLeft(port, "0123456789")) == 0
	if valid {
		n, err := strconv.ParseUint(port, 10, 64)
		valid = err == nil && n <= 65535
	}
	mode, known := pacModes[kw]
	if !known {
		if !valid {
			// "unrecognised keyword = DIRECT" and "unparsable host:port fails" both apply: not judged
			return specHop{Kind: "skip", Why: "unknown keyword with an invalid host:port"}
		}
		return specHop{Kind: "direct"}
	}
	if !valid {
		return specHop{Kind: "error", Why: "invalid host or port"}
	}
	if mode == "socks" || mode == "socks4" {
		return specHop{Kind: "error", Why: "unsupported proxy type", Socks4: true}
	}
	if port == "0" || strings.TrimLeft(port, "0") == "" {
		return specHop{Kind: "skip", Why: "port 0"}
	}
	return specHop{Kind: "proxy", Proxy: mode, Addr: net.JoinHostPort(host, port)}
}

func specRoute(fc *reqmodel.FullCfg, hostname string, t *target) specHop {
	rc := &fc.Route
	if fc.Base.DenyLocal && isLocalhostSpec(fc.Base.LocalNames, hostname) {
		return specHop{Kind: "skip", Why: "refused by localhost denial"}
	}
	if rc.Base == "" || rc.Base == "none" {
		return specHop{Kind: "direct"}
	}
	if rc.DirectSet && rc.DirectRaw == nil && reqmodel.MatchSpec(rc.Direct, hostname) {
		return specHop{Kind: "direct"}
	}
	if rc.DirectSet && rc.DirectRaw != nil {
		// a real rule list: ONE regexp per rule, includes minus excludes
		m, err := reqmodel.MatchSpecRaw(rc.DirectRaw, hostname)
		if err != nil {
			return specHop{Kind: "skip", Why: "a direct-domains rule is not a regular expression"}
		}
		if m {
			return specHop{Kind: "direct"}
		}
	}
	if rc.LocalhostDirect && isLocalhostSpec(fc.Base.LocalNames, hostname) {
		return specHop{Kind: "direct"}
	}
	proxyOf := func(u *reqmodel.ProxyURL) specHop {
		if u == nil {
			return specHop{Kind: "direct"}
		}
		return specHop{Kind: "proxy", Proxy: u.Scheme, Addr: u.Host}
	}
	switch rc.Base {
	case "static":
		return proxyOf(rc.Static)
	case "custom":
		for _, e := range rc.CustomTable {
			if e.Host == hostname {
				return proxyOf(e.URL)
			}
		}
		return proxyOf(rc.CustomDefault)
	case "pac":
		// "the first entry of the PAC result for THAT URL": the script is read as its source says, on the
		// URL of this request. For CONNECT the property does not say which URL string the script is given
		// (//host:port, https://host:port/, host:port …): judged only when the readings agree.
		var r *reqmodel.PacResult
		for _, u := range specURLs(t) {
			x := specPacEval(rc, u, hostname)
			if r != nil && *r != x {
				return specHop{Kind: "skip", Why: "CONNECT: the script's answer depends on the form of the URL string"}
			}
			r = &x
		}
		if r.Fail != "" {
			return specHop{Kind: "error", Why: "script error"}
		}
		return specPac(r.Return)
	}
	return specHop{Kind: "skip"}
}

// specURLs are the URL strings the script may be asked about for the target.
func specURLs(t *target) []string {
	switch t.Kind {
	case "connect":
		return []string{"//" + t.Authority, "https://" + t.Authority + "/", "https://" + t.Authority, t.Authority, "http://" + t.Authority + "/"}
	case "mitm":
		return []string{"https://" + t.Authority + t.requestURI()}
	}
	return []string{"http://" + t.Authority + t.requestURI()}
}

// globSpec: shell expression, `*` any run of characters, `?` any one character, everything else literal.
func globSpec(pat, s string) bool {
	if pat == "" {
		return s == ""
	}
	switch pat[0] {
	case '*':
		for i := 0; i <= len(s); i++ {
			if globSpec(pat[1:], s[i:]) {
				return true
			}
		}
		return false
	case '?':
		return s != "" && globSpec(pat[1:], s[1:])
	}
	return s != "" && s[0] == pat[0] && globSpec(pat[1:], s[1:])
}

func condSpec(c *reqmodel.PacCond, url, host string) bool {
	switch c.Op {
	case "H":
		return host == c.Lit
	case "h":
		return globSpec(c.Lit, host)
	case "G":
		return globSpec(c.Lit, url)
	case "P":
		return strings.HasPrefix(url, c.Lit)
	case "C":
		return strings.Contains(url, c.Lit)
	case "N":
		return !condSpec(&c.Args[0], url, host)
	case "A":
		return condSpec(&c.Args[0], url, host) && condSpec(&c.Args[1], url, host)
	}
	return false
}

// specPacEval reads the generated script top to bottom: URL rules, host table, final return.
func specPacEval(rc *reqmodel.RouteCfg, url, host string) reqmodel.PacResult {
	for i := range rc.PacRules {
		if condSpec(&rc.PacRules[i].Cond, url, host) {
			return rc.PacRules[i].R
		}
	}
	for _, e := range rc.PacTable {
		if e.Host == host {
			return e.R
		}
	}
	return rc.PacDefault
}

// specRedirect: first matching rule, empty source fields match anything, empty destination fields
// keep the original.
func specRedirect(rules []reqmodel.HostPortPair, addr string) string {
	host, port, err := net.SplitHostPort(addr)
	if err != nil {
		return addr
	}
	for _, r := range rules {
		if (r.SrcHost == "" || r.SrcHost == host) && (r.SrcPort == "" || r.SrcPort == port) {
			h, p := r.DstHost, r.DstPort
			if h == "" {
				h = host
			}
			if p == "" {
				p = port
			}
			return net.JoinHostPort(h, p)
		}
	}
	return addr
}

func plainListener(name string) bool {
	return name == "origin" || name == "proxyA" || name == "redirA" || name == "redirB"
}

func tlsListener(name string) bool { return name == "proxyB" || name == "proxyC" }

// readRequest: the first line a listener logged is the start of an HTTP request (a listener handed a TLS hello in
// the clear, or the reverse, logs nothing or bytes that are no method).
func readRequest(firstLine string) bool {
	m, _, ok := strings.Cut(firstLine, " ")
	if !ok || m == "" {
		return false
	}
	for i := 0; i < len(m); i++ {
		if m[i] < 'A' || m[i] > 'Z' {
			return false
		}
	}
	return true
}

func evaluate(ctx *core.Ctx, h *hops, fc *reqmodel.FullCfg, one oneTarget, t *target, ob *observed, ans *reqmodel.SeqAnswer) {
	mctx := reqmodel.Ctx{ClientIP: "127.0.0.1"}
	if t.Kind == "mitm" {
		mctx.Secure = true
	}
	hn, hostOK := hostnameOf(t.Authority)
	if !hostOK {
		ctx.Count("out-of-domain")
		return
	}
	// the model's decision for this position of the sequence; the pipeline verbs get the configuration as
	// it answers this request (PAC base = the script's answer for this URL)
	rt := ans.Route
	sfc := *fc
	sfc.Route = ans.Specialise(&fc.Route)
	if want := specURLs(t)[0]; ans.URL != want {
		core.Fatalf("model and harness disagree on the URL of %+v: %q vs %q", *t, ans.URL, want)
	}
	var out reqmodel.Outcome
	if t.Kind == "connect" {
		out = reqmodel.AskFullConnect(ctx.Model, &sfc, &mctx, &reqmodel.ConnectReq{Authority: t.Authority, Minor: 1,
			Fields: []rig.Field{{Name: "Host", Value: t.Authority}, {Name: "Case-Id", Value: t.ID}}})
	} else {
		out = reqmodel.AskFullRequest(ctx.Model, &sfc, &mctx, &reqmodel.Request{Method: "GET", Minor: 1, Absolute: t.Absolute, Scheme: "http", Authority: t.Authority,
			Path: t.path(), Query: t.Query, Fields: []rig.Field{{Name: "Host", Value: t.Authority}, {Name: "Case-Id", Value: t.ID}}})
	}
	sp := specRoute(fc, hn, t)
	key := fmt.Sprintf("%+v|%s|%v|%+v", one.Route, one.LocalMode, one.MITM, *t)
	if one.Env != "" || one.Hosts != "" {
		key += "|" + one.Env + "|" + one.Hosts
	}
	ctx.Case(key, fc.Route.Base != "none" && fc.Route.Base != "" || one.NGen > 0 || one.Env != "" || one.Hosts != "")
	ctx.Count("base/" + fc.Route.Base)
	ctx.Count("kind/" + t.Kind)
	ctx.Count("local-mode/" + one.LocalMode)
	ctx.Count("model-route/" + rt.Kind + "/" + rt.Proxy + rt.Err)
	ctx.Count("spec/" + sp.Kind)
	if len(fc.Route.PacRules) > 0 {
		ctx.Count("pac/url-rules")
		if ans.Pac != nil && fc.Route.Base == "pac" {
			if hostOnly := specPacEval(&reqmodel.RouteCfg{PacTable: fc.Route.PacTable, PacDefault: fc.Route.PacDefault}, "", hn); hostOnly != specPacEval(&fc.Route, ans.URL, hn) {
				ctx.Count("pac/url-rule-decides")
			}
		}
	}
	if len(one.History) > 0 {
		same, sameOther := false, false
		for i := range one.History {
			if p := &one.History[i]; strings.EqualFold(p.Authority, t.Authority) {
				same = true
				if p.Kind != t.Kind || p.requestURI() != t.requestURI() {
					sameOther = true
				}
			}
		}
		if same {
			ctx.Count("seq/host-seen-before")
		}
		if sameOther {
			ctx.Count("seq/host-seen-before-with-other-url")
		}
	}
	if ob.Reused {
		ctx.Count("seq/reused-client-connection/" + t.Kind)
	}
	// the hosts-file aliases of loopback addresses
	if len(fc.Base.LocalNames) > 3 {
		for _, a := range fc.Base.LocalNames[3:] {
			if a == strings.ToLower(hn) && a != "localhost" {
				ctx.Count("target/hosts-file-alias/" + one.LocalMode)
				if one.Hosts != "" {
					ctx.Count("target/generated-hosts-file-alias/" + one.LocalMode)
					if a != hn {
						ctx.Count("target/generated-hosts-file-alias-in-another-case/" + one.LocalMode)
					}
				}
				break
			}
		}
	}
	if one.Hosts != "" {
		ctx.Count("generated-hosts-file")
	}
	if one.Env != "" {
		ctx.Count("environment/" + one.Env + "/base=" + fc.Route.Base)
	}
	if fc.Route.DirectSet {
		ctx.Count("direct-domains-set")
	}
	if vals := fc.Route.DirectRaw; fc.Route.DirectSet && vals != nil {
		ctx.Count("direct-domains/real-list")
		ctx.Count(fmt.Sprintf("direct-domains/real-list/rules=%d", min(len(vals), 6)))
		ctx.Count("direct-domains/real-list/base=" + fc.Route.Base + "/" + t.Kind)
		alone, _ := reqmodel.MatchSpecRaw(vals, hn)
		ctx.Count(fmt.Sprintf("direct-domains/real-list/verdict=%v", alone))
		hit := false
		for _, v := range vals {
			if one1, _ := reqmodel.MatchSpecRaw([]string{strings.TrimPrefix(v, "-")}, hn); one1 {
				hit = true
			}
		}
		if hit {
			ctx.Count("direct-domains/real-list/some-rule-matches-the-host")
		}
		if j, ok := joinedVerdict(vals, hn); ok && j != alone {
			ctx.Count("direct-domains/real-list/verdict-needs-every-rule-on-its-own")
		}
	}
	impl := ob.String()
	if ob.Err != "" {
		ctx.Disagree("every request is answered", one, impl, rt.Kind)
		return
	}

	// --- correspondence with the model ---
	ok := true
	disagree := func(rel, want string) {
		ok = false
		ctx.Disagree(rel, one, impl, want)
	}
	switch {
	case out.Kind == "refused":
		if ob.Status != out.Status || len(ob.Dials) != 0 {
			disagree("refused request: status and no dial", fmt.Sprintf("refused %d", out.Status))
		}
	case rt.Kind == "err":
		if out.Kind != "routeerr" {
			core.Fatalf("model inconsistent: route error %v but pipeline outcome %s", rt, out.Kind)
		}
		if ob.Status < 500 || len(ob.Dials) != 0 {
			disagree("route error: request fails and nothing is dialled", "err "+rt.Err)
		}
	case out.Kind == "unreadable" || out.Kind == "badreq":
		ctx.Count("out-of-domain")
		return
	default:
		if len(out.Actions) != 1 || out.Actions[0].HopAddr != rt.Addr {
			core.Fatalf("model inconsistent: route %+v vs actions %+v", rt, out.Actions)
		}
		a := out.Actions[0]
		if len(ob.Dials) != 1 || ob.Dials[0].Pre != rt.Addr || ob.Dials[0].Post != rt.Dial {
			disagree("dial log = (hop address, connect-to image) of Model route", fmt.Sprintf("%s %s -> %s", rt.Kind+rt.Proxy, rt.Addr, rt.Dial))
			break
		}
		listener, live := h.byAddr[rt.Dial]
		if !live {
			// (the origin may still accept the onward connection of an earlier tunnel; the dial log is authoritative)
			for n := range ob.Accepts {
				if n != "origin" {
					disagree("no listener is contacted when the dial address is none of them", "no accepts")
				}
			}
			break
		}
		// the origin listener may in addition see the onward connections of earlier tunnels
		wrong := ob.Accepts[listener] < 1 || listener != "origin" && ob.Accepts[listener] != 1
		for n := range ob.Accepts {
			if n != listener && n != "origin" {
				wrong = true
			}
		}
		if wrong {
			disagree("exactly the selected listener accepts the connection", listener)
		}
		expectHead := a.Via == "http" && plainListener(listener) || a.Via == "https" && tlsListener(listener) ||
			a.Via == "direct" && t.Kind == "plain" && plainListener(listener)
		if expectHead && len(a.Sent) > 0 {
			want := a.Sent[0].Method + " " + a.Sent[0].Target
			if ob.FirstLines[listener] != want {
				disagree("first line read by the selected listener", want)
			}
		}
		// the other way round: a listener spoken to in the other protocol reads no request
		if (a.Via == "http" && tlsListener(listener) || a.Via == "https" && plainListener(listener) && listener != "origin") && readRequest(ob.FirstLines[listener]) {
			disagree("a listener spoken to in the other protocol (TLS / plain) reads no request", "no request line at "+listener)
		}
		if a.Via == "socks5" && listener == "socks" {
			if a.SocksTarget == nil || len(ob.SocksTargets) != 1 || ob.SocksTargets[0] != *a.SocksTarget {
				disagree("SOCKS5 connect target", fmt.Sprint(a.SocksTarget))
			}
		}
	}
	if ok {
		ctx.TraceValidated()
	}

	// --- the property's decision table on what was observed ---
	// (a PAC entry SOCKS/SOCKS4 on the transport path was the known class F3 until pacProxy learnt to fail
	// such entries: a hop contacted for one is a plain violation again)
	class := ""
	if sp.Socks4 {
		ctx.Count("spec/pac-unsupported-type")
	}
	rules := fc.Route.ConnectTo
	targetAddr := func() string {
		switch t.Kind {
		case "connect":
			return t.Authority
		case "mitm":
			return withDefaultPort(t.Authority, "443")
		}
		return withDefaultPort(t.Authority, "80")
	}
	if child != nil {
		for _, d := range ob.Dials {
			if child.isSink(d.Pre) || child.isSink(d.Post) {
				ctx.SpecFail("routing is decided by the configuration alone: a proxy named by the process environment (HTTP_PROXY / HTTPS_PROXY / ALL_PROXY, in either case) is never contacted", "",
					one, impl, fmt.Sprintf("dialled %s -> %s, the proxy of environment %q", d.Pre, d.Post, one.Env))
				break
			}
		}
	}
	switch sp.Kind {
	case "skip":
	case "error":
		others := 0
		for n := range ob.Accepts {
			if n != "origin" {
				others++
			}
		}
		if len(ob.Dials) != 0 || others != 0 {
			ctx.SpecFail("a PAC error / unparsable entry / unsupported proxy type fails the request and contacts no hop ("+sp.Why+")", class, one, impl,
				fmt.Sprintf("dials=%v accepts=%v", ob.Dials, ob.Accepts))
		} else if ob.Status < 400 {
			ctx.SpecFail("a PAC error / unparsable entry / unsupported proxy type fails the request ("+sp.Why+")", class, one, impl, fmt.Sprintf("status %d", ob.Status))
		}
	case "direct", "proxy":
		pre := targetAddr()
		if sp.Kind == "proxy" {
			pre = sp.Addr
		}
		post := specRedirect(rules, pre)
		if len(ob.Dials) != 1 || ob.Dials[0].Pre != pre || ob.Dials[0].Post != post {
			ctx.SpecFail("the connection is opened to the connect-to image of the hop the decision table selects", "", one, impl,
				fmt.Sprintf("want %s%s %s -> %s", sp.Kind, sp.Proxy, pre, post))
			break
		}
		want := h.byAddr[post]
		for n := range ob.Accepts {
			if n != want && n != "origin" {
				ctx.SpecFail("the request is never delivered to any other party", "", one, impl, "accepted by "+n+", selected "+want)
			}
		}
		// PROXY/HTTP = an HTTP proxy, HTTPS = a TLS proxy: the selected hop is spoken to in the protocol the configuration
		// names for it, whatever was sent to a hop with the same address before (judged at the listeners that are proxies)
		if sp.Kind == "proxy" && want != "" && want != "origin" && (sp.Proxy == "http" || sp.Proxy == "https") {
			read := readRequest(ob.FirstLines[want])
			speaks := sp.Proxy == "http" && plainListener(want) || sp.Proxy == "https" && tlsListener(want)
			other := sp.Proxy == "http" && tlsListener(want) || sp.Proxy == "https" && plainListener(want)
			ctx.Count("spec/proxy-protocol/" + sp.Proxy + "/listener-speaks-it=" + fmt.Sprint(speaks))
			if speaks && !read {
				ctx.SpecFail("the selected proxy is spoken to in the protocol its entry names (PROXY/HTTP plain, HTTPS over TLS)", "", one, impl,
					fmt.Sprintf("%s proxy %s: listener %s accepted the connection but read no request", sp.Proxy, sp.Addr, want))
			}
			if other && read {
				ctx.SpecFail("the selected proxy is spoken to in the protocol its entry names (PROXY/HTTP plain, HTTPS over TLS)", "", one, impl,
					fmt.Sprintf("%s proxy %s: listener %s speaks the other protocol and yet read %q", sp.Proxy, sp.Addr, want, ob.FirstLines[want]))
			}
		}
	}
}

// joinedVerdict: what the list would answer if the rules of each sub-list were one alternation (histogram
// label only: how many requests tell the two readings apart).
func joinedVerdict(vals []string, s string) (bool, bool) {
	var inc, exc []string
	for _, v := range vals {
		if src, excl := strings.CutPrefix(v, "-"); excl {
			exc = append(exc, src)
		} else {
			inc = append(inc, src)
		}
	}
	ri, err := regexp.Compile(strings.Join(inc, "|"))
	if err != nil || len(inc) == 0 {
		return false, false
	}
	if len(exc) > 0 {
		re, err := regexp.Compile(strings.Join(exc, "|"))
		if err != nil {
			return false, false
		}
		if re.MatchString(s) {
			return false, true
		}
	}
	return ri.MatchString(s), true
}

func withDefaultPort(authority, port string) string {
	u, err := url.Parse("http://" + authority)
	if err != nil {
		return authority
	}
	if u.Port() != "" {
		return net.JoinHostPort(u.Hostname(), u.Port())
	}
	return net.JoinHostPort(u.Hostname(), port)
}
