package c05

import (
	"fmt"
	"net"
	"net/netip"
	"net/url"
	"strconv"
	"strings"

	"github.com/saucelabs/forwarder/hostsfile"
	"github.com/saucelabs/forwarder/verifharness/core"
	"github.com/saucelabs/forwarder/verifharness/reqmodel"
	"github.com/saucelabs/forwarder/verifharness/rig"
)

func readLocalNames() []string {
	lh, err := hostsfile.LocalhostAliases()
	if err != nil {
		core.Fatalf("cannot read localhost aliases: %v", err)
	}
	out := []string{"localhost", "0.0.0.0", "::"}
	for _, a := range lh {
		out = append(out, strings.ToLower(a))
	}
	return out
}

func hostnameOf(authority string) (string, bool) {
	u, err := url.Parse("http://" + authority)
	if err != nil || u.Host == "" {
		return "", false
	}
	return u.Hostname(), true
}

func isLocalhostSpec(names []string, host string) bool {
	h := strings.ToLower(host)
	for _, n := range names {
		if n == h {
			return true
		}
	}
	a, err := netip.ParseAddr(h)
	return err == nil && a.Zone() == "" && (a.Unmap().IsLoopback() || a.Unmap().IsUnspecified())
}

// ---- the property's decision table, written out independently of the model ----

type specHop struct {
	Kind   string // skip | error | direct | proxy
	Why    string
	Proxy  string // http | https | socks5
	Addr   string // proxy host:port
	Socks4 bool
}

var pacModes = map[string]string{"PROXY": "http", "HTTP": "http", "HTTPS": "https", "SOCKS5": "socks5", "SOCKS": "socks", "SOCKS4": "socks4"}

// specPac reads the first entry of a PAC result the way the property words it.
func specPac(s string) specHop {
	for i := 0; i < len(s); i++ {
		if s[i] >= 0x80 {
			return specHop{Kind: "error", Why: "non-ascii"}
		}
	}
	if s == "" {
		return specHop{Kind: "direct"}
	}
	first, _, _ := strings.Cut(s, ";")
	first = strings.TrimSpace(first)
	if first == "" || first == "DIRECT" {
		return specHop{Kind: "direct"}
	}
	kw, hp, ok := strings.Cut(first, " ")
	if !ok {
		return specHop{Kind: "error", Why: "missing host:port"}
	}
	host, port, err := net.SplitHostPort(hp)
	if err != nil {
		return specHop{Kind: "error", Why: "unparsable host:port"}
	}
	mode, known := pacModes[kw]
	if !known {
		return specHop{Kind: "direct"}
	}
	if mode == "socks" || mode == "socks4" {
		return specHop{Kind: "error", Why: "unsupported proxy type", Socks4: true}
	}
	if n, err := strconv.Atoi(port); err != nil || n < 1 || n > 65535 || strings.TrimSpace(host) != host || host == "" {
		return specHop{Kind: "skip", Why: "host:port that splits but is not an address"}
	}
	return specHop{Kind: "proxy", Proxy: mode, Addr: net.JoinHostPort(host, port)}
}

func specRoute(fc *reqmodel.FullCfg, hostname string) specHop {
	rc := &fc.Route
	if fc.Base.DenyLocal && isLocalhostSpec(fc.Base.LocalNames, hostname) {
		return specHop{Kind: "skip", Why: "refused by localhost denial"}
	}
	if rc.Base == "" || rc.Base == "none" {
		return specHop{Kind: "direct"}
	}
	if rc.DirectSet && reqmodel.MatchSpec(rc.Direct, hostname) {
		return specHop{Kind: "direct"}
	}
	if rc.LocalhostDirect && isLocalhostSpec(fc.Base.LocalNames, hostname) {
		return specHop{Kind: "direct"}
	}
	proxyOf := func(u *reqmodel.ProxyURL) specHop {
		if u == nil {
			return specHop{Kind: "direct"}
		}
		return specHop{Kind: "proxy", Proxy: u.Scheme, Addr: u.Host}
	}
	switch rc.Base {
	case "static":
		return proxyOf(rc.Static)
	case "custom":
		for _, e := range rc.CustomTable {
			if e.Host == hostname {
				return proxyOf(e.URL)
			}
		}
		return proxyOf(rc.CustomDefault)
	case "pac":
		r := rc.PacDefault
		for _, e := range rc.PacTable {
			if e.Host == hostname {
				r = e.R
				break
			}
		}
		if r.Fail != "" {
			return specHop{Kind: "error", Why: "script error"}
		}
		return specPac(r.Return)
	}
	return specHop{Kind: "skip"}
}

// specRedirect: first matching rule, empty source fields match anything, empty destination fields
// keep the original.
func specRedirect(rules []reqmodel.HostPortPair, addr string) string {
	host, port, err := net.SplitHostPort(addr)
	if err != nil {
		return addr
	}
	for _, r := range rules {
		if (r.SrcHost == "" || r.SrcHost == host) && (r.SrcPort == "" || r.SrcPort == port) {
			h, p := r.DstHost, r.DstPort
			if h == "" {
				h = host
			}
			if p == "" {
				p = port
			}
			return net.JoinHostPort(h, p)
		}
	}
	return addr
}

func plainListener(name string) bool {
	return name == "origin" || name == "proxyA" || name == "redirA" || name == "redirB"
}

func evaluate(ctx *core.Ctx, h *hops, fc *reqmodel.FullCfg, one oneTarget, t *target, ob *observed) {
	names := fc.Base.LocalNames
	kind, scheme := "request", "http"
	mctx := reqmodel.Ctx{ClientIP: "127.0.0.1"}
	switch t.Kind {
	case "connect":
		kind, scheme = "connect", ""
	case "mitm":
		scheme = "https"
		mctx.Secure = true
	}
	hn, hostOK := hostnameOf(t.Authority)
	if !hostOK {
		ctx.Count("out-of-domain")
		return
	}
	rt := reqmodel.AskRoute(ctx.Model, &fc.Route, names, kind, scheme, t.Authority)
	var out reqmodel.Outcome
	if t.Kind == "connect" {
		out = reqmodel.AskFullConnect(ctx.Model, fc, &mctx, &reqmodel.ConnectReq{Authority: t.Authority, Minor: 1,
			Fields: []rig.Field{{Name: "Host", Value: t.Authority}, {Name: "Case-Id", Value: t.ID}}})
	} else {
		out = reqmodel.AskFullRequest(ctx.Model, fc, &mctx, &reqmodel.Request{Method: "GET", Minor: 1, Absolute: t.Absolute, Scheme: "http", Authority: t.Authority,
			Path: "/r", Fields: []rig.Field{{Name: "Host", Value: t.Authority}, {Name: "Case-Id", Value: t.ID}}})
	}
	sp := specRoute(fc, hn)
	ctx.Case(fmt.Sprintf("%+v|%s|%v|%+v", one.Route, one.LocalMode, one.MITM, *t), fc.Route.Base != "none" && fc.Route.Base != "" || one.NGen > 0)
	ctx.Count("base/" + fc.Route.Base)
	ctx.Count("kind/" + t.Kind)
	ctx.Count("local-mode/" + one.LocalMode)
	ctx.Count("model-route/" + rt.Kind + "/" + rt.Proxy + rt.Err)
	ctx.Count("spec/" + sp.Kind)
	if fc.Route.DirectSet {
		ctx.Count("direct-domains-set")
	}
	impl := ob.String()
	if ob.Err != "" {
		ctx.Disagree("every request is answered", one, impl, rt.Kind)
		return
	}

	// --- correspondence with the model ---
	ok := true
	disagree := func(rel, want string) {
		ok = false
		ctx.Disagree(rel, one, impl, want)
	}
	switch {
	case out.Kind == "refused":
		if ob.Status != out.Status || len(ob.Dials) != 0 {
			disagree("refused request: status and no dial", fmt.Sprintf("refused %d", out.Status))
		}
	case rt.Kind == "err":
		if out.Kind != "routeerr" {
			core.Fatalf("model inconsistent: route error %v but pipeline outcome %s", rt, out.Kind)
		}
		if ob.Status < 500 || len(ob.Dials) != 0 {
			disagree("route error: request fails and nothing is dialled", "err "+rt.Err)
		}
	case out.Kind == "unreadable" || out.Kind == "badreq":
		ctx.Count("out-of-domain")
		return
	default:
		if len(out.Actions) != 1 || out.Actions[0].HopAddr != rt.Addr {
			core.Fatalf("model inconsistent: route %+v vs actions %+v", rt, out.Actions)
		}
		a := out.Actions[0]
		if len(ob.Dials) != 1 || ob.Dials[0].Pre != rt.Addr || ob.Dials[0].Post != rt.Dial {
			disagree("dial log = (hop address, connect-to image) of Model route", fmt.Sprintf("%s %s -> %s", rt.Kind+rt.Proxy, rt.Addr, rt.Dial))
			break
		}
		listener, live := h.byAddr[rt.Dial]
		if !live {
			// (the origin may still accept the onward connection of an earlier tunnel; the dial log is authoritative)
			for n := range ob.Accepts {
				if n != "origin" {
					disagree("no listener is contacted when the dial address is none of them", "no accepts")
				}
			}
			break
		}
		// the origin listener may in addition see the onward connections of earlier tunnels
		wrong := ob.Accepts[listener] < 1 || listener != "origin" && ob.Accepts[listener] != 1
		for n := range ob.Accepts {
			if n != listener && n != "origin" {
				wrong = true
			}
		}
		if wrong {
			disagree("exactly the selected listener accepts the connection", listener)
		}
		expectHead := a.Via == "http" && plainListener(listener) || a.Via == "https" && listener == "proxyB" ||
			a.Via == "direct" && t.Kind == "plain" && plainListener(listener)
		if expectHead && len(a.Sent) > 0 {
			want := a.Sent[0].Method + " " + a.Sent[0].Target
			if ob.FirstLines[listener] != want {
				disagree("first line read by the selected listener", want)
			}
		}
		if a.Via == "socks5" && listener == "socks" {
			if a.SocksTarget == nil || len(ob.SocksTargets) != 1 || ob.SocksTargets[0] != *a.SocksTarget {
				disagree("SOCKS5 connect target", fmt.Sprint(a.SocksTarget))
			}
		}
	}
	if ok {
		ctx.TraceValidated()
	}

	// --- the property's decision table on what was observed ---
	// (a PAC entry SOCKS/SOCKS4 on the transport path was the known class F3 until pacProxy learnt to fail
	// such entries: a hop contacted for one is a plain violation again)
	class := ""
	if sp.Socks4 {
		ctx.Count("spec/pac-unsupported-type")
	}
	rules := fc.Route.ConnectTo
	targetAddr := func() string {
		switch t.Kind {
		case "connect":
			return t.Authority
		case "mitm":
			return withDefaultPort(t.Authority, "443")
		}
		return withDefaultPort(t.Authority, "80")
	}
	switch sp.Kind {
	case "skip":
	case "error":
		others := 0
		for n := range ob.Accepts {
			if n != "origin" {
				others++
			}
		}
		if len(ob.Dials) != 0 || others != 0 {
			ctx.SpecFail("a PAC error / unparsable entry / unsupported proxy type fails the request and contacts no hop ("+sp.Why+")", class, one, impl,
				fmt.Sprintf("dials=%v accepts=%v", ob.Dials, ob.Accepts))
		} else if ob.Status < 400 {
			ctx.SpecFail("a PAC error / unparsable entry / unsupported proxy type fails the request ("+sp.Why+")", class, one, impl, fmt.Sprintf("status %d", ob.Status))
		}
	case "direct", "proxy":
		pre := targetAddr()
		if sp.Kind == "proxy" {
			pre = sp.Addr
		}
		post := specRedirect(rules, pre)
		if len(ob.Dials) != 1 || ob.Dials[0].Pre != pre || ob.Dials[0].Post != post {
			ctx.SpecFail("the connection is opened to the connect-to image of the hop the decision table selects", "", one, impl,
				fmt.Sprintf("want %s%s %s -> %s", sp.Kind, sp.Proxy, pre, post))
			break
		}
		want := h.byAddr[post]
		for n := range ob.Accepts {
			if n != want && n != "origin" {
				ctx.SpecFail("the request is never delivered to any other party", "", one, impl, "accepted by "+n+", selected "+want)
			}
		}
	}
}

func withDefaultPort(authority, port string) string {
	u, err := url.Parse("http://" + authority)
	if err != nil {
		return authority
	}
	if u.Port() != "" {
		return net.JoinHostPort(u.Hostname(), u.Port())
	}
	return net.JoinHostPort(u.Hostname(), port)
}
