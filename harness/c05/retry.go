package c05

// Dial retries and --connect-to. Dialer.DialContext maps the address through the connect-to rules once and
// then makes up to Retry.Attempts attempts; the property (the hop is opened at the address the FIRST matching
// rule maps it to) is about every one of them. A retry case therefore needs a mapped target whose first k
// attempts fail: rig.Flaky holds a loopback port that refuses connections until it is opened; the port is
// opened when the dialer's own retry counter (dialer_retries_total, read from the registry the transport is
// given) shows that k attempts have been made. The UNMAPPED address — what the client / the configuration
// names — is itself a live listener of the harness, and so is the destination of a rule that matches as well
// but comes later: both must never see a connection, whatever happens to the attempts.

import (
	"encoding/json"
	"fmt"
	"net"
	"strings"
	"sync"
	"time"

	"github.com/prometheus/client_golang/prometheus"
	"github.com/saucelabs/forwarder"
	"github.com/saucelabs/forwarder/verifharness/core"
	"github.com/saucelabs/forwarder/verifharness/reqmodel"
	"github.com/saucelabs/forwarder/verifharness/rig"
)

const retryBackoff = 45 * time.Millisecond

// retryCase is one request through one proxy instance whose dialer retries.
type retryCase struct {
	Kind string `json:"kind"` // "retry"
	// Via: what is dialled through the rule — the origin of a plain request ("plain"), the target of a CONNECT
	// ("connect"), the upstream HTTP proxy of a plain request ("upstream") or of a CONNECT ("upstream-connect")
	Via       string `json:"via"`
	Host      string `json:"host"`     // how the unmapped address is written: "127.0.0.1" | "localhost"
	Attempts  int    `json:"attempts"` // Retry.Attempts (0 = the dialer's "at least one")
	FailFirst int    `json:"fail_first"`
	// Rules: the shape of the connect-to list, see retryRules
	Rules     string `json:"rules"`
	LocalMode string `json:"local_mode"` // allow | direct
}

func (c *retryCase) tries() int {
	if c.Attempts <= 0 {
		return 1
	}
	return c.Attempts
}

var retryRuleShapes = []string{"only", "after-non-matching", "before-catch-all", "port-only-before-host", "keep-host", "two-matching"}

// retryRules lays out the connect-to list: the rule that maps the unmapped address to the flaky target, with
// rules that do not match in front of it and rules that match as well behind it (their destination is decoy).
func retryRules(shape, host, uport, target, decoy string) []reqmodel.HostPortPair {
	th, tp, _ := net.SplitHostPort(target)
	dh, dp, _ := net.SplitHostPort(decoy)
	main := reqmodel.HostPortPair{SrcHost: host, SrcPort: uport, DstHost: th, DstPort: tp}
	switch shape {
	case "after-non-matching":
		return []reqmodel.HostPortPair{{SrcHost: "other.test", SrcPort: uport, DstHost: dh, DstPort: dp}, {SrcHost: host, SrcPort: "1", DstHost: dh, DstPort: dp}, main}
	case "before-catch-all":
		return []reqmodel.HostPortPair{main, {DstHost: dh, DstPort: dp}}
	case "port-only-before-host":
		return []reqmodel.HostPortPair{{SrcPort: uport, DstHost: th, DstPort: tp}, {SrcHost: host, DstHost: dh, DstPort: dp}}
	case "keep-host":
		// empty destination host: the host stays, the port changes (the target listens on 127.0.0.1)
		if host == "127.0.0.1" {
			return []reqmodel.HostPortPair{{SrcHost: host, SrcPort: uport, DstPort: tp}}
		}
		return []reqmodel.HostPortPair{main}
	case "two-matching":
		return []reqmodel.HostPortPair{main, {SrcHost: host, SrcPort: uport, DstHost: dh, DstPort: dp}, {SrcPort: uport, DstHost: dh, DstPort: dp}}
	}
	return []reqmodel.HostPortPair{main}
}

func genRetryCase(r *core.Rand) *retryCase {
	c := &retryCase{Kind: "retry", Via: core.Pick(r, []string{"plain", "plain", "connect", "connect", "upstream", "upstream-connect"}),
		Host: core.Pick(r, []string{"127.0.0.1", "127.0.0.1", "localhost"}), Attempts: core.Pick(r, []int{0, 1, 2, 3, 3, 3, 4}),
		Rules: core.Pick(r, retryRuleShapes), LocalMode: core.Pick(r, []string{"allow", "direct"})}
	// k = 0 .. tries: none fails, the first k fail, all fail
	c.FailFirst = r.Intn(c.tries() + 1)
	return c
}

type retryObserved struct {
	Status        int       `json:"status"`
	Err           string    `json:"err,omitempty"`
	Dials         []dialRec `json:"dials"`
	Target        int64     `json:"target_accepts"`
	Unmapped      int64     `json:"unmapped_accepts"`
	Decoy         int64     `json:"decoy_accepts"`
	Retries       int       `json:"retries_counted"`
	OpenedAt      int       `json:"target_opened_at_retries"` // -1 = never opened, 0 = open from the start
	UnmappedFirst string    `json:"unmapped_first_line,omitempty"`
	DecoyFirst    string    `json:"decoy_first_line,omitempty"`
}

func counterSum(reg *prometheus.Registry, name string) int {
	mfs, err := reg.Gather()
	if err != nil {
		return 0
	}
	total := 0.0
	for _, mf := range mfs {
		if strings.HasSuffix(mf.GetName(), name) {
			for _, m := range mf.GetMetric() {
				if m.Counter != nil {
					total += m.Counter.GetValue()
				}
			}
		}
	}
	return int(total)
}

func firstLine(p *rig.Peer) string {
	if lg := p.Log(); len(lg) > 0 && lg[0].Req != nil {
		return lg[0].Req.Method + " " + lg[0].Req.Target
	}
	return ""
}

func runRetryCase(ctx *core.Ctx, c *retryCase) {
	origin, err := rig.NewForwardProxy("origin", func(string) string { return "" })
	if err != nil {
		core.Fatalf("retry case: %v", err)
	}
	defer origin.Close()
	toOrigin := func(string) string { return origin.Addr }
	unmapped, err := rig.NewForwardProxy("unmapped", toOrigin)
	if err != nil {
		core.Fatalf("retry case: %v", err)
	}
	defer unmapped.Close()
	decoy, err := rig.NewForwardProxy("decoy", toOrigin)
	if err != nil {
		core.Fatalf("retry case: %v", err)
	}
	defer decoy.Close()
	target, err := rig.NewFlaky("target", toOrigin)
	if err != nil {
		core.Fatalf("retry case: %v", err)
	}
	defer target.Close()

	_, uport, _ := net.SplitHostPort(unmapped.Addr)
	addr := net.JoinHostPort(c.Host, uport) // the unmapped address as the dialer is asked for it
	rules := retryRules(c.Rules, c.Host, uport, target.Addr, decoy.Addr)
	// the upstream variants also need the ordinary target name to resolve somewhere scripted when the proxy
	// (wrongly) went direct; nothing else may leave the scripted listeners
	live := map[string]bool{origin.Addr: true, unmapped.Addr: true, decoy.Addr: true, target.Addr: true, addr: true}

	fc := reqmodel.FullCfg{Base: reqmodel.Cfg{Name: "fwdverif", Tag: "unknown-tag", TimeAllowed: true, LocalNames: localNames()},
		Route: reqmodel.RouteCfg{Base: "none", ConnectTo: rules, LocalhostDirect: c.LocalMode == "direct"}}
	if strings.HasPrefix(c.Via, "upstream") {
		fc.Route.Base = "static"
		fc.Route.Static = &reqmodel.ProxyURL{Scheme: "http", Host: addr}
	}
	opts, err := reqmodel.ProxyOpts(&fc, nil, nil, nil)
	if err != nil {
		ctx.Crash("proxy starts with a valid configuration", "", c, err.Error())
		return
	}
	reg := prometheus.NewRegistry()
	var dmu sync.Mutex
	var dials []dialRec
	inner := opts.Transport
	opts.Transport = func(tc *forwarder.HTTPTransportConfig) {
		inner(tc)
		tc.Retry = forwarder.DialRetryConfig{Attempts: c.Attempts, Backoff: retryBackoff}
		tc.PromRegistry = reg
		tc.PromNamespace = "verif"
		real := tc.RedirectFunc // the --connect-to rules as command/run installs them
		tc.RedirectFunc = func(network, address string) (string, string) {
			n, post := network, address
			if real != nil {
				n, post = real(network, address)
			}
			dmu.Lock()
			dials = append(dials, dialRec{address, post})
			dmu.Unlock()
			if !live[post] {
				return n, deadAddr
			}
			return n, post
		}
	}
	p, err := rig.StartProxy(opts)
	if err != nil {
		ctx.Crash("proxy starts with a valid configuration", "", c, err.Error())
		return
	}
	defer p.Stop()

	ob := &retryObserved{OpenedAt: -1}
	tries := c.tries()
	stop := make(chan struct{})
	opened := make(chan struct{})
	switch {
	case c.FailFirst == 0:
		if err := target.Open(); err != nil {
			core.Fatalf("retry case: cannot open the flaky target: %v", err)
		}
		ob.OpenedAt = 0
		close(opened)
	case c.FailFirst < tries:
		// open once FailFirst attempts have been made: the retry counter is incremented right before attempt
		// number FailFirst-1 … so wait for it to show FailFirst-1 and a little longer than a refused loopback
		// connect takes; the next attempt is one back-off away
		go func() {
			defer close(opened)
			deadline := time.Now().Add(10 * time.Second)
			sent := false
			for time.Now().Before(deadline) {
				select {
				case <-stop:
					return
				default:
				}
				n := counterSum(reg, "dialer_retries_total")
				if c.FailFirst-1 == 0 && !sent {
					// the first attempt is not counted: it follows the request immediately
					dmu.Lock()
					sent = len(dials) > 0
					dmu.Unlock()
				}
				if n >= c.FailFirst-1 && (c.FailFirst-1 > 0 || sent) {
					time.Sleep(4 * time.Millisecond)
					if err := target.Open(); err != nil {
						core.Fatalf("retry case: cannot open the flaky target: %v", err)
					}
					ob.OpenedAt = counterSum(reg, "dialer_retries_total")
					if ob.OpenedAt == 0 {
						ob.OpenedAt = -2 // opened after the first attempt, before any retry
					}
					return
				}
				time.Sleep(500 * time.Microsecond)
			}
		}()
	default:
		close(opened)
	}

	cl, err := rig.Dial(p.Addr)
	if err != nil {
		close(stop)
		ctx.Crash("proxy accepts a client connection", "", c, err.Error())
		return
	}
	defer cl.Close()
	method := "GET"
	var wire string
	switch c.Via {
	case "plain":
		wire = fmt.Sprintf("GET http://%s/r HTTP/1.1\r\nHost: %s\r\nConnection: close\r\n\r\n", addr, addr)
	case "connect":
		method = "CONNECT"
		wire = fmt.Sprintf("CONNECT %s HTTP/1.1\r\nHost: %s\r\n\r\n", addr, addr)
	case "upstream":
		wire = "GET http://origin.test/r HTTP/1.1\r\nHost: origin.test\r\nConnection: close\r\n\r\n"
	default:
		method = "CONNECT"
		wire = "CONNECT origin.test:443 HTTP/1.1\r\nHost: origin.test:443\r\n\r\n"
	}
	cl.Send([]byte(wire), nil)
	res, rerr := cl.ReadResponse(method, 10*time.Second)
	close(stop)
	<-opened
	if rerr != nil {
		ob.Err = rerr.Error()
	} else {
		ob.Status = res.Status
	}
	// let late accepts land: a dial that succeeded has been accepted by the kernel, the listener's accept loop
	// may not have counted it yet
	if rerr == nil && res.Status == 200 {
		for deadline := time.Now().Add(5 * time.Second); time.Now().Before(deadline); time.Sleep(300 * time.Microsecond) {
			if target.Accepts()+unmapped.Accepts()+decoy.Accepts() > 0 {
				break
			}
		}
	}
	time.Sleep(3 * time.Millisecond)
	dmu.Lock()
	ob.Dials = append([]dialRec(nil), dials...)
	dmu.Unlock()
	ob.Target, ob.Unmapped, ob.Decoy = target.Accepts(), unmapped.Accepts(), decoy.Accepts()
	ob.Retries = counterSum(reg, "dialer_retries_total")
	ob.UnmappedFirst, ob.DecoyFirst = firstLine(unmapped), firstLine(decoy)
	implJSON, _ := json.Marshal(ob)
	impl := string(implJSON)

	ctx.Case(fmt.Sprintf("retry|%+v", *c), true)
	ctx.Count("retry/via=" + c.Via)
	ctx.Count(fmt.Sprintf("retry/attempts=%d", c.Attempts))
	ctx.Count("retry/rules=" + c.Rules)
	switch {
	case c.FailFirst == 0:
		ctx.Count("retry/outcomes=first-attempt-connects")
	case c.FailFirst < tries:
		ctx.Count(fmt.Sprintf("retry/outcomes=%d-refused-then-connects", c.FailFirst))
	default:
		ctx.Count("retry/outcomes=all-refused")
	}
	if rerr != nil {
		ctx.Disagree("every request is answered", c, impl, "a response")
		return
	}
	ok := ob.Status == 200

	// --- correspondence with the model: the attempts of this dial under the outcomes observed ---
	var outcomes []string
	if ok {
		for i := 0; i < ob.Retries; i++ {
			outcomes = append(outcomes, "0")
		}
		outcomes = append(outcomes, "1")
	}
	rcfg := reqmodel.RouteCfg{Base: "none", ConnectTo: rules}
	toks := append([]string{"C05", "dial", "addr=" + core.HexS(addr), "attempts=" + core.Itoa(max(c.Attempts, 0)), "outcomes=" + core.JoinList(outcomes)},
		reqmodel.RouteTokens(&rcfg, nil)...)
	ans := strings.Fields(ctx.Model.MustAsk(toks...))
	if len(ans) != 2 {
		core.Fatalf("unparsable dial answer %q", strings.Join(ans, " "))
	}
	var mAddrs []string
	for _, a := range strings.Split(ans[1], ",") {
		h, _, _ := strings.Cut(a, ":")
		mAddrs = append(mAddrs, string(core.MustUnHex(h)))
	}
	model := fmt.Sprintf("%s attempts=%v", ans[0], mAddrs)
	good := true
	for _, a := range mAddrs {
		if a != target.Addr {
			// the model maps the address somewhere else than the harness's reading of the rules
			core.Fatalf("model and harness disagree on the connect-to image of %s: %v vs %s", addr, mAddrs, target.Addr)
		}
	}
	if (ans[0] == "ok") != ok {
		// with these outcomes the model's dial succeeds within the budget and the implementation's did not (or the reverse)
		good = false
		ctx.Disagree("the dial succeeds iff one of the Retry.Attempts attempts connects (Model dialAttempts)", c, impl, model)
	}
	if len(mAddrs) != ob.Retries+1 {
		good = false
		ctx.Disagree("number of dial attempts (retry counter + 1) = Model dialAttempts", c, impl, model)
	}
	if len(ob.Dials) != 1 || ob.Dials[0].Pre != addr || ob.Dials[0].Post != target.Addr {
		good = false
		ctx.Disagree("the address is mapped once per dial: (requested address, connect-to image)", c, impl, addr+" -> "+target.Addr)
	}
	if good {
		ctx.TraceValidated()
	}

	// --- the property, on what was observed ---
	if want := specRedirect(rules, addr); want != target.Addr {
		core.Fatalf("retry case %+v: the rules map %s to %s, not to the flaky target %s", *c, addr, want, target.Addr)
	}
	if ob.Unmapped != 0 || ob.Decoy != 0 {
		ctx.SpecFail("every dial attempt — the first and each retry — opens the hop at the address the FIRST matching connect-to rule maps it to: "+
			"neither the unmapped address nor the destination of a later rule is ever contacted", "", c, impl,
			fmt.Sprintf("unmapped address %s accepted %d connection(s) (%q), later rule's destination accepted %d (%q)", addr, ob.Unmapped, ob.UnmappedFirst, ob.Decoy, ob.DecoyFirst))
	}
	switch {
	case ob.OpenedAt == -1 && c.FailFirst >= tries:
		if ob.Status < 500 {
			ctx.SpecFail("when every attempt at the mapped address is refused the request fails (502): it is not delivered anywhere else", "", c, impl, fmt.Sprintf("status %d", ob.Status))
		}
		if ob.Target != 0 {
			core.Fatalf("retry case: a port that was never opened accepted a connection")
		}
	case ob.OpenedAt == 0:
		if !ok || ob.Target < 1 {
			ctx.SpecFail("the hop is opened at the connect-to image of its address", "", c, impl, "the mapped target listens but was not contacted / the request failed")
		}
	case ob.OpenedAt == -2 || ob.OpenedAt > 0:
		at := max(ob.OpenedAt, 0)
		if at < tries-1 && (!ok || ob.Target < 1) {
			// at least one attempt was still to come when the mapped target started to accept
			ctx.SpecFail("a retry dials the connect-to image again: once the mapped target accepts, the next attempt reaches it", "", c, impl,
				fmt.Sprintf("the mapped target %s accepted from retry %d of %d on and saw %d connection(s); status %d", target.Addr, at, tries-1, ob.Target, ob.Status))
		}
	}
}

// retryCases is the retry part of a run.
func retryCases(ctx *core.Ctx) {
	n := ctx.N(70, 600)
	jobs := make(chan *retryCase, 16)
	var wg sync.WaitGroup
	for w := 0; w < 8; w++ {
		wg.Add(1)
		go func() {
			defer wg.Done()
			for c := range jobs {
				runRetryCase(ctx, c)
			}
		}()
	}
	for i := 0; i < n; i++ {
		c := genRetryCase(ctx.Rng.Sub())
		if i == 0 {
			ctx.Sample(c)
		}
		jobs <- c
	}
	close(jobs)
	wg.Wait()
}
