package c05

// Routing is decided by the configuration; two things of the PROCESS a proxy instance lives in could leak
// into it and are varied here:
//
//   - the environment: http.ProxyFromEnvironment reads HTTP_PROXY / HTTPS_PROXY / NO_PROXY (and the lower-case
//     spellings) once per process. Part of the routing cases therefore runs in child processes started with
//     these variables (and ALL_PROXY) naming recording sink proxies of the parent. The targets are names that
//     are not loopback from net/http's point of view (origin.test, direct.test, … reach the scripted listeners
//     through --connect-to), in every configuration class: no upstream (over-represented), static, PAC,
//     custom, with and without direct-domains, proxy-localhost deny/allow/direct. The sinks must never be
//     dialled; the model is asked with the environment as an input (C05.routeIn).
//   - the hosts file: NewHTTPProxy reads the machine's hosts file (github.com/kevinburke/hostsfile/lib.Location,
//     a package variable). Half of a child's cases construct their instance on a generated hosts file
//     (reqmodel.GenHosts) and aim at its names in several letter cases: loopback aliases are localhost in every
//     --proxy-localhost mode, names of other records are not.
//
// A child judges its cases against its own model process and hands counters and findings back (core.Ctx.Dump).

import (
	"bytes"
	"encoding/json"
	"fmt"
	"os"
	"os/exec"
	"path/filepath"
	"sort"
	"strings"
	"sync"
	"time"

	hflib "github.com/kevinburke/hostsfile/lib"
	"github.com/saucelabs/forwarder/hostsfile"
	"github.com/saucelabs/forwarder/verifharness/core"
	"github.com/saucelabs/forwarder/verifharness/reqmodel"
	"github.com/saucelabs/forwarder/verifharness/rig"
)

const childEnvVar = "VERIF_CHILD"

// envProfile: variables of a child's environment; "@http" / "@https" stand for the URLs of the two sinks.
type envProfile struct {
	Name string
	Vars map[string]string
}

var envProfiles = []envProfile{
	{"upper-case", map[string]string{"HTTP_PROXY": "@http", "HTTPS_PROXY": "@https"}},
	{"lower-case", map[string]string{"http_proxy": "@http", "https_proxy": "@https"}},
	{"all-proxy-and-no-proxy", map[string]string{"ALL_PROXY": "@http", "all_proxy": "@http", "HTTP_PROXY": "@http", "HTTPS_PROXY": "@https",
		"NO_PROXY": "unrelated.example,.corp.example"}},
	{"mixed-case-no-proxy-names-a-target", map[string]string{"HTTP_PROXY": "@http", "https_proxy": "@https", "NO_PROXY": "direct.test,localhost", "no_proxy": "direct.test,localhost"}},
}

func profileByName(n string) (envProfile, bool) {
	for _, p := range envProfiles {
		if p.Name == n {
			return p, true
		}
	}
	return envProfile{}, false
}

// childState is what a child process knows about itself; nil in the parent.
type childState struct {
	Profile string
	Sinks   []string
	amb     *reqmodel.Ambient
}

var child *childState

func (c *childState) isSink(addr string) bool {
	if c == nil {
		return false
	}
	for _, s := range c.Sinks {
		if s == addr {
			return true
		}
	}
	return false
}

func (c *childState) ambient() *reqmodel.Ambient {
	if c == nil {
		return nil
	}
	return c.amb
}

func (c *childState) profile() string {
	if c == nil {
		return ""
	}
	return c.Profile
}

type childJob struct {
	Profile string  `json:"profile"`
	HTTP    string  `json:"http_sink"`  // address of the sink the http variables name
	HTTPS   string  `json:"https_sink"` // … and the https variables
	Seed    uint64  `json:"seed"`
	N       int     `json:"n"`
	Cases   []rcase `json:"cases,omitempty"` // replay: exactly these
	Out     string  `json:"out"`
}

func (j *childJob) resolve(v string) string {
	switch v {
	case "@http":
		return "http://" + j.HTTP
	case "@https":
		return "http://" + j.HTTPS
	}
	return v
}

// ---- the hosts file of an instance ----

var hostsMu sync.RWMutex

var hostsSeq int

// startProxyOn starts the proxy while the view's hosts file is the hosts file (see c04/hostsfile.go).
func startProxyOn(ctx *core.Ctx, opts rig.ProxyOpts, v *hostsView) (*rig.Proxy, error) {
	if v.text == "" {
		hostsMu.RLock()
		defer hostsMu.RUnlock()
		return rig.StartProxy(opts)
	}
	hostsMu.Lock()
	defer hostsMu.Unlock()
	hostsSeq++
	dir := filepath.Join(ctx.Root, ".work")
	os.MkdirAll(dir, 0o755)
	path := filepath.Join(dir, fmt.Sprintf("c05-hosts-%d-%d-%d", os.Getpid(), time.Now().UnixNano(), hostsSeq))
	if err := os.WriteFile(path, []byte(v.text), 0o644); err != nil {
		core.Fatalf("cannot write hosts file: %v", err)
	}
	defer os.Remove(path)
	saved := hflib.Location
	hflib.Location = path
	defer func() { hflib.Location = saved }()
	got, err := hostsfile.LocalhostAliases()
	cs := map[string]any{"kind": "hostsfile-generated", "hosts": v.text}
	if err != nil {
		ctx.Disagree("hostsfile.LocalhostAliases reads a well-formed hosts file", cs, err.Error(), fmt.Sprint(v.own))
	} else {
		g, w := append([]string{}, got...), append([]string{}, v.own...)
		sort.Strings(g)
		sort.Strings(w)
		if strings.Join(g, "\x00") != strings.Join(w, "\x00") {
			ctx.Disagree("hostsfile.LocalhostAliases = names the hosts file gives to loopback addresses (as a set)", cs, fmt.Sprintf("%q", g), fmt.Sprintf("%q", w))
		}
	}
	return rig.StartProxy(opts)
}

// ---- the child side ----

// genChildCase: a routing case for a child — the no-upstream class over-represented (it is the one in which
// nothing of the configuration stands between the transport and the environment), half of the cases on a
// generated hosts file.
func genChildCase(r *core.Rand, profile string) *rcase {
	v := machineView()
	if r.Chance(50) {
		v = viewOf(reqmodel.GenHosts(r.Sub()))
	}
	rc := genCaseView(r, v)
	rc.Hosts, rc.Env = v.text, profile
	if r.Chance(35) {
		rc.Route.Base, rc.Route.Static, rc.Route.PacRules, rc.Route.PacTable, rc.Route.PacDefault = "none", nil, nil, nil, reqmodel.PacResult{}
		rc.Route.CustomTable, rc.Route.CustomDefault = nil, nil
	}
	return rc
}

// maybeChild turns this process into a child when it was started as one (never returns then).
func maybeChild(ctx *core.Ctx) {
	v := os.Getenv(childEnvVar)
	if !strings.HasPrefix(v, "c05:") {
		return
	}
	fail := func(format string, a ...any) {
		fmt.Fprintf(os.Stderr, "c05 child: "+format+"\n", a...)
		os.Exit(3)
	}
	b, err := os.ReadFile(strings.TrimPrefix(v, "c05:"))
	if err != nil {
		fail("%v", err)
	}
	var job childJob
	if err := json.Unmarshal(b, &job); err != nil {
		fail("%v", err)
	}
	prof, ok := profileByName(job.Profile)
	if !ok {
		fail("unknown environment profile %q", job.Profile)
	}
	// the environment the parent meant is the one in effect
	get := func(names ...string) string {
		for _, n := range names {
			if x := os.Getenv(n); x != "" {
				return x
			}
		}
		return ""
	}
	for k, want := range prof.Vars {
		if got := os.Getenv(k); got != job.resolve(want) {
			fail("environment profile %s: %s=%q, expected %q", job.Profile, k, got, job.resolve(want))
		}
	}
	amb := &reqmodel.Ambient{}
	if u := get("HTTP_PROXY", "http_proxy"); u != "" {
		amb.HTTPProxy = &reqmodel.ProxyURL{Scheme: "http", Host: strings.TrimPrefix(u, "http://")}
	}
	if u := get("HTTPS_PROXY", "https_proxy"); u != "" {
		amb.HTTPSProxy = &reqmodel.ProxyURL{Scheme: "http", Host: strings.TrimPrefix(u, "http://")}
	}
	if np := get("NO_PROXY", "no_proxy"); np != "" {
		amb.NoProxy = strings.Split(np, ",")
	}
	if amb.HTTPProxy == nil || amb.HTTPSProxy == nil {
		fail("environment profile %s names no proxy", job.Profile)
	}
	child = &childState{Profile: job.Profile, Sinks: []string{job.HTTP, job.HTTPS}, amb: amb}

	cases := make(chan *rcase, 16)
	var wg sync.WaitGroup
	for w := 0; w < 5; w++ {
		wg.Add(1)
		go func(w int) {
			defer wg.Done()
			h, err := newHops(ctx, 100+w)
			if err != nil {
				fail("cannot start scripted hops: %v", err)
			}
			defer h.close()
			for rc := range cases {
				runCase(ctx, h, rc)
			}
		}(w)
	}
	if len(job.Cases) > 0 {
		for i := range job.Cases {
			cases <- &job.Cases[i]
		}
	} else {
		rng := core.NewRand(job.Seed)
		for i := 0; i < job.N; i++ {
			cases <- genChildCase(rng.Sub(), job.Profile)
		}
	}
	close(cases)
	wg.Wait()
	if err := os.WriteFile(job.Out, ctx.Dump(), 0o644); err != nil {
		fail("%v", err)
	}
	ctx.Model.Close()
	os.Exit(0)
}

// ---- the parent side ----

var childSeq struct {
	sync.Mutex
	n int
}

func isProxyVar(kv string) bool {
	k, _, _ := strings.Cut(kv, "=")
	switch strings.ToUpper(k) {
	case "HTTP_PROXY", "HTTPS_PROXY", "ALL_PROXY", "NO_PROXY", "FTP_PROXY", "REQUEST_METHOD":
		return true
	}
	return false
}

// runChild runs a job in a child process with the profile's environment and absorbs what it found.
func runChild(ctx *core.Ctx, job childJob) {
	prof, ok := profileByName(job.Profile)
	if !ok {
		core.Fatalf("unknown environment profile %q", job.Profile)
	}
	// the sinks: scripted forward proxies that answer whatever reaches them, so that a leak is seen end to end
	sinkHTTP, err := rig.NewForwardProxy("env-http-proxy", func(string) string { return "" })
	if err != nil {
		core.Fatalf("cannot start sink: %v", err)
	}
	defer sinkHTTP.Close()
	sinkHTTPS, err := rig.NewForwardProxy("env-https-proxy", func(string) string { return "" })
	if err != nil {
		core.Fatalf("cannot start sink: %v", err)
	}
	defer sinkHTTPS.Close()
	job.HTTP, job.HTTPS = sinkHTTP.Addr, sinkHTTPS.Addr

	childSeq.Lock()
	childSeq.n++
	n := childSeq.n
	childSeq.Unlock()
	dir := filepath.Join(ctx.Root, ".work")
	os.MkdirAll(dir, 0o755)
	base := filepath.Join(dir, fmt.Sprintf("c05-child-%d-%d", os.Getpid(), n))
	job.Out = base + ".out.json"
	b, _ := json.Marshal(job)
	if err := os.WriteFile(base+".json", b, 0o644); err != nil {
		core.Fatalf("cannot write child job: %v", err)
	}
	defer os.Remove(base + ".json")
	defer os.Remove(job.Out)
	exe := "/proc/self/exe"
	if _, err := os.Stat(exe); err != nil {
		if exe, err = os.Executable(); err != nil {
			core.Fatalf("os.Executable: %v", err)
		}
	}
	cmd := exec.Command(exe, "--root", ctx.Root, "--tier", ctx.Tier, "--no-proofs", "C05")
	var env []string
	for _, kv := range os.Environ() {
		if !isProxyVar(kv) && !strings.HasPrefix(kv, childEnvVar+"=") {
			env = append(env, kv)
		}
	}
	for k, v := range prof.Vars {
		env = append(env, k+"="+job.resolve(v))
	}
	env = append(env, childEnvVar+"=c05:"+base+".json")
	cmd.Env = env
	var stderr, stdout bytes.Buffer
	cmd.Stderr, cmd.Stdout = &stderr, &stdout
	if err := cmd.Start(); err != nil {
		core.Fatalf("cannot start child: %v", err)
	}
	done := make(chan error, 1)
	go func() { done <- cmd.Wait() }()
	var werr error
	select {
	case werr = <-done:
	case <-time.After(time.Duration(180+job.N) * time.Second):
		cmd.Process.Kill()
		<-done
		ctx.Crash("the proxy keeps answering in a process with environment "+job.Profile, "", job, "child did not finish; stderr: "+tailStr(stderr.String(), 1500))
		return
	}
	out, rerr := os.ReadFile(job.Out)
	if werr != nil || rerr != nil {
		if strings.Contains(stderr.String(), "c05 child:") || strings.Contains(stderr.String(), "fwdcheck: fatal:") {
			core.Fatalf("child %s could not set up: %s", job.Profile, tailStr(stderr.String(), 1500))
		}
		ctx.Crash("the proxy process survives requests with environment "+job.Profile, "", job, fmt.Sprintf("child died: %v; stderr: %s", werr, tailStr(stderr.String(), 1500)))
		return
	}
	if err := ctx.Absorb(out); err != nil {
		core.Fatalf("child %s: unreadable result: %v", job.Profile, err)
	}
	// backstop, independent of the child's own judgement: nothing ever reached the proxies the environment names
	ctx.Case("environment-sinks|"+job.Profile+fmt.Sprint(job.Seed, len(job.Cases)), true)
	if a, b := sinkHTTP.Accepts(), sinkHTTPS.Accepts(); a != 0 || b != 0 {
		first := ""
		for _, s := range []*rig.Peer{sinkHTTP, sinkHTTPS} {
			if lg := s.Log(); first == "" && len(lg) > 0 && lg[0].Req != nil {
				first = lg[0].Req.Method + " " + lg[0].Req.Target
			}
		}
		ctx.SpecFail("routing is decided by the configuration alone: a proxy named by the process environment (HTTP_PROXY / HTTPS_PROXY / ALL_PROXY, in either case) is never contacted", "",
			map[string]any{"kind": "environment", "profile": job.Profile, "seed": job.Seed, "n": job.N, "cases": job.Cases},
			fmt.Sprintf("the proxy the http variables name accepted %d connection(s), the one the https variables name %d; first request line %q", a, b, first), "")
	} else {
		ctx.TraceValidated()
	}
}

func tailStr(s string, n int) string {
	if len(s) > n {
		return "…" + s[len(s)-n:]
	}
	return s
}

// startChildren starts the environment part of a run; the returned function waits for it.
func startChildren(ctx *core.Ctx) func() {
	r := ctx.Rng.Sub()
	var wg sync.WaitGroup
	for _, p := range envProfiles {
		job := childJob{Profile: p.Name, Seed: r.U64(), N: ctx.N(60, 700)}
		wg.Add(1)
		go func() {
			defer wg.Done()
			runChild(ctx, job)
		}()
	}
	return func() {
		wg.Wait()
		ctx.Extra("environment_profiles_run", len(envProfiles))
	}
}
