package c05

import (
	"fmt"
	"net"
	"regexp"
	"strings"
	"sync/atomic"

	"github.com/saucelabs/forwarder"
	"github.com/saucelabs/forwarder/pac"
	"github.com/saucelabs/forwarder/verifharness/c17"
	"github.com/saucelabs/forwarder/verifharness/core"
	"github.com/saucelabs/forwarder/verifharness/reqmodel"
)

var idSeq atomic.Int64

var fixedRoutes = []reqmodel.HostPortPair{
	{SrcHost: "origin.test", SrcPort: "80", DstHost: "@origin"},
	{SrcHost: "origin.test", SrcPort: "8080", DstHost: "@origin"},
	{SrcHost: "origin.test", SrcPort: "443", DstHost: "@origin"},
	{SrcHost: "direct.test", SrcPort: "80", DstHost: "@origin"},
	{SrcHost: "direct.test", SrcPort: "443", DstHost: "@origin"},
	{SrcHost: "sub.direct.test", SrcPort: "80", DstHost: "@origin"},
	{SrcHost: "not.direct.test", SrcPort: "80", DstHost: "@origin"},
	{SrcHost: "localhost", SrcPort: "80", DstHost: "@origin"},
	{SrcHost: "127.0.0.1", SrcPort: "80", DstHost: "@origin"},
	{SrcHost: "::1", SrcPort: "80", DstHost: "@origin"},
	{SrcHost: "::1", SrcPort: "443", DstHost: "@origin"},
	{SrcHost: "proxya.test", SrcPort: "3128", DstHost: "@proxyA"},
	{SrcHost: "proxyb.test", SrcPort: "3129", DstHost: "@proxyB"},
	{SrcHost: "socks.test", SrcPort: "1080", DstHost: "@socks"},
	{SrcHost: "redir.test", SrcPort: "7000", DstHost: "@redirA"},
}

var generatedRules = []reqmodel.HostPortPair{
	{SrcHost: "origin.test", SrcPort: "80", DstHost: "@redirA"},
	{SrcHost: "", SrcPort: "8080", DstHost: "@redirB"},
	{SrcHost: "proxya.test", SrcPort: "", DstHost: "@redirA"},
	{SrcHost: "", SrcPort: "", DstHost: "@redirB"},
	{SrcHost: "origin.test", SrcPort: "", DstHost: "", DstPort: "8080"},
	{SrcHost: "", SrcPort: "443", DstHost: "@redirA"},
	{SrcHost: "sub.direct.test", SrcPort: "80", DstHost: "@redirB"},
	{SrcHost: "socks.test", SrcPort: "1080", DstHost: "@redirA"},
	{SrcHost: "localhost", SrcPort: "", DstHost: "@redirB"},
	{SrcHost: "LOCALHOST", SrcPort: "80", DstHost: "@redirA"},
	{SrcHost: "proxyb.test", SrcPort: "3129", DstHost: "@proxyA"},
	{SrcHost: "direct.test", SrcPort: "80", DstHost: "origin.test", DstPort: ""},
	{SrcHost: "other.test", SrcPort: "", DstHost: "@origin"},
	{SrcHost: "", SrcPort: "3128", DstHost: "proxya.test", DstPort: "3128"},
	{SrcHost: "127.0.0.1", SrcPort: "", DstHost: "", DstPort: ""},
}

var (
	targetHosts = []string{"origin.test", "origin.test", "direct.test", "sub.direct.test", "not.direct.test", "other.test", "localhost", "LocalHost", "127.0.0.1", "[::1]",
		"Origin.Test", "x.dir.test"}
	pacKeywords = []string{"PROXY", "PROXY", "PROXY", "HTTP", "HTTP", "HTTPS", "HTTPS", "SOCKS", "SOCKS4", "SOCKS5", "SOCKS5", "DIRECT", "proxy", "Proxy", "https",
		"socks5", "FOO", "PROXYX", "SOCKS6"}
	pacHostPorts = []string{"proxya.test:3128", "proxya.test:3128", "proxya.test:3128", "proxyb.test:3129", "proxyb.test:3129", "socks.test:1080", "socks.test:1080",
		"redir.test:7000", "redir.test:7000", "origin.test:80", "[::1]:3128", "proxya.test", "proxya.test:", "proxya.test:abc", "[::1]", "::1:3128", "[proxya.test:3128",
		"proxya.test:3128:1", "", "proxya.test:3128", "proxyb.test:3129", "socks.test:1080", "redir.test:7000", ":3128", "proxya.test:03128", "proxya.test:99999", "proxya.test:65536", "proxya.test:+3128", "proxya.test:0", "proxya.test:31_28",
		"proxya test:3128", "[]:3128"}
	directRuleSets = [][]reqmodel.DomRule{
		{{Kind: "e", Lit: "direct.test"}},
		{{Kind: "s", Lit: ".direct.test"}, {Kind: "e", Lit: "not.direct.test", Exclude: true}},
		{{Kind: "c", Lit: "dir"}, {Kind: "p", Lit: "not", Exclude: true}},
		{{Kind: "a"}},
		{{Kind: "a"}, {Kind: "e", Lit: "origin.test", Exclude: true}},
		{{Kind: "e", Lit: "origin.test"}, {Kind: "e", Lit: "localhost"}},
	}
)

// hostPool is targetHosts plus every hosts-file alias of a loopback address (as written and with the first
// letter in upper case; for a generated hosts file also in lower, upper and mixed case, and the names of its
// other records): the proxy appends the aliases to its localhost names when it is constructed through
// NewHTTPProxy, so they must be routed like "localhost" in every --proxy-localhost mode.
func hostPool(v *hostsView) []string {
	out := append([]string{}, targetHosts...)
	if v.text == "" {
		for _, a := range v.aliasTargets() {
			out = append(out, a, a, strings.ToUpper(a[:1])+a[1:])
		}
		return out
	}
	// a generated file: its names make up most of the pool
	vs := v.variants()
	for i := 0; i < 3; i++ {
		out = append(out, vs...)
	}
	return out
}

func mixCase(s string) string {
	b := []byte(s)
	for i := range b {
		if i%2 == 1 {
			if b[i] >= 'a' && b[i] <= 'z' {
				b[i] -= 32
			} else if b[i] >= 'A' && b[i] <= 'Z' {
				b[i] += 32
			}
		}
	}
	return string(b)
}

// variants: the spellings of the view's names that cases use as targets.
func (v *hostsView) variants() []string {
	var out []string
	if v.text == "" {
		for _, a := range v.aliasTargets() {
			out = append(out, a, strings.ToUpper(a[:1])+a[1:])
		}
		return out
	}
	seen := map[string]bool{}
	add := func(n string) {
		if !seen[n] {
			seen[n] = true
			out = append(out, n)
		}
	}
	for _, a := range v.aliasTargets() {
		add(a)
		add(strings.ToLower(a))
		add(strings.ToUpper(a))
		add(mixCase(a))
	}
	for _, a := range v.otherTargets() {
		add(a)
		add(strings.ToLower(a))
	}
	return out
}

// routesFor are the fixed connect-to routes: fixedRoutes plus routes that bring the hosts-file names to the
// scripted origin (otherwise a direct dial to one of them would leave the scripted listeners).
func routesFor(v *hostsView) []reqmodel.HostPortPair {
	out := append([]reqmodel.HostPortPair{}, fixedRoutes...)
	for _, n := range v.variants() {
		out = append(out, reqmodel.HostPortPair{SrcHost: n, SrcPort: "80", DstHost: "@origin"}, reqmodel.HostPortPair{SrcHost: n, SrcPort: "443", DstHost: "@origin"})
	}
	return out
}

func genPacEntry(r *core.Rand) string {
	switch r.Intn(12) {
	case 0:
		return "DIRECT"
	case 1:
		return ""
	case 2:
		return core.Pick(r, pacKeywords) // keyword alone
	}
	sep := core.Pick(r, []string{" ", " ", " ", "  ", "\t"})
	return core.Pick(r, pacKeywords) + sep + core.Pick(r, pacHostPorts)
}

func genPacString(r *core.Rand) string {
	switch r.Intn(14) {
	case 0:
		return ""
	case 1:
		// arbitrary printable string
		n := r.Range(1, 24)
		var b strings.Builder
		for i := 0; i < n; i++ {
			b.WriteByte(byte(r.Range(32, 126)))
		}
		return b.String()
	case 2:
		return "PROXY proxya.test:3128 é"
	}
	n := 1
	if r.Chance(45) {
		n = r.Range(2, 4)
	}
	var es []string
	for i := 0; i < n; i++ {
		e := genPacEntry(r)
		if r.Chance(25) {
			e = core.Pick(r, []string{" ", "  ", "\t", "\n"}) + e
		}
		if r.Chance(25) {
			e += core.Pick(r, []string{" ", "  ", "\r\n"})
		}
		es = append(es, e)
	}
	return strings.Join(es, ";")
}

func genPacResult(r *core.Rand) reqmodel.PacResult {
	switch r.Intn(16) {
	case 0:
		return reqmodel.PacResult{Fail: "throw"}
	case 1:
		return reqmodel.PacResult{Fail: "number"}
	}
	return reqmodel.PacResult{Return: genPacString(r)}
}

func genProxyURL(r *core.Rand) *reqmodel.ProxyURL {
	switch r.Intn(4) {
	case 0, 1:
		return &reqmodel.ProxyURL{Scheme: "http", Host: "proxya.test:3128"}
	case 2:
		return &reqmodel.ProxyURL{Scheme: "https", Host: "proxyb.test:3129"}
	}
	u := &reqmodel.ProxyURL{Scheme: "socks5", Host: "socks.test:1080"}
	if r.Bool() {
		us, pw := "suser", "spass"
		u.User, u.Pass = &us, &pw
	}
	return u
}

var (
	urlPaths   = []string{"/r", "/r", "/", "/admin/x", "/admin/", "/a/b", "/a/1", "/index.html", "/b/", "/r.html", "/broken/x", "/a/b/c.html"}
	urlQueries = []string{"x=1", "id=7", "", "x=1&id=7", "bad=1"}
	// conditions on FindProxyForURL's arguments, within the pattern fragment the model covers
	condPool = []reqmodel.PacCond{
		{Op: "G", Lit: "*/admin/*"}, {Op: "G", Lit: "http://*"}, {Op: "G", Lit: "https://*"}, {Op: "G", Lit: "*://origin.test/*"}, {Op: "G", Lit: "*.html"},
		{Op: "G", Lit: "*/r"}, {Op: "G", Lit: "*?*=*"}, {Op: "G", Lit: "*/a/?"}, {Op: "G", Lit: "*:8080/*"}, {Op: "G", Lit: "//*"}, {Op: "G", Lit: "*/a/*"},
		{Op: "G", Lit: "http*://*.test*/*"}, {Op: "G", Lit: "*/broken/*"},
		{Op: "P", Lit: "https:"}, {Op: "P", Lit: "http:"}, {Op: "P", Lit: "//"}, {Op: "P", Lit: "http://origin.test/a"}, {Op: "P", Lit: "https://origin.test/"},
		{Op: "C", Lit: "/admin/"}, {Op: "C", Lit: "?x=1"}, {Op: "C", Lit: ":8080"}, {Op: "C", Lit: "/b/"}, {Op: "C", Lit: "id=7"}, {Op: "C", Lit: ".test:443"},
		{Op: "C", Lit: "bad=1"}, {Op: "C", Lit: "/broken/"}, {Op: "C", Lit: ".html"},
		{Op: "h", Lit: "*.direct.test"}, {Op: "h", Lit: "origin.*"}, {Op: "h", Lit: "*"}, {Op: "h", Lit: "??"},
		{Op: "H", Lit: "origin.test"}, {Op: "H", Lit: "direct.test"},
	}
	// answers that differ visibly from one another (who is dialled / failure)
	clearResults = []reqmodel.PacResult{
		{Return: "PROXY proxya.test:3128"}, {Return: "HTTPS proxyb.test:3129"}, {Return: "SOCKS5 socks.test:1080"}, {Return: "DIRECT"},
		{Return: "PROXY redir.test:7000; DIRECT"}, {Fail: "throw"}, {Fail: "number"}, {Return: "PROXY proxya.test"}, {Return: "HTTP proxya.test:abc"},
		{Return: "SOCKS4 socks.test:1080"}, {Return: ""},
	}
)

func genCond(r *core.Rand, depth int) reqmodel.PacCond {
	if depth < 2 {
		switch r.Intn(8) {
		case 0:
			return reqmodel.PacCond{Op: "N", Args: []reqmodel.PacCond{genCond(r, depth+1)}}
		case 1:
			return reqmodel.PacCond{Op: "A", Args: []reqmodel.PacCond{genCond(r, depth+1), genCond(r, depth+1)}}
		}
	}
	return core.Pick(r, condPool)
}

func genRuleResult(r *core.Rand) reqmodel.PacResult {
	if r.Chance(65) {
		return core.Pick(r, clearResults)
	}
	return genPacResult(r)
}

// ---- --direct-domains as a REAL rule list (C17's generator) ----

// usableHost: a subject derived from the rules that can stand as the host of a request target (plain,
// CONNECT, inside a tunnel) without being rewritten or refused on the way to req.URL.Hostname().
var usableHost = regexp.MustCompile(`^[A-Za-z0-9][A-Za-z0-9._-]{0,39}$`)

// directList is a --direct-domains value list drawn from C17's generator (pattern grammar with inline flags,
// groups, anchors, alternations, classes, include / exclude marks; nearly half of the lists are built around
// a rule with an unscoped flag group in front of another rule, or a letter that one rule has in upper case
// and another case-folded) together with the subjects derived from its rules that are usable as hosts.
type directList struct {
	values []string
	hosts  []string
	labels []string
}

func genDirectList(r *core.Rand) *directList {
	for try := 0; try < 40; try++ {
		dl := &directList{}
		vals, subs, _ := c17.RuleList(r, func(l string) { dl.labels = append(dl.labels, l) }, 12, 32)
		incl, empty := 0, false
		for _, v := range vals {
			src, excl := strings.CutPrefix(v, "-")
			if src == "" {
				empty = true
			}
			if !excl {
				incl++
			}
		}
		if incl == 0 || empty {
			continue
		}
		for _, h := range subs {
			if usableHost.MatchString(h) {
				dl.hosts = append(dl.hosts, h)
			}
		}
		if len(dl.hosts) == 0 {
			continue
		}
		dl.values = vals
		return dl
	}
	return nil
}

func genCase(r *core.Rand) *rcase { return genCaseView(r, machineView()) }

// ---- upstream FAMILIES: several upstream proxies of one configuration that share part of their address ----

// famMember is one upstream proxy of a family: the PAC keyword that selects its kind and its host:port.
type famMember struct{ kw, hostport string }

func (m famMember) scheme() string { return pacModes[m.kw] }

// The families: one host name with several ports (and both kinds of HTTP proxy, and a SOCKS5 server), one port on several
// hosts, the same host:port under both schemes, and several spellings of one address (letter case, trailing dot, the IP
// literals behind the name). Two members that differ in scheme, host spelling or port are DIFFERENT hops: connect-to gives
// each its own listener (members with one host:port necessarily share theirs), so a request delivered to a sibling is
// seen in the dial log and by the listener that accepted it.
var (
	famSameHost = []famMember{{"PROXY", "gw.test:3128"}, {"PROXY", "gw.test:3129"}, {"HTTP", "gw.test:8080"}, {"HTTPS", "gw.test:3443"}, {"HTTPS", "gw.test:3444"},
		{"SOCKS5", "gw.test:1080"}}
	famSamePort = []famMember{{"PROXY", "gw.test:3128"}, {"PROXY", "alt.test:3128"}, {"HTTP", "third.test:3128"}, {"HTTPS", "gw.test:3443"}, {"HTTPS", "alt.test:3443"},
		{"PROXY", "[fd00::7]:3128"}}
	famSchemes   = []famMember{{"PROXY", "gw.test:3443"}, {"HTTPS", "gw.test:3443"}, {"PROXY", "gw.test:3128"}, {"HTTPS", "gw.test:3128"}, {"HTTPS", "gw.test:3444"}}
	famSpellings = []famMember{{"PROXY", "gw.test:3128"}, {"PROXY", "GW.test:3128"}, {"HTTP", "gw.test.:3128"}, {"PROXY", "10.9.8.7:3128"}, {"PROXY", "10.9.8.7:3129"},
		{"PROXY", "gw.test:3129"}, {"HTTPS", "gw.test:3443"}, {"HTTPS", "GW.TEST:3443"}, {"HTTPS", "10.9.8.7:3443"}, {"PROXY", "[fd00::7]:3128"}, {"PROXY", "[FD00::7]:3128"}}
	famTargets = []string{"origin.test", "other.test", "x.dir.test", "not.direct.test", "fourth.test"}
	// every name an HTTPS upstream has in some case (the certificate of the TLS listeners names them all)
	tlsUpstreamNames = []string{"proxyb.test", "gw.test", "alt.test", "third.test", "10.9.8.7", "fd00::7"}
)

func splitHostPortLoose(hp string) (string, string) {
	i := strings.LastIndex(hp, ":")
	return strings.Trim(hp[:i], "[]"), hp[i+1:]
}

// genFamilyCase: a PAC script or custom proxy function that selects 2-4 members of one family, each for target hosts (or
// URLs) of its own, and a request sequence - plain, CONNECT, inside an intercepted tunnel - that visits every member in a
// random order and then again in other orders, all served by ONE instance.
func genFamilyCase(r *core.Rand, v *hostsView) *rcase {
	rc := &rcase{Kind: "routing", LocalMode: core.Pick(r, []string{"deny", "allow", "direct"})}
	var pool []famMember
	switch r.Intn(10) {
	case 0, 1, 2, 3:
		pool, rc.Family = famSameHost, "same-host"
	case 4, 5:
		pool, rc.Family = famSamePort, "same-port"
	case 6:
		pool, rc.Family = famSchemes, "same-address-two-schemes"
	case 7, 8:
		pool, rc.Family = famSpellings, "spellings"
	default:
		rc.Family = "mixed"
		seen := map[famMember]bool{}
		for _, l := range [][]famMember{famSameHost, famSamePort, famSchemes, famSpellings} {
			for _, m := range l {
				if !seen[m] {
					seen[m] = true
					pool = append(pool, m)
				}
			}
		}
	}
	pool = append([]famMember(nil), pool...)
	core.Shuffle(r, pool)
	// listeners: each host:port gets one of its own kind while there are any left
	free := map[string][]string{"http": {"proxyA", "redirA", "redirB"}, "https": {"proxyB", "proxyC"}, "socks5": {"socks"}}
	for _, l := range free {
		core.Shuffle(r, l)
	}
	listener := map[string]string{}
	var members []famMember
	var routes []reqmodel.HostPortPair
	want := r.Range(2, 4)
	for _, m := range pool {
		if len(members) == want {
			break
		}
		if _, ok := listener[m.hostport]; !ok {
			l := free[m.scheme()]
			if len(l) == 0 {
				continue
			}
			listener[m.hostport], free[m.scheme()] = l[0], l[1:]
			h, p := splitHostPortLoose(m.hostport)
			routes = append(routes, reqmodel.HostPortPair{SrcHost: h, SrcPort: p, DstHost: "@" + l[0]})
		}
		members = append(members, m)
	}
	n := len(members)
	targets := append([]string(nil), famTargets...)
	core.Shuffle(r, targets)
	// group k of target hosts is answered with member k; a last group may go direct
	groups := make([][]string, n)
	for i := 0; i < n; i++ {
		groups[i] = []string{targets[i]}
	}
	rest := targets[n:]
	proxyURL := func(m famMember) *reqmodel.ProxyURL { return &reqmodel.ProxyURL{Scheme: m.scheme(), Host: m.hostport} }
	entry := func(i int) reqmodel.PacResult {
		e := members[i].kw + " " + members[i].hostport
		if r.Chance(20) {
			// only the first entry of an answer counts; what follows names a sibling or nothing
			sib := members[(i+1)%n]
			e += core.Pick(r, []string{"; DIRECT", "; " + sib.kw + " " + sib.hostport, ";"})
		}
		return reqmodel.PacResult{Return: e}
	}
	dflt := -1 // index of the member that is the default answer
	if r.Chance(60) {
		dflt = r.Intn(n)
		groups[dflt] = append(groups[dflt], rest...)
	} else {
		groups = append(groups, rest)
	}
	pathRule := -1
	if r.Chance(50) {
		rc.Route.Base = "custom"
		for i := 0; i < n; i++ {
			rc.Route.CustomTable = append(rc.Route.CustomTable, reqmodel.CustomEntry{Host: targets[i], URL: proxyURL(members[i])})
		}
		if dflt >= 0 {
			rc.Route.CustomDefault = proxyURL(members[dflt])
		}
	} else {
		rc.Route.Base = "pac"
		if r.Chance(35) {
			// the same target host reaches two members: by path for requests, by the host table for CONNECT
			pathRule = r.Intn(n)
			rc.Route.PacRules = append(rc.Route.PacRules, reqmodel.PacRule{Cond: reqmodel.PacCond{Op: "C", Lit: "/admin/"}, R: entry(pathRule)})
		}
		for i := 0; i < n; i++ {
			if r.Chance(30) {
				rc.Route.PacRules = append(rc.Route.PacRules, reqmodel.PacRule{Cond: reqmodel.PacCond{Op: "H", Lit: targets[i]}, R: entry(i)})
			} else {
				rc.Route.PacTable = append(rc.Route.PacTable, reqmodel.PacEntry{Host: targets[i], R: entry(i)})
			}
		}
		if dflt >= 0 {
			rc.Route.PacDefault = entry(dflt)
		} else {
			rc.Route.PacDefault = reqmodel.PacResult{Return: core.Pick(r, []string{"DIRECT", ""})}
		}
	}
	if r.Chance(15) {
		rc.Route.DirectSet = true
		rc.Route.Direct = core.Pick(r, directRuleSets)
	}
	if r.Chance(25) {
		rc.NGen = r.Range(1, 2)
		for i := 0; i < rc.NGen; i++ {
			rc.Route.ConnectTo = append(rc.Route.ConnectTo, core.Pick(r, generatedRules))
		}
	}
	rc.Route.ConnectTo = append(rc.Route.ConnectTo, routes...)
	rc.Route.ConnectTo = append(rc.Route.ConnectTo, routesFor(v)...)
	for _, h := range famTargets {
		rc.Route.ConnectTo = append(rc.Route.ConnectTo, reqmodel.HostPortPair{SrcHost: h, SrcPort: "80", DstHost: "@origin"}, reqmodel.HostPortPair{SrcHost: h, SrcPort: "443", DstHost: "@origin"})
	}
	rc.MITM = r.Chance(25)
	var order []int
	for len(order) < 10 {
		perm := make([]int, len(groups))
		for i := range perm {
			perm[i] = i
		}
		core.Shuffle(r, perm)
		order = append(order, perm...)
	}
	order = order[:r.Range(len(groups)+1, min(2*len(groups)+1, 9))]
	for _, k := range order {
		if len(groups[k]) == 0 {
			continue
		}
		host := core.Pick(r, groups[k])
		t := target{ID: fmt.Sprintf("c05-%d", idSeq.Add(1))}
		switch {
		case rc.MITM && r.Chance(55):
			t.Kind = "mitm"
			t.Authority = host + core.Pick(r, []string{"", "", ":443", ":8443"})
		case !rc.MITM && r.Chance(60):
			t.Kind = "connect"
			t.Authority = host + ":" + core.Pick(r, []string{"443", "443", "80", "8443"})
		default:
			t.Kind = "plain"
			t.Authority = host + core.Pick(r, []string{"", "", ":80", ":8080"})
			t.Absolute = r.Chance(40)
		}
		if t.Kind != "connect" {
			t.Path = core.Pick(r, urlPaths)
			if pathRule >= 0 && r.Chance(30) {
				t.Path = "/admin/x"
			}
			if r.Chance(25) {
				q := core.Pick(r, urlQueries)
				t.Query = &q
			}
			t.Reuse = r.Chance(50)
		}
		rc.Targets = append(rc.Targets, t)
	}
	return rc
}

func genCaseView(r *core.Rand, v *hostsView) *rcase {
	if r.Chance(25) {
		return genFamilyCase(r, v)
	}
	hosts := hostPool(v)
	rc := &rcase{Kind: "routing", LocalMode: core.Pick(r, []string{"deny", "allow", "direct", "direct"})}
	switch r.Intn(10) {
	case 0:
		rc.Route.Base = "none"
	case 1, 2:
		rc.Route.Base = "static"
		rc.Route.Static = genProxyURL(r)
	case 3:
		rc.Route.Base = "custom"
		k := r.Range(0, 3)
		for i := 0; i < k; i++ {
			var u *reqmodel.ProxyURL
			if r.Chance(70) {
				u = genProxyURL(r)
			}
			rc.Route.CustomTable = append(rc.Route.CustomTable, reqmodel.CustomEntry{Host: core.Pick(r, hosts), URL: u})
		}
		if r.Chance(60) {
			rc.Route.CustomDefault = genProxyURL(r)
		}
	default:
		rc.Route.Base = "pac"
		if r.Chance(65) {
			// the script decides on the whole URL: conditions on url (path, scheme, port, query) and host
			for i, k := 0, r.Range(1, 3); i < k; i++ {
				rc.Route.PacRules = append(rc.Route.PacRules, reqmodel.PacRule{Cond: genCond(r, 0), R: genRuleResult(r)})
			}
		}
		k := r.Range(0, 4)
		if len(rc.Route.PacRules) > 0 {
			k = r.Range(0, 2)
		}
		seen := map[string]bool{}
		for i := 0; i < k; i++ {
			hst := strings.Trim(core.Pick(r, hosts), "[]")
			if seen[hst] {
				continue
			}
			seen[hst] = true
			rc.Route.PacTable = append(rc.Route.PacTable, reqmodel.PacEntry{Host: hst, R: genPacResult(r)})
		}
		rc.Route.PacDefault = genRuleResult(r)
	}
	var derived []string
	if r.Chance(50) {
		rc.Route.DirectSet = true
		rc.Route.Direct = core.Pick(r, directRuleSets)
		if r.Chance(60) {
			// a real rule list; its derived subjects are most of the targets of this sequence
			if dl := genDirectList(r); dl != nil {
				rc.Route.Direct, rc.Route.DirectRaw, derived = nil, dl.values, dl.hosts
				rc.genLabels = dl.labels
				for i := 0; i < 3; i++ {
					hosts = append(hosts, derived...)
				}
				// the wrappers come before the base function: let the PAC table / custom function name such hosts too
				if rc.Route.Base == "pac" && r.Chance(40) {
					rc.Route.PacTable = append(rc.Route.PacTable, reqmodel.PacEntry{Host: core.Pick(r, derived), R: genPacResult(r)})
				}
				if rc.Route.Base == "custom" && r.Chance(40) {
					rc.Route.CustomTable = append(rc.Route.CustomTable, reqmodel.CustomEntry{Host: core.Pick(r, derived), URL: genProxyURL(r)})
				}
			}
		}
	}
	ng := 0
	if r.Chance(60) {
		ng = r.Range(1, 3)
	}
	for i := 0; i < ng; i++ {
		rc.Route.ConnectTo = append(rc.Route.ConnectTo, core.Pick(r, generatedRules))
	}
	rc.NGen = ng
	rc.Route.ConnectTo = append(rc.Route.ConnectTo, routesFor(v)...)
	for _, h := range derived {
		rc.Route.ConnectTo = append(rc.Route.ConnectTo, reqmodel.HostPortPair{SrcHost: h, SrcPort: "80", DstHost: "@origin"}, reqmodel.HostPortPair{SrcHost: h, SrcPort: "443", DstHost: "@origin"})
	}
	rc.MITM = r.Chance(25)
	// the request sequence: most targets go to one host[:port] (with varying path / query / scheme / kind),
	// the rest anywhere
	focus := core.Pick(r, hosts)
	if len(derived) > 0 && r.Chance(70) {
		focus = core.Pick(r, derived)
	}
	focusPort := ""
	if r.Chance(35) {
		focusPort = core.Pick(r, []string{"80", "8080", "443"})
	}
	nt := r.Range(4, 8)
	for i := 0; i < nt; i++ {
		t := target{ID: fmt.Sprintf("c05-%d", idSeq.Add(1))}
		onFocus := r.Chance(65)
		host := core.Pick(r, hosts)
		if onFocus {
			host = focus
		}
		switch {
		case rc.MITM && r.Chance(55):
			t.Kind = "mitm"
			t.Authority = host
			if onFocus && focusPort != "" {
				t.Authority += ":" + focusPort
			} else if !onFocus && r.Chance(40) {
				t.Authority += ":" + core.Pick(r, []string{"443", "8443"})
			}
		case !rc.MITM && r.Chance(30):
			t.Kind = "connect"
			if onFocus && focusPort != "" {
				t.Authority = host + ":" + focusPort
			} else {
				t.Authority = host + ":" + core.Pick(r, []string{"443", "443", "80", "8443"})
			}
		default:
			t.Kind = "plain"
			t.Authority = host
			if onFocus && focusPort != "" {
				t.Authority += ":" + focusPort
			} else if !onFocus && r.Chance(45) {
				t.Authority += ":" + core.Pick(r, []string{"80", "8080", "9999", "443"})
			}
			t.Absolute = r.Chance(40)
		}
		if t.Kind != "connect" {
			t.Path = core.Pick(r, urlPaths)
			if r.Chance(30) {
				q := core.Pick(r, urlQueries)
				t.Query = &q
			}
			t.Reuse = r.Chance(50)
		}
		rc.Targets = append(rc.Targets, t)
	}
	return rc
}

// pacAPI compares the exported parsing / redirect APIs with the model directly.
func pacAPI(ctx *core.Ctx) {
	n := ctx.N(3000, 40000)
	for i := 0; i < n; i++ {
		r := ctx.Rng.Sub()
		s := genPacString(r)
		ascii := true
		for j := 0; j < len(s); j++ {
			if s[j] >= 0x80 {
				ascii = false
			}
		}
		if !ascii {
			continue
		}
		impl := "err"
		func() {
			defer func() {
				if e := recover(); e != nil {
					impl = "panic"
					ctx.Crash("Proxies.First never panics", "", map[string]any{"kind": "pac-string", "s": s}, fmt.Sprint(e))
				}
			}()
			p, err := pac.Proxies(s).First()
			if err == nil {
				if u := p.URL(); u == nil {
					impl = "direct"
				} else {
					impl = "proxy " + core.HexS(u.Scheme) + " " + core.HexS(p.Host) + " " + core.HexS(p.Port)
				}
			}
		}()
		model := ctx.Model.MustAsk("C05", "pac", core.HexS(s))
		ctx.Case("pac|"+s, s != "" && s != "DIRECT")
		ctx.Count("api/pac-first/" + strings.Fields(impl)[0])
		if impl != model {
			ctx.Disagree("pac.Proxies.First + Proxy.URL = Model pacFirst", map[string]any{"kind": "pac-string", "s": s}, impl, model)
		} else {
			ctx.TraceValidated()
		}
		// the property's reading of a PAC result, independently of the model
		switch sp := specPac(s); sp.Kind {
		case "direct":
			if impl != "direct" {
				ctx.SpecFail("PAC result: blank / DIRECT / unknown keyword first entry means direct", "", map[string]any{"kind": "pac-string", "s": s}, impl, "direct")
			}
		case "error":
			if !sp.Socks4 && impl != "err" {
				ctx.SpecFail("PAC result: a first entry without parsable host:port fails ("+sp.Why+")", "", map[string]any{"kind": "pac-string", "s": s}, impl, "error")
			}
		case "proxy":
			h, p, _ := net.SplitHostPort(sp.Addr)
			if want := "proxy " + core.HexS(sp.Proxy) + " " + core.HexS(h) + " " + core.HexS(p); impl != want {
				ctx.SpecFail("PAC result: PROXY|HTTP => http, HTTPS => https, SOCKS5 => socks5 proxy at the first entry's host:port", "", map[string]any{"kind": "pac-string", "s": s}, impl, want)
			}
		}
	}
	// net.SplitHostPort and DialRedirectFromHostPortPairs
	addrs := []string{"origin.test:80", "origin.test", "[::1]:80", "::1:80", "[::1]", "a:b:c", "[a]:1", "[a:b]:", ":80", "host:", "", "[]:1", "[[x]]:1", "a]:1", "[a]b:1",
		"proxya.test:3128", "x:8080", "localhost:80", "LOCALHOST:80", "127.0.0.1:9", "[host:abc]:80", "[::ffff:1.2.3.4]:443"}
	m := ctx.N(1500, 20000)
	for i := 0; i < m; i++ {
		r := ctx.Rng.Sub()
		addr := core.Pick(r, addrs)
		if r.Chance(20) {
			k := r.Range(0, 12)
			var b strings.Builder
			for j := 0; j < k; j++ {
				b.WriteByte(core.Pick(r, []byte("ab1:[].]:x:80")))
			}
			addr = b.String()
		}
		var rules []reqmodel.HostPortPair
		for j, k := 0, r.Range(0, 4); j < k; j++ {
			rl := core.Pick(r, generatedRules)
			if strings.HasPrefix(rl.DstHost, "@") {
				rl.DstHost, rl.DstPort = core.Pick(r, []string{"10.0.0.1", "::2", "dst.test"}), core.Pick(r, []string{"1", "", "8080"})
			}
			if r.Chance(20) {
				rl.SrcHost = core.Pick(r, []string{"::1", "a", "", "host"})
			}
			rules = append(rules, rl)
		}
		var pairs []forwarder.HostPortPair
		for _, p := range rules {
			pairs = append(pairs, forwarder.HostPortPair{Src: forwarder.HostPort{Host: p.SrcHost, Port: p.SrcPort}, Dst: forwarder.HostPort{Host: p.DstHost, Port: p.DstPort}})
		}
		_, impl := forwarder.DialRedirectFromHostPortPairs(pairs)("tcp", addr)
		rcfg := reqmodel.RouteCfg{Base: "none", ConnectTo: rules}
		toks := append([]string{"C05", "redirect", "addr=" + core.HexS(addr)}, reqmodel.RouteTokens(&rcfg, nil)...)
		ans := strings.Fields(ctx.Model.MustAsk(toks...))
		model := string(core.MustUnHex(ans[1]))
		cs := map[string]any{"kind": "redirect", "addr": addr, "rules": rules}
		ctx.Case(fmt.Sprintf("redirect|%s|%+v", addr, rules), len(rules) > 0)
		ctx.Count("api/redirect")
		if impl != model {
			ctx.Disagree("DialRedirectFromHostPortPairs = Model redirect", cs, impl, model)
		} else {
			ctx.TraceValidated()
		}
		// the documented meaning, independently
		if want := specRedirect(rules, addr); impl != want {
			ctx.SpecFail("connect-to: first matching rule, empty fields mean any/unchanged", "", cs, impl, want)
		}
		h, p, err := net.SplitHostPort(addr)
		implS := "err"
		if err == nil {
			implS = "ok " + core.HexS(h) + " " + core.HexS(p)
		}
		if ms := ctx.Model.MustAsk("C05", "splithostport", core.HexS(addr)); ms != implS {
			ctx.Disagree("net.SplitHostPort = Model netSplitHostPort", map[string]any{"kind": "splithostport", "addr": addr}, implS, ms)
		}
	}
}

// directCase: one --direct-domains value list and subjects, at API level.
type directCase struct {
	Kind     string   `json:"kind"` // "direct-list"
	Values   []string `json:"values"`
	Subjects []string `json:"subjects"`
}

// directAPI compares the matcher the flag values are read into (ruleset.ParseRegexpListItem +
// NewRegexpMatcherFromList, what --direct-domains hands to HTTPProxyConfig.DirectDomains) with the model's
// direct-domains verdict and with the per-rule reading, on ALL subjects derived from the rules (also those
// that cannot stand in a request target: embedded line breaks, blanks, the empty string).
func directAPI(ctx *core.Ctx) {
	n := ctx.N(2500, 30000)
	for i := 0; i < n; i++ {
		r := ctx.Rng.Sub()
		vals, subs, _ := c17.RuleList(r, func(string) {}, 12, 32)
		c := directCase{Kind: "direct-list", Values: vals, Subjects: subs}
		checkDirectList(ctx, &c)
	}
}

func checkDirectList(ctx *core.Ctx, c *directCase) {
	incl := 0
	for _, v := range c.Values {
		src, excl := strings.CutPrefix(v, "-")
		if src == "" {
			ctx.Count("api/direct-list/outside-domain/empty-rule")
			return
		}
		if !excl {
			incl++
		}
	}
	if incl == 0 || len(c.Subjects) == 0 {
		ctx.Count("api/direct-list/outside-domain/no-include-rule-or-no-subject")
		return
	}
	enc := reqmodel.RawRulesToken(c.Values)
	if strings.Contains(ctx.Model.MustAsk("C17", "risk", enc), "1") {
		ctx.Count("api/direct-list/outside-model/rule-inside-go-alternation-factoring")
		return
	}
	var impl strings.Builder
	crashed := false
	func() {
		defer func() {
			if e := recover(); e != nil {
				crashed = true
				ctx.Crash("building and asking the direct-domains matcher never panics", "", c, fmt.Sprint(e))
			}
		}()
		m, err := reqmodel.RawMatcher(c.Values)
		if err != nil {
			impl.WriteString("error: " + err.Error())
			return
		}
		impl.WriteString("ok ")
		for _, s := range c.Subjects {
			impl.WriteString(core.B01(m.Match(s)))
		}
	}()
	if crashed {
		return
	}
	var want strings.Builder
	want.WriteString("ok ")
	anyHit := false
	for _, s := range c.Subjects {
		w, err := reqmodel.MatchSpecRaw(c.Values, s)
		if err != nil {
			core.Fatalf("C05 direct-list case holds a rule that is not a valid regular expression: %q", c.Values)
		}
		anyHit = anyHit || w
		want.WriteString(core.B01(w))
	}
	model := ctx.Model.MustAsk("C05", "directmatch", enc, core.HexList(c.Subjects))
	if model == "unsupported" {
		core.Fatalf("C05 direct-list generator left the modelled fragment: %q %q", c.Values, c.Subjects)
	}
	ctx.Case("direct-list|"+enc+"|"+core.HexList(c.Subjects), anyHit && len(c.Values) >= 2)
	ctx.Count(fmt.Sprintf("api/direct-list/rules=%d", min(len(c.Values), 6)))
	if impl.String() != model {
		ctx.Disagree("direct-domains matcher (ParseRegexpListItem, NewRegexpMatcherFromList, Match) = Model directMatch", c, impl.String(), model)
	} else {
		ctx.TraceValidated()
	}
	if impl.String() != want.String() {
		ctx.SpecFail("a host matches direct-domains iff some include rule matches it on its own and no exclude rule does", "", c, impl.String(), "one regexp per rule gives "+want.String())
	}
}
