package c03

// The capability lattice of what a custom ConnectFunc may hand the proxy as the far leg of a tunnel.
//
// copier.closeWriter (copy.go) relays a half-close with asCloseWriter(dst) (close.go): CloseWrite on the
// value itself, else on a field found by reflection (utils/reflectx.LookupImpl, depth first through
// exported fields and embedded values); a bare *io.PipeWriter is closed; anything else is left alone
// ("cannot close write side of tunnel"): the far end is then shown end-of-stream only when the tunnel
// is closed, and the opposite direction goes on meanwhile. Model/C03.lean `Legs` / `hstep` is this
// case distinction; legCanHalfClose is the same function of the mode on the harness's side.
//
// Every leg below ends at a raw TCP slot target of the environment, so that the scripted target can
// always half-close its own side; what differs is the method set (and the structure) the PROXY sees:
//
//	connectfunc        struct embedding the net.Conn            CloseWrite found by reflection (embedded)
//	connecttls         *tls.Conn                                  CloseWrite on the value
//	cf-direct          own CloseWrite method, connection hidden  CloseWrite on the value
//	cf-nested          CloseWrite two named fields down           found by reflection (wrapped)
//	cf-cwerr           CloseWrite half-closes AND returns an error (the proxy logs it and goes on)
//	cf-fast            CloseWrite + io.ReaderFrom + io.WriterTo   fast path of io.CopyBuffer
//	cf-closeonly       Read/Write/Close, connection hidden        NO CloseWrite anywhere
//	cf-fast-closeonly  … plus io.ReaderFrom / io.WriterTo         NO CloseWrite anywhere
//	cf-iopipe          {*io.PipeReader, *io.PipeWriter} pair      NO CloseWrite (the pair is not a *io.PipeWriter)
//	cf-netpipe         one end of net.Pipe (embedded)             NO CloseWrite; its peer cannot half-close either
//	cf-dataeof         own CloseWrite method; Read hands out the last bytes TOGETHER with io.EOF (n > 0, io.EOF)
//	                   whenever the target's end-of-stream has arrived by then (eos.go, only in eosModes)

import (
	"errors"
	"io"
	"net"
	"strings"
	"sync"
	"sync/atomic"
)

var cfBases = []string{"cf-direct", "cf-nested", "cf-cwerr", "cf-fast", "cf-closeonly", "cf-fast-closeonly", "cf-iopipe", "cf-netpipe"}

// isConnectFunc: the far leg is what the environment's custom ConnectFunc returned.
func isConnectFunc(base string) bool {
	return base == "connectfunc" || base == "connecttls" || strings.HasPrefix(base, "cf-")
}

// legCanHalfClose: asCloseWriter finds a CloseWrite for the far leg of this mode (every leg the proxy
// dials itself - TCP, TLS, conntrack wrappers, the SOCKS5 client's connection, net/http's
// readWriteCloserBody - has one).
func legCanHalfClose(mode string) bool {
	switch baseMode(mode) {
	case "cf-closeonly", "cf-fast-closeonly", "cf-iopipe", "cf-netpipe":
		return false
	}
	return true
}

// farEndCanHalfClose: the far END (not the proxy) can finish its sending side and keep receiving.
// Behind net.Pipe it cannot: the only way to show the proxy end-of-stream is to close the pipe.
func farEndCanHalfClose(mode string) bool { return baseMode(mode) != "cf-netpipe" }

// closeHook counts the proxy's Close of a ConnectFunc leg (once).
type closeHook struct {
	once   sync.Once
	open   *atomic.Int64
	closed *atomic.Int64
}

func (h *closeHook) fire() { h.once.Do(func() { h.open.Add(-1); h.closed.Add(1) }) }

// hiddenLeg: Read / Write / Close and nothing else; the connection lives in closures, where no
// reflection reaches it.
type hiddenLeg struct {
	read  func([]byte) (int, error)
	write func([]byte) (int, error)
	close func() error
}

func (l *hiddenLeg) Read(p []byte) (int, error)  { return l.read(p) }
func (l *hiddenLeg) Write(p []byte) (int, error) { return l.write(p) }
func (l *hiddenLeg) Close() error                { return l.close() }

func hide(c net.Conn, h *closeHook) *hiddenLeg {
	return &hiddenLeg{read: c.Read, write: c.Write, close: func() error { h.fire(); return c.Close() }}
}

// directLeg has CloseWrite in its own method set.
type directLeg struct {
	*hiddenLeg
	cw func() error
}

func (l *directLeg) CloseWrite() error { return l.cw() }

// cwErrLeg: CloseWrite does shut the sending side down, and reports an error all the same (a TLS leg
// whose close_notify could not be flushed in time, a stream whose peer has reset its half, …).
type cwErrLeg struct {
	*hiddenLeg
	cw func() error
}

var errCloseWriteComplains = errors.New("scripted leg: CloseWrite reports an error")

func (l *cwErrLeg) CloseWrite() error {
	if err := l.cw(); err != nil {
		return err
	}
	return errCloseWriteComplains
}

// nestedLeg → midLeg → *trackedConn → net.Conn: CloseWrite is two named (not embedded) fields down.
type midLeg struct{ Inner *trackedConn }

type nestedLeg struct{ Leg *midLeg }

func (l *nestedLeg) Read(p []byte) (int, error)  { return l.Leg.Inner.Read(p) }
func (l *nestedLeg) Write(p []byte) (int, error) { return l.Leg.Inner.Write(p) }
func (l *nestedLeg) Close() error                { return l.Leg.Inner.Close() }

// fastLeg offers io.CopyBuffer its fast paths (the TCP connection's own ReadFrom / WriteTo).
type fastLeg struct {
	*hiddenLeg
	rf func(io.Reader) (int64, error)
	wt func(io.Writer) (int64, error)
}

func (l *fastLeg) ReadFrom(r io.Reader) (int64, error) { return l.rf(r) }
func (l *fastLeg) WriteTo(w io.Writer) (int64, error)  { return l.wt(w) }

type fastCWLeg struct {
	*fastLeg
	cw func() error
}

func (l *fastCWLeg) CloseWrite() error { return l.cw() }

// pipePair is an io.ReadWriteCloser made of two io.Pipe halves (a multiplexer's stream, an in-process
// transport): the proxy reads R and writes W; bridgeIOPipes moves the bytes to and from the target.
type pipePair struct {
	R *io.PipeReader
	W *io.PipeWriter
	h *closeHook
}

func (p *pipePair) Read(b []byte) (int, error)  { return p.R.Read(b) }
func (p *pipePair) Write(b []byte) (int, error) { return p.W.Write(b) }
func (p *pipePair) Close() error {
	p.h.fire()
	p.W.Close() // the bridge reads end-of-stream after the last byte and half-closes towards the target
	return p.R.Close()
}

func bridgeIOPipes(c *net.TCPConn, h *closeHook) *pipePair {
	r1, w1 := io.Pipe() // proxy → target
	r2, w2 := io.Pipe() // target → proxy
	var wg sync.WaitGroup
	wg.Add(2)
	go func() {
		defer wg.Done()
		if _, err := io.Copy(c, r1); err != nil {
			r1.CloseWithError(err) // the target is gone: the proxy's next write fails, it does not block for good
		}
		c.CloseWrite()
	}()
	go func() {
		defer wg.Done()
		io.Copy(w2, c)
		w2.Close() // the target finished (or is gone): end-of-stream for the proxy, W stays usable
	}()
	go func() { wg.Wait(); c.Close() }()
	return &pipePair{R: r2, W: w1, h: h}
}

// bridgeNetPipe hands the proxy one end of net.Pipe; the other end is pumped to and from the target.
// The target's end-of-stream can only be shown by closing the pipe.
func bridgeNetPipe(c *net.TCPConn, tc *trackedConn) *trackedConn {
	a, b := net.Pipe()
	var wg sync.WaitGroup
	wg.Add(2)
	go func() {
		defer wg.Done()
		io.Copy(c, b) // ends when either end of the pipe is closed
		c.CloseWrite()
	}()
	go func() {
		defer wg.Done()
		io.Copy(b, c)
		b.Close()
	}()
	go func() { wg.Wait(); c.Close() }()
	tc.Conn = a
	return tc
}

// legFor builds the leg of the environment's mode around a fresh TCP connection to the slot target.
func (e *env) legFor(c *net.TCPConn) io.ReadWriteCloser {
	h := &closeHook{open: &e.cfOpen, closed: &e.cfClosed}
	tracked := func() *trackedConn { return &trackedConn{Conn: c, closed: &e.cfOpen, count: &e.cfClosed} }
	switch e.spec.base {
	case "cf-direct":
		return &directLeg{hide(c, h), c.CloseWrite}
	case "cf-cwerr":
		return &cwErrLeg{hide(c, h), c.CloseWrite}
	case "cf-nested":
		return &nestedLeg{&midLeg{tracked()}}
	case "cf-fast":
		return &fastCWLeg{&fastLeg{hide(c, h), c.ReadFrom, c.WriteTo}, c.CloseWrite}
	case "cf-fast-closeonly":
		return &fastLeg{hide(c, h), c.ReadFrom, c.WriteTo}
	case "cf-closeonly":
		return hide(c, h)
	case "cf-iopipe":
		return bridgeIOPipes(c, h)
	case "cf-netpipe":
		return bridgeNetPipe(c, tracked())
	case "cf-dataeof":
		jr := newJoinReader(c, &e.joined)
		e.joins.Store(c.LocalAddr().String(), jr)
		return &directLeg{&hiddenLeg{read: jr.Read, write: c.Write, close: func() error { h.fire(); jr.stop(); return c.Close() }}, c.CloseWrite}
	}
	return tracked() // connectfunc, connecttls (the *tls.Conn goes on top)
}
