package c03

// A copy direction that ends ABRUPTLY (copy.go copier.copy: io.CopyBuffer returns an error).
//
// io.CopyBuffer hands the copier the errors of both ends alike: a failing Read of the SOURCE - the sending
// endpoint reset its connection (ECONNRESET), a TLS leg was cut inside a record (io.ErrUnexpectedEOF), a
// record does not verify (tls: bad record MAC) - and a failing Write to the destination. copier.copy logs
// the error unless isClosedConnError recognises it and then goes on exactly as after a clean end-of-stream:
// closeWriter on the destination, donec. The destination of a direction whose source failed is healthy and
// is the endpoint that has to be told that the stream is over; the opposite copier ends when that endpoint
// finishes in its turn (or when its write to the endpoint that is gone fails), bicopy returns and both
// sockets are closed. Nothing of this waits for the grace timer.
//
// The cases of this file run in a phase of their own with the grace period set through the hook
// martian.VerifSetBicopyGracefulTimeout to 3.5-4 s - far above the bound within which the surviving endpoint
// has to see the end (PromptMs, 1.5 s) and far below the minute of production -, so that "the copier relayed
// the end" and "only the grace timer ended the tunnel" cannot be mistaken for one another: in every
// configuration, tunnels in which one endpoint ends its sending side by
//
//	rst             SO_LINGER 0 + close of the TCP connection (under a TLS leg too)
//	tls-raw-fin     a TCP FIN under a TLS leg, no close_notify (Go's TLS reads it as end-of-stream)
//	tls-cut-record  half a TLS record, then FIN (io.ErrUnexpectedEOF)
//	tls-bad-record  a whole record that does not verify (an error isClosedConnError does NOT recognise)
//
// while the other endpoint is idle and waits for the end of the stream (then half-closes, or replies first),
// or is still sending. Judged directly - the survivor's read ends within PromptMs of the abort and not
// before it, what arrived on either side is a prefix of what was sent, the proxy holds no socket PromptMs
// after the survivors have reacted, the grace timer fires for no tunnel of the batch - and by the machine
// with copy errors of Model/C03.lean (verb `arun`, policy `always` = the code) on the observed history.

import (
	"bufio"
	"crypto/tls"
	"encoding/json"
	"errors"
	"fmt"
	"io"
	"net"
	"strconv"
	"strings"
	"sync"
	"sync/atomic"
	"time"

	"github.com/saucelabs/forwarder/verifharness/core"
	"github.com/saucelabs/forwarder/verifharness/rig"
)

// abortTunnel is the plan of one tunnel of an abort case.
type abortTunnel struct {
	StartMs  int    `json:"start_ms"`
	Aborter  string `json:"aborter"`  // "client" | "target": the endpoint that ends its sending side abruptly
	How      string `json:"how"`      // "rst" | "tls-raw-fin" | "tls-cut-record" | "tls-bad-record"
	Survivor string `json:"survivor"` // "idle-then-half-close" | "idle-then-reply" | "streaming"
	AbortMs  int    `json:"abort_ms"` // after the tunnel is up
	// both endpoints write a chunk of 1..ChunkMax bytes every IntervalMs before the abort (an idle survivor
	// stops 40 ms before it); ReplyBytes: what an "idle-then-reply" survivor writes once it has read the end
	IntervalMs int `json:"interval_ms"`
	ChunkMax   int `json:"chunk_max"`
	ReplyBytes int `json:"reply_bytes,omitempty"`
	Early      int `json:"early"`
	Coalesce   int `json:"coalesce"`
}

type abortCase struct {
	Kind     string        `json:"kind"` // "abort"
	Mode     string        `json:"mode"`
	Seed     uint64        `json:"seed"`
	PeriodMs int           `json:"period_ms"` // what the hook sets bicopyGracefulTimeout to
	PromptMs int           `json:"prompt_ms"` // generous: the survivor sees the end / the sockets are closed within
	Tunnels  []abortTunnel `json:"tunnels"`
}

// tlsLegOf: the leg between the proxy and that endpoint is TLS (as the endpoint sees it).
func tlsLegOf(mode, who string) bool {
	m := parseMode(mode)
	if who == "client" {
		return m.tlsListener
	}
	switch m.base {
	case "https", "terminate", "connecttls":
		return true
	}
	return false
}

// abortReachesCopierAsEOF: the proxy's copier does not read the far end's socket itself but one end of a
// pipe a bridge feeds (legs.go): however the far end finishes, the bridge closes the pipe and the copier
// reads a clean end-of-stream.
func abortReachesCopierAsEOF(mode, who, how string) bool {
	if how == "tls-raw-fin" {
		return true
	}
	if who == "target" {
		switch baseMode(mode) {
		case "cf-iopipe", "cf-netpipe":
			return true
		}
	}
	return false
}

// errKindOf: how isClosedConnError sorts the error the copier's Read returns (model: ErrKind).
func errKindOf(how string) string {
	if how == "tls-bad-record" {
		return "o"
	}
	return "c" // ECONNRESET, io.ErrUnexpectedEOF
}

type aTunnelObs struct {
	Plan     abortTunnel
	Status   int
	Error    string
	t0       int64
	up, down *gFlow
	head     []byte
	reply    []byte
	sentPre  int
	// abortAt is stamped BEFORE the first system call of the abort, abortDoneAt after the last
	abortAt, abortDoneAt int64
	abortErr             string
	reactAt              int64 // the survivor has finished its own side (or given up); -1 = never
	endAt                int64
}

// flows: F = the direction whose source aborts, D = the opposite one
func (o *aTunnelObs) flows() (F, D *gFlow) {
	if o.Plan.Aborter == "target" {
		return o.down, o.up
	}
	return o.up, o.down
}

func (o *aTunnelObs) summary() string {
	if o == nil {
		return "tunnel not run"
	}
	return fmt.Sprintf("aborter=%s how=%s survivor=%s status=%d err=%q up@%dms abort@%d..%dms(%s) %s %s survivor-finished@%d end@%d",
		o.Plan.Aborter, o.Plan.How, o.Plan.Survivor, o.Status, o.Error, ms(o.t0), ms(o.abortAt), ms(o.abortDoneAt), o.abortErr,
		o.up.summary(), o.down.summary(), ms(o.reactAt), ms(o.endAt))
}

type aCaseObs struct {
	tunnels  []*aTunnelObs
	zeroAt   int64 // the proxy held no socket any more (forwarder's connection tracking); -1 = not by the end of the case
	openC    float64
	openT    float64
	gaugeErr string
	endAt    int64
}

func (co *aCaseObs) summary() string {
	var b strings.Builder
	for i, o := range co.tunnels {
		fmt.Fprintf(&b, "tunnel %d: %s; ", i, o.summary())
	}
	fmt.Fprintf(&b, "the proxy held no socket any more at %d ms (-1 = never during the case: %v client-side / %v target-side left); case ended at %d ms",
		ms(co.zeroAt), co.openC, co.openT, ms(co.endAt))
	return b.String()
}

// ---- running ----

func (e *env) runAbortCase(ac *abortCase) *aCaseObs {
	co := &aCaseObs{zeroAt: -1}
	if c, t, err := e.awaitClosed(5 * time.Second); err != nil || c != 0 || t != 0 {
		co.gaugeErr = fmt.Sprintf("before the case the proxy holds %v client-side / %v target-side sockets (err %v)", c, t, err)
		return co
	}
	cs := time.Now()
	clock := func() int64 { return time.Since(cs).Microseconds() }
	r := core.NewRand(ac.Seed)
	co.tunnels = make([]*aTunnelObs, len(ac.Tunnels))
	hold := make(chan struct{}) // the harness keeps its own sockets until the proxy has let go of its (or the bound is over)
	var reacted, finished sync.WaitGroup
	for i := range ac.Tunnels {
		i := i
		at := ac.Tunnels[i]
		seed := r.U64()
		reacted.Add(1)
		finished.Add(1)
		go func() {
			defer finished.Done()
			var once sync.Once
			done := func() { once.Do(reacted.Done) }
			defer done()
			time.Sleep(time.Duration(at.StartMs) * time.Millisecond)
			e.runAbortTunnel(ac, at, seed, clock, func(o *aTunnelObs) { co.tunnels[i] = o; done() }, hold)
		}()
	}
	reacted.Wait()
	// every survivor has seen the end and finished its own side: the proxy lets go of every socket
	dl := time.Now().Add(time.Duration(ac.PromptMs+ac.PeriodMs+1000) * time.Millisecond)
	for {
		c, t, err := e.openSockets()
		if err != nil {
			co.gaugeErr = err.Error()
			break
		}
		co.openC, co.openT = c, t
		if c == 0 && t == 0 {
			co.zeroAt = clock()
			break
		}
		if time.Now().After(dl) {
			break
		}
		time.Sleep(2 * time.Millisecond)
	}
	close(hold)
	finished.Wait()
	co.endAt = clock()
	return co
}

// abruptly ends the sending side of an endpoint: raw is the TCP connection underneath it.
func abruptly(how string, raw *net.TCPConn, rng *core.Rand) error {
	if raw == nil {
		return errors.New("no TCP connection underneath the endpoint")
	}
	switch how {
	case "rst":
		if err := raw.SetLinger(0); err != nil {
			return err
		}
		return raw.Close()
	case "tls-raw-fin":
		return raw.CloseWrite()
	case "tls-cut-record":
		// an application-data record of 256 bytes, of which 20 follow; then FIN
		rec := append([]byte{0x17, 0x03, 0x03, 0x01, 0x00}, rng.Bytes(20)...)
		if _, err := raw.Write(rec); err != nil {
			return err
		}
		return raw.CloseWrite()
	case "tls-bad-record":
		// a whole application-data record that no key of the session has produced
		rec := append([]byte{0x17, 0x03, 0x03, 0x00, 0x28}, rng.Bytes(40)...)
		_, err := raw.Write(rec)
		return err
	}
	return errors.New("unknown way of aborting: " + how)
}

// runAbortTunnel drives one tunnel; report is called as soon as the survivor has finished its own side (what
// is observed later - how long the harness's own sockets were kept - is of no interest), the connections are
// closed when hold is.
func (e *env) runAbortTunnel(ac *abortCase, at abortTunnel, seed uint64, clock func() int64, report func(*aTunnelObs), hold <-chan struct{}) {
	o := &aTunnelObs{Plan: at, up: newFlow("client→target"), down: newFlow("target→client"), abortAt: -1, abortDoneAt: -1, reactAt: -1}
	reported := false
	defer func() {
		if !reported {
			o.endAt = clock()
			report(o)
		}
	}()
	e.tunnels.Add(1)
	r := core.NewRand(seed)
	// how long a survivor waits for the end of the stream: long enough to see what the grace timer does
	life := time.Duration(at.AbortMs+ac.PeriodMs+2000) * time.Millisecond
	deadline := time.Now().Add(life + 15*time.Second)

	var far string
	if e.slots != nil {
		i := <-e.slots
		defer func() { e.slots <- i }()
		far = fmt.Sprintf("slot%d", i)
	} else {
		far = nextCaseName()
	}
	farCh := e.reg.expect(far)
	defer e.reg.forget(far)

	upData := payload(seed, 64<<10)
	downData := payload(seed^0xd0d0d0d0d0d0d0d0, 64<<10)
	head := clientHead(&tunnelCase{Mode: ac.Mode}, far)
	o.head = head

	tcpConn, err := net.DialTimeout("tcp", e.proxy.Addr, 5*time.Second)
	if err != nil {
		o.Error = "dial proxy: " + err.Error()
		return
	}
	var conn net.Conn = tcpConn
	defer func() { conn.Close() }()
	if e.spec.tlsListener {
		tconn := tls.Client(tcpConn, &tls.Config{InsecureSkipVerify: true})
		tconn.SetDeadline(time.Now().Add(20 * time.Second))
		if err := tconn.Handshake(); err != nil {
			o.Error = "TLS handshake with the proxy's listener: " + errKind(err)
			return
		}
		conn = tconn
	}
	conn.SetDeadline(deadline)
	cbr := bufio.NewReaderSize(conn, 64<<10)

	t1 := clock()
	if _, err := conn.Write(append(append([]byte(nil), head...), upData[:at.Early]...)); err != nil {
		o.Error = "write request: " + errKind(err)
		return
	}
	upOff := at.Early
	if at.Early > 0 {
		o.up.writes = append(o.up.writes, gWrite{0, at.Early, t1, clock()})
	}
	var fe *farEnd
	select {
	case fe = <-farCh:
	case <-time.After(15 * time.Second):
		o.Error = "no connection reached the far side"
		return
	}
	defer close(fe.release)
	fe.conn.SetDeadline(deadline)
	o.reply = append(append([]byte(nil), socksPre[:fe.sentPre]...), fe.reply...)
	o.sentPre = fe.sentPre
	t1 = clock()
	if first := append(append([]byte(nil), fe.reply...), downData[:at.Coalesce]...); len(first) > 0 {
		if _, err := fe.conn.Write(first); err != nil {
			o.Error = "far side's reply: " + errKind(err)
			return
		}
	}
	downOff := at.Coalesce
	if at.Coalesce > 0 {
		o.down.writes = append(o.down.writes, gWrite{0, at.Coalesce, t1, clock()})
	}
	h, err := readHead(cbr)
	if err != nil {
		o.Error = "proxy's reply: " + errKind(err)
		return
	}
	if f := strings.Fields(string(h)); len(f) >= 2 {
		o.Status, _ = strconv.Atoi(f[1])
	}
	if o.Status != 200 && o.Status != 101 {
		o.Error = fmt.Sprintf("proxy answered %d", o.Status)
		return
	}
	o.t0 = clock()
	t0 := time.Now()

	type side struct {
		w      net.Conn
		raw    *net.TCPConn
		cw     func() error
		flow   *gFlow // the direction this side writes
		data   []byte
		off    int
		reader io.Reader
		rflow  *gFlow // the direction this side reads
		rng    *core.Rand
	}
	client := &side{w: conn, raw: rig.RawTCP(tcpConn), cw: func() error { return conn.(interface{ CloseWrite() error }).CloseWrite() },
		flow: o.up, data: upData, off: upOff, reader: cbr, rflow: o.down, rng: r.Sub()}
	target := &side{w: fe.conn, raw: rig.RawTCP(fe.conn), cw: fe.closeWrite, flow: o.down, data: downData, off: downOff,
		reader: fe.br, rflow: o.up, rng: r.Sub()}
	aborter, survivor := client, target
	if at.Aborter == "target" {
		aborter, survivor = target, client
	}

	var mu sync.Mutex
	read := func(s *side, seen chan<- struct{}) {
		f := s.rflow
		buf := make([]byte, 32<<10)
		for {
			n, err := s.reader.Read(buf)
			now := clock()
			mu.Lock()
			if n > 0 {
				f.got = append(f.got, buf[:n]...)
				f.lastGotAt = now
			}
			if err != nil {
				f.readEndAt, f.readEnd = now, errKind(err)
				if errors.Is(err, io.EOF) {
					f.eofAt = now
				}
				mu.Unlock()
				close(seen)
				return
			}
			mu.Unlock()
		}
	}
	// writeChunk writes the next n bytes of the side's payload; false when the write failed
	writeChunk := func(s *side, n int) bool {
		if s.off+n > len(s.data) {
			n = len(s.data) - s.off
		}
		if n <= 0 {
			return true
		}
		a := clock()
		_, err := s.w.Write(s.data[s.off : s.off+n])
		b := clock()
		mu.Lock()
		defer mu.Unlock()
		if err != nil {
			s.flow.writeErrAt, s.flow.writeErr = b, errKind(err)
			return false
		}
		s.flow.writes = append(s.flow.writes, gWrite{s.off, s.off + n, a, b})
		s.off += n
		return true
	}
	iv := time.Duration(at.IntervalMs) * time.Millisecond
	trickle := func(s *side, until time.Time, stop <-chan struct{}) bool {
		for time.Now().Before(until) {
			select {
			case <-stop:
				return true
			default:
			}
			if !writeChunk(s, s.rng.Range(1, at.ChunkMax)) {
				return false
			}
			wait := iv
			if d := time.Until(until); d < wait {
				wait = d
			}
			select {
			case <-stop:
				return true
			case <-time.After(wait):
			}
		}
		return true
	}
	halfClose := func(s *side) {
		a := clock()
		err := s.cw()
		mu.Lock()
		s.flow.finAt = a
		if err != nil {
			if s.flow.writeErr == "" {
				s.flow.writeErrAt, s.flow.writeErr = clock(), "closewrite: "+errKind(err)
			}
		} else {
			s.flow.finDoneAt = clock()
		}
		mu.Unlock()
	}

	aborterSeen, survivorSeen := make(chan struct{}), make(chan struct{}) // that side's read has ended
	never := make(chan struct{})
	go read(aborter, aborterSeen)
	go read(survivor, survivorSeen)
	abortDue := t0.Add(time.Duration(at.AbortMs) * time.Millisecond)
	var wg sync.WaitGroup
	wg.Add(2)
	go func() { // the endpoint that ends abruptly
		defer wg.Done()
		ok := trickle(aborter, abortDue, never)
		if !ok {
			return // (its write failed before it got to abort: reported by the judge)
		}
		a := clock()
		err := abruptly(at.How, aborter.raw, aborter.rng)
		b := clock()
		mu.Lock()
		o.abortAt, o.abortDoneAt, o.abortErr = a, b, errKind(err)
		mu.Unlock()
	}()
	go func() { // the endpoint that survives
		defer wg.Done()
		giveUp := t0.Add(life)
		switch at.Survivor {
		case "streaming":
			// goes on writing until a write fails or it has read the end
			trickle(survivor, giveUp, survivorSeen)
		default:
			if !trickle(survivor, abortDue.Add(-40*time.Millisecond), survivorSeen) {
				return
			}
			select { // idle: waits for the end of the stream
			case <-survivorSeen:
			case <-time.After(time.Until(giveUp)):
				return
			}
			if at.Survivor == "idle-then-reply" {
				for left := at.ReplyBytes; left > 0; {
					n := survivor.rng.Range(1, at.ChunkMax)
					if n > left {
						n = left
					}
					if !writeChunk(survivor, n) {
						break // the endpoint it replies to is gone: the proxy may have closed already
					}
					left -= n
				}
			}
		}
		halfClose(survivor)
	}()
	wg.Wait()
	mu.Lock()
	o.reactAt = clock()
	o.up.sent, o.down.sent = upData[:client.off], downData[:target.off]
	o.endAt = o.reactAt
	mu.Unlock()
	// a survivor that never saw the end: its reader is still blocked, let it go
	select {
	case <-survivorSeen:
	default:
		survivor.w.SetDeadline(time.Now())
		<-survivorSeen
	}
	mu.Lock()
	snap := *o
	up, down := *o.up, *o.down
	snap.up, snap.down = &up, &down
	mu.Unlock()
	reported = true
	report(&snap)
	<-hold
}

// ---- judging ----

func judgeAbortTunnel(ac *abortCase, o *aTunnelObs) (fs []gFinding) {
	add := func(sharp bool, kind, clause, detail string) {
		fs = append(fs, gFinding{sharp, kind, clause, detail, ""})
	}
	P, prompt := int64(ac.PeriodMs)*1000, int64(ac.PromptMs)*1000
	F, D := o.flows()
	for _, f := range []*gFlow{o.up, o.down} {
		if firstDiff(f.got, f.sent) >= 0 {
			add(true, "content", "bytes delivered before an abort are a prefix of what was sent, each once and in order ("+f.name+")",
				fmt.Sprintf("first differing offset %d; got %d bytes, sent %d", firstDiff(f.got, f.sent), len(f.got), len(f.sent)))
		}
	}
	if o.abortAt < 0 || o.abortErr != "" {
		if F.writeErr != "" && o.abortAt < 0 {
			add(true, "cut", "while no direction has finished nothing is closed ("+F.name+")",
				fmt.Sprintf("the tunnel was up at %d ms; a write of %s failed with %q at %d ms, before that endpoint was to abort (%d ms after the tunnel was up); the other direction: %s",
					ms(o.t0), F.name, F.writeErr, ms(F.writeErrAt), o.Plan.AbortMs, D.summary()))
		} else {
			add(true, "machinery", "the endpoint ends its sending side abruptly", "it could not: "+o.abortErr)
		}
		return fs
	}
	where := fmt.Sprintf("%s ended its sending side abruptly (%s) at %d ms after %d bytes, of which %d arrived; grace period %d ms", o.Plan.Aborter, o.Plan.How, ms(o.abortAt), len(F.sent), len(F.got), ac.PeriodMs)
	clause := "when one endpoint's sending side ends - abruptly too - the other endpoint observes end-of-stream promptly, not when the grace timer fires (" + F.name + ")"
	switch {
	case F.readEndAt >= 0 && F.readEndAt < o.abortAt:
		add(true, "early", "end-of-stream is only shown after the source finished ("+F.name+")",
			fmt.Sprintf("%s; the surviving endpoint's read had ended (%q) at %d µs, %d µs before the abort (tunnel up at %d µs)", where, F.readEnd, F.readEndAt, o.abortAt-F.readEndAt, o.t0))
	case F.readEnd == "timeout" || F.readEndAt < 0:
		add(false, "late", clause, fmt.Sprintf("%s; the surviving endpoint (%s) was shown nothing for %d ms, when it gave up", where, o.Plan.Survivor, ms(F.readEndAt-o.abortAt)))
	case F.readEndAt > o.abortDoneAt+prompt:
		note := ""
		if F.readEndAt >= o.abortAt+P-50_000 {
			note = fmt.Sprintf(" - that is abort + grace period (%d ms): only the forced close of the grace timer ended it", ac.PeriodMs)
		}
		add(false, "late", clause, fmt.Sprintf("%s; the surviving endpoint (%s) saw the stream end (%q) only at %d ms, %d ms after the abort (bound %d ms)%s",
			where, o.Plan.Survivor, F.readEnd, ms(F.readEndAt), ms(F.readEndAt-o.abortAt), ac.PromptMs, note))
	}
	if o.Plan.How == "tls-raw-fin" && F.readEndAt >= 0 && len(F.got) != len(F.sent) && len(fs) == 0 {
		// an orderly FIN: everything written before it has arrived when the end is shown
		add(true, "content", "end-of-stream is observed after the last byte ("+F.name+")", fmt.Sprintf("%s; %d of %d bytes had arrived when the survivor read %q", where, len(F.got), len(F.sent), F.readEnd))
	}
	return fs
}

func judgeAbortCase(ac *abortCase, co *aCaseObs) (fs []gFinding) {
	if co.gaugeErr != "" {
		return []gFinding{{true, "machinery", "socket closure is observable through forwarder's connection tracking", co.gaugeErr, ""}}
	}
	lastReact := int64(-1)
	for i, o := range co.tunnels {
		if o == nil || o.Error != "" {
			e := "not run"
			if o != nil {
				e = o.Error
			}
			return append(fs, gFinding{false, "establish", "the tunnel is established (2xx to CONNECT / 101 to Upgrade)", fmt.Sprintf("tunnel %d: %s", i, e), ""})
		}
		for _, f := range judgeAbortTunnel(ac, o) {
			f.detail = fmt.Sprintf("tunnel %d of the case: %s", i, f.detail)
			fs = append(fs, f)
		}
		if o.reactAt > lastReact {
			lastReact = o.reactAt
		}
	}
	if len(fs) == 0 && (co.zeroAt < 0 || co.zeroAt > lastReact+int64(ac.PromptMs)*1000) {
		fs = append(fs, gFinding{false, "late", "when both directions are finished - by end-of-stream or by an error - both sockets are closed",
			fmt.Sprintf("every surviving endpoint had seen the end and finished its own side by %d ms; the proxy (forwarder's connection tracking) held no socket any more at %d ms (-1 = never during the case, which ended at %d ms: %v client-side / %v target-side left); due by %d ms",
				ms(lastReact), ms(co.zeroAt), ms(co.endAt), co.openC, co.openT, ms(lastReact)+int64(ac.PromptMs)), ""})
	}
	return fs
}

// ---- the machine with copy errors on the observed history ----

// abortHistory renders what the endpoints of a tunnel observed as a schedule of `arun`.
func abortHistory(ac *abortCase, o *aTunnelObs, c modelCfg) (steps []string, ok bool) {
	at := o.Plan
	steps = []string{"cw:" + core.Hex(append(append([]byte(nil), o.head...), o.up.sent[:min(at.Early, len(o.up.sent))]...)), "rh:" + core.Itoa(at.Early)}
	if o.sentPre > 0 {
		steps = append(steps, "tw:"+core.Hex(o.reply[:o.sentPre]))
	}
	if f := append(append([]byte(nil), o.reply[o.sentPre:]...), o.down.sent[:min(at.Coalesce, len(o.down.sent))]...); len(f) > 0 {
		steps = append(steps, "tw:"+core.Hex(f))
	}
	if c.replyGran <= 1 {
		for i := 0; i < c.replyLen; i++ {
			steps = append(steps, "rr:1")
		}
	} else if c.replyLen > 0 {
		steps = append(steps, "rr:"+core.Itoa(c.replyLen))
	}
	steps = append(steps, "cn", "dr")
	F, D := o.flows()
	clean := abortReachesCopierAsEOF(ac.Mode, at.Aborter, at.How)
	type dirWire struct{ w, cp, fin, eof, ab, wf string }
	wire := map[*gFlow]dirWire{o.up: {"cw:", "cu:", "fu", "eu", "au:", "wu"}, o.down: {"tw:", "cd:", "fd", "ed", "ad:", "wd"}}
	pre := map[*gFlow]int{o.up: at.Early, o.down: at.Coalesce}
	// left[f]: bytes written by the source of f that the schedule has not copied
	left := map[*gFlow]int{}
	emit := func(f *gFlow, limit int) {
		x := wire[f]
		got := len(f.got)
		if f == o.down && at.Coalesce > 0 {
			if n := min(got, at.Coalesce); n > 0 {
				steps = append(steps, x.cp+core.Itoa(n))
			}
			left[f] += at.Coalesce - min(got, at.Coalesce)
		}
		for _, w := range f.writes {
			if w.end <= pre[f] {
				continue // went with the head / the reply
			}
			end := min(w.end, limit)
			if end <= w.start {
				continue
			}
			arrived := min(max(got-w.start, 0), end-w.start)
			steps = append(steps, x.w+core.Hex(f.sent[w.start:end]))
			if arrived > 0 {
				steps = append(steps, x.cp+core.Itoa(arrived))
			}
			left[f] += end - w.start - arrived
		}
	}
	// the direction that is cut: what its source wrote, what arrived; then how its copier's Read ended
	limF := len(F.sent)
	if clean {
		limF = len(F.got) // behind a bridge what was lost with the reset never reached the proxy
	}
	emit(F, limF)
	if o.up == F && len(F.got) < min(at.Early, len(F.sent)) {
		return nil, false // (early data is delivered by the drain: never less than that arrives)
	}
	emit(D, len(D.sent))
	xF, xD := wire[F], wire[D]
	if clean {
		if left[F] > 0 {
			return nil, false
		}
		steps = append(steps, xF.fin, xF.eof)
	} else {
		steps = append(steps, xF.ab+errKindOf(at.How))
	}
	// the opposite direction: its copier fails on the write to the endpoint that is gone, or copies what is
	// left into the void and finishes after the survivor has
	switch {
	case left[D] > 0 && !clean:
		steps = append(steps, xD.wf)
	case D.finDoneAt >= 0:
		for n := left[D]; n > 0; n -= min(n, c.copyMax) {
			steps = append(steps, xD.cp+core.Itoa(min(n, c.copyMax)))
		}
		steps = append(steps, xD.fin, xD.eof)
	default:
		return nil, false
	}
	return steps, true
}

// abortModelVerdict: "" when the machine (policy `always`: the code) accepts the observed history and ends,
// without the grace timer, where the endpoints saw it end.
func abortModelVerdict(ctx *core.Ctx, ac *abortCase, o *aTunnelObs) string {
	c := cfgForMode(ac.Mode, len(o.head), len(o.reply))
	steps, ok := abortHistory(ac, o, c)
	if !ok {
		ctx.Count("abort/model/history-not-rendered")
		return ""
	}
	ans := ctx.Model.MustAsk("C03", "arun", c.wire(), legsWire(ac.Mode), "always", core.JoinList2(steps))
	if strings.HasPrefix(ans, "stuck ") {
		i, _ := strconv.Atoi(strings.TrimPrefix(ans, "stuck "))
		st := "?"
		if i < len(steps) {
			st = steps[i]
		}
		return fmt.Sprintf("the machine with copy errors (policy always) does not accept the observed history: step %d `%s` is not enabled (%d steps)", i, st, len(steps))
	}
	if !strings.HasPrefix(ans, "ok ") {
		core.Fatalf("C03: abort model answered %q", ans)
	}
	kv := kvOf(ans)
	F, _ := o.flows()
	shown, delivered := kv["shownU"], kv["up"]
	if F == o.down {
		shown, delivered = kv["shownD"], kv["down"]
	}
	if kv["closed"] != "1" || kv["expired"] != "0" || shown != "1" {
		return "the machine's terminal state is not `closed without the grace timer, the survivor shown the end`: " + ans
	}
	if string(core.MustUnHex(delivered)) != string(F.got) {
		return fmt.Sprintf("the machine delivered %d bytes to the survivor, the survivor received %d", len(core.MustUnHex(delivered)), len(F.got))
	}
	ctx.Count("abort/model/history-accepted-without-the-grace-timer")
	return ""
}

// variantNote: the same history with the forced close in it, on the machine whose copier skips closeWriter after
// a closed-connection error - a diagnostic for the report of a tunnel only the grace timer ended.
func variantNote(ctx *core.Ctx, ac *abortCase, o *aTunnelObs) string {
	if abortReachesCopierAsEOF(ac.Mode, o.Plan.Aborter, o.Plan.How) || o.Plan.Survivor == "streaming" {
		return ""
	}
	c := cfgForMode(ac.Mode, len(o.head), len(o.reply))
	cp := *o
	up, down := *o.up, *o.down
	cp.up, cp.down = &up, &down
	_, D := cp.flows()
	D.finDoneAt = -1 // leave the survivor's reaction out: it came after the forced close
	steps, _ := abortHistory(ac, &cp, c)
	if steps == nil {
		// abortHistory refuses a history without the survivor's finish: cut it after the abort
		D.finDoneAt = 0
		steps, _ = abortHistory(ac, &cp, c)
		for len(steps) > 0 && !strings.HasPrefix(steps[len(steps)-1], "au:") && !strings.HasPrefix(steps[len(steps)-1], "ad:") {
			steps = steps[:len(steps)-1]
		}
	}
	if len(steps) == 0 {
		return ""
	}
	steps = append(steps, "ge")
	shownKey := "shownU"
	if o.Plan.Aborter == "target" {
		shownKey = "shownD"
	}
	a1 := ctx.Model.MustAsk("C03", "arun", c.wire(), legsWire(ac.Mode), "always", core.JoinList2(steps[:len(steps)-1]))
	a2 := ctx.Model.MustAsk("C03", "arun", c.wire(), legsWire(ac.Mode), "skip", core.JoinList2(steps))
	if kvOf(a1)[shownKey] == "1" && strings.HasPrefix(a2, "ok ") && kvOf(a2)["expired"] == "1" && kvOf(a2)[shownKey] == "0" {
		return "; model: under the code's policy (`always`) the abort step itself shows the survivor the end (" + shownKey + "=1, no timer); what was observed - nothing shown until the forced close - is a run of the machine whose copier SKIPS closeWriter after a closed-connection error (policy `skip`: " + shownKey + "=0 until `ge`, expired=1)"
	}
	return ""
}

// ---- a case, confirmed ----

func (e *env) abortAttempt(ctx *core.Ctx, ac *abortCase) (*aCaseObs, []gFinding) {
	co := e.runAbortCase(ac)
	fs := judgeAbortCase(ac, co)
	if co.gaugeErr != "" {
		return co, fs
	}
	for i, o := range co.tunnels {
		if o == nil || o.Error != "" || o.abortAt < 0 {
			continue
		}
		mine := false
		for j := range fs {
			if strings.HasPrefix(fs[j].detail, fmt.Sprintf("tunnel %d ", i)) {
				if !mine && fs[j].kind == "late" {
					fs[j].detail += variantNote(ctx, ac, o)
				}
				mine = true
			}
		}
		if mine {
			continue // reported already: the history is not one the machine is asked to accept
		}
		if d := abortModelVerdict(ctx, ac, o); d != "" {
			fs = append(fs, gFinding{true, "model-other", "the observed history is a run of the tunnel machine with copy errors that ends without the grace timer", fmt.Sprintf("tunnel %d of the case: %s", i, d), ""})
		}
	}
	return co, fs
}

// runAbortConfirmed: a suspected failure is confirmed by repetition before it is reported - a failure of a
// generous bound has to show in each of three runs, a failure of a sharp bound or of the content in two of three.
func (e *env) runAbortConfirmed(ctx *core.Ctx, ac *abortCase) {
	key, _ := json.Marshal(ac)
	var co, sharpObs *aCaseObs
	var fs, sharpSeen []gFinding
	sharpRuns, failedRuns, attempts := 0, 0, 0
	for attempts < 3 {
		attempts++
		co, fs = e.abortAttempt(ctx, ac)
		if len(fs) == 0 {
			if sharpRuns == 0 {
				break
			}
			continue
		}
		failedRuns++
		suspicions.Lock()
		if len(suspicions.list) < 40 {
			d := fs[0].detail
			if len(d) > 400 {
				d = d[:400] + "…"
			}
			suspicions.list = append(suspicions.list, fmt.Sprintf("%s abort period=%dms attempt %d: %s: %s", ac.Mode, ac.PeriodMs, attempts, fs[0].clause, d))
		}
		suspicions.Unlock()
		isSharp := false
		for _, f := range fs {
			isSharp = isSharp || f.sharp
		}
		if isSharp {
			sharpRuns++
			sharpSeen, sharpObs = fs, co
			if sharpRuns >= 2 {
				break
			}
		}
	}
	if attempts > 1 {
		ctx.Count("abort/repeated-after-a-suspected-failure")
	}
	for i, at := range ac.Tunnels {
		ctx.Case(string(key)+"#"+core.Itoa(i), true)
		leg := "tcp-leg"
		if tlsLegOf(ac.Mode, at.Aborter) {
			leg = "tls-leg"
		}
		ctx.Count("abort/" + at.Aborter + "-" + at.How + "(" + leg + ")/survivor-" + at.Survivor)
		if o := co.tunnels; i < len(o) && o[i] != nil && o[i].abortAt >= 0 {
			F, _ := o[i].flows()
			ctx.Count("abort/survivor-read-ended-with/" + F.readEnd)
		}
	}
	ctx.Count("abort-mode/" + ac.Mode)
	ctx.Count("abort/cases")
	confirmed := sharpRuns >= 2 || (failedRuns == 3 && attempts == 3)
	if sharpRuns >= 2 {
		fs, co = sharpSeen, sharpObs
	}
	if !confirmed {
		if failedRuns > 0 {
			ctx.Count("abort/suspected-failure-not-confirmed")
		}
		if len(fs) == 0 {
			for range co.tunnels {
				ctx.TraceValidated()
			}
		}
		return
	}
	f := fs[0]
	for _, x := range fs {
		if x.sharp {
			f = x
			break
		}
	}
	var all []string
	for _, x := range fs {
		all = append(all, x.clause+": "+x.detail)
	}
	detail := fmt.Sprintf("%s [confirmed: %d of %d runs of this case failed] all objections: %s", f.detail, failedRuns, attempts, strings.Join(all, " | "))
	switch f.kind {
	case "machinery", "establish", "model-other":
		ctx.Disagree(f.clause, ac, co.summary(), detail)
	default:
		ctx.SpecFail(f.clause, "", ac, co.summary(), detail)
	}
}

// ---- the phase ----

var abortSurvivors = []string{"idle-then-half-close", "idle-then-reply", "streaming"}

func abortHows(mode, who string) []string {
	switch {
	case !tlsLegOf(mode, who):
		return []string{"rst"}
	case who == "client" && !legCanHalfClose(mode):
		// behind a FIN the client still reads: a far end that goes on sending is told nothing through a leg the
		// proxy cannot half-close, and nothing it writes fails (F48 again); a reset or a broken TLS session makes
		// the write towards the client fail
		return []string{"rst", "tls-bad-record", "tls-bad-record"}
	}
	return []string{"rst", "tls-raw-fin", "tls-cut-record", "tls-bad-record"}
}

func genAbortTunnel(r *core.Rand, mode, who, how, survivor string) abortTunnel {
	if who == "client" && !legCanHalfClose(mode) {
		// a far leg the proxy cannot half-close is shown nothing while the tunnel lives (known finding F48, whose
		// cases are grace.go's): there the far end does not wait for the end of the client's stream
		survivor = "streaming"
	}
	at := abortTunnel{StartMs: r.Range(0, 60), Aborter: who, How: how, Survivor: survivor, AbortMs: r.Range(90, 220),
		IntervalMs: core.Pick(r, []int{7, 10, 15}), ChunkMax: r.Range(8, 120),
		Early: core.Pick(r, []int{0, 0, 1, 17, 40}), Coalesce: core.Pick(r, []int{0, 0, 1, 23, 40})}
	if survivor == "idle-then-reply" {
		at.ReplyBytes = r.Range(1, 300)
	}
	return at
}

// genAbortCase: per configuration the client resets while the far end is idle, the far end resets while the
// client is idle, a TLS leg is cut where there is one (else a reset in mid-stream), and n-3 tunnels drawn freely.
func genAbortCase(r *core.Rand, mode string, periodMs, n int) *abortCase {
	ac := &abortCase{Kind: "abort", Mode: mode, Seed: r.U64(), PeriodMs: periodMs, PromptMs: 1500}
	idle := func() string { return core.Pick(r, abortSurvivors[:2]) }
	sides := []string{"client", "target"}
	ac.Tunnels = append(ac.Tunnels, genAbortTunnel(r, mode, "client", "rst", idle()), genAbortTunnel(r, mode, "target", "rst", idle()))
	var tlsSides []string
	for _, s := range sides {
		if tlsLegOf(mode, s) {
			tlsSides = append(tlsSides, s)
		}
	}
	if len(tlsSides) > 0 {
		who := core.Pick(r, tlsSides)
		ac.Tunnels = append(ac.Tunnels, genAbortTunnel(r, mode, who, core.Pick(r, abortHows(mode, who)[1:]), idle()))
	} else {
		ac.Tunnels = append(ac.Tunnels, genAbortTunnel(r, mode, core.Pick(r, sides), "rst", "streaming"))
	}
	for len(ac.Tunnels) < n {
		who := core.Pick(r, sides)
		ac.Tunnels = append(ac.Tunnels, genAbortTunnel(r, mode, who, core.Pick(r, abortHows(mode, who)), core.Pick(r, abortSurvivors)))
	}
	return ac
}

// runAbortPhase: one batch per round with the grace period at 3.5-4 s; every configuration runs its case at
// the same time, each on its own proxy; the grace timer must fire for no tunnel of the batch.
func runAbortPhase(ctx *core.Ctx, pool *envPool, modes []string) {
	rounds := ctx.N(1, 4)
	start := time.Now()
	var tunnels atomic.Int64
	for round := 0; round < rounds; round++ {
		if ctx.NumFindings() >= 4 {
			return
		}
		rb := ctx.Rng.Sub()
		period := rb.Range(3500, 4000)
		restore := setGracePeriod(period)
		book := openGraceBook(ctx, period)
		var wg sync.WaitGroup
		for _, mode := range modes {
			ac := genAbortCase(rb.Sub(), mode, period, ctx.N(4, 6))
			if round == 0 && book.first == nil {
				ctx.Sample(ac)
			}
			if book.first == nil {
				book.first = &graceCase{Kind: "abort", Mode: ac.Mode, Seed: ac.Seed, Variant: "abort", PeriodMs: period}
			}
			wg.Add(1)
			go func() {
				defer wg.Done()
				e, err := pool.get(ac.Mode)
				if err != nil {
					ctx.Crash("proxy starts with a valid configuration", "", ac, err.Error())
					return
				}
				e.runAbortConfirmed(ctx, ac)
				tunnels.Add(int64(len(ac.Tunnels)))
			}()
		}
		wg.Wait()
		closeAbortBook(ctx, book)
		restore()
	}
	suspicions.Lock()
	if len(suspicions.list) > 0 {
		ctx.Extra("grace_failed_attempts", suspicions.list)
	}
	suspicions.Unlock()
	ctx.Extra("abort_phase", map[string]any{"tunnels": tunnels.Load(), "wall_s": float64(int(time.Since(start).Seconds()*10)) / 10,
		"hook": "martian.VerifSetBicopyGracefulTimeout (internal/martian/export_verif.go, build tag verif)"})
}

// closeAbortBook: no tunnel of an abort batch is left to the grace timer. A forced close that was logged is
// reported when nothing else was (the tunnel it ended has been reported with its input otherwise).
func closeAbortBook(ctx *core.Ctx, b *graceBook) {
	logged := theGraceLog.forced.Load() - b.logs0
	theGraceLog.takePeriods()
	if logged > 0 && ctx.NumFindings() == b.finds0 {
		ctx.Count("abort/forced-closes-logged-without-a-confirmed-late-tunnel")
		ctx.Extra("abort_forced_closes_logged", logged)
	}
}

// replayAbort re-runs one abort case alone.
func replayAbort(ctx *core.Ctx, pool *envPool, raw json.RawMessage) {
	var ac abortCase
	if err := json.Unmarshal(raw, &ac); err != nil || ac.Mode == "" || len(ac.Tunnels) == 0 {
		core.Fatalf("C03: unreadable abort case: %v %s", err, raw)
	}
	e, err := pool.get(ac.Mode)
	if err != nil {
		ctx.Crash("proxy starts with a valid configuration", "", ac, err.Error())
		return
	}
	defer setGracePeriod(ac.PeriodMs)()
	if replaying {
		co, fs := e.abortAttempt(ctx, &ac)
		fmt.Printf("implementation: %s\n", co.summary())
		for _, f := range fs {
			fmt.Printf("objection: %s: %s\n", f.clause, f.detail)
		}
	}
	e.runAbortConfirmed(ctx, &ac)
}
