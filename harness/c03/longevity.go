package c03

// Longevity: an established tunnel is not subject to any limit of the request that opened it or of
// the dial that reached its far end.
//
// The "lt-" variant of every configuration sets EVERY timeout the proxy, its transport and its dialers
// have to 300-500 ms (shortProxyLimits / shortTransportLimits: ConnectTimeout - handed to the upstream
// HTTP(S)/SOCKS5 dialers of dialvia as their Timeout -, ReadTimeout, ReadHeaderTimeout, WriteTimeout,
// IdleTimeout, the TLS handshake timeouts of listener and transport, the dialer's DialTimeout, the
// transport's ResponseHeaderTimeout / IdleConnTimeout / ExpectContinueTimeout). In each of them tunnels
// live for 3-5 times the largest of these, at the same time:
//
//   - active: both endpoints write a few bytes every 50 ms all the time;
//   - idle:   both endpoints are silent for stretches longer than every timeout, then write again;
//
// each once with the client and once with the far side finishing first (a far leg the proxy cannot
// half-close: the client, and the far side goes on until the client HAS half-closed, which it knows
// in-process). They run on the machinery of grace.go (plan "finish": nobody may be cut, every byte
// arrives, end-of-stream only after the source's half-close, sockets closed when both have finished) and
// are judged directly and by the timed machine WITH LIMITS of Model/C03.lean (verb `ltrun`, policy
// `cleared`: what the code does; theorems c03_limits_*).

import (
	"fmt"
	"sync"
	"sync/atomic"
	"time"

	"github.com/saucelabs/forwarder"
	"github.com/saucelabs/forwarder/verifharness/core"
)

// limitsMs: what the "lt-" environments configure, in milliseconds (also the model's `Limits`).
type limitsMs struct {
	Connect    int `json:"connect"`     // HTTPProxyConfig.ConnectTimeout → martian ConnectTimeout → dialvia Timeout
	Dial       int `json:"dial"`        // DialConfig.DialTimeout
	Read       int `json:"read"`        // ReadTimeout
	ReadHeader int `json:"read_header"` // ReadHeaderTimeout
	Write      int `json:"write"`       // WriteTimeout
	Idle       int `json:"idle"`        // IdleTimeout
	TLS        int `json:"tls"`         // TLS handshake timeouts (listener, transport)
	Response   int `json:"response"`    // transport: ResponseHeaderTimeout, IdleConnTimeout, ExpectContinueTimeout
}

var shortLimits = limitsMs{Connect: 400, Dial: 450, Read: 350, ReadHeader: 300, Write: 350, Idle: 450, TLS: 500, Response: 450}

func (l limitsMs) largest() int {
	m := 0
	for _, v := range []int{l.Connect, l.Dial, l.Read, l.ReadHeader, l.Write, l.Idle, l.TLS, l.Response} {
		if v > m {
			m = v
		}
	}
	return m
}

// wire: the model's Limits = what bounds each phase before the tunnel: reading the request (head: the
// idle and read-header timeouts; whole request: ReadTimeout), dialling (ConnectTimeout for upstream
// proxies, the dialer's own timeout, the TLS handshake), writing the reply (WriteTimeout).
func (l limitsMs) wire() string {
	min := func(xs ...int) int {
		m := xs[0]
		for _, x := range xs {
			if x < m {
				m = x
			}
		}
		return m
	}
	return fmt.Sprintf("%d,%d,%d", min(l.Read, l.ReadHeader, l.Idle), min(l.Connect, l.Dial, l.TLS, l.Response), l.Write)
}

func msDur(n int) time.Duration { return time.Duration(n) * time.Millisecond }

func shortProxyLimits(cfg *forwarder.HTTPProxyConfig) {
	l := shortLimits
	cfg.ConnectTimeout = msDur(l.Connect)
	cfg.ReadTimeout = msDur(l.Read)
	cfg.ReadHeaderTimeout = msDur(l.ReadHeader)
	cfg.WriteTimeout = msDur(l.Write)
	cfg.IdleTimeout = msDur(l.Idle)
	cfg.TLSServerConfig.HandshakeTimeout = msDur(l.TLS)
}

func shortTransportLimits(tc *forwarder.HTTPTransportConfig) {
	l := shortLimits
	tc.DialConfig.DialTimeout = msDur(l.Dial)
	tc.TLSClientConfig.HandshakeTimeout = msDur(l.TLS)
	tc.ResponseHeaderTimeout = msDur(l.Response)
	tc.IdleConnTimeout = msDur(l.Response)
	tc.ExpectContinueTimeout = msDur(l.Response)
}

const longevityVariant = "longevity/every-timeout-300-500ms/tunnels-live-3-5-times-the-largest"

// genLongevityCase: four tunnels at once in one "lt-" configuration.
func genLongevityCase(r *core.Rand, mode string, periodMs int) *graceCase {
	l := shortLimits
	gc := &graceCase{Kind: "grace", Mode: mode, Seed: r.U64(), Variant: longevityVariant, PeriodMs: periodMs, SlackMs: 2500, PromptMs: 1200, Limits: &l}
	big := l.largest()
	firsts := []string{"client", "target", "target", "client"}
	if r.Bool() {
		firsts = []string{"target", "client", "client", "target"}
	}
	for i, first := range firsts {
		life := r.Range(3*big, 5*big)
		gt := graceTunnelPlan(r, "finish", first, life, r.Range(0, 60))
		adaptToLeg(mode, &gt) // far legs without CloseWrite, net.Pipe
		gt.StartMs = r.Range(0, 40)
		if i >= 2 {
			// idle: silence (both directions) longer than every timeout, twice, with bytes before, between and after
			a := r.Range(60, 140)
			q1 := r.Range(big+150, big+400)
			b := r.Range(80, 160)
			q2 := r.Range(big+150, big+400)
			gt.Quiet = [][2]int{{a, a + q1}, {a + q1 + b, a + q1 + b + q2}}
			if end := a + q1 + b + q2 + r.Range(80, 160); gt.FinMs < end {
				gt.FinMs = end
			}
		}
		gc.Tunnels = append(gc.Tunnels, gt)
	}
	return gc
}

// runLongevityPhase: every "lt-" configuration runs its case at the same time, each on its own proxy.
func runLongevityPhase(ctx *core.Ctx, pool *envPool, modes []string) {
	start := time.Now()
	rb := ctx.Rng.Sub()
	const period = 3000 // the grace period plays no part: both directions finish within it
	restore := setGracePeriod(period)
	defer restore()
	book := openGraceBook(ctx, period)
	var wg sync.WaitGroup
	var tunnels atomic.Int64
	rounds := ctx.N(1, 3)
	for round := 0; round < rounds && ctx.NumFindings() < 4; round++ {
		for i, m := range modes {
			gc := genLongevityCase(rb.Sub(), "lt-"+m, period)
			if round == 0 && i == 0 {
				ctx.Sample(gc)
			}
			if book.first == nil {
				book.first = gc
			}
			wg.Add(1)
			go func() {
				defer wg.Done()
				e, err := pool.get(gc.Mode)
				if err != nil {
					ctx.Crash("proxy starts with a valid configuration", "", gc, err.Error())
					return
				}
				e.runGraceConfirmed(ctx, gc, book)
				tunnels.Add(int64(len(gc.Tunnels)))
			}()
		}
		wg.Wait()
	}
	book.close(ctx)
	ctx.Extra("longevity_phase", map[string]any{"tunnels": tunnels.Load(), "wall_s": float64(int(time.Since(start).Seconds()*10)) / 10,
		"limits_ms": shortLimits, "configurations": len(modes)})
}
