package c03

// How each leg of a tunnel is wrapped, and how the last bytes and the end of a stream reach the proxy.
//
// copier.copy hands the two legs to io.CopyBuffer, which uses the SOURCE's WriteTo or the DESTINATION's
// ReadFrom when there is one - a copy loop of the leg's own - and its generic loop otherwise. Whichever loop
// runs has to honour io.Reader's contract: a Read may return its last n > 0 bytes TOGETHER with io.EOF, and the
// n bytes come first. Which loop runs is decided by how the legs are wrapped; whether a source ever returns
// (n > 0, io.EOF) by what the leg is and by how the peer's last bytes and its end-of-stream arrive:
//
//	tt-   both legs are conntrack connections WITH TrackTraffic, built by the constructors command/run's proxy
//	      uses: ListenerConfig.TrackTraffic on the proxy's listener, forwarder.WithDialConnTrack(ctx,
//	      DialConnTrackTraffic) for forwarder.Dialer.DialContext. Such a connection has a ReadFrom of its own.
//	t12-  every TLS endpoint the harness scripts negotiates TLS 1.2, where close_notify is a visible alert
//	      record: crypto/tls's Read returns the plaintext of the final record together with io.EOF when the
//	      alert is already buffered. The far TLS peers of such a configuration speak through a corked
//	      connection (corkConn), as the client of every TLS listener does: the final record(s) of a direction
//	      and close_notify leave in ONE segment when the case says so (UpTail / DownTail).
//	ce-   the client leg is wrapped (rig.ProxyOpts.WrapListener) into a connection whose Read returns the last
//	      bytes together with io.EOF whenever the end of the stream has arrived by then (joinReader)
//	cf-dataeof  the same reader around what a custom ConnectFunc returns (with a CloseWrite of its own)
//
// The modes below cross these with the listener kinds (plain, TLS, rate-limited), the routes (direct,
// upstream http / https / socks5, ConnectFunc, terminate-TLS, upgrade) and the http.Handler. They run as
// ordinary tunnels (runTunnel / evaluate: every byte once and in order, end-of-stream after the last byte, the
// opposite direction keeps flowing, sockets closed, the model's acceptor and byte-for-byte run) with payloads
// whose LAST bytes - 1 B to several copy buffers, around the 16 KiB TLS record and the 32 KiB copy buffer and
// their multiples - are written in one piece and followed at once by the half-close, after 0, 1 or many
// earlier reads; or followed by it after a pause, so that end-of-stream arrives in a Read of its own. The two
// ways the end can be encoded must make no difference to what the destination receives
// (Model/C03.lean `copyLoop`, c03_eof_encoding_irrelevant).

import (
	"bufio"
	"bytes"
	"crypto/tls"
	"fmt"
	"io"
	"net"
	"os"
	"strings"
	"sync"
	"sync/atomic"
	"time"

	"github.com/saucelabs/forwarder/verifharness/core"
	"github.com/saucelabs/forwarder/verifharness/rig"
)

// eosModes are not part of allModes: the grace / abort / longevity phases keep their 34 configurations.
var eosModes = []string{
	// destination legs with a ReadFrom of their own, sources that are plain TCP (the splice path), TLS 1.3, TLS 1.2
	"tt-direct", "tt-tls-direct", "tt-t12-tls-direct", "tt-t12-tls-http", "tt-t12-tls-socks5", "h-tt-t12-tls-direct",
	"tt-t12-https", "tt-t12-connecttls", "tt-t12-terminate", "tt-t12-tls-https", "tt-t12-tls-upgrade", "tt-rl-direct",
	// scripted sources that return (n > 0, io.EOF)
	"tt-cf-dataeof", "h-tt-cf-dataeof", "tt-rl-cf-dataeof", "tt-ce-direct", "tt-ce-http", "tt-ce-cf-dataeof", "tt-ce-upgrade",
	// the same sources with the generic copy loop / the TCP connection's own ReadFrom as the destination's
	"t12-tls-https", "t12-tls-connecttls", "t12-tls-direct", "t12-terminate", "ce-cf-dataeof", "tls-cf-dataeof", "ce-socks5",
}

func (e *env) tlsMax() uint16 {
	if e.spec.tls12 {
		return tls.VersionTLS12
	}
	return 0
}

// ---- a connection that decides which writes share a segment ----

// corkConn sits under a *tls.Conn. While corked, writes are collected; uncork sends them in ONE write.
type corkConn struct {
	net.Conn
	mu     sync.Mutex
	corked bool
	buf    []byte
}

func (c *corkConn) Write(p []byte) (int, error) {
	c.mu.Lock()
	if c.corked {
		c.buf = append(c.buf, p...)
		c.mu.Unlock()
		return len(p), nil
	}
	c.mu.Unlock()
	return c.Conn.Write(p)
}

func (c *corkConn) cork() { c.mu.Lock(); c.corked = true; c.mu.Unlock() }

// crypto/tls sets the write deadline to "now" once close_notify is sent ("any subsequent writes will fail");
// while corked that alert has not left yet, the deadline must not reach the socket.
func (c *corkConn) SetWriteDeadline(t time.Time) error {
	c.mu.Lock()
	corked := c.corked
	c.mu.Unlock()
	if corked {
		return nil
	}
	return c.Conn.SetWriteDeadline(t)
}

func (c *corkConn) SetDeadline(t time.Time) error {
	c.mu.Lock()
	corked := c.corked
	c.mu.Unlock()
	if corked {
		return c.Conn.SetReadDeadline(t)
	}
	return c.Conn.SetDeadline(t)
}

func (c *corkConn) uncork() error {
	c.mu.Lock()
	b := c.buf
	c.buf, c.corked = nil, false
	c.mu.Unlock()
	if len(b) == 0 {
		return nil
	}
	_, err := c.Conn.Write(b)
	return err
}

// CloseWrite lets the harness find the TCP half-close through the wrapper (not used by crypto/tls).
func (c *corkConn) CloseWrite() error {
	if cw, ok := c.Conn.(interface{ CloseWrite() error }); ok {
		return cw.CloseWrite()
	}
	return nil
}

// corkOf finds the corked connection under a scripted endpoint's *tls.Conn (nil: there is none).
func corkOf(c net.Conn) *corkConn {
	if pc, ok := c.(*rig.PeerConn); ok {
		c = pc.Conn
	}
	if t, ok := c.(*tls.Conn); ok {
		if ck, ok := t.NetConn().(*corkConn); ok {
			return ck
		}
	}
	return nil
}

// corkTLS makes a raw peer a TLS 1.2 peer that speaks through a corked connection.
func corkTLS(conf *tls.Config, inner func(pc *rig.PeerConn)) func(pc *rig.PeerConn) {
	conf = conf.Clone()
	conf.MaxVersion = tls.VersionTLS12
	return func(pc *rig.PeerConn) {
		tc := tls.Server(&corkConn{Conn: pc.Conn}, conf)
		tc.SetDeadline(time.Now().Add(10 * time.Second))
		if err := tc.Handshake(); err != nil {
			return
		}
		tc.SetDeadline(time.Time{})
		inner(&rig.PeerConn{Conn: tc, BR: bufio.NewReaderSize(tc, 64<<10), ID: pc.ID})
	}
}

// writeLast writes the bytes a half-close follows: all but the final `tail` bytes with the size pattern, then
// the tail in one piece and the half-close at once (through a corked connection: in one segment), or the
// half-close after a pause of gapMs. inCW: the error is the half-close's.
func writeLast(c net.Conn, b []byte, pat []int, pause bool, tick func(), tail, gapMs int, finAt *time.Time,
	halfClose func() error) (n int, inCW bool, err error) {
	if tail > len(b) {
		tail = len(b)
	}
	if tail < 0 {
		tail = 0
	}
	n, err = writeSegs(c, b[:len(b)-tail], pat, pause, tick)
	if err != nil {
		return n, false, err
	}
	ck := corkOf(c)
	if tail > 0 {
		if ck != nil {
			time.Sleep(2 * time.Millisecond) // what was written before is on its way: the tail travels alone
			ck.cork()
		}
		w, err := c.Write(b[len(b)-tail:])
		n += w
		if err != nil {
			if ck != nil {
				ck.uncork()
			}
			return n, false, err
		}
		tick()
	} else if gapMs > 0 {
		holdFor(time.Duration(gapMs)*time.Millisecond, tick)
	}
	*finAt = time.Now()
	err = halfClose()
	if ck != nil {
		if uerr := ck.uncork(); err == nil {
			err = uerr
		}
	}
	return n, err != nil, err
}

// ---- a reader that hands out the last bytes together with io.EOF ----

type readResult struct {
	b   []byte
	err error
}

// joinReader reads ahead of its consumer. Read hands out what has arrived; when that empties the chunk at
// hand it looks whether the source's NEXT result is there already (waiting joinHold for it): a clean
// end-of-stream is then returned together with the bytes, (n > 0, io.EOF), as io.Reader allows and as
// crypto/tls, bufio-less decompressors and in-process transports do. Every later Read returns (0, io.EOF).
type joinReader struct {
	ch     chan readResult
	done   chan struct{}
	once   sync.Once
	pend   []byte
	ahead  *readResult
	err    error
	joined *atomic.Int64
	// what Read returned so far (the first 512 calls that returned bytes or an error other than a timeout)
	mu   sync.Mutex
	log  []readRec
	over bool // more Reads than the log keeps: the sequence is not compared
}

// readRec is one Read of a scripted leg as the proxy saw it: n bytes, with io.EOF / with another error.
type readRec struct {
	n        int
	eof, bad bool
}

func (j *joinReader) note(n int, err error) {
	if ne, ok := err.(net.Error); ok && ne.Timeout() && n == 0 {
		return
	}
	j.mu.Lock()
	if len(j.log) < 512 {
		j.log = append(j.log, readRec{n: n, eof: err == io.EOF, bad: err != nil && err != io.EOF})
	} else {
		j.over = true
	}
	j.mu.Unlock()
}

func (j *joinReader) reads() []readRec {
	j.mu.Lock()
	defer j.mu.Unlock()
	if j.over {
		return nil
	}
	return append([]readRec(nil), j.log...)
}

const joinHold = 8 * time.Millisecond

func newJoinReader(src io.Reader, joined *atomic.Int64) *joinReader {
	j := &joinReader{ch: make(chan readResult, 8), done: make(chan struct{}), joined: joined}
	go func() {
		for {
			buf := make([]byte, 32<<10)
			n, err := src.Read(buf)
			if n > 0 {
				select {
				case j.ch <- readResult{b: buf[:n]}:
				case <-j.done:
					return
				}
			}
			if err != nil {
				select {
				case j.ch <- readResult{err: err}:
				case <-j.done:
					return
				}
				if ne, ok := err.(net.Error); ok && ne.Timeout() {
					time.Sleep(5 * time.Millisecond) // a read deadline of the proxy's: the connection lives on
					continue
				}
				return
			}
		}
	}()
	return j
}

func (j *joinReader) stop() { j.once.Do(func() { close(j.done) }) }

func (j *joinReader) take(r readResult) {
	if r.err != nil {
		j.err = r.err
	} else {
		j.pend = r.b
	}
}

func (j *joinReader) Read(p []byte) (n int, err error) {
	n, err = j.read(p)
	if n > 0 || err != nil {
		j.note(n, err)
	}
	return n, err
}

func (j *joinReader) read(p []byte) (int, error) {
	if len(p) == 0 {
		return 0, nil
	}
	if len(j.pend) == 0 && j.err == nil {
		if j.ahead != nil {
			j.take(*j.ahead)
			j.ahead = nil
		} else {
			select {
			case r := <-j.ch:
				j.take(r)
			case <-j.done:
				return 0, net.ErrClosed
			}
		}
	}
	if len(j.pend) == 0 {
		err := j.err
		if ne, ok := err.(net.Error); ok && ne.Timeout() {
			j.err = nil // reported once, as the connection itself would
		}
		return 0, err
	}
	n := copy(p, j.pend)
	j.pend = j.pend[n:]
	if len(j.pend) > 0 {
		return n, nil
	}
	if j.ahead == nil {
		t := time.NewTimer(joinHold)
		select {
		case r := <-j.ch:
			j.ahead = &r
		case <-t.C:
		case <-j.done:
		}
		t.Stop()
	}
	if j.ahead != nil && j.ahead.err == io.EOF {
		j.err, j.ahead = io.EOF, nil
		j.joined.Add(1)
		return n, io.EOF
	}
	return n, nil
}

// joinConn is the client leg of a "ce-" configuration: the accepted connection (forwarder's tracked
// connection) embedded, so that CloseWrite is found the way it is for forwarder's own wrappers, with Read
// going through a joinReader. It offers no ReadFrom / WriteTo.
type joinConn struct {
	net.Conn
	jr *joinReader
}

func (c *joinConn) Read(p []byte) (int, error) { return c.jr.Read(p) }
func (c *joinConn) Close() error               { c.jr.stop(); return c.Conn.Close() }

type joinListener struct {
	net.Listener
	e *env
}

func (l *joinListener) Accept() (net.Conn, error) {
	c, err := l.Listener.Accept()
	if err != nil {
		return nil, err
	}
	jr := newJoinReader(c, &l.e.joined)
	l.e.joins.Store(c.RemoteAddr().String(), jr)
	return &joinConn{Conn: c, jr: jr}, nil
}

// readsOf: the Read calls of the scripted leg whose far end has this address (nil: no such leg).
func (e *env) readsOf(addr string) []readRec {
	if v, ok := e.joins.LoadAndDelete(addr); ok {
		return v.(*joinReader).reads()
	}
	return nil
}

// compareCopyLoop: the copy loop of Model/C03.lean (verb copyloop) on the very Read results a scripted source leg
// handed the proxy - head / reply included, they pass through the same leg - must write what the destination
// endpoint received and end the way it saw the stream end; and its outcome must not depend on how the end of
// the stream was encoded.
func (e *env) compareCopyLoop(ctx *core.Ctx, tc *tunnelCase, obs *tunnelObs, impl string) bool {
	rf := "-"
	if e.spec.trackTraffic {
		rf = "bytes" // conntrack's ReadFrom (delegating to the TCP connection's): processes the bytes first
	}
	for _, x := range []struct {
		name   string
		reads  []readRec
		stream []byte // everything the endpoint wrote into the leg
		skip   int    // … of which the tunnel does not carry the first skip bytes (request head / reply)
		d      *dirObs
	}{
		{"client→target", obs.upReads, append([]byte(obs.ClientHeadSent), obs.Up.sent...), obs.HeadLen, &obs.Up},
		{"target→client", obs.downReads, append(append([]byte(nil), obs.replySent...), obs.Down.sent...), len(obs.replySent), &obs.Down},
	} {
		if x.reads == nil || len(x.stream) > 40000 {
			continue
		}
		var rs []string
		off, joined, ok := 0, false, true
		for _, r := range x.reads {
			if off+r.n > len(x.stream) {
				ok = false
				break
			}
			h := core.Hex(x.stream[off : off+r.n])
			off += r.n
			switch {
			case r.bad:
				rs = append(rs, "x:"+h)
			case r.eof && r.n > 0:
				rs, joined = append(rs, "de:"+h), true
			case r.eof:
				rs = append(rs, "e")
			default:
				rs = append(rs, "d:"+h)
			}
		}
		if !ok || off != len(x.stream) {
			ctx.Disagree("a scripted source leg hands the proxy exactly what the endpoint wrote into it", tc, impl,
				fmt.Sprintf("%s: %d bytes in %d Read calls, %d bytes written by the endpoint", x.name, off, len(x.reads), len(x.stream)))
			return false
		}
		ans := ctx.Model.MustAsk("C03", "copyloop", "-", rf, core.JoinList2(rs))
		kv := map[string]string{}
		for _, f := range strings.Fields(ans) {
			if i := strings.IndexByte(f, '='); i > 0 {
				kv[f[:i]] = f[i+1:]
			}
		}
		if !strings.HasPrefix(ans, "ok ") {
			core.Fatalf("C03: the model rejected a sequence of read results: %s (%v)", ans, rs)
		}
		w := core.MustUnHex(kv["written"])
		if len(w) >= x.skip {
			w = w[x.skip:]
		}
		ctx.Count("model/copy-loop-on-the-real-read-results")
		if joined {
			ctx.Count("model/copy-loop-on-the-real-read-results/last-bytes-returned-with-eof")
		}
		if !bytes.Equal(w, x.d.got) || kv["returned"] != "1" || (kv["clean"] == "1") != x.d.EOF ||
			kv["same-split"] != "1" || kv["same-joined"] != "1" {
			ctx.Disagree("what a scripted source leg handed over, copied by the model's loop (copyloop), is what the destination received", tc, impl,
				fmt.Sprintf("%s: model wrote %d tunnel bytes (first diff %d) returned=%s clean=%s same-split=%s same-joined=%s; destination got %d bytes eof=%v; %d Read calls",
					x.name, len(w), firstDiff(x.d.got, w), kv["returned"], kv["clean"], kv["same-split"], kv["same-joined"], x.d.Got, x.d.EOF, len(x.reads)))
			return false
		}
	}
	return true
}

// ---- generator ----

// tail sizes: 1 B … several buffers, around the TLS record (16 KiB) and the copy buffer (32 KiB) and multiples
var eosTails = []int{1, 2, 3, 100, 1460, 4095, 4096, 4097, 16383, 16384, 16385, 16384 + 1460, 32767, 32768, 32769,
	49151, 49152, 49153, 65535, 65536, 65537, 98303, 98304, 98305, 131072, 131073, 3*32768 + 16385}

func pickTail(r *core.Rand) int {
	if r.Chance(20) {
		return r.Range(1, 70000)
	}
	return core.Pick(r, eosTails)
}

// pickBefore: how much of the stream precedes the tail - nothing (the tail is the first and last read), what
// one read takes, whole buffers give or take a byte, many reads.
func pickBefore(r *core.Rand) int {
	switch x := r.Intn(100); {
	case x < 25:
		return 0
	case x < 45:
		return r.Range(1, 3000)
	case x < 65:
		return core.Pick(r, []int{16383, 16384, 16385, 32767, 32768, 32769, 65535, 65536, 65537})
	case x < 90:
		return r.Range(40000, 400000)
	default:
		return r.Range(400000, 1500000)
	}
}

// addEOS decides how the two streams of a generated tunnel END (also for the ordinary configurations).
func addEOS(r *core.Rand, tc *tunnelCase, share int) {
	for _, d := range []struct{ tail, gap *int }{{&tc.UpTail, &tc.UpGapMs}, {&tc.DownTail, &tc.DownGapMs}} {
		switch x := r.Intn(100); {
		case x < share:
			*d.tail = pickTail(r)
		case x < share+(100-share)/3:
			*d.gap = core.Pick(r, []int{2, 5, 20})
		}
	}
}

func genEOSCase(r *core.Rand, mode, order string, quick bool) *tunnelCase {
	tc := &tunnelCase{Kind: "tunnel", Mode: mode, Seed: r.U64(), Order: order}
	addEOS(r, tc, 80)
	small := r.Chance(35) // a tunnel the model's copy loop / byte-for-byte run can follow
	before := func() int {
		if small {
			return core.Pick(r, []int{0, 0, 1, 7, 300, 1460, 3000})
		}
		return pickBefore(r)
	}
	if small {
		for _, t := range []*int{&tc.UpTail, &tc.DownTail} {
			if *t > 0 {
				*t = core.Pick(r, []int{1, 2, 3, 100, 1460, 4095, 4096, 4097})
			}
		}
	}
	// the bytes of the phase the half-close follows: before + tail; the other phase of a sequenced order is short
	upLast, downLast := before()+tc.UpTail, before()+tc.DownTail
	other := func() int {
		if r.Chance(40) {
			return 0
		}
		if small {
			return r.Range(1, 2000)
		}
		return r.Range(1, 40000)
	}
	tc.Up1, tc.Down1 = upLast, downLast
	switch order {
	case "client-first":
		tc.Down1, tc.Down2 = other(), downLast
	case "target-first":
		tc.Up1, tc.Up2 = other(), upLast
	}
	if order != "simultaneous" {
		tc.HoldMs = core.Pick(r, []int{0, 0, 1, 5, 20})
	}
	switch x := r.Intn(100); {
	case x < 50:
	case x < 70:
		tc.Early = tc.Up1
	default:
		tc.Early = r.Range(1, 6000)
	}
	if tc.Early > tc.Up1 {
		tc.Early = tc.Up1
	}
	if order != "target-first" && tc.UpTail > 0 && tc.Early > tc.Up1-tc.UpTail && r.Chance(80) {
		tc.Early = tc.Up1 - tc.UpTail // the tail is written after the head, as the last write
	}
	if r.Chance(25) {
		tc.HeadCuts = []int{0}
	}
	tc.WaitReply = r.Chance(60)
	if r.Chance(40) {
		tc.Coalesce = r.Range(1, 5000)
		if tc.Coalesce > tc.Down1 {
			tc.Coalesce = tc.Down1
		}
	}
	if order != "client-first" && tc.DownTail > 0 && tc.Coalesce > tc.Down1-tc.DownTail {
		tc.Coalesce = tc.Down1 - tc.DownTail
	}
	tc.UpSegs = pickSegs(r, tc.Up1+tc.Up2)
	tc.DownSegs = pickSegs(r, tc.Down1+tc.Down2)
	if baseMode(mode) == "upgrade" && r.Chance(50) {
		tc.UpgradeReq = r.Range(1, len(upgradeReqs)-1)
	}
	_ = quick
	return tc
}

// sourceLeg names what the proxy reads a direction from, as far as the end of the stream is concerned.
func sourceLeg(e *env, up bool) string {
	m := e.spec
	tlsName := "tls1.3"
	if m.tls12 {
		tlsName = "tls1.2"
	}
	if up {
		switch {
		case m.clientJoin:
			return "scripted-data-with-eof"
		case m.tlsListener:
			return tlsName
		case m.rateLimited:
			return "rate-limited"
		}
		return "tcp"
	}
	switch m.base {
	case "cf-dataeof":
		return "scripted-data-with-eof"
	case "https", "connecttls", "terminate":
		return tlsName
	case "upgrade":
		return "http-101-body"
	case "direct", "http", "socks5":
		return "tcp"
	}
	return "connectfunc-" + strings.TrimPrefix(m.base, "cf-")
}

func destLeg(e *env, up bool) string {
	m := e.spec
	tr := "conntrack"
	if m.trackTraffic {
		tr = "conntrack+traffic"
	}
	if up {
		switch m.base {
		case "direct", "http", "socks5":
			return tr
		case "https", "terminate":
			return "tls-over-" + tr
		case "upgrade":
			return "http-101-body-over-" + tr
		}
		return "connectfunc"
	}
	switch {
	case m.clientJoin:
		return "scripted-over-" + tr
	case m.tlsListener:
		return "tls-over-" + tr
	case m.rateLimited:
		return tr + "-over-rate-limited"
	}
	return tr
}

func endShape(tail, gap int) string {
	switch {
	case tail > 0:
		return "last-bytes-and-half-close-together/" + sizeBucket(tail)
	case gap > 0:
		return "half-close-after-a-pause"
	}
	return "half-close-right-after-the-pattern's-last-write"
}

// countEOS: the histogram of the leg pairs and stream ends a tunnel exercised (every tunnel, ordinary ones too).
func (e *env) countEOS(ctx *core.Ctx, tc *tunnelCase) {
	ctx.Count("leg-pair/up/" + sourceLeg(e, true) + "→" + destLeg(e, true))
	ctx.Count("leg-pair/down/" + sourceLeg(e, false) + "→" + destLeg(e, false))
	ctx.Count("stream-end/up/" + endShape(tc.UpTail, tc.UpGapMs))
	ctx.Count("stream-end/down/" + endShape(tc.DownTail, tc.DownGapMs))
	if e.spec.tls12 && (tc.UpTail > 0 && e.spec.tlsListener || tc.DownTail > 0 && sourceLeg(e, false) == "tls1.2") {
		ctx.Count("stream-end/tls1.2-final-records-and-close_notify-in-one-segment")
	}
}

// runEOSPhase: ordinary tunnels through the configurations of eosModes.
func runEOSPhase(ctx *core.Ctx, pool *envPool) {
	modes := eosModes
	if v := os.Getenv("VERIF_C03_EOS_MODES"); v != "" { // development aid
		modes = strings.Split(v, ",")
	}
	n := ctx.N(6*len(eosModes), 40*len(eosModes))
	jobs := make(chan *tunnelCase, 32)
	var wg sync.WaitGroup
	for w := 0; w < 12; w++ {
		wg.Add(1)
		go func() {
			defer wg.Done()
			for tc := range jobs {
				if ctx.NumFindings() >= 4 {
					continue
				}
				e, err := pool.get(tc.Mode)
				if err != nil {
					ctx.Crash("proxy starts with a valid configuration", "", tc, err.Error())
					continue
				}
				e.runAndEvaluate(ctx, tc)
			}
		}()
	}
	start := ctx.Elapsed()
	for i := 0; i < n; i++ {
		if ctx.NumFindings() >= 4 {
			break
		}
		if ctx.Quick() && i >= 2*len(modes) && ctx.Elapsed()-start > 25*time.Second {
			ctx.Count("eos/stopped-at-time-budget")
			break
		}
		r := ctx.Rng.Sub()
		mode := modes[i%len(modes)]
		order := orders[(i/len(modes)+i%len(modes))%len(orders)]
		jobs <- genEOSCase(r, mode, order, ctx.Quick())
	}
	close(jobs)
	wg.Wait()
	var joined int64
	pool.mu.Lock()
	for _, e := range pool.envs {
		joined += e.joined.Load()
	}
	pool.mu.Unlock()
	ctx.Extra("reads_that_returned_data_together_with_eof_from_scripted_legs", joined)
}
