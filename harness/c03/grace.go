package c03

// The grace period of a tunnel (copy.go bicopy / gracefulCloseAfter), exercised on the clock.
//
// bicopy starts gracefulCloseAfter(ctx, bicopyGracefulTimeout, …) when the FIRST copy direction has
// finished, and cancels it when the second one has. The period is one minute; the verification hook
// martian.VerifSetBicopyGracefulTimeout (build tag verif) sets it to a few hundred milliseconds for the
// cases of this file. The variable is process-global: the grace cases run in a phase of their own, after
// the ordinary tunnels, one value per batch; inside a batch every proxy configuration of the scenario
// runs the same plan at the same time (a configuration = its own proxy = its own connection gauges).
//
// Every tunnel is judged twice: directly (sharp lower bounds: nothing that shows the forced close may be
// observed before first finish + period, where "first finish" is stamped BEFORE the source calls
// CloseWrite and every observation AFTER the call that made it; generous upper bounds) and by the timed
// machine of Model/C03.lean (verb `trun`), driven with the history the endpoints observed: ticks in
// milliseconds, `eu`/`ed` where the half-close was called, `ge` where the forced close was first seen.
// The machine accepts that history iff the close is inside [first finish + period, … + slack].

import (
	"bufio"
	"context"
	"crypto/tls"
	"encoding/json"
	"errors"
	"fmt"
	"io"
	"net"
	"os"
	"sort"
	"strconv"
	"strings"
	"sync"
	"sync/atomic"
	"time"

	"github.com/saucelabs/forwarder/internal/martian"
	mlog "github.com/saucelabs/forwarder/internal/martian/log"
	"github.com/saucelabs/forwarder/verifharness/core"
)

// graceTunnel is the plan of one tunnel of a grace case.
type graceTunnel struct {
	// StartMs: when the tunnel is opened, relative to the start of the case; After: not before the
	// previous tunnel of the case is over (then StartMs counts from that moment)
	StartMs int  `json:"start_ms"`
	After   bool `json:"after_previous,omitempty"`
	// Plan "cut": the First endpoint half-closes FinMs after the tunnel is up, the other one keeps
	// writing every IntervalMs until the proxy cuts the tunnel. Plan "finish": the First endpoint
	// half-closes at FinMs, the other one SecondMs after it has seen that end-of-stream; nobody is cut.
	// Plan "reply-after-eof" runs like "finish" - the second endpoint writes every IntervalMs until it has READ
	// the first one's end-of-stream, SecondMs longer (its reply), then half-closes - and is judged by the
	// property's clause alone: end-of-stream promptly after the last byte, while the opposite direction keeps
	// flowing. Generated for far legs the proxy cannot half-close (known finding F48).
	Plan       string `json:"plan"`
	First      string `json:"first"` // "client" | "target"
	FinMs      int    `json:"fin_ms"`
	SecondMs   int    `json:"second_ms,omitempty"`
	IntervalMs int    `json:"interval_ms"`
	// QuietAfterMs (plan "cut", 0 = never): the endpoint that stays open stops writing this long after the
	// first finish and only keeps its socket open: the forced close has to close that leg by itself
	QuietAfterMs int `json:"quiet_after_ms,omitempty"`
	ChunkMax     int `json:"chunk_max"`
	Early        int `json:"early"`    // bytes of the client's payload in the same write as the request head
	Coalesce     int `json:"coalesce"` // bytes of the far side's payload in the same write as its reply
	// Quiet (longevity.go): windows [from, to) in ms after the tunnel is up in which NEITHER endpoint writes
	Quiet [][2]int `json:"quiet_windows_ms,omitempty"`
	// SecondOnFin (plan "finish"): the second endpoint goes on until the first one's CloseWrite has returned
	// (known in-process) instead of until it has read that end-of-stream: a far leg the proxy cannot
	// half-close is only shown it when the tunnel is closed
	SecondOnFin bool `json:"second_goes_on_until_first_has_half_closed,omitempty"`
}

// graceCase is one scenario of the grace period in one proxy configuration.
type graceCase struct {
	Kind     string        `json:"kind"` // "grace"
	Mode     string        `json:"mode"`
	Seed     uint64        `json:"seed"`
	Variant  string        `json:"variant"`
	PeriodMs int           `json:"period_ms"` // what the hook sets bicopyGracefulTimeout to
	SlackMs  int           `json:"slack_ms"`  // generous: the forced close is seen at most this long after its deadline
	PromptMs int           `json:"prompt_ms"` // generous: sockets of a tunnel both directions of which finished are closed within
	Tunnels  []graceTunnel `json:"tunnels"`
	// Limits (longevity.go): the timeouts the configuration's proxy, transport and dialers run with
	Limits *limitsMs `json:"limits_ms,omitempty"`
}

const graceMarginUs = 150_000 // a write completed this long before the deadline must have been relayed

// ---- the proxy's log: "forcibly closing tunnel after graceful period" ----

type graceLogger struct {
	forced atomic.Int64
	mu     sync.Mutex
	period []string
}

var theGraceLog = &graceLogger{}

func (l *graceLogger) ErrorContext(context.Context, string, ...any) {}
func (l *graceLogger) WarnContext(context.Context, string, ...any)  {}
func (l *graceLogger) DebugContext(context.Context, string, ...any) {}
func (l *graceLogger) With(...any) mlog.StructuredLogger            { return l }
func (l *graceLogger) InfoContext(_ context.Context, msg string, args ...any) {
	if msg != "forcibly closing tunnel after graceful period" {
		return
	}
	l.forced.Add(1)
	for i := 0; i+1 < len(args); i += 2 {
		if k, _ := args[i].(string); k == "period" {
			l.mu.Lock()
			if len(l.period) < 4096 {
				l.period = append(l.period, fmt.Sprint(args[i+1]))
			}
			l.mu.Unlock()
		}
	}
}

// takePeriods returns the `period` values logged since the last call.
func (l *graceLogger) takePeriods() []string {
	l.mu.Lock()
	defer l.mu.Unlock()
	p := l.period
	l.period = nil
	return p
}

var graceLogOnce sync.Once

// installGraceLog must run before the first proxy is started (martian's logger is a plain global).
func installGraceLog() { graceLogOnce.Do(func() { mlog.SetLogger(theGraceLog) }) }

// ---- observation ----

type gWrite struct {
	start, end     int   // offsets into the direction's payload
	atStart, atEnd int64 // case clock (µs) before / after the Write call
}

// gFlow is what the two endpoints of one direction observed (case clock, µs; -1 = did not happen).
type gFlow struct {
	name       string
	sent, got  []byte
	writes     []gWrite
	finAt      int64 // stamped BEFORE the source calls CloseWrite
	finDoneAt  int64
	eofAt      int64 // the destination read a clean end-of-stream
	readEndAt  int64 // the destination's read ended (end-of-stream or error)
	readEnd    string
	writeErrAt int64
	writeErr   string
	lastGotAt  int64
}

func newFlow(name string) *gFlow {
	return &gFlow{name: name, finAt: -1, finDoneAt: -1, eofAt: -1, readEndAt: -1, writeErrAt: -1, lastGotAt: -1}
}

type gTunnelObs struct {
	Plan     graceTunnel
	Status   int
	Error    string
	t0       int64 // the client has read the proxy's 2xx / 101
	up, down *gFlow
	head     []byte
	reply    []byte
	sentPre  int
	endAt    int64
	heldTo   int64 // quiet tunnels: until when the harness kept both its sockets open after the cut was seen, -1 n/a
	// quiet tunnels: the proxy held no socket any more while the harness still held both of its own
	heldClosed   bool
	heldC, heldT float64
	lower        int64 // no socket of this tunnel may be seen closed before (sharp)
	upper        int64 // … and both are by then (generous)
	closeAt      int64 // earliest observation of the tunnel being closed, -1 none
	closeBy      string
	// forced: the tunnel was ended by the grace timer (plan "cut"; plan "reply-after-eof" in the shape of F48)
	forced bool
}

// firstFlow: the direction that finishes first.
func (o *gTunnelObs) firstFlow() *gFlow {
	if o.Plan.First == "target" {
		return o.down
	}
	return o.up
}

type gCaseObs struct {
	tunnels  []*gTunnelObs
	downC    []int64 // instants at which the client-side gauge went down by one
	downT    []int64
	gaugeErr string
	cutsRun  int // tunnels of plan "cut" whose first endpoint did half-close: each makes the proxy's timer fire once
	endAt    int64
}

// ---- running one case ----

func (e *env) runGraceCase(gc *graceCase) *gCaseObs {
	co := &gCaseObs{}
	if c, t, err := e.awaitClosed(5 * time.Second); err != nil || c != 0 || t != 0 {
		co.gaugeErr = fmt.Sprintf("before the case the proxy holds %v client-side / %v target-side sockets (err %v)", c, t, err)
		return co
	}
	cs := time.Now()
	clock := func() int64 { return time.Since(cs).Microseconds() }

	// the proxy's own sockets: every close (connections accepted / dialed so far minus those still active)
	// with the instant at which it was seen (after the fact: a lower bound holds)
	lc, lt, err := e.closedSockets() // nothing is open, nothing is arriving: exact
	if err != nil {
		co.gaugeErr = err.Error()
		return co
	}
	stopG := make(chan struct{})
	var gwg sync.WaitGroup
	gwg.Add(1)
	go func() {
		defer gwg.Done()
		// a close counts when two consecutive readings show it
		pc, pt := lc, lt
		sample := func() bool {
			c, t, err := e.closedSockets()
			now := clock()
			if err != nil {
				co.gaugeErr = err.Error()
				return false
			}
			for ; lc < c && lc < pc; lc++ {
				co.downC = append(co.downC, now)
			}
			for ; lt < t && lt < pt; lt++ {
				co.downT = append(co.downT, now)
			}
			pc, pt = c, t
			return true
		}
		for sample() {
			select {
			case <-stopG:
				sample() // whatever happened up to the end of the case is seen
				sample()
				return
			case <-time.After(2 * time.Millisecond):
			}
		}
	}()

	r := core.NewRand(gc.Seed)
	co.tunnels = make([]*gTunnelObs, len(gc.Tunnels))
	var wg sync.WaitGroup
	prevDone := make(chan struct{})
	close(prevDone)
	for i := range gc.Tunnels {
		i := i
		gt := gc.Tunnels[i]
		seed := r.U64()
		waitFor := prevDone
		done := make(chan struct{})
		prevDone = done
		wg.Add(1)
		go func() {
			defer wg.Done()
			defer close(done)
			if gt.After {
				<-waitFor
				if i > 0 && (co.tunnels[i-1] == nil || co.tunnels[i-1].overdue()) {
					return // do not sit through more of the same
				}
			}
			time.Sleep(time.Duration(gt.StartMs) * time.Millisecond)
			co.tunnels[i] = e.runGraceTunnel(gc, gt, seed, clock)
		}()
	}
	wg.Wait()
	// let the gauges settle: the last tunnel's sockets are closed asynchronously
	dl := time.Now().Add(time.Duration(gc.PromptMs+gc.SlackMs) * time.Millisecond)
	for time.Now().Before(dl) {
		if c, t, err := e.openSockets(); err != nil || (c == 0 && t == 0) {
			break
		}
		time.Sleep(2 * time.Millisecond)
	}
	close(stopG)
	gwg.Wait()
	co.endAt = clock()
	for _, o := range co.tunnels {
		if o != nil && o.Plan.Plan == "cut" && o.Error == "" {
			if f := o.firstFlow(); f.finDoneAt >= 0 {
				co.cutsRun++
			}
		}
	}
	return co
}

func (e *env) runGraceTunnel(gc *graceCase, gt graceTunnel, seed uint64, clock func() int64) *gTunnelObs {
	o := &gTunnelObs{Plan: gt, up: newFlow("client→target"), down: newFlow("target→client"), closeAt: -1, heldTo: -1}
	defer func() { o.endAt = clock() }()
	e.tunnels.Add(1)
	r := core.NewRand(seed)
	period := time.Duration(gc.PeriodMs) * time.Millisecond
	// hard limit of the tunnel: everything that should happen has happened by then
	life := time.Duration(gt.FinMs+gt.SecondMs)*time.Millisecond + period + time.Duration(gc.SlackMs)*time.Millisecond + 700*time.Millisecond
	deadline := time.Now().Add(life + 10*time.Second)

	var far string
	if e.slots != nil {
		i := <-e.slots
		defer func() { e.slots <- i }()
		far = fmt.Sprintf("slot%d", i)
	} else {
		far = nextCaseName()
	}
	farCh := e.reg.expect(far)
	defer e.reg.forget(far)

	upData := payload(seed, 64<<10)
	downData := payload(seed^0xd0d0d0d0d0d0d0d0, 64<<10)
	head := clientHead(&tunnelCase{Mode: gc.Mode}, far)
	o.head = head

	tcpConn, err := net.DialTimeout("tcp", e.proxy.Addr, 5*time.Second)
	if err != nil {
		o.Error = "dial proxy: " + err.Error()
		return o
	}
	var conn net.Conn = tcpConn
	defer func() { conn.Close() }()
	if e.spec.tlsListener {
		tconn := tls.Client(tcpConn, &tls.Config{InsecureSkipVerify: true})
		tconn.SetDeadline(time.Now().Add(20 * time.Second))
		if err := tconn.Handshake(); err != nil {
			o.Error = "TLS handshake with the proxy's listener: " + errKind(err)
			return o
		}
		conn = tconn
	}
	conn.SetDeadline(deadline)
	cbr := bufio.NewReaderSize(conn, 64<<10)

	// request head and early data in one write
	t1 := clock()
	if _, err := conn.Write(append(append([]byte(nil), head...), upData[:gt.Early]...)); err != nil {
		o.Error = "write request: " + errKind(err)
		return o
	}
	upOff := gt.Early
	if gt.Early > 0 {
		o.up.writes = append(o.up.writes, gWrite{0, gt.Early, t1, clock()})
	}
	var fe *farEnd
	select {
	case fe = <-farCh:
	case <-time.After(15 * time.Second):
		o.Error = "no connection reached the far side"
		return o
	}
	defer close(fe.release)
	fe.conn.SetDeadline(deadline)
	o.reply = append(append([]byte(nil), socksPre[:fe.sentPre]...), fe.reply...)
	o.sentPre = fe.sentPre
	t1 = clock()
	if first := append(append([]byte(nil), fe.reply...), downData[:gt.Coalesce]...); len(first) > 0 {
		if _, err := fe.conn.Write(first); err != nil {
			o.Error = "far side's reply: " + errKind(err)
			return o
		}
	}
	downOff := gt.Coalesce
	if gt.Coalesce > 0 {
		o.down.writes = append(o.down.writes, gWrite{0, gt.Coalesce, t1, clock()})
	}
	h, err := readHead(cbr)
	if err != nil {
		o.Error = "proxy's reply: " + errKind(err)
		return o
	}
	if f := strings.Fields(string(h)); len(f) >= 2 {
		o.Status, _ = strconv.Atoi(f[1])
	}
	if o.Status != 200 && o.Status != 101 {
		o.Error = fmt.Sprintf("proxy answered %d", o.Status)
		return o
	}
	o.t0 = clock()
	t0 := time.Now()

	type side struct {
		w      net.Conn
		cw     func() error
		flow   *gFlow // the direction this side writes
		data   []byte
		off    int
		reader io.Reader
		rflow  *gFlow // the direction this side reads
		rng    *core.Rand
	}
	client := &side{w: conn, cw: func() error { return conn.(interface{ CloseWrite() error }).CloseWrite() },
		flow: o.up, data: upData, off: upOff, reader: cbr, rflow: o.down, rng: r.Sub()}
	target := &side{w: fe.conn, cw: fe.closeWrite, flow: o.down, data: downData, off: downOff, reader: fe.br, rflow: o.up, rng: r.Sub()}
	first, second := client, target
	if gt.First == "target" {
		first, second = target, client
	}

	var mu sync.Mutex // guards the flows' slices between writer and reader goroutines of one direction
	read := func(s *side, seen chan<- struct{}) {
		f := s.rflow
		buf := make([]byte, 32<<10)
		for {
			n, err := s.reader.Read(buf)
			now := clock()
			if n > 0 {
				mu.Lock()
				f.got = append(f.got, buf[:n]...)
				f.lastGotAt = now
				mu.Unlock()
			}
			if err != nil {
				mu.Lock()
				f.readEndAt, f.readEnd = now, errKind(err)
				if errors.Is(err, io.EOF) {
					f.eofAt = now
				}
				mu.Unlock()
				close(seen)
				return
			}
		}
	}
	// trickle writes one chunk every interval until `until` has passed (zero: until it fails or `stop`
	// is closed); returns false when a write failed
	trickle := func(s *side, until time.Time, stop <-chan struct{}) bool {
		f := s.flow
		iv := time.Duration(gt.IntervalMs) * time.Millisecond
		for {
			if !until.IsZero() && !time.Now().Before(until) {
				return true
			}
			select {
			case <-stop:
				return true
			default:
			}
			if q := quietFor(gt.Quiet, time.Since(t0)); q > 0 {
				if !until.IsZero() {
					if d := time.Until(until); d < q {
						q = d
					}
				}
				select {
				case <-stop:
					return true
				case <-time.After(q):
				}
				continue
			}
			n := s.rng.Range(1, gt.ChunkMax)
			if s.off+n > len(s.data) {
				return true // the payload is used up (never in practice)
			}
			a := clock()
			_, err := s.w.Write(s.data[s.off : s.off+n])
			b := clock()
			if err != nil {
				mu.Lock()
				f.writeErrAt, f.writeErr = b, errKind(err)
				mu.Unlock()
				return false
			}
			mu.Lock()
			f.writes = append(f.writes, gWrite{s.off, s.off + n, a, b})
			mu.Unlock()
			s.off += n
			wait := iv
			if !until.IsZero() {
				if d := time.Until(until); d < wait {
					wait = d
				}
			}
			select {
			case <-stop:
				return true
			case <-time.After(wait):
			}
		}
	}
	halfClose := func(s *side) {
		a := clock()
		err := s.cw()
		mu.Lock()
		s.flow.finAt = a
		if err != nil {
			s.flow.writeErrAt, s.flow.writeErr = clock(), "closewrite: "+errKind(err)
		} else {
			s.flow.finDoneAt = clock()
		}
		mu.Unlock()
	}

	clientSeen, targetSeen := make(chan struct{}), make(chan struct{}) // the side's read has ended
	var wg sync.WaitGroup
	wg.Add(2)
	go func() { defer wg.Done(); read(client, clientSeen) }()
	go func() { defer wg.Done(); read(target, targetSeen) }()
	firstSeen, secondSeen := clientSeen, targetSeen // firstSeen: the FIRST side's reader ended
	if first == target {
		firstSeen, secondSeen = targetSeen, clientSeen
	}
	finAt := t0.Add(time.Duration(gt.FinMs) * time.Millisecond)
	never := make(chan struct{})
	firstFin := make(chan struct{}) // the first side's CloseWrite has returned (or it gave up)
	wg.Add(2)
	go func() { // the side that half-closes first
		defer wg.Done()
		defer close(firstFin)
		if trickle(first, finAt, never) {
			halfClose(first)
		}
	}()
	go func() { // the other side
		defer wg.Done()
		switch gt.Plan {
		case "cut":
			// keeps writing until a write fails (or, quiet, until QuietAfterMs after the first finish, then
			// only holds its socket); gives up when the tunnel is overdue beyond every bound
			until := t0.Add(life)
			if gt.QuietAfterMs > 0 {
				until = finAt.Add(time.Duration(gt.QuietAfterMs) * time.Millisecond)
			}
			trickle(second, until, never)
		default:
			// keeps writing until it has seen the first side's end-of-stream, and SecondMs longer
			goOn := (<-chan struct{})(secondSeen)
			if gt.SecondOnFin {
				goOn = firstFin
			}
			if !trickle(second, time.Time{}, goOn) {
				return
			}
			if !trickle(second, time.Now().Add(time.Duration(gt.SecondMs)*time.Millisecond), never) {
				return
			}
			halfClose(second)
		}
	}()
	// the readers end when the proxy closes (forced close, or both directions finished); a tunnel that is
	// never closed is given up at `life`
	go func() {
		select {
		case <-time.After(time.Until(t0.Add(life))):
			conn.SetDeadline(time.Now())
			fe.conn.SetDeadline(time.Now())
		case <-firstSeen:
		}
	}()
	wg.Wait()
	if gt.Plan == "cut" && gt.QuietAfterMs > 0 {
		// the first side has seen the cut; nothing the harness does may help the proxy to close the other
		// leg: both sockets of the harness stay open until the proxy holds none (or for a generous while)
		hold := time.Now().Add(time.Duration(gc.PromptMs) * time.Millisecond)
		for time.Now().Before(hold) {
			if c, t, err := e.openSockets(); err != nil || (c == 0 && t == 0) {
				o.heldClosed = true
				break
			}
			time.Sleep(2 * time.Millisecond)
		}
		o.heldC, o.heldT, _ = e.openSockets()
		time.Sleep(8 * time.Millisecond) // the gauge poller's turn
		o.heldTo = clock()
	}
	mu.Lock()
	defer mu.Unlock()
	o.up.sent, o.down.sent = upData[:client.off], downData[:target.off]
	return o
}

// quietFor: how much longer the quiet window lasts that `since` (time since the tunnel was up) falls into.
func quietFor(windows [][2]int, since time.Duration) time.Duration {
	for _, w := range windows {
		if from, to := msDur(w[0]), msDur(w[1]); since >= from && since < to {
			return to - since
		}
	}
	return 0
}

// ---- judging ----

type gFinding struct {
	sharp  bool // a sharp bound or a content check failed (load cannot cause it)
	kind   string
	clause string
	detail string
	class  string // known-finding class, decided from the case alone ("" = none)
}

// classF48: a far leg without any CloseWrite cannot relay the client's half-close (known_findings.json F48).
const classF48 = "connectfunc-leg-without-closewrite"

// inF48 decides the class from the INPUT alone: a ConnectFunc leg without any CloseWrite, the client
// half-closes first, and the far end needs that half-close relayed (it replies after end-of-stream).
func inF48(mode string, gt graceTunnel) bool {
	return gt.Plan == "reply-after-eof" && gt.First == "client" && !gt.SecondOnFin && !legCanHalfClose(mode)
}

func ms(us int64) int64 {
	if us < 0 {
		return -1
	}
	return us / 1000
}

func (f *gFlow) summary() string {
	return fmt.Sprintf("%s{sent=%d got=%d writes=%d fin@%d eof@%d readend=%q@%d werr=%q@%d}", f.name, len(f.sent), len(f.got),
		len(f.writes), ms(f.finAt), ms(f.eofAt), f.readEnd, ms(f.readEndAt), f.writeErr, ms(f.writeErrAt))
}

func (o *gTunnelObs) summary() string {
	if o == nil {
		return "tunnel not run"
	}
	return fmt.Sprintf("plan=%s first=%s quiet-after=%d status=%d err=%q up@%dms %s %s lower=%d upper=%d close@%d(%s) harness-held-its-sockets-to=%d end@%d", o.Plan.Plan, o.Plan.First, o.Plan.QuietAfterMs, o.Status, o.Error,
		ms(o.t0), o.up.summary(), o.down.summary(), ms(o.lower), ms(o.upper), ms(o.closeAt), o.closeBy, ms(o.heldTo), ms(o.endAt))
}

func (co *gCaseObs) summary() string {
	var b strings.Builder
	for i, o := range co.tunnels {
		fmt.Fprintf(&b, "tunnel %d: %s; ", i, o.summary())
	}
	msOf := func(xs []int64) []int64 {
		out := make([]int64, len(xs))
		for i, x := range xs {
			out[i] = ms(x)
		}
		return out
	}
	fmt.Fprintf(&b, "client-side gauge went down at %v ms, target-side at %v ms; case ended at %d ms", msOf(co.downC), msOf(co.downT), ms(co.endAt))
	return b.String()
}

// judgeTunnel evaluates one tunnel directly and fills lower / upper / closeAt.
func judgeTunnel(gc *graceCase, o *gTunnelObs) (fs []gFinding) {
	add := func(sharp bool, kind, clause, detail string) { fs = append(fs, gFinding{sharp, kind, clause, detail, ""}) }
	P := int64(gc.PeriodMs) * 1000
	slack, prompt := int64(gc.SlackMs)*1000, int64(gc.PromptMs)*1000
	F, D := o.up, o.down // F: the direction that finishes first, D: the other one
	if o.Plan.First == "target" {
		F, D = o.down, o.up
	}
	for _, f := range []*gFlow{o.up, o.down} {
		if firstDiff(f.got, f.sent) >= 0 {
			add(true, "content", "every byte is delivered exactly once and in order ("+f.name+")",
				fmt.Sprintf("first differing offset %d; got %d bytes, sent %d", firstDiff(f.got, f.sent), len(f.got), len(f.sent)))
		}
	}
	// the direction that finishes first: end-of-stream after the last byte, promptly
	if F.finDoneAt < 0 {
		if F.finAt < 0 && F.writeErr != "" {
			// its writes failed before it got to half-close: the tunnel was cut while both directions were alive
			clause := "while no direction has finished nothing is closed: the grace timer is not started with the tunnel (" + F.name + ")"
			if gc.Limits != nil {
				clause = fmt.Sprintf("an established tunnel is not subject to the limits of the request or the dial that opened it (all of them %d ms or less) (%s)", gc.Limits.largest(), F.name)
			}
			add(true, "cut", clause,
				fmt.Sprintf("the tunnel was up at %d ms, period %d ms; no endpoint had half-closed (the first was to do so %d ms after the tunnel was up) when a write of %s failed with %q at %d ms; the other direction: %s",
					ms(o.t0), gc.PeriodMs, o.Plan.FinMs, F.name, F.writeErr, ms(F.writeErrAt), D.summary()))
		} else {
			add(true, "machinery", "the first endpoint half-closes", "CloseWrite failed: "+F.writeErr)
		}
		o.lower, o.upper = -1, -1
		return fs
	}
	switch {
	case F.eofAt < 0:
		add(false, "eof", "the other endpoint observes end-of-stream after the last byte ("+F.name+")",
			fmt.Sprintf("source half-closed at %d ms after %d bytes; destination read %d bytes, read ended %q at %d ms", ms(F.finAt), len(F.sent), len(F.got), F.readEnd, ms(F.readEndAt)))
	case F.eofAt < F.finAt:
		add(true, "eof", "end-of-stream is only shown after the source finished ("+F.name+")",
			fmt.Sprintf("destination read end-of-stream at %d µs, the source half-closed at %d µs (tunnel up at %d µs, period %d ms: no direction had finished)", F.eofAt, F.finAt, o.t0, gc.PeriodMs))
	case len(F.got) != len(F.sent):
		add(true, "content", "every byte written is delivered ("+F.name+")", fmt.Sprintf("%d of %d bytes before the end-of-stream", len(F.got), len(F.sent)))
	}
	eofSeen := F.eofAt
	if eofSeen < 0 {
		eofSeen = F.finDoneAt
	}
	switch o.Plan.Plan {
	case "cut":
		o.forced = true
		o.lower, o.upper = F.finAt+P, eofSeen+P+slack
		// what shows that the proxy has closed: the end of the still open direction at its reader (the side
		// that half-closed), a failing write at its writer
		if D.readEndAt >= 0 {
			o.closeAt, o.closeBy = D.readEndAt, "reader of "+D.name+" ("+D.readEnd+")"
		}
		if D.writeErrAt >= 0 && (o.closeAt < 0 || D.writeErrAt < o.closeAt) {
			o.closeAt, o.closeBy = D.writeErrAt, "writer of "+D.name+" ("+D.writeErr+")"
		}
		type witness struct {
			what string
			at   int64
		}
		ws := []witness{{"the reader of " + D.name + " saw the stream end (" + D.readEnd + ")", D.readEndAt}}
		if o.Plan.QuietAfterMs == 0 || D.writeErrAt >= 0 {
			ws = append(ws, witness{"a write of " + D.name + " failed (" + D.writeErr + ")", D.writeErrAt})
		}
		for _, x := range ws {
			switch {
			case x.at < 0 || x.at > o.upper:
				add(false, "late", "a tunnel one direction of which has finished is closed on both sides when the grace period has expired",
					fmt.Sprintf("first finish (CloseWrite called) at %d ms, its end-of-stream seen at %d ms, period %d ms: by %d ms (+%d ms) it has not happened that %s (observed at %d ms; -1 = never, tunnel given up at %d ms)",
						ms(F.finAt), ms(eofSeen), gc.PeriodMs, ms(o.upper), gc.SlackMs, x.what, ms(x.at), ms(o.endAt)))
			case x.at < o.lower:
				add(true, "early", "the tunnel is not closed before first finish + grace period",
					fmt.Sprintf("first finish (CloseWrite called) at %d µs, period %d ms: not before %d µs, but %s at %d µs (%d µs early); the tunnel was up at %d µs",
						F.finAt, gc.PeriodMs, o.lower, x.what, x.at, o.lower-x.at, o.t0))
			}
		}
		// every byte written before the expiry arrives
		for _, w := range D.writes {
			if w.atEnd <= o.lower-graceMarginUs && len(D.got) < w.end {
				add(false, "flow", "the opposite direction keeps flowing until the grace period expires ("+D.name+")",
					fmt.Sprintf("bytes [%d,%d) were written at %d ms, %d ms before first finish + period (%d ms); %d bytes arrived", w.start, w.end, ms(w.atEnd), ms(o.lower-w.atEnd), ms(o.lower), len(D.got)))
				break
			}
		}
		if D.finAt >= 0 {
			add(true, "machinery", "the second endpoint of a cut tunnel never half-closes", "it did")
		}
	case "reply-after-eof":
		// THE PROPERTY'S CLAUSE, as it reads: when one endpoint shuts down its sending side the other endpoint
		// observes end-of-stream after the last byte (promptly: the tunnel is up and has nothing else to do), while
		// the opposite direction keeps flowing until it is closed too (the reply written after that end-of-stream
		// arrives, its own end-of-stream follows its own half-close)
		clause := "the other endpoint observes end-of-stream after the last byte while the opposite direction keeps flowing (" + F.name + ")"
		held := F.eofAt >= 0 && F.eofAt <= F.finDoneAt+prompt && D.finDoneAt >= 0 && D.writeErr == "" &&
			D.eofAt >= D.finAt && len(D.got) == len(D.sent)
		if held {
			seen := D.eofAt
			if seen < eofSeen {
				seen = eofSeen
			}
			o.lower, o.upper = D.finAt, seen+prompt
			break
		}
		shownAt := F.readEndAt // when the far end's read ended at all
		what := fmt.Sprintf("the source half-closed at %d ms after %d bytes (all %d arrived); its destination's read ended %q at %d ms (-1 = never; tunnel given up at %d ms), period %d ms; the reply of %s: %d of %d bytes arrived, its writer's error %q at %d ms, its reader's stream ended %q at %d ms",
			ms(F.finAt), len(F.sent), len(F.got), F.readEnd, ms(shownAt), ms(o.endAt), gc.PeriodMs, D.name, len(D.got), len(D.sent), D.writeErr, ms(D.writeErrAt), D.readEnd, ms(D.readEndAt))
		if !inF48(gc.Mode, o.Plan) {
			add(false, "eof", clause, what)
			o.lower, o.upper = F.finAt, eofSeen+P+slack
			break
		}
		// F48: the leg has no CloseWrite, the half-close is not relayed. What the code does instead (and the
		// model: hstep with Cap.none, then graceExpire) is checked as for a cut tunnel: the far end is shown
		// nothing before first finish + period, the opposite direction flows until then, then both sides are closed
		o.forced = true
		o.lower, o.upper = F.finAt+P, F.finDoneAt+P+slack
		if D.readEndAt >= 0 {
			o.closeAt, o.closeBy = D.readEndAt, "reader of "+D.name+" ("+D.readEnd+")"
		}
		if shownAt >= 0 && (o.closeAt < 0 || shownAt < o.closeAt) {
			o.closeAt, o.closeBy = shownAt, "reader of "+F.name+" ("+F.readEnd+")"
		}
		other := len(fs)
		for _, x := range []struct {
			what string
			at   int64
		}{{"the reader of " + F.name + " saw the stream end (" + F.readEnd + ")", shownAt}, {"the reader of " + D.name + " saw the stream end (" + D.readEnd + ")", D.readEndAt}} {
			switch {
			case x.at < 0 || x.at > o.upper:
				add(false, "late", "a tunnel one direction of which has finished is closed on both sides when the grace period has expired",
					fmt.Sprintf("first finish at %d ms, period %d ms: by %d ms it has not happened that %s (observed at %d ms; -1 = never)", ms(F.finAt), gc.PeriodMs, ms(o.upper), x.what, ms(x.at)))
			case x.at < o.lower:
				add(true, "early", "the tunnel is not closed before first finish + grace period",
					fmt.Sprintf("first finish (CloseWrite called) at %d µs, period %d ms: not before %d µs, but %s at %d µs (%d µs early)", F.finAt, gc.PeriodMs, o.lower, x.what, x.at, o.lower-x.at))
			}
		}
		for _, w := range D.writes {
			if w.atEnd <= o.lower-graceMarginUs && len(D.got) < w.end {
				add(false, "flow", "the opposite direction keeps flowing until the grace period expires ("+D.name+")",
					fmt.Sprintf("bytes [%d,%d) were written at %d ms, %d ms before first finish + period (%d ms); %d bytes arrived", w.start, w.end, ms(w.atEnd), ms(o.lower-w.atEnd), ms(o.lower), len(D.got)))
				break
			}
		}
		if len(fs) == other {
			// exactly the recorded defect, nothing else
			fs = append(fs, gFinding{true, "f48", clause, what + "; the far leg (" + gc.Mode + ") has no CloseWrite anywhere: copier.closeWriter only logs \"cannot close write side of tunnel\", the far end was shown nothing until the grace timer closed the tunnel", classF48})
		}
	default: // finish
		if D.finDoneAt < 0 {
			what := "its writes failed with " + strconv.Quote(D.writeErr) + " at " + fmt.Sprint(ms(D.writeErrAt)) + " ms"
			add(true, "cut", "the opposite direction keeps flowing until it is closed too ("+D.name+")",
				fmt.Sprintf("first finish at %d ms, period %d ms, tunnel up at %d ms: the second endpoint could not finish: %s", ms(F.finAt), gc.PeriodMs, ms(o.t0), what))
			o.lower, o.upper = F.finAt, eofSeen+prompt
			return fs
		}
		switch {
		case D.eofAt < 0:
			add(false, "eof", "the other endpoint observes end-of-stream after the last byte ("+D.name+")",
				fmt.Sprintf("source half-closed at %d ms after %d bytes; destination read %d bytes, read ended %q at %d ms", ms(D.finAt), len(D.sent), len(D.got), D.readEnd, ms(D.readEndAt)))
		case D.eofAt < D.finAt:
			add(true, "cut", "end-of-stream is only shown after the source finished ("+D.name+")",
				fmt.Sprintf("destination read end-of-stream at %d ms, the source half-closed only at %d ms (first finish at %d ms, period %d ms, tunnel up at %d ms)", ms(D.eofAt), ms(D.finAt), ms(F.finAt), gc.PeriodMs, ms(o.t0)))
		case len(D.got) != len(D.sent):
			add(true, "content", "every byte written is delivered ("+D.name+")", fmt.Sprintf("%d of %d bytes before the end-of-stream", len(D.got), len(D.sent)))
		}
		for _, f := range []*gFlow{F, D} {
			if f.writeErr != "" {
				add(true, "cut", "the opposite direction keeps flowing until it is closed too ("+f.name+")", fmt.Sprintf("a write failed with %q at %d ms", f.writeErr, ms(f.writeErrAt)))
			}
		}
		seen := D.eofAt
		if seen < eofSeen {
			seen = eofSeen
		}
		if D.eofAt < 0 {
			seen = D.finDoneAt
		}
		o.lower, o.upper = D.finAt, seen+prompt
	}
	return fs
}

// overdue: a tunnel of plan "cut" that was given up without the proxy ever cutting it.
func (o *gTunnelObs) overdue() bool {
	if o == nil || o.Plan.Plan != "cut" || o.Error != "" {
		return false
	}
	f := o.up
	if o.Plan.First == "client" {
		f = o.down
	}
	return f.readEnd == "timeout"
}

func skippedAfterOverdue(co *gCaseObs, i int) bool {
	return i > 0 && co.tunnels[i] == nil && (co.tunnels[i-1].overdue() || skippedAfterOverdue(co, i-1))
}

// judgeCase: the tunnels one by one, then what is only visible per proxy (gauges, log).
func judgeCase(gc *graceCase, co *gCaseObs) (fs []gFinding) {
	if co.gaugeErr != "" {
		return []gFinding{{true, "machinery", "socket closure is observable through forwarder's connection tracking", co.gaugeErr, ""}}
	}
	var lowers, uppers []int64
	cuts := 0
	for i, o := range co.tunnels {
		if o == nil || o.Error != "" {
			e := "not run"
			if o != nil {
				e = o.Error
			}
			if skippedAfterOverdue(co, i) {
				return fs // the tunnel before it was never cut (reported): the rest of the sequence was not run
			}
			return append(fs, gFinding{false, "establish", "the tunnel is established (2xx to CONNECT / 101 to Upgrade)", fmt.Sprintf("tunnel %d: %s", i, e), ""})
		}
		for _, f := range judgeTunnel(gc, o) {
			f.detail = fmt.Sprintf("tunnel %d of the case: %s", i, f.detail)
			fs = append(fs, f)
		}
		if o.lower < 0 {
			return fs
		}
		if o.heldTo >= 0 && !o.heldClosed {
			// a quiet tunnel: the proxy's sockets are closed while the harness still holds its own
			fs = append(fs, gFinding{false, "late", "a tunnel one direction of which has finished is closed on both sides when the grace period has expired",
				fmt.Sprintf("tunnel %d of the case: the forced close was seen at %d ms (%s); the endpoint that stayed open had gone quiet and the harness kept both its sockets open until %d ms: the proxy still held %v client-side / %v target-side sockets then",
					i, ms(o.closeAt), o.closeBy, ms(o.heldTo), o.heldC, o.heldT), ""})
		}
		lowers, uppers = append(lowers, o.lower), append(uppers, o.upper)
		if o.Plan.Plan == "cut" {
			cuts++
		}
	}
	// the proxy's own sockets, by rank: the k-th decrement of a gauge cannot come before the k-th smallest
	// lower bound (else k tunnels were closed while only k-1 could be), and comes by the k-th smallest upper one
	// (tunnels run strictly one after the other are paired with the decrements one to one instead)
	inSequence := true
	for i, gt := range gc.Tunnels {
		if i > 0 && !gt.After {
			inSequence = false
		}
	}
	if !inSequence {
		sort.Slice(lowers, func(i, j int) bool { return lowers[i] < lowers[j] })
		sort.Slice(uppers, func(i, j int) bool { return uppers[i] < uppers[j] })
	}
	for _, g := range []struct {
		side  string
		downs []int64
	}{{"client-side", co.downC}, {"target-side", co.downT}} {
		for k := range lowers {
			switch {
			case k >= len(g.downs) || g.downs[k] > uppers[k]:
				at := int64(-1)
				if k < len(g.downs) {
					at = g.downs[k]
				}
				clause := "when both directions are finished both sockets are closed"
				if cuts > 0 {
					clause = "a tunnel one direction of which has finished is closed on both sides when the grace period has expired"
				}
				fs = append(fs, gFinding{false, "late", clause,
					fmt.Sprintf("the proxy's %s socket count (forwarder's connection tracking) went down for the %d. time at %d ms (-1 = never during the case, which ended at %d ms); due by %d ms", g.side, k+1, ms(at), ms(co.endAt), ms(uppers[k])), ""})
			case g.downs[k] < lowers[k]:
				clause := "nothing is closed before both directions are finished"
				if cuts > 0 {
					clause = "the tunnel is not closed before first finish + grace period"
				}
				fs = append(fs, gFinding{true, "early", clause,
					fmt.Sprintf("the proxy's %s socket count went down for the %d. time at %d µs, not allowed before %d µs (%d µs early)", g.side, k+1, g.downs[k], lowers[k], lowers[k]-g.downs[k]), ""})
			}
		}
		if len(g.downs) > len(lowers) {
			fs = append(fs, gFinding{true, "machinery", "the gauges count the tunnels of the case", fmt.Sprintf("%s gauge went down %d times for %d tunnels", g.side, len(g.downs), len(lowers)), ""})
		}
	}
	return fs
}

// ---- the timed model on the observed history ----

type gEvent struct {
	at    int64 // ms
	seq   int
	steps []string
	tag   string
}

// timedHistory renders what the endpoints of a tunnel observed as a schedule of the timed machine.
// geAt >= 0: where to put the forced close (ms); stop: drop everything after it.
func timedHistory(gc *graceCase, o *gTunnelObs, c modelCfg, geAt int64, endAt int64) (steps []string, tags []string) {
	var evs []gEvent
	seq := 0
	push := func(at int64, tag string, st ...string) {
		evs = append(evs, gEvent{at: at, seq: seq, steps: st, tag: tag})
		seq++
	}
	gt := o.Plan
	// tunnel set-up, at the instant the tunnel was up
	up0 := ms(o.t0)
	set := []string{"cw:" + core.Hex(append(append([]byte(nil), o.head...), o.up.sent[:gt.Early]...)), "rh:" + core.Itoa(gt.Early)}
	if o.sentPre > 0 {
		set = append(set, "tw:"+core.Hex(o.reply[:o.sentPre]))
	}
	if f := append(append([]byte(nil), o.reply[o.sentPre:]...), o.down.sent[:gt.Coalesce]...); len(f) > 0 {
		set = append(set, "tw:"+core.Hex(f))
	}
	if c.replyGran <= 1 {
		for i := 0; i < c.replyLen; i++ {
			set = append(set, "rr:1")
		}
	} else if c.replyLen > 0 {
		set = append(set, "rr:"+core.Itoa(c.replyLen))
	}
	set = append(set, "cn", "dr")
	push(up0, "setup", set...)
	for _, x := range []struct {
		f      *gFlow
		w, cp  string
		f1, e1 string
		pre    int
	}{{o.up, "cw:", "cu:", "fu", "eu", gt.Early}, {o.down, "tw:", "cd:", "fd", "ed", gt.Coalesce}} {
		f := x.f
		got := len(f.got)
		if x.f == o.down && gt.Coalesce > 0 { // sent with the reply: only the copy is left to do
			if n := min(got, gt.Coalesce); n > 0 {
				push(up0, "copy", x.cp+core.Itoa(n))
			}
		}
		for _, w := range f.writes {
			if w.end <= x.pre {
				continue // went with the head / the reply
			}
			at := ms(w.atStart)
			if at < up0 {
				at = up0
			}
			arrived := min(max(got-w.start, 0), w.end-w.start)
			if arrived == 0 && geAt >= 0 && at > geAt {
				continue // written after the tunnel was seen closed, and lost: not part of the history
			}
			st := []string{x.w + core.Hex(f.sent[w.start:w.end])}
			if arrived > 0 {
				st = append(st, x.cp+core.Itoa(arrived))
			}
			push(at, "write", st...)
		}
		if f.finAt >= 0 && f.finDoneAt >= 0 && !(geAt >= 0 && ms(f.finAt) >= geAt && f.eofAt < f.finAt) {
			// (a half-close made after the tunnel was seen closed is not part of the tunnel's history)
			st := []string{x.f1}
			if f.eofAt >= 0 {
				st = append(st, x.e1)
			}
			push(ms(f.finAt), "fin", st...)
		}
	}
	if geAt >= 0 {
		push(geAt, "ge", "ge")
	}
	sort.SliceStable(evs, func(i, j int) bool {
		if evs[i].at != evs[j].at {
			return evs[i].at < evs[j].at
		}
		return evs[i].seq < evs[j].seq
	})
	now := int64(0)
	emit := func(st, tag string) { steps, tags = append(steps, st), append(tags, tag) }
	for _, e := range evs {
		if e.at > now {
			emit("tk:"+strconv.FormatInt(e.at-now, 10), "tick-before-"+e.tag)
			now = e.at
		}
		for _, s := range e.steps {
			emit(s, e.tag)
		}
	}
	if endAt > now {
		emit("tk:"+strconv.FormatInt(endAt-now, 10), "tick-to-end")
	}
	return steps, tags
}

func kvOf(ans string) map[string]string {
	kv := map[string]string{}
	for _, f := range strings.Fields(ans) {
		if i := strings.IndexByte(f, '='); i > 0 {
			kv[f[:i]] = f[i+1:]
		}
	}
	return kv
}

func cfgForMode(mode string, headLen, replyLen int) modelCfg {
	return cfgFor(&tunnelCase{Mode: mode}, headLen, replyLen)
}

// modelVerdict drives the timed machine with the observed history of one tunnel. It returns "" when the
// machine accepts it with the terminal state the endpoints saw, else what it objects to:
// "early" (the forced close is not a step yet), "late" (time cannot pass: the close is overdue),
// or "other: …".
func modelVerdict(ctx *core.Ctx, gc *graceCase, o *gTunnelObs) (verdict, detail string) {
	c := cfgForMode(gc.Mode, len(o.head), len(o.reply))
	geAt := int64(-1)
	endAt := ms(o.endAt)
	finAtMs := ms(o.lower) - int64(gc.PeriodMs) // first finish, ms
	slack := int64(0)
	if o.forced {
		geAt = ms(o.closeAt)
		if geAt >= 0 {
			endAt = geAt
		}
		slack = ms(o.upper) - ms(o.lower)
	} else {
		finAtMs = -1
	}
	timing := core.Itoa(gc.PeriodMs) + "," + strconv.FormatInt(slack, 10)
	steps, tags := timedHistory(gc, o, c, geAt, endAt)
	var ans string
	if gc.Limits != nil {
		// the machine with the configuration's request / dial limits (policy `cleared` = the code): ticks are
		// milliseconds since the case began, the request was read and the far end dialled at the instant the
		// tunnel was up
		ans = ctx.Model.MustAsk("C03", "ltrun", c.wire(), timing, gc.Limits.wire(), "cleared", core.JoinList2(steps))
	} else {
		ans = ctx.Model.MustAsk("C03", "trun", c.wire(), timing, core.JoinList2(steps))
	}
	if strings.HasPrefix(ans, "stuck ") {
		i, _ := strconv.Atoi(strings.TrimPrefix(ans, "stuck "))
		tag, st := "?", "?"
		if i < len(tags) {
			tag, st = tags[i], steps[i]
		}
		detail = fmt.Sprintf("the timed machine (period %d ms, slack %d ms) does not accept the observed history: step %d `%s` (%s) is not enabled", gc.PeriodMs, slack, i, st, tag)
		switch {
		case tag == "ge":
			return "early", detail
		case strings.HasPrefix(tag, "tick"):
			return "late", detail
		}
		return "other", detail
	}
	if !strings.HasPrefix(ans, "ok ") {
		core.Fatalf("C03: timed model answered %q", ans)
	}
	kv := kvOf(ans)
	b := func(x bool) string { return core.B01(x) }
	var want string
	if o.forced {
		// (the model's eof = the copier returned after the source's half-close; a half-close made after the tunnel
		// was seen closed does not count)
		fair := func(f *gFlow) bool { return f.eofAt >= 0 && f.finAt >= 0 && f.finAt <= f.eofAt }
		want = fmt.Sprintf("phase=closed eofU=%s eofD=%s closedC=1 closedT=1 expired=1 dropped=0 armedAt=%d expiredAt=%d", b(fair(o.up)), b(fair(o.down)), finAtMs, geAt)
	} else {
		first := ms(o.up.finAt)
		if o.Plan.First == "target" {
			first = ms(o.down.finAt)
		}
		want = fmt.Sprintf("phase=closed eofU=1 eofD=1 closedC=1 closedT=1 expired=0 dropped=0 armedAt=%d expiredAt=-", first)
	}
	got := fmt.Sprintf("phase=%s eofU=%s eofD=%s closedC=%s closedT=%s expired=%s dropped=%s armedAt=%s expiredAt=%s",
		kv["phase"], kv["eofU"], kv["eofD"], kv["closedC"], kv["closedT"], kv["expired"], kv["dropped"], kv["armedAt"], kv["expiredAt"])
	if got != want {
		return "other", fmt.Sprintf("timed machine's terminal state %s, observed %s", got, want)
	}
	mu, md := core.MustUnHex(kv["up"]), core.MustUnHex(kv["down"])
	if string(mu) != string(o.up.got) || string(md) != string(o.down.got) {
		return "other", fmt.Sprintf("timed machine delivered up=%d down=%d bytes, the endpoints received up=%d down=%d", len(mu), len(md), len(o.up.got), len(o.down.got))
	}
	if !o.forced && kv["accept"] != "1" {
		return "other", "the terminal state of a tunnel both directions of which finished is not accepted: " + ans
	}
	if o.forced && geAt >= 0 && inF48(gc.Mode, o.Plan) {
		// F48 in the model: the same history, its ticks erased, on the machine with the legs of this configuration
		// under the code's policy - the far end of the leg without CloseWrite is NOT shown end-of-stream, and
		// nothing is cut by closeWriter (the close is the grace timer's)
		var untimed []string
		for _, st := range steps {
			if !strings.HasPrefix(st, "tk:") {
				untimed = append(untimed, st)
			}
		}
		hans := ctx.Model.MustAsk("C03", "hrun", c.wire(), legsWire(gc.Mode), "leave", core.JoinList2(untimed))
		hkv := kvOf(hans)
		if !strings.HasPrefix(hans, "ok ") || hkv["phase"] != "closed" || hkv["expired"] != "1" || hkv["shownU"] != "0" || hkv["cut"] != "0" ||
			hkv["up"] != kv["up"] || hkv["down"] != kv["down"] {
			return "other", "the machine with leg capabilities does not mirror the observed history of a leg without CloseWrite (expected closed by the grace timer, the far end not shown end-of-stream): " + hans
		}
	}
	if !o.forced || geAt < 0 {
		return "", ""
	}
	// the acceptor must reject the same history with the forced close misplaced (these answers depend
	// on the model alone: a wrong one is a failure of the machinery)
	expectStuck := func(what string, steps, tags []string, atTag string) {
		ans := ctx.Model.MustAsk("C03", "trun", c.wire(), timing, core.JoinList2(steps))
		i, err := strconv.Atoi(strings.TrimPrefix(ans, "stuck "))
		if !strings.HasPrefix(ans, "stuck ") || err != nil || i >= len(tags) || !strings.HasPrefix(tags[i], atTag) {
			core.Fatalf("C03: the timed machine accepts a history in which %s: %s (steps %v)", what, ans, steps)
		}
	}
	// (1) the forced close before the first direction has finished
	var s1, t1 []string
	done := false
	for i, s := range steps {
		if !done && (s == "fu" || s == "fd") && tags[i] == "fin" {
			s1, t1 = append(s1, "ge"), append(t1, "ge")
			done = true
		}
		if s == "ge" {
			continue
		}
		s1, t1 = append(s1, s), append(t1, tags[i])
	}
	expectStuck("the forced close happens before the first direction has finished", s1, t1, "ge")
	// (2) the forced close one millisecond before first finish + period, and (3) exactly at it
	var pre []string
	for i, s := range steps {
		pre = append(pre, s)
		if (s == "eu" || s == "ed") && tags[i] == "fin" {
			break
		}
	}
	preTags := make([]string, len(pre), len(pre)+2)
	s2 := append(append([]string(nil), pre...), "tk:"+core.Itoa(gc.PeriodMs-1), "ge")
	expectStuck("the forced close happens 1 ms before first finish + period", s2, append(preTags, "tick", "ge"), "ge")
	s3 := append(append([]string(nil), pre...), "tk:"+core.Itoa(gc.PeriodMs), "ge")
	if ans := ctx.Model.MustAsk("C03", "trun", c.wire(), timing, core.JoinList2(s3)); !strings.HasPrefix(ans, "ok ") || kvOf(ans)["expired"] != "1" {
		core.Fatalf("C03: the timed machine refuses the forced close exactly at first finish + period: %s", ans)
	}
	// (4) one direction stays open past the bound and the forced close never happens
	s4 := append(append([]string(nil), pre...), "tk:"+strconv.FormatInt(int64(gc.PeriodMs)+slack+1, 10))
	expectStuck("the forced close never happens although one direction stayed open past the bound", s4, append(preTags[:len(pre)], "tick"), "tick")
	return "", ""
}

// ---- a case, confirmed ----

// graceBook keeps what the proxy's log must show for a batch: martian's logger is one per process, the
// configurations of a batch run at the same time, so the forced closes are counted per batch.
type graceBook struct {
	expected atomic.Int64
	logs0    int64
	finds0   int
	periodMs int
	first    *graceCase
}

func openGraceBook(ctx *core.Ctx, periodMs int) *graceBook {
	theGraceLog.takePeriods()
	return &graceBook{logs0: theGraceLog.forced.Load(), finds0: ctx.NumFindings(), periodMs: periodMs}
}

// close compares the forced closes the proxy logged with the tunnels that were left half-open beyond the
// period: one more = a timer that should have been cancelled (or never started) fired; one less is only
// reported when nothing else was (a tunnel that is never closed has been reported already).
func (b *graceBook) close(ctx *core.Ctx) {
	logged, want := theGraceLog.forced.Load()-b.logs0, b.expected.Load()
	impl := fmt.Sprintf("the proxy logged \"forcibly closing tunnel after graceful period\" %d times in this batch (period %d ms)", logged, b.periodMs)
	switch {
	case logged > want:
		ctx.SpecFail("the grace timer fires only for tunnels one direction of which stays open beyond the period, and is cancelled when both directions finish", "", b.first, impl,
			fmt.Sprintf("%d tunnels of the batch were left half-open beyond the period", want))
	case logged < want && ctx.NumFindings() == b.finds0:
		ctx.Disagree("every forced close is logged by gracefulCloseAfter", b.first, impl, fmt.Sprintf("%d tunnels of the batch were cut", want))
	}
	wantP := (time.Duration(b.periodMs) * time.Millisecond).String()
	for _, p := range theGraceLog.takePeriods() {
		if p != wantP {
			ctx.SpecFail("the forced close happens after the configured grace period", "", b.first, impl+"; logged period="+p, "the period set through the hook is "+wantP)
			break
		}
	}
}

// graceAttempt runs the case once and returns the findings of the direct evaluation and of the model.
func (e *env) graceAttempt(ctx *core.Ctx, gc *graceCase, book *graceBook) (*gCaseObs, []gFinding) {
	co := e.runGraceCase(gc)
	book.expected.Add(int64(co.cutsRun))
	fs := judgeCase(gc, co)
	for _, o := range co.tunnels {
		if o != nil && o.Plan.Plan == "reply-after-eof" && o.forced {
			book.expected.Add(1) // F48: the grace timer ended this tunnel
		}
	}
	if co.gaugeErr != "" {
		return co, fs
	}
	for i, o := range co.tunnels {
		if o == nil || o.Error != "" || o.lower < 0 {
			return co, fs
		}
		direct := map[string]bool{}
		for _, f := range fs {
			if strings.HasPrefix(f.detail, fmt.Sprintf("tunnel %d ", i)) {
				direct[f.kind] = true
			}
		}
		if direct["content"] || direct["eof"] || direct["cut"] || direct["machinery"] {
			continue // the history is not one the timed machine is asked about (reported already)
		}
		v, d := modelVerdict(ctx, gc, o)
		d = fmt.Sprintf("tunnel %d of the case: %s", i, d)
		switch {
		case v == "" && (direct["early"] || direct["late"]):
			// the direct evaluation compares microseconds and every witness, the machine was driven with whole
			// milliseconds and the earliest witness: the direct verdict stands
		case v == "early" && !direct["early"]:
			fs = append(fs, gFinding{true, "model", "direct evaluation of the grace period agrees with the timed model", d, ""})
		case v == "late" && !direct["late"]:
			fs = append(fs, gFinding{false, "model", "direct evaluation of the grace period agrees with the timed model", d, ""})
		case v == "other":
			fs = append(fs, gFinding{true, "model-other", "the observed history is a run of the timed tunnel machine", d, ""})
		case v != "":
			// the model objects where the direct evaluation does: attach its words
			for j := range fs {
				if fs[j].kind == v && strings.HasPrefix(fs[j].detail, fmt.Sprintf("tunnel %d ", i)) {
					fs[j].detail += "; " + d
					break
				}
			}
		}
	}
	return co, fs
}

// suspicions: every failed attempt, confirmed or not, is written into the evidence (diagnostics)
var suspicions struct {
	sync.Mutex
	list []string
}

func noteSuspicion(gc *graceCase, attempt int, fs []gFinding) {
	suspicions.Lock()
	defer suspicions.Unlock()
	if len(suspicions.list) < 40 {
		d := fs[0].detail
		if len(d) > 400 {
			d = d[:400] + "…"
		}
		suspicions.list = append(suspicions.list, fmt.Sprintf("%s %s period=%dms attempt %d: %s: %s", gc.Mode, gc.Variant, gc.PeriodMs, attempt, fs[0].clause, d))
	}
}

// runGraceConfirmed runs a case; a suspected failure is confirmed by repetition before it is reported:
// a failure of a generous bound has to show in each of three runs, a failure of a sharp bound or of the
// content in two of three. A failure whose class is a recorded finding (decided from the case alone; it is
// observed exactly as recorded or not reported under that class at all) is reported as it is.
func (e *env) runGraceConfirmed(ctx *core.Ctx, gc *graceCase, book *graceBook) {
	key, _ := json.Marshal(gc)
	var co *gCaseObs
	var fs, sharpSeen []gFinding
	var sharpObs *gCaseObs
	sharpRuns, failedRuns, attempts := 0, 0, 0
	var known []gFinding
	var knownObs *gCaseObs
	for attempts < 3 {
		attempts++
		var all []gFinding
		co, all = e.graceAttempt(ctx, gc, book)
		fs = nil
		var kn []gFinding
		for _, f := range all {
			if f.class != "" {
				kn = append(kn, f)
			} else {
				fs = append(fs, f)
			}
		}
		if known == nil && len(kn) > 0 {
			known, knownObs = kn, co
		}
		if len(fs) == 0 {
			if sharpRuns == 0 {
				break
			}
			continue
		}
		failedRuns++
		noteSuspicion(gc, attempts, fs)
		isSharp := false
		for _, f := range fs {
			if f.sharp {
				isSharp = true
			}
		}
		if isSharp {
			sharpRuns++
			sharpSeen, sharpObs = fs, co
			if sharpRuns >= 2 {
				break
			}
		}
	}
	if attempts > 1 {
		ctx.Count("grace/repeated-after-a-suspected-failure")
	}
	for _, f := range known {
		ctx.Count("grace/known-finding-class/" + f.class)
		ctx.SpecFail(f.clause, f.class, gc, knownObs.summary(), f.detail)
	}
	for i := range gc.Tunnels {
		ctx.Case(string(key)+"#"+core.Itoa(i), true)
		ctx.Count("grace-tunnel/plan-" + gc.Tunnels[i].Plan + "/first-finisher-" + gc.Tunnels[i].First)
	}
	ctx.Count("grace/" + gc.Variant)
	ctx.Count("grace-mode/" + gc.Mode)
	ctx.Count("grace/cases")
	confirmed := (sharpRuns >= 2) || (failedRuns == 3 && attempts == 3)
	if sharpRuns >= 2 {
		fs, co = sharpSeen, sharpObs
	}
	if !confirmed {
		if failedRuns > 0 {
			ctx.Count("grace/suspected-failure-not-confirmed")
		}
		n := 0
		for _, o := range co.tunnels {
			if o != nil && o.Plan.Plan == "cut" && len(fs) == 0 {
				n++
			}
		}
		ctx.CountN("grace/forced-closes-observed-inside-their-window", n)
		if len(fs) == 0 {
			for range co.tunnels {
				ctx.TraceValidated()
			}
		}
		return
	}
	impl := co.summary()
	// one finding per case: the first sharp one if there is one
	f := fs[0]
	for _, x := range fs {
		if x.sharp {
			f = x
			break
		}
	}
	var all []string
	for _, x := range fs {
		all = append(all, x.clause+": "+x.detail)
	}
	detail := fmt.Sprintf("%s [confirmed: %d of %d runs of this case failed] all objections: %s", f.detail, failedRuns, attempts, strings.Join(all, " | "))
	switch f.kind {
	case "machinery", "establish", "model", "model-other":
		ctx.Disagree(f.clause, gc, impl, detail)
	default:
		ctx.SpecFail(f.clause, "", gc, impl, detail)
	}
}

// ---- the phase ----

func graceTunnelPlan(r *core.Rand, plan, first string, finMs, secondMs int) graceTunnel {
	return graceTunnel{Plan: plan, First: first, FinMs: finMs, SecondMs: secondMs, IntervalMs: 50, ChunkMax: r.Range(8, 120),
		Early: core.Pick(r, []int{0, 0, 1, 17, 40}), Coalesce: core.Pick(r, []int{0, 0, 1, 23, 40})}
}

// genGraceCase builds the case of a variant for one mode; period and the plan's instants are the batch's.
func genGraceCase(r *core.Rand, mode, variant string, periodMs int, long bool) *graceCase {
	gc := &graceCase{Kind: "grace", Mode: mode, Seed: r.U64(), Variant: variant, PeriodMs: periodMs, SlackMs: 2500, PromptMs: 1200}
	sides := []string{"client", "target"}
	if r.Bool() {
		sides = []string{"target", "client"}
	}
	switch variant {
	case "cut/tunnels-in-sequence":
		// (a), (d), (e): each of the two is cut relative to its own first finish, once with the client →
		// target direction finishing first, once with the other
		a := graceTunnelPlan(r, "cut", sides[0], r.Range(60, 220), 0)
		b := graceTunnelPlan(r, "cut", sides[1], r.Range(60, 220), 0)
		b.After, b.StartMs = true, r.Range(0, 30)
		// … and a third one whose open side goes quiet: the forced close alone has to close that leg
		q := graceTunnelPlan(r, "cut", core.Pick(r, sides), r.Range(60, 160), 0)
		q.After, q.StartMs, q.QuietAfterMs = true, r.Range(0, 30), r.Range(60, 160)
		gc.Tunnels = []graceTunnel{a, b, q}
	case "cut/two-tunnels-in-parallel":
		// (e): started at different times, the second one's first finish falls into the first one's period
		a := graceTunnelPlan(r, "cut", sides[0], r.Range(40, 150), 0)
		b := graceTunnelPlan(r, "cut", core.Pick(r, sides), r.Range(40, 150), 0)
		b.StartMs = r.Range(periodMs/3, 2*periodMs/3)
		gc.Tunnels = []graceTunnel{a, b}
		if long {
			c := graceTunnelPlan(r, "cut", core.Pick(r, sides), r.Range(40, 150), 0)
			c.StartMs = r.Range(periodMs, 3*periodMs/2)
			gc.Tunnels = append(gc.Tunnels, c)
		}
	case "both-finish-within-the-period/then-a-new-tunnel-outlives-the-old-deadline":
		// (b): both sockets closed at once - PromptMs is well below the period -, and the cancelled timer
		// does nothing to a tunnel on a new connection that is alive when it would have fired
		a := graceTunnelPlan(r, "finish", sides[0], r.Range(60, 200), r.Range(50, 200))
		b := graceTunnelPlan(r, "finish", sides[1], periodMs+r.Range(150, 300), r.Range(0, 60))
		b.After, b.StartMs = true, r.Range(0, 40)
		gc.Tunnels = []graceTunnel{a, b}
	case variantF48:
		// the case the generator used to avoid: the client half-closes first and the far end replies only after it
		// has READ that end-of-stream - on a far leg the proxy cannot half-close (only such modes run this batch)
		gt := graceTunnelPlan(r, "reply-after-eof", "client", r.Range(60, 160), r.Range(40, 100))
		gc.Tunnels = []graceTunnel{gt}
	case "long-lived/no-direction-finishes-for-several-periods":
		// (c): the timer does not start when the tunnel does
		k := r.Range(22, 30)
		if long {
			k = r.Range(80, 120)
		}
		gc.Tunnels = []graceTunnel{graceTunnelPlan(r, "finish", sides[0], periodMs*k/10, r.Range(0, 60))}
	default:
		core.Fatalf("C03: unknown grace variant %q", variant)
	}
	for i := range gc.Tunnels {
		adaptToLeg(mode, &gc.Tunnels[i])
	}
	return gc
}

// adaptToLeg: what the far leg of a ConnectFunc configuration cannot do (legs.go). Behind net.Pipe the far
// end finishes by closing the pipe, so it never finishes first; a far end whose leg the proxy cannot
// half-close is not shown the client's end-of-stream while the tunnel lives, so in plan "finish" it goes on
// until it KNOWS (in-process) that the client has half-closed, and a little longer.
func adaptToLeg(mode string, gt *graceTunnel) {
	if !farEndCanHalfClose(mode) {
		gt.First = "client"
	}
	if !legCanHalfClose(mode) && gt.Plan == "finish" && gt.First == "client" {
		gt.SecondOnFin = true
		if gt.SecondMs < 60 {
			gt.SecondMs += 60
		}
	}
}

// setGracePeriod sets the proxy's grace period through the hook and returns the function restoring it.
// No tunnel is running when it is called.
func setGracePeriod(ms int) (restore func()) {
	old := martian.VerifSetBicopyGracefulTimeout(time.Duration(ms) * time.Millisecond)
	return func() { martian.VerifSetBicopyGracefulTimeout(old) }
}

type graceBatch struct {
	variant  string
	pLo, pHi int
}

// variantF48: known finding F48 (a ConnectFunc leg without any CloseWrite cannot relay a half-close)
const variantF48 = "far-end-replies-after-end-of-stream/on-a-leg-without-closewrite"

// runGracePhase: batch after batch, each with its own period; in a batch every mode runs its case at
// the same time, each on its own proxy.
func runGracePhase(ctx *core.Ctx, pool *envPool, modes []string) {
	batches := []graceBatch{
		{"cut/tunnels-in-sequence", 300, 520},
		{"cut/two-tunnels-in-parallel", 500, 800},
		{"both-finish-within-the-period/then-a-new-tunnel-outlives-the-old-deadline", 1500, 1800},
		{"long-lived/no-direction-finishes-for-several-periods", 300, 450},
		{variantF48, 300, 450},
	}
	if v := os.Getenv("VERIF_C03_GRACE"); v != "" { // development aid: only the batches whose name contains v
		var sel []graceBatch
		for _, b := range batches {
			if strings.Contains(b.variant, v) {
				sel = append(sel, b)
			}
		}
		batches = sel
	}
	rounds := ctx.N(1, 5)
	start := time.Now()
	var tunnels atomic.Int64
	for round := 0; round < rounds; round++ {
		for _, b := range batches {
			if ctx.NumFindings() >= 4 {
				return
			}
			rb := ctx.Rng.Sub()
			period := rb.Range(b.pLo, b.pHi)
			long := false
			if !ctx.Quick() && round > 0 {
				// soak variants: shorter and longer periods, longer lives
				period = rb.Range(b.pLo/2, b.pHi*2)
				long = round%2 == 0
			}
			restore := setGracePeriod(period)
			ctx.Count(fmt.Sprintf("grace-period-ms/%d-%d", period/100*100, period/100*100+99))
			book := openGraceBook(ctx, period)
			var wg sync.WaitGroup
			for _, mode := range modes {
				if b.variant == variantF48 && legCanHalfClose(mode) {
					continue
				}
				gc := genGraceCase(rb.Sub(), mode, b.variant, period, long)
				if round == 0 && book.first == nil {
					ctx.Sample(gc)
				}
				if book.first == nil {
					book.first = gc
				}
				wg.Add(1)
				go func() {
					defer wg.Done()
					e, err := pool.get(gc.Mode)
					if err != nil {
						ctx.Crash("proxy starts with a valid configuration", "", gc, err.Error())
						return
					}
					e.runGraceConfirmed(ctx, gc, book)
					tunnels.Add(int64(len(gc.Tunnels)))
				}()
			}
			wg.Wait()
			book.close(ctx)
			restore()
		}
	}
	suspicions.Lock()
	if len(suspicions.list) > 0 {
		ctx.Extra("grace_failed_attempts", suspicions.list)
	}
	suspicions.Unlock()
	ctx.Extra("grace_phase", map[string]any{"tunnels": tunnels.Load(), "wall_s": float64(int(time.Since(start).Seconds()*10)) / 10,
		"hook": "martian.VerifSetBicopyGracefulTimeout (internal/martian/export_verif.go, build tag verif)"})
}

// replayGrace re-runs one grace case alone.
func replayGrace(ctx *core.Ctx, pool *envPool, raw json.RawMessage) {
	var gc graceCase
	if err := json.Unmarshal(raw, &gc); err != nil || gc.Mode == "" || len(gc.Tunnels) == 0 {
		core.Fatalf("C03: unreadable grace case: %v %s", err, raw)
	}
	e, err := pool.get(gc.Mode)
	if err != nil {
		ctx.Crash("proxy starts with a valid configuration", "", gc, err.Error())
		return
	}
	defer setGracePeriod(gc.PeriodMs)()
	book := openGraceBook(ctx, gc.PeriodMs)
	book.first = &gc
	if replaying {
		co, fs := e.graceAttempt(ctx, &gc, book)
		fmt.Printf("implementation: %s\n", co.summary())
		for _, f := range fs {
			fmt.Printf("objection: %s: %s\n", f.clause, f.detail)
		}
	}
	e.runGraceConfirmed(ctx, &gc, book)
	book.close(ctx)
}
