package c03

import (
	"bufio"
	"bytes"
	"crypto/tls"
	"encoding/binary"
	"errors"
	"fmt"
	"io"
	"net"
	"strings"
	"sync"
	"time"

	"github.com/saucelabs/forwarder/verifharness/rig"
)

// farEnd is the far side of one tunnel as handed to the case that is waiting for it: the scripted
// target itself (direct dial, ConnectFunc), or a scripted upstream proxy / SOCKS5 server / origin
// that has read the request addressed to it and from now on plays the target.
type farEnd struct {
	conn    net.Conn      // write side; CloseWrite = half-close
	br      *bufio.Reader // read side (may hold bytes that arrived together with the request)
	reply   []byte        // what the far side has to send before tunnel bytes (nil: nothing)
	sentPre int           // bytes it already sent before the reply (SOCKS5 method selection)
	reqHead []byte        // the request it received (diagnostics)
	release chan struct{}
}

func (f *farEnd) closeWrite() error {
	if cw, ok := f.conn.(interface{ CloseWrite() error }); ok {
		return cw.CloseWrite()
	}
	return errors.New("far end cannot half-close")
}

// registry matches incoming far-side connections with the case that expects them.
type registry struct {
	mu      sync.Mutex
	m       map[string]chan *farEnd
	strays  int
	strayed []string
}

func newRegistry() *registry { return &registry{m: map[string]chan *farEnd{}} }

func (r *registry) expect(name string) chan *farEnd {
	ch := make(chan *farEnd, 1)
	r.mu.Lock()
	r.m[name] = ch
	r.mu.Unlock()
	return ch
}

func (r *registry) forget(name string) {
	r.mu.Lock()
	delete(r.m, name)
	r.mu.Unlock()
}

// deliver hands fe to the waiting case and blocks until the case releases it (the peer closes the
// connection when its handler returns).
func (r *registry) deliver(name string, fe *farEnd) {
	r.mu.Lock()
	ch := r.m[name]
	delete(r.m, name)
	if ch == nil {
		r.strays++
		if len(r.strayed) < 5 {
			r.strayed = append(r.strayed, name)
		}
	}
	r.mu.Unlock()
	if ch == nil {
		return
	}
	fe.release = make(chan struct{})
	ch <- fe
	select {
	case <-fe.release:
	case <-time.After(3 * time.Minute):
	}
}

// readHead reads an HTTP/1 head (through the blank line) byte by byte from br.
func readHead(br *bufio.Reader) ([]byte, error) {
	var b []byte
	for {
		c, err := br.ReadByte()
		if err != nil {
			return b, err
		}
		b = append(b, c)
		if c == '\n' && (bytes.HasSuffix(b, []byte("\r\n\r\n")) || bytes.HasSuffix(b, []byte("\n\n"))) {
			return b, nil
		}
		if len(b) > 64<<10 {
			return b, errors.New("head too long")
		}
	}
}

// caseNameOf extracts "c<id>" from "c<id>.test[:port]" / "/c<id>".
func caseNameOf(s string) string {
	s = strings.TrimPrefix(s, "/")
	if i := strings.IndexAny(s, ".:/ "); i >= 0 {
		s = s[:i]
	}
	return s
}

const (
	connectReply  = "HTTP/1.1 200 Connection established\r\nX-Upstream: scripted\r\n\r\n"
	connectReply0 = "HTTP/1.0 200 OK\r\n\r\n"
	// 2xx replies to CONNECT that carry a Content-Length and/or a Transfer-Encoding (RFC 9110 9.3.6: the
	// sender MUST NOT, the recipient MUST ignore them): such a reply has no content, what follows the
	// blank line is the tunnel's. Regression targets of finding F29 (dialvia used to hand connectHTTP a
	// body built from these fields, and closing it drained the tunnel's first bytes).
	connectReplyCL    = "HTTP/1.1 200 OK\r\nContent-Length: 5\r\n\r\n"
	connectReplyCLBig = "HTTP/1.1 200 Connection established\r\nContent-Length: 300000\r\n\r\n"
	connectReplyTE    = "HTTP/1.1 200 OK\r\nTransfer-Encoding: chunked\r\n\r\n"
	connectReplyTECL  = "HTTP/1.1 200 Connection established\r\nTransfer-Encoding: chunked\r\nContent-Length: 5\r\n\r\n"
	upgradeReply      = "HTTP/1.1 101 Switching Protocols\r\nConnection: Upgrade\r\nUpgrade: verif\r\nX-Origin: scripted\r\n\r\n"
)

// slotHandler: a raw target reached by a direct dial (or by the custom ConnectFunc).
func slotHandler(reg *registry, name string) func(pc *rig.PeerConn) {
	return func(pc *rig.PeerConn) {
		pc.Conn.SetDeadline(time.Time{})
		reg.deliver(name, &farEnd{conn: pc.Conn, br: pc.BR})
	}
}

// connectProxyHandler: a minimal upstream CONNECT proxy that plays the target itself.
func connectProxyHandler(reg *registry) func(pc *rig.PeerConn) {
	return func(pc *rig.PeerConn) {
		pc.Conn.SetReadDeadline(time.Now().Add(20 * time.Second))
		head, err := readHead(pc.BR)
		if err != nil {
			return
		}
		pc.Conn.SetReadDeadline(time.Time{})
		line := string(head[:bytes.IndexByte(head, '\n')])
		f := strings.Fields(line)
		if len(f) < 3 || f[0] != "CONNECT" {
			pc.Conn.Write([]byte("HTTP/1.1 400 Bad Request\r\nContent-Length: 0\r\n\r\n"))
			return
		}
		reg.deliver(caseNameOf(f[1]), &farEnd{conn: pc.Conn, br: pc.BR, reply: []byte(connectReply), reqHead: head})
	}
}

// upgradeOriginHandler: an origin - or, in the "px-" configurations, an upstream HTTP proxy answering for the
// origin - that switches protocols on every request.
func upgradeOriginHandler(reg *registry) func(pc *rig.PeerConn) {
	return func(pc *rig.PeerConn) {
		pc.Conn.SetReadDeadline(time.Now().Add(20 * time.Second))
		head, err := readHead(pc.BR)
		if err != nil {
			return
		}
		pc.Conn.SetReadDeadline(time.Time{})
		line := string(head[:bytes.IndexByte(head, '\n')])
		f := strings.Fields(line)
		if len(f) < 3 {
			return
		}
		target := f[1]
		if i := strings.Index(target, "://"); i >= 0 {
			// absolute form: the request reached this peer as the upstream PROXY of the configuration ("px-")
			target = target[i+3:]
			if j := strings.IndexByte(target, '/'); j >= 0 {
				target = target[j:]
			}
		}
		reg.deliver(caseNameOf(target), &farEnd{conn: pc.Conn, br: pc.BR, reply: []byte(upgradeReply), reqHead: head})
	}
}

// socks5Handler: a minimal SOCKS5 server (no authentication, CONNECT only) that plays the target.
func socks5Handler(reg *registry) func(pc *rig.PeerConn) {
	return func(pc *rig.PeerConn) {
		pc.Conn.SetReadDeadline(time.Now().Add(20 * time.Second))
		hdr := make([]byte, 2)
		if _, err := io.ReadFull(pc.BR, hdr); err != nil || hdr[0] != 5 {
			return
		}
		methods := make([]byte, int(hdr[1]))
		if _, err := io.ReadFull(pc.BR, methods); err != nil {
			return
		}
		if _, err := pc.Conn.Write([]byte{5, 0}); err != nil {
			return
		}
		req := make([]byte, 4)
		if _, err := io.ReadFull(pc.BR, req); err != nil || req[0] != 5 || req[1] != 1 {
			return
		}
		var host string
		switch req[3] {
		case 1:
			a := make([]byte, 4)
			if _, err := io.ReadFull(pc.BR, a); err != nil {
				return
			}
			host = net.IP(a).String()
		case 3:
			l, err := pc.BR.ReadByte()
			if err != nil {
				return
			}
			a := make([]byte, int(l))
			if _, err := io.ReadFull(pc.BR, a); err != nil {
				return
			}
			host = string(a)
		case 4:
			a := make([]byte, 16)
			if _, err := io.ReadFull(pc.BR, a); err != nil {
				return
			}
			host = net.IP(a).String()
		default:
			return
		}
		port := make([]byte, 2)
		if _, err := io.ReadFull(pc.BR, port); err != nil {
			return
		}
		pc.Conn.SetReadDeadline(time.Time{})
		reply := []byte{5, 0, 0, 1, 0, 0, 0, 0, 0, 0}
		reg.deliver(caseNameOf(host), &farEnd{conn: pc.Conn, br: pc.BR, reply: reply, sentPre: 2,
			reqHead: []byte(fmt.Sprintf("socks5 connect %s:%d", host, binary.BigEndian.Uint16(port)))})
	}
}

func tlsConfigFor(ca *rig.CA, name string) (*tls.Config, error) {
	leaf, err := ca.ValidLeaf(name)
	if err != nil {
		return nil, err
	}
	return &tls.Config{Certificates: []tls.Certificate{leaf}}, nil
}
