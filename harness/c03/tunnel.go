package c03

import (
	"bufio"
	"bytes"
	"crypto/sha256"
	"crypto/tls"
	"encoding/hex"
	"errors"
	"fmt"
	"io"
	"net"
	"os"
	"sort"
	"strconv"
	"strings"
	"sync"
	"sync/atomic"
	"time"
)

// tunnelCase is one tunnel: everything both scripted endpoints do. Payload bytes derive from Seed.
type tunnelCase struct {
	Kind string `json:"kind"` // "tunnel"
	Mode string `json:"mode"`
	Seed uint64 `json:"seed"`
	// client → target: Up1 bytes, then (order "target-first") Up2 more after the target's EOF was seen
	Up1 int `json:"up1"`
	Up2 int `json:"up2,omitempty"`
	// target → client
	Down1 int `json:"down1"`
	Down2 int `json:"down2,omitempty"`
	// Early: how many of the Up1 bytes travel in the same write(s) as the request head
	Early int `json:"early"`
	// HeadCuts: where the block head+early is cut into separate writes, as offsets relative to the
	// END of the request head (0 = head | early data, -2 = inside the final CRLF CRLF …); empty = ONE write
	HeadCuts []int `json:"head_cuts,omitempty"`
	// Bytewise: the first 300 bytes of that block are written one byte at a time
	Bytewise bool `json:"bytewise,omitempty"`
	// WaitReply: the client waits for the proxy's 2xx/101 before it sends the rest of Up1
	WaitReply bool `json:"wait_reply"`
	// Coalesce: how many of the Down1 bytes the far side sends in the same write as its own reply
	// (upstream proxy's 200, SOCKS5 reply, origin's 101); direct: sent right after accept
	Coalesce int `json:"coalesce"`
	// write size patterns, used cyclically
	UpSegs   []int `json:"up_segs"`
	DownSegs []int `json:"down_segs"`
	Pause    bool  `json:"pause,omitempty"` // tiny pauses between the first writes
	// Order of half-closes: "client-first" | "target-first" | "simultaneous"
	Order string `json:"order"`
	// HoldMs: how long the second side waits after it saw end-of-stream before it sends its phase 2
	HoldMs int `json:"hold_ms,omitempty"`
	// ReplyVariant (upstream proxy modes): 0 = HTTP/1.1 200 with a field line, 1 = HTTP/1.0 200,
	// 2 = HTTP/1.1 200 with Content-Length: 5, 3 = with Transfer-Encoding: chunked, 4 = with
	// Content-Length: 300000, 5 = with Transfer-Encoding: chunked and Content-Length: 5
	ReplyVariant int `json:"reply_variant,omitempty"`
	// HeadVariant: 1 = the CONNECT request carries a Content-Length
	HeadVariant int `json:"head_variant,omitempty"`
	// Duplex: Up1 and Down1 are both large, so that both endpoints stream their own pseudo-random
	// payload at the same time (full duplex) before either half-closes
	Duplex bool `json:"duplex,omitempty"`
	// NoWaitEOF (order "client-first"): the far side does not wait for the client's end-of-stream before
	// its second phase - a leg the proxy cannot half-close never shows it while the tunnel lives -; it goes
	// on streaming Down2 (≥ 256 KiB) once the client HAS half-closed and all of Up1 has arrived, and finishes
	NoWaitEOF bool `json:"no_wait_eof,omitempty"`
	// UpgradeReq (upgrade modes): how the request that asks for the protocol switch spells its version and its
	// Connection field(s), an index into upgradeReqs. 0 = HTTP/1.1 with "Connection: Upgrade"; the others carry the
	// close option next to Upgrade (token order / spelling / several field lines), are sent as HTTP/1.0, or carry
	// keep-alive next to Upgrade
	UpgradeReq int `json:"upgrade_req,omitempty"`
	// How the END of a stream reaches the proxy (eos.go). UpTail / DownTail: that many of the LAST bytes the
	// client / the far end sends are written in one piece and followed AT ONCE by the half-close; where the
	// endpoint speaks TLS through a corked connection (TLS listener; the far TLS peers of a t12- configuration)
	// the final record(s) and close_notify leave in ONE segment, so that under TLS 1.2 the proxy's Read of that
	// leg returns the last bytes together with io.EOF. UpGapMs / DownGapMs: the half-close follows the last
	// byte only after that pause (end-of-stream arrives in a Read of its own).
	UpTail    int `json:"up_tail,omitempty"`
	DownTail  int `json:"down_tail,omitempty"`
	UpGapMs   int `json:"up_gap_ms,omitempty"`
	DownGapMs int `json:"down_gap_ms,omitempty"`
}

// upgradeReq is one way to ask for a protocol switch. closes: http.ReadRequest sets Request.Close for it (the
// close connection option of RFC 9110 7.6.1, or HTTP/1.0 without keep-alive) - which is about the connection
// AFTER the exchange and must make no difference to the tunnel the 101 opens (the repaired F52: the 101 went
// out with "Connection: close" and the connection was closed instead of being tunnelled).
type upgradeReq struct {
	label, proto string
	conn         []string // one Connection field line each
	closes       bool
}

var upgradeReqs = []upgradeReq{
	{"plain", "HTTP/1.1", []string{"Upgrade"}, false},
	{"upgrade,close", "HTTP/1.1", []string{"Upgrade, close"}, true},
	{"close,upgrade", "HTTP/1.1", []string{"close, Upgrade"}, true},
	{"spelling:upgrade,CLOSE", "HTTP/1.1", []string{"upgrade,CLOSE"}, true},
	{"two-lines:upgrade|close", "HTTP/1.1", []string{"Upgrade", "close"}, true},
	{"two-lines:close|upgrade", "HTTP/1.1", []string{"Close", "Upgrade"}, true},
	{"keep-alive,upgrade,close", "HTTP/1.1", []string{"keep-alive, Upgrade", "close"}, true},
	{"http/1.0:upgrade", "HTTP/1.0", []string{"Upgrade"}, true},
	{"http/1.0:upgrade,close", "HTTP/1.0", []string{"Upgrade, close"}, true},
	{"http/1.0:keep-alive,upgrade", "HTTP/1.0", []string{"keep-alive, Upgrade"}, false},
	{"keep-alive,upgrade", "HTTP/1.1", []string{"keep-alive, Upgrade"}, false},
}

func upgradeReqOf(tc *tunnelCase) upgradeReq {
	if tc.UpgradeReq < 0 || tc.UpgradeReq >= len(upgradeReqs) {
		return upgradeReqs[0]
	}
	return upgradeReqs[tc.UpgradeReq]
}

// payload derives n bytes from a seed (splitmix64).
func payload(seed uint64, n int) []byte {
	b := make([]byte, n+8)
	s := seed
	for i := 0; i < n; i += 8 {
		s += 0x9e3779b97f4a7c15
		z := s
		z = (z ^ (z >> 30)) * 0xbf58476d1ce4e5b9
		z = (z ^ (z >> 27)) * 0x94d049bb133111eb
		z ^= z >> 31
		b[i], b[i+1], b[i+2], b[i+3] = byte(z), byte(z>>8), byte(z>>16), byte(z>>24)
		b[i+4], b[i+5], b[i+6], b[i+7] = byte(z>>32), byte(z>>40), byte(z>>48), byte(z>>56)
	}
	return b[:n]
}

// dirObs is what the endpoints of one direction observed.
type dirObs struct {
	Sent      int    `json:"sent"`
	Got       int    `json:"got"`
	SentSHA   string `json:"sent_sha256"`
	GotSHA    string `json:"got_sha256"`
	FirstDiff int    `json:"first_diff"` // -1: what arrived is a prefix of what was sent
	Fin       bool   `json:"fin"`        // the source half-closed
	EOF       bool   `json:"eof"`        // the destination read a clean end-of-stream
	ReadErr   string `json:"read_err,omitempty"`
	WriteErr  string `json:"write_err,omitempty"`
	AfterEOF  int    `json:"after_eof"` // bytes the source sent after it had seen the other side's EOF

	sent, got []byte
	// when the destination endpoint read its first and its last payload byte
	firstAt, lastAt time.Time
	// finAt: just BEFORE the source called CloseWrite; eofAt: just AFTER the destination's read returned
	// end-of-stream
	finAt, eofAt time.Time
}

// countingReader closes `reached` when `want` bytes have been read through it.
type countingReader struct {
	r       io.Reader
	n, want int
	reached chan struct{}
}

func (c *countingReader) Read(p []byte) (int, error) {
	n, err := c.r.Read(p)
	if c.n < c.want && c.n+n >= c.want {
		close(c.reached)
	}
	c.n += n
	return n, err
}

// arrived notes that payload bytes of this direction reached the destination endpoint just now.
func (d *dirObs) arrived() {
	now := time.Now()
	if d.firstAt.IsZero() {
		d.firstAt = now
	}
	d.lastAt = now
}

// overlap: for how long payload of both directions was arriving at the endpoints at the same time.
func overlap(a, b *dirObs) time.Duration {
	if a.firstAt.IsZero() || b.firstAt.IsZero() {
		return 0
	}
	from, to := a.firstAt, a.lastAt
	if b.firstAt.After(from) {
		from = b.firstAt
	}
	if b.lastAt.Before(to) {
		to = b.lastAt
	}
	if to.Before(from) {
		return 0
	}
	return to.Sub(from)
}

type tunnelObs struct {
	Status      int     `json:"status"`
	ClientHead  string  `json:"client_head,omitempty"`
	FarReq      string  `json:"far_request,omitempty"`
	Up          dirObs  `json:"up"`
	Down        dirObs  `json:"down"`
	HeadLen     int     `json:"head_len"`
	ReplyLen    int     `json:"reply_len"`
	Error       string  `json:"error,omitempty"`
	Stalled     bool    `json:"stalled,omitempty"` // given up: no byte moved for the stall limit
	ElapsedMs   int64   `json:"elapsed_ms"`
	OverlapUs   int64   `json:"duplex_overlap_us"` // both directions were arriving at the endpoints for this long together
	OpenClient  float64 `json:"open_client_sockets"`
	OpenTarget  float64 `json:"open_target_sockets"`
	closureErr  string
	modelAnswer string
	// what the endpoints wrote besides the payload (model input)
	ClientHeadSent string `json:"client_request"`
	replySent      []byte
	sentPre        int
	// the Read calls of a scripted source leg (eos.go), as the proxy saw them
	upReads, downReads []readRec
}

// headPieces cuts the block head+early into the writes the case asks for.
func headPieces(tc *tunnelCase, headLen int, first []byte) [][]byte {
	var cuts []int
	if tc.Bytewise {
		for i := 1; i < len(first) && i <= 300; i++ {
			cuts = append(cuts, i)
		}
	}
	for _, off := range tc.HeadCuts {
		if p := headLen + off; p > 0 && p < len(first) {
			cuts = append(cuts, p)
		}
	}
	sort.Ints(cuts)
	var out [][]byte
	prev := 0
	for _, c := range cuts {
		if c > prev {
			out = append(out, first[prev:c])
			prev = c
		}
	}
	return append(out, first[prev:])
}

func sha(b []byte) string { h := sha256.Sum256(b); return hex.EncodeToString(h[:8]) }

func firstDiff(got, sent []byte) int {
	if len(got) <= len(sent) && bytes.Equal(got, sent[:len(got)]) {
		return -1
	}
	n := len(got)
	if len(sent) < n {
		n = len(sent)
	}
	for i := 0; i < n; i++ {
		if got[i] != sent[i] {
			return i
		}
	}
	if len(got) > len(sent) {
		return len(sent)
	}
	return -1
}

func errKind(err error) string {
	if err == nil {
		return ""
	}
	if errors.Is(err, io.EOF) {
		return "eof"
	}
	var ne net.Error
	if errors.As(err, &ne) && ne.Timeout() {
		return "timeout"
	}
	if errors.Is(err, os.ErrDeadlineExceeded) {
		return "timeout"
	}
	s := err.Error()
	switch {
	case strings.Contains(s, "connection reset"):
		return "reset"
	case strings.Contains(s, "broken pipe"):
		return "broken-pipe"
	case strings.Contains(s, "unexpected EOF"):
		return "unexpected-eof"
	case strings.Contains(s, "closed network connection"):
		return "closed-locally"
	}
	return s
}

// writeSegs writes b using the size pattern cyclically and returns how many bytes were written.
func writeSegs(c net.Conn, b []byte, pat []int, pause bool, tick func()) (int, error) {
	i, done := 0, 0
	for len(b) > 0 {
		n := len(b)
		if len(pat) > 0 {
			if s := pat[i%len(pat)]; s > 0 && s < n {
				n = s
			}
		}
		w, err := c.Write(b[:n])
		done += w
		if err != nil {
			return done, err
		}
		tick()
		b = b[n:]
		if pause && i < 24 {
			time.Sleep(150 * time.Microsecond)
		}
		i++
	}
	return done, nil
}

// holdFor sleeps d in slices, telling the watchdog that the pause is deliberate.
func holdFor(d time.Duration, tick func()) {
	for d > 0 {
		s := d
		if s > 200*time.Millisecond {
			s = 200 * time.Millisecond
		}
		time.Sleep(s)
		tick()
		d -= s
	}
}

// readAll reads from r until an error; the error kind tells how the stream ended.
func readAll(r io.Reader, limit int, tick func()) ([]byte, error) {
	var out bytes.Buffer
	buf := make([]byte, 64<<10)
	for {
		n, err := r.Read(buf)
		out.Write(buf[:n])
		if n > 0 {
			tick()
		}
		if err != nil {
			return out.Bytes(), err
		}
		if out.Len() > limit {
			return out.Bytes(), errors.New("more bytes than were ever sent")
		}
	}
}

func clientHead(tc *tunnelCase, far string) []byte {
	bm := baseMode(tc.Mode)
	if bm == "upgrade" {
		v := upgradeReqOf(tc)
		head := "GET http://up.test/" + far + " " + v.proto + "\r\nHost: up.test\r\n"
		for _, c := range v.conn {
			head += "Connection: " + c + "\r\n"
		}
		return []byte(head + "Upgrade: verif\r\n\r\n")
	}
	head := "CONNECT " + far + ".test:443 HTTP/1.1\r\nHost: " + far + ".test:443\r\n"
	if bm == "terminate" {
		// proxy_connect.go: the proxy itself speaks TLS to the target, the client's bytes travel inside
		head += "X-Martian-Terminate-Tls: true\r\n"
	}
	if tc.HeadVariant == 1 {
		// RFC 9110 9.3.6: a CONNECT request has no content; a Content-Length on it is to be ignored
		head += "Content-Length: 7\r\n"
	}
	return []byte(head + "\r\n")
}

var socksPre = []byte{5, 0}

var caseSeq struct {
	sync.Mutex
	n int
}

func nextCaseName() string {
	caseSeq.Lock()
	defer caseSeq.Unlock()
	caseSeq.n++
	return "c" + strconv.Itoa(caseSeq.n)
}

// runTunnel drives one tunnel through the real proxy and returns what both endpoints observed.
func (e *env) runTunnel(tc *tunnelCase, stall, limit time.Duration) *tunnelObs {
	start := time.Now()
	obs := &tunnelObs{}
	defer func() { obs.ElapsedMs = time.Since(start).Milliseconds() }()
	deadline := start.Add(limit)
	e.tunnels.Add(1)
	e.lastCase.Store(tc)

	// the far side's name: a slot target for direct dials, a fresh name otherwise
	var far string
	if e.slots != nil {
		i := <-e.slots
		defer func() { e.slots <- i }()
		far = fmt.Sprintf("slot%d", i)
	} else {
		far = nextCaseName()
	}
	farCh := e.reg.expect(far)
	defer e.reg.forget(far)

	up := payload(tc.Seed, tc.Up1+tc.Up2)
	down := payload(tc.Seed^0xd0d0d0d0d0d0d0d0, tc.Down1+tc.Down2)
	obs.Up.sent, obs.Down.sent = up, down
	head := clientHead(tc, far)
	obs.HeadLen = len(head)
	obs.ClientHeadSent = string(head)

	tcpConn, err := net.DialTimeout("tcp", e.proxy.Addr, 5*time.Second)
	if err != nil {
		obs.Error = "dial proxy: " + err.Error()
		return obs
	}
	var conn net.Conn = tcpConn
	defer func() { conn.Close() }()
	if e.spec.tlsListener {
		// TLS first (the listener's certificate is self-signed), then the request
		// corked: the client decides which records share a segment (the last ones and close_notify, see UpTail)
		tconn := tls.Client(&corkConn{Conn: tcpConn}, &tls.Config{InsecureSkipVerify: true, MaxVersion: e.tlsMax()})
		tconn.SetDeadline(time.Now().Add(20 * time.Second))
		if err := tconn.Handshake(); err != nil {
			obs.Error = "TLS handshake with the proxy's listener: " + errKind(err)
			return obs
		}
		conn = tconn
	}
	conn.SetDeadline(deadline)
	cbr := bufio.NewReaderSize(conn, 64<<10)

	early := tc.Early
	if early > tc.Up1 {
		early = tc.Up1
	}
	var wg sync.WaitGroup
	replied := make(chan int, 1)     // status of the proxy's reply
	clientEOF := make(chan struct{}) // client has read end-of-stream
	farEOF := make(chan struct{})    // far side has read end-of-stream
	clientFin := make(chan struct{}) // the client's CloseWrite has returned
	upAll := make(chan struct{})     // all of Up1 has arrived at the far side
	if tc.Up1 == 0 {
		close(upAll)
	}
	abort := make(chan struct{})
	var abortOnce sync.Once
	var farMu sync.Mutex
	var farConn net.Conn
	expire := func() { // unblock every read and write of both endpoints
		conn.SetDeadline(time.Now())
		farMu.Lock()
		if farConn != nil {
			farConn.SetDeadline(time.Now())
		}
		farMu.Unlock()
	}
	fail := func(msg string) {
		abortOnce.Do(func() {
			if obs.Error == "" {
				obs.Error = msg
			}
			close(abort)
			expire()
		})
	}
	// watchdog: a tunnel in which no byte has moved for `stall` is given up (its endpoints then report
	// timeouts); a loaded machine slows tunnels down but does not stop them
	var progress atomic.Int64
	tick := func() { progress.Store(time.Now().UnixNano()) }
	tick()
	finished := make(chan struct{})
	defer close(finished)
	go func() {
		t := time.NewTicker(100 * time.Millisecond)
		defer t.Stop()
		for {
			select {
			case <-finished:
				return
			case <-t.C:
				if time.Since(time.Unix(0, progress.Load())) > stall {
					obs.Stalled = true
					expire()
					abortOnce.Do(func() { close(abort) })
					return
				}
			}
		}
	}()
	waitFor := func(ch <-chan struct{}) bool {
		select {
		case <-ch:
			return true
		case <-abort:
			return false
		case <-time.After(time.Until(deadline)):
			return false
		}
	}

	// ---- client reader
	wg.Add(1)
	go func() {
		defer wg.Done()
		defer close(clientEOF)
		h, err := readHead(cbr)
		if err != nil {
			obs.Down.ReadErr = "reply: " + errKind(err)
			replied <- 0
			return
		}
		obs.ClientHead = string(h)
		f := strings.Fields(string(h))
		st := 0
		if len(f) >= 2 {
			st, _ = strconv.Atoi(f[1])
		}
		obs.Status = st
		replied <- st
		if st != 200 && st != 101 {
			fail(fmt.Sprintf("proxy answered %d", st))
			return
		}
		got, err := readAll(cbr, len(down)+1024, func() { tick(); obs.Down.arrived() })
		obs.Down.eofAt = time.Now()
		obs.Down.got = got
		obs.Down.EOF = errors.Is(err, io.EOF)
		if !obs.Down.EOF {
			obs.Down.ReadErr = errKind(err)
		}
	}()

	// ---- client writer
	upSent, downSent := 0, 0
	wg.Add(1)
	go func() {
		defer wg.Done()
		first := append(append([]byte(nil), head...), up[:early]...)
		n := 0
		for i, piece := range headPieces(tc, len(head), first) {
			w, err := conn.Write(piece)
			n += w
			if n > len(head) {
				upSent = n - len(head)
			}
			if err != nil {
				obs.Up.WriteErr = errKind(err)
				return
			}
			tick()
			if i < 40 {
				time.Sleep(150 * time.Microsecond)
			}
		}
		var err error
		if tc.WaitReply {
			select {
			case st := <-replied:
				replied <- st
				if st != 200 && st != 101 {
					return
				}
			case <-abort:
				return
			}
		}
		last, lastPause := up[early:tc.Up1], tc.Pause // the bytes the half-close follows
		if tc.Order == "target-first" {
			n, err = writeSegs(conn, last, tc.UpSegs, tc.Pause, tick)
			upSent += n
			if err != nil {
				obs.Up.WriteErr = errKind(err)
				return
			}
			if !waitFor(clientEOF) {
				return
			}
			if tc.HoldMs > 0 {
				holdFor(time.Duration(tc.HoldMs)*time.Millisecond, tick)
			}
			last, lastPause = up[tc.Up1:], false
		}
		// TCP: FIN; TLS listener: close_notify, which the proxy's Read reports as end-of-stream
		n, inCW, err := writeLast(conn, last, tc.UpSegs, lastPause, tick, tc.UpTail, tc.UpGapMs, &obs.Up.finAt,
			conn.(interface{ CloseWrite() error }).CloseWrite)
		upSent += n
		if tc.Order == "target-first" {
			obs.Up.AfterEOF = n
		}
		if err != nil {
			obs.Up.WriteErr = errKind(err)
			if inCW {
				obs.Up.WriteErr = "closewrite: " + errKind(err)
			}
			return
		}
		obs.Up.Fin = true
		close(clientFin)
	}()

	// ---- far side
	wg.Add(1)
	go func() {
		defer wg.Done()
		var fe *farEnd
		select {
		case fe = <-farCh:
		case <-abort:
			close(farEOF)
			return
		case <-time.After(time.Until(deadline)):
			close(farEOF)
			fail("no connection reached the far side")
			return
		}
		defer close(fe.release)
		farMu.Lock()
		farConn = fe.conn
		farMu.Unlock()
		fe.conn.SetDeadline(deadline)
		tick()
		obs.FarReq = string(fe.reqHead)
		reply := fe.reply
		if bytes.HasPrefix(reply, []byte("HTTP/1.1 200")) {
			switch tc.ReplyVariant {
			case 1:
				reply = []byte(connectReply0)
			case 2:
				reply = []byte(connectReplyCL)
			case 3:
				reply = []byte(connectReplyTE)
			case 4:
				reply = []byte(connectReplyCLBig)
			case 5:
				reply = []byte(connectReplyTECL)
			}
		}
		obs.ReplyLen = fe.sentPre + len(reply)
		obs.sentPre = fe.sentPre
		obs.replySent = append(append([]byte(nil), socksPre[:fe.sentPre]...), reply...)
		var fw sync.WaitGroup
		fw.Add(1)
		go func() { // far reader
			defer fw.Done()
			defer close(farEOF)
			got, err := readAll(&countingReader{r: fe.br, want: tc.Up1, reached: upAll}, len(up)+1024, func() { tick(); obs.Up.arrived() })
			obs.Up.eofAt = time.Now()
			obs.Up.got = got
			obs.Up.EOF = errors.Is(err, io.EOF)
			if !obs.Up.EOF {
				obs.Up.ReadErr = errKind(err)
			}
		}()
		func() { // far writer
			co := tc.Coalesce
			if co > tc.Down1 {
				co = tc.Down1
			}
			first := append(append([]byte(nil), reply...), down[:co]...)
			if len(first) > 0 {
				n, err := fe.conn.Write(first)
				if n > len(reply) {
					downSent = n - len(reply)
				}
				if err != nil {
					obs.Down.WriteErr = errKind(err)
					return
				}
				tick()
			}
			last, lastPause := down[co:tc.Down1], tc.Pause // the bytes the half-close follows
			if tc.Order == "client-first" {
				n, err := writeSegs(fe.conn, last, tc.DownSegs, tc.Pause, tick)
				downSent += n
				if err != nil {
					obs.Down.WriteErr = errKind(err)
					return
				}
				if tc.NoWaitEOF {
					if !waitFor(clientFin) || !waitFor(upAll) {
						return
					}
				} else if !waitFor(farEOF) {
					return
				}
				if tc.HoldMs > 0 {
					holdFor(time.Duration(tc.HoldMs)*time.Millisecond, tick)
				}
				last, lastPause = down[tc.Down1:], false
			}
			n, inCW, err := writeLast(fe.conn, last, tc.DownSegs, lastPause, tick, tc.DownTail, tc.DownGapMs, &obs.Down.finAt, fe.closeWrite)
			downSent += n
			if tc.Order == "client-first" {
				obs.Down.AfterEOF = n
			}
			if err != nil {
				obs.Down.WriteErr = errKind(err)
				if inCW {
					obs.Down.WriteErr = "closewrite: " + errKind(err)
				}
				return
			}
			obs.Down.Fin = true
		}()
		fw.Wait()
	}()

	wg.Wait()
	if e.spec.clientJoin {
		obs.upReads = e.readsOf(tcpConn.LocalAddr().String())
	}
	if e.spec.base == "cf-dataeof" {
		farMu.Lock()
		if farConn != nil {
			obs.downReads = e.readsOf(farConn.RemoteAddr().String())
		}
		farMu.Unlock()
	}
	// what was actually offered to the tunnel
	obs.Up.Sent, obs.Down.Sent = upSent, downSent
	obs.Up.sent, obs.Down.sent = up[:upSent], down[:downSent]
	for _, d := range []*dirObs{&obs.Up, &obs.Down} {
		d.Got = len(d.got)
		d.SentSHA, d.GotSHA = sha(d.sent), sha(d.got)
		d.FirstDiff = firstDiff(d.got, d.sent)
	}
	obs.OverlapUs = overlap(&obs.Up, &obs.Down).Microseconds()
	return obs
}
