#!/bin/bash
# usage: WT=<scratch worktree of /repo> mutations.sh <name>
# Applies one of the edits of DESIGN.md 5b row C03 (and a few neighbours) to the worktree after resetting it;
# then run  VERIF_REPO=$WT bin/check C03  — every one of them must end in a VIOLATION line.
# names: none drain-skipped drain-skipped-conn-only drain-skipped-handler-only copy-from-bufreader closewrite-to-close
#        closewrite-omitted one-direction-only reply-reader-buffered reply-reader-4k grace-10ms drain-twice
#        drain-one-byte-short no-reflect-closewriter shared-copy-buffer connect-2xx-body-kept
#        connect-2xx-length-kept-for-chunked
#        the grace period on the clock (caught by the phase of grace.go): grace-timer-at-tunnel-start
#        grace-timer-after-last-finish grace-period-halved grace-timer-not-cancelled grace-close-only-first-leg
#        leg capabilities / limits on established tunnels (legs.go, longevity.go): closewrite-error-closes close-when-no-closewrite
#        read-deadline-not-cleared write-deadline-not-cleared http-dial-deadline-on-conn socks-dial-deadline-on-conn
#        a copy direction that ends with an error (abort.go): closewrite-skipped-on-closed-conn-error
#        closewrite-only-after-clean-eof copy-error-returns-without-done
# BASE_PATCH=<file> (optional): a patch applied after the reset and before the mutation (a repair that
# is not committed in /repo yet, e.g. the one of F29 while it is under review).
set -e
WT="${WT:?set WT to a scratch worktree: git -C /repo worktree add --detach <dir>}"
export WT
git -C $WT checkout -q -- .
if [ -n "${BASE_PATCH:-}" ]; then git -C $WT apply "$BASE_PATCH"; fi
case "$1" in
 none) ;;
 drain-skipped)
   python3 - <<'PY'
import re
import os
p=os.environ['WT']+'/internal/martian/copy.go'
s=open(p).read()
s=s.replace('''	if n := r.Buffered(); n > 0 {
		rbuf, err := r.Peek(n)
		if err != nil {
			return err
		}
		w.Write(rbuf)
	}
	return nil''','''	return nil''')
open(p,'w').write(s)
PY
 ;;
 drain-skipped-conn-only)
   sed -i 's/if err := drainBuffer(crw, p.brw.Reader); err != nil {/if err := error(nil); err != nil {/' $WT/internal/martian/proxy_conn.go ;;
 drain-skipped-handler-only)
   sed -i 's/if err := drainBuffer(crw, brw.Reader); err != nil {/if err := error(nil); err != nil {/' $WT/internal/martian/proxy_handler.go ;;
 copy-from-bufreader)
   sed -i 's/copier{"upstream " + name, crw, p.conn},/copier{"upstream " + name, crw, p.brw.Reader},/' $WT/internal/martian/proxy_conn.go
   sed -i 's/{"upstream " + name, crw, conn},/{"upstream " + name, crw, brw.Reader},/' $WT/internal/martian/proxy_handler.go ;;
 closewrite-to-close)
   python3 - <<'PY'
import os
p=os.environ['WT']+'/internal/martian/copy.go'
s=open(p).read()
s=s.replace("	c.closeWriter(ctx)\n\n	log.Debug(ctx, \"tunnel finished copying\"","	c.close(ctx)\n\n	log.Debug(ctx, \"tunnel finished copying\"")
open(p,'w').write(s)
PY
 ;;
 closewrite-omitted)
   python3 - <<'PY'
import os
p=os.environ['WT']+'/internal/martian/copy.go'
s=open(p).read()
s=s.replace("	c.closeWriter(ctx)\n\n	log.Debug(ctx, \"tunnel finished copying\"","	log.Debug(ctx, \"tunnel finished copying\"")
open(p,'w').write(s)
PY
 ;;
 one-direction-only)
   python3 - <<'PY'
import os
p=os.environ['WT']+'/internal/martian/copy.go'
s=open(p).read()
old='''	for i := range cc {
		<-donec
		if i == 0 {
			// Forcibly close all tunnels 1 minute after the first tunnel finished.
			go gracefulCloseAfter(ctx, bicopyGracefulTimeout, cc...)
		}
	}
'''
assert old in s
s=s.replace(old,'''	<-donec
''')
open(p,'w').write(s)
PY
 ;;
 reply-reader-buffered)
   sed -i 's/pbr := bufio.NewReaderSize(byteReader{conn}, 128)/pbr := bufio.NewReaderSize(conn, 128)/' $WT/dialvia/http.go ;;
 reply-reader-4k)
   sed -i 's/pbr := bufio.NewReaderSize(byteReader{conn}, 128)/pbr := bufio.NewReader(conn)/' $WT/dialvia/http.go ;;
 grace-10ms)
   sed -i 's/var bicopyGracefulTimeout = 1 \* time.Minute/var bicopyGracefulTimeout = 10 * time.Millisecond/' $WT/internal/martian/copy.go ;;
 drain-twice)
   sed -i 's/\t\tw.Write(rbuf)/\t\tw.Write(rbuf)\n\t\tw.Write(rbuf)/' $WT/internal/martian/copy.go ;;
 drain-one-byte-short)
   sed -i 's/\t\tw.Write(rbuf)/\t\tw.Write(rbuf[:len(rbuf)-1])/' $WT/internal/martian/copy.go ;;
 no-reflect-closewriter)
   python3 - <<'PY'
import os
p=os.environ['WT']+'/internal/martian/close.go'
s=open(p).read()
s=s.replace("	return reflectx.LookupImpl[closeWriter](reflect.ValueOf(w))","	_ = reflect.ValueOf\n	_ = reflectx.LookupImpl[closeWriter]\n	return nil, false")
open(p,'w').write(s)
PY
 ;;
 shared-copy-buffer)
   # one pooled buffer per tunnel instead of one per direction: shows only when neither leg has a
   # ReadFrom/WriteTo fast path (tls-* / rl-* modes) and both directions carry data at once
   python3 - <<'PY'
import os
p=os.environ['WT']+'/internal/martian/copy.go'
s=open(p).read()
old="""	donec := make(chan struct{}, len(cc))
	for i := range cc {
		go cc[i].copy(ctx, donec)
	}
"""
assert old in s
s=s.replace(old,"""	bufp := copyBufPool.Get().(*[]byte)
	defer copyBufPool.Put(bufp)
	donec := make(chan struct{}, len(cc))
	for i := range cc {
		go cc[i].copy(ctx, *bufp, donec)
	}
""")
old="""func (c copier) copy(ctx context.Context, donec chan<- struct{}) {
	bufp := copyBufPool.Get().(*[]byte) //nolint:forcetypeassert // It's *[]byte.
	buf := *bufp
	defer copyBufPool.Put(bufp)
"""
assert old in s
s=s.replace(old,"""func (c copier) copy(ctx context.Context, buf []byte, donec chan<- struct{}) {
""")
open(p,'w').write(s)
PY
 ;;
 connect-2xx-body-kept)
   # the repair of F29 undone: the body http.ReadResponse built from the 2xx reply's Content-Length /
   # Transfer-Encoding stays, and connectHTTP's res.Body.Close() drains it out of the tunnel
   grep -q 'res.Body = http.NoBody' $WT/dialvia/http.go
   sed -i '/^\t\t\tres.Body = http.NoBody$/d' $WT/dialvia/http.go ;;
 connect-2xx-length-kept-for-chunked)
   # the repair of F29 applied to replies with a Content-Length only: a 2xx reply that declares
   # Transfer-Encoding: chunked keeps its body
   grep -q 'if res.StatusCode/100 == 2 {' $WT/dialvia/http.go
   sed -i 's|^\t\tif res.StatusCode/100 == 2 {$|\t\tif res.StatusCode/100 == 2 \&\& len(res.TransferEncoding) == 0 {|' $WT/dialvia/http.go ;;
 grace-timer-at-tunnel-start|grace-timer-after-last-finish|grace-period-halved|grace-timer-not-cancelled|grace-close-only-first-leg)
   M="$1" python3 - <<'PY'
import os
p=os.environ['WT']+'/internal/martian/copy.go'
s=open(p).read()
loop="""	for i := range cc {
		<-donec
		if i == 0 {
			// Forcibly close all tunnels 1 minute after the first tunnel finished.
			go gracefulCloseAfter(ctx, bicopyGracefulTimeout, cc...)
		}
	}
"""
assert loop in s
m=os.environ['M']
if m=='grace-timer-at-tunnel-start':      # the timer runs from the start of the tunnel
    s=s.replace(loop,"\tgo gracefulCloseAfter(ctx, bicopyGracefulTimeout, cc...)\n\tfor range cc {\n\t\t<-donec\n\t}\n")
elif m=='grace-timer-after-last-finish':  # only once both directions have finished: never effective
    s=s.replace(loop,loop.replace('if i == 0 {','if i == len(cc)-1 {'))
elif m=='grace-period-halved':
    s=s.replace(loop,loop.replace('bicopyGracefulTimeout, cc...','bicopyGracefulTimeout/2, cc...'))
elif m=='grace-timer-not-cancelled':      # fires although both directions finished in time
    s=s.replace(loop,loop.replace('gracefulCloseAfter(ctx, ','gracefulCloseAfter(context.WithoutCancel(ctx), '))
elif m=='grace-close-only-first-leg':     # the forced close leaves the other leg to its (quiet) peer
    old="\tfor i := range cc {\n\t\tcc[i].close(ctx)\n\t}"
    assert old in s
    s=s.replace(old,"\tcc[0].close(ctx)")
open(p,'w').write(s)
PY
 ;;
 closewrite-error-closes|close-when-no-closewrite|read-deadline-not-cleared|write-deadline-not-cleared|http-dial-deadline-on-conn|socks-dial-deadline-on-conn)
   M="$1" python3 - <<'PY'
import os
wt=os.environ['WT']
m=os.environ['M']
def edit(path, old, new):
    p=wt+'/'+path
    s=open(p).read()
    assert s.count(old)==1, (path, old)
    open(p,'w').write(s.replace(old,new))
if m=='closewrite-error-closes':      # a CloseWrite that reports an error: "give up" on the leg
    edit('internal/martian/copy.go','\tif closeErr != nil {\n','\tif closeErr != nil {\n\t\tc.close(ctx)\n')
elif m=='close-when-no-closewrite':   # no CloseWrite anywhere: Close the leg instead (the family of seed c03-5)
    edit('internal/martian/copy.go','\t\tlog.Error(ctx, "cannot close write side of tunnel", "name", c.name, "type", fmt.Sprintf("%T", c.dst))\n',
         '\t\tc.close(ctx)\n')
elif m=='read-deadline-not-cleared':  # the request's ReadTimeout stays armed on the tunnel (what ced4586 repaired)
    edit('internal/martian/proxy_conn.go','\tif deadlineErr := p.conn.SetReadDeadline(time.Time{}); deadlineErr != nil {\n\t\tlog.Error(ctx, "can\'t clear read deadline", "error", deadlineErr)\n\t}\n\n\tlog.Debug(ctx, "switched protocols',
         '\tlog.Debug(ctx, "switched protocols')
elif m=='write-deadline-not-cleared': # the reply's WriteTimeout stays armed on the client leg
    edit('internal/martian/proxy_conn.go','\t\t\tif deadlineErr := p.conn.SetWriteDeadline(time.Time{}); deadlineErr != nil {','\t\t\tif deadlineErr := error(nil); deadlineErr != nil {')
elif m=='http-dial-deadline-on-conn': # the upstream proxy dialer's Timeout as a deadline on the connection, never cleared
    edit('dialvia/http.go','\tif d.proxyURL.Scheme == "https" {\n\t\tconn = tls.Client(conn, d.tlsConfig)\n\t}\n',
         '\tif d.Timeout > 0 {\n\t\tconn.SetDeadline(time.Now().Add(d.Timeout))\n\t}\n\tif d.proxyURL.Scheme == "https" {\n\t\tconn = tls.Client(conn, d.tlsConfig)\n\t}\n')
elif m=='socks-dial-deadline-on-conn': # the same for the SOCKS5 dialer, read side only
    edit('dialvia/socks5.go','\treturn sdctx.DialContext(ctx, network, addr)\n',
         '\tconn, err := sdctx.DialContext(ctx, network, addr)\n\tif err == nil && d.Timeout > 0 {\n\t\tconn.SetReadDeadline(time.Now().Add(d.Timeout))\n\t}\n\treturn conn, err\n')
PY
 ;;
 closewrite-skipped-on-closed-conn-error|closewrite-only-after-clean-eof|copy-error-returns-without-done)
   M="$1" python3 - <<'PY'
import os
p=os.environ['WT']+'/internal/martian/copy.go'
s=open(p).read()
m=os.environ['M']
old="""	if _, err := io.CopyBuffer(c.dst, c.src, buf); err != nil && !isClosedConnError(err) {
		log.Error(ctx, "failed to copy tunnel", "name", c.name, "error", err)
	}
	c.closeWriter(ctx)
"""
assert old in s
head="""	_, err := io.CopyBuffer(c.dst, c.src, buf)
	if err != nil && !isClosedConnError(err) {
		log.Error(ctx, "failed to copy tunnel", "name", c.name, "error", err)
	}
"""
if m=='closewrite-skipped-on-closed-conn-error':   # "the connection is gone, nothing left to half-close" (the family of seed c03-9)
    new=head+"\tif err == nil || !isClosedConnError(err) {\n\t\tc.closeWriter(ctx)\n\t}\n"
elif m=='closewrite-only-after-clean-eof':         # any copy error: the destination is not told
    new=head+"\tif err == nil {\n\t\tc.closeWriter(ctx)\n\t}\n"
elif m=='copy-error-returns-without-done':         # the failed direction never reports to bicopy
    new=head+"\tc.closeWriter(ctx)\n\tif err != nil {\n\t\treturn\n\t}\n"
open(p,'w').write(s.replace(old,new))
PY
 ;;
 *) echo "unknown mutation $1"; exit 2;;
esac
git -C $WT diff --stat | tail -1
