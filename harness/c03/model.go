package c03

import (
	"bytes"
	"fmt"
	"strings"

	"github.com/saucelabs/forwarder/verifharness/core"
)

// modelCfg mirrors Model/C03.lean Cfg for a mode.
type modelCfg struct {
	headLen, bufSize, copyMax, replyLen, replyGran int
	replyKeep                                      bool
}

func (c modelCfg) wire() string {
	return strings.Join([]string{core.Itoa(c.headLen), core.Itoa(c.bufSize), core.Itoa(c.copyMax), core.Itoa(c.replyLen),
		core.Itoa(c.replyGran), core.B01(c.replyKeep)}, ",")
}

func cfgFor(tc *tunnelCase, headLen, replyLen int) modelCfg {
	mode := tc.Mode
	c := modelCfg{headLen: headLen, bufSize: 4096, copyMax: 32 << 10, replyLen: replyLen, replyGran: 1}
	if baseMode(mode) == "upgrade" {
		// net/http's transport reads the 101 through its own bufio.Reader (ReadBufferSize 32 KiB in
		// forwarder's transport) and hands it over inside readWriteCloserBody
		c.replyGran, c.replyKeep = 32<<10, true
	}
	// http / https: dialvia's byteReader; socks5: x/net's client reads exact field lengths, which is
	// the same as never asking for more than the reply still has (modelled as the byte-wise reader).
	// The reply is its head, whatever Content-Length / Transfer-Encoding that head carries: a 2xx reply
	// to CONNECT has no content (dialvia gives it http.NoBody), so the configuration does not depend on
	// tc.ReplyVariant beyond the head's length
	return c
}

// legsWire: Model/C03.lean Legs of a mode, client leg first (1 = closeWriter can half-close the leg).
func legsWire(mode string) string {
	return "1," + core.B01(legCanHalfClose(mode))
}

type ev struct {
	write []byte // nil = not a write
	fin   bool
	wait  bool // wait until the opposite direction was shown end-of-stream by the proxy
	// waitFin: wait until the opposite endpoint has half-closed and the proxy has moved all it wrote
	// (tunnelCase.NoWaitEOF: the far side knows it in-process)
	waitFin bool
}

func segEvents(b []byte, pat []int) []ev {
	var out []ev
	i := 0
	for len(b) > 0 {
		n := len(b)
		if len(pat) > 0 {
			if s := pat[i%len(pat)]; s > 0 && s < n {
				n = s
			}
		}
		out = append(out, ev{write: b[:n]})
		b = b[n:]
		i++
	}
	return out
}

// schedule builds a random legal schedule of the tunnel machine for the endpoint behaviour of tc:
// the endpoints' writes and half-closes happen in their own order, the proxy's steps (how much the
// request reader over-reads, the reply reader's reads, every copy size, the order of the two
// copiers) are drawn at random among the enabled ones.
func schedule(r *core.Rand, c modelCfg, tc *tunnelCase, head, reply []byte, sentPre int, up, down []byte) []string {
	early := tc.Early
	if early > tc.Up1 {
		early = tc.Up1
	}
	var cl, tg []ev
	first := append(append([]byte(nil), head...), up[:early]...)
	for _, p := range headPieces(tc, len(head), first) {
		cl = append(cl, ev{write: p})
	}
	cl = append(cl, segEvents(up[early:tc.Up1], tc.UpSegs)...)
	if tc.Order == "target-first" {
		cl = append(cl, ev{wait: true})
		cl = append(cl, segEvents(up[tc.Up1:], tc.UpSegs)...)
	}
	cl = append(cl, ev{fin: true})

	co := tc.Coalesce
	if co > tc.Down1 {
		co = tc.Down1
	}
	if sentPre > 0 {
		tg = append(tg, ev{write: reply[:sentPre]})
	}
	if f := append(append([]byte(nil), reply[sentPre:]...), down[:co]...); len(f) > 0 {
		tg = append(tg, ev{write: f})
	}
	tg = append(tg, segEvents(down[co:tc.Down1], tc.DownSegs)...)
	if tc.Order == "client-first" {
		tg = append(tg, ev{wait: !tc.NoWaitEOF, waitFin: tc.NoWaitEOF})
		tg = append(tg, segEvents(down[tc.Down1:], tc.DownSegs)...)
	}
	tg = append(tg, ev{fin: true})

	var steps []string
	phase := 0 // 0 reading 1 dialing 2 replied 3 tunnel 4 closed
	var w, taken, held [2]int
	var fin, done [2]bool
	avail := func(d int) int { return held[d] + w[d] - taken[d] }
	name := [2]string{"u", "d"}
	for guard := 0; phase != 4; guard++ {
		if guard > 200000 {
			core.Fatalf("C03 schedule generator does not terminate")
		}
		type opt func()
		var opts []opt
		// endpoints
		if len(cl) > 0 && !(cl[0].wait && !done[1]) {
			opts = append(opts, func() {
				e := cl[0]
				cl = cl[1:]
				switch {
				case e.fin:
					steps = append(steps, "fu")
					fin[0] = true
				case e.write != nil:
					steps = append(steps, "cw:"+core.Hex(e.write))
					w[0] += len(e.write)
				}
			})
		}
		if len(tg) > 0 && phase >= 1 && !(tg[0].wait && !done[0]) && !(tg[0].waitFin && !(fin[0] && phase >= 3 && avail(0) == 0)) {
			opts = append(opts, func() {
				e := tg[0]
				tg = tg[1:]
				switch {
				case e.fin:
					steps = append(steps, "fd")
					fin[1] = true
				case e.write != nil:
					steps = append(steps, "tw:"+core.Hex(e.write))
					w[1] += len(e.write)
				}
			})
		}
		// proxy
		switch phase {
		case 0:
			if w[0] >= c.headLen {
				opts = append(opts, func() {
					max := w[0] - c.headLen
					if max > c.bufSize {
						max = c.bufSize
					}
					k := max
					if r.Chance(40) {
						k = r.Range(0, max)
					}
					steps = append(steps, "rh:"+core.Itoa(k))
					taken[0], held[0] = c.headLen+k, k
					phase = 1
				})
			}
		case 1:
			if taken[1] < c.replyLen {
				if w[1] > taken[1] {
					opts = append(opts, func() {
						max := w[1] - taken[1]
						if max > c.replyGran {
							max = c.replyGran
						}
						n := r.Range(1, max)
						steps = append(steps, "rr:"+core.Itoa(n))
						taken[1] += n
					})
				}
			} else {
				opts = append(opts, func() {
					steps = append(steps, "cn")
					if c.replyKeep {
						held[1] = taken[1] - c.replyLen
					}
					phase = 2
				})
			}
		case 2:
			opts = append(opts, func() {
				steps = append(steps, "dr")
				held[0] = 0
				phase = 3
			})
		case 3:
			for d := 0; d < 2; d++ {
				d := d
				if done[d] {
					continue
				}
				if a := avail(d); a > 0 {
					opts = append(opts, func() {
						max := a
						if max > c.copyMax {
							max = c.copyMax
						}
						n := max
						if r.Chance(50) {
							n = r.Range(1, max)
						}
						steps = append(steps, "c"+name[d]+":"+core.Itoa(n))
						fromHeld := n
						if fromHeld > held[d] {
							fromHeld = held[d]
						}
						held[d] -= fromHeld
						taken[d] += n - fromHeld
					})
				} else if fin[d] {
					opts = append(opts, func() {
						steps = append(steps, "e"+name[d])
						done[d] = true
						if done[1-d] {
							phase = 4
						}
					})
				}
			}
		}
		if len(opts) == 0 {
			core.Fatalf("C03 schedule generator is stuck (phase %d, %d/%d endpoint events left)", phase, len(cl), len(tg))
		}
		opts[r.Intn(len(opts))]()
	}
	return steps
}

// compareWithModelRun executes the model on the real bytes and compares its terminal state with
// what the endpoints received.
func (e *env) compareWithModelRun(ctx *core.Ctx, tc *tunnelCase, obs *tunnelObs, impl string) bool {
	r := core.NewRand(tc.Seed ^ 0x5c4ed01e)
	head := []byte(obs.ClientHeadSent)
	reply := obs.replySent
	c := cfgFor(tc, len(head), len(reply))
	up, down := obs.Up.sent, obs.Down.sent
	// the schedule is built from the case, whose phase sizes must be what was really sent
	if len(up) != upTotal(tc) || len(down) != downTotal(tc) {
		return true
	}
	steps := schedule(r, c, tc, head, reply, obs.sentPre, up, down)
	// the machine with what closeWriter can do to the legs of this configuration, under the code's policy
	ans := ctx.Model.MustAsk("C03", "hrun", c.wire(), legsWire(tc.Mode), "leave", core.JoinList2(steps))
	kv := map[string]string{}
	for _, f := range strings.Fields(ans) {
		if i := strings.IndexByte(f, '='); i > 0 {
			kv[f[:i]] = f[i+1:]
		}
	}
	if !strings.HasPrefix(ans, "ok ") {
		core.Fatalf("C03: the model rejected a generated schedule: %s (steps %v)", ans, steps)
	}
	mu, md := core.MustUnHex(kv["up"]), core.MustUnHex(kv["down"])
	want := "phase=closed eofU=1 eofD=1 closedC=1 closedT=1 expired=0 dropped=0 accept=1 shownU=1 shownD=1 cut=0"
	got := fmt.Sprintf("phase=%s eofU=%s eofD=%s closedC=%s closedT=%s expired=%s dropped=%s accept=%s shownU=%s shownD=%s cut=%s",
		kv["phase"], kv["eofU"], kv["eofD"], kv["closedC"], kv["closedT"], kv["expired"], kv["dropped"], kv["accept"],
		kv["shownU"], kv["shownD"], kv["cut"])
	if got != want {
		ctx.Disagree("the model's terminal state after both half-closes is the closed, complete one", tc, impl, got)
		return false
	}
	if !bytes.Equal(mu, obs.Up.got) || !bytes.Equal(md, obs.Down.got) {
		ctx.Disagree("bytes received by the endpoints = bytes delivered in the model's terminal state", tc, impl,
			fmt.Sprintf("model up=%d bytes (first diff %d) down=%d bytes (first diff %d); schedule of %d steps",
				len(mu), firstDiff(obs.Up.got, mu), len(md), firstDiff(obs.Down.got, md), len(steps)))
		return false
	}
	return true
}

func upTotal(tc *tunnelCase) int {
	if tc.Order == "target-first" {
		return tc.Up1 + tc.Up2
	}
	return tc.Up1
}

func downTotal(tc *tunnelCase) int {
	if tc.Order == "client-first" {
		return tc.Down1 + tc.Down2
	}
	return tc.Down1
}
