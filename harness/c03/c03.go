// Package c03 ties the tunnel model (Model/C03.lean) to the real proxy: scripted clients and far
// ends (raw targets, minimal upstream CONNECT proxies over TCP and TLS, a SOCKS5 server, an origin
// that switches protocols) exchange generated payloads through CONNECT / Upgrade tunnels of a real
// forwarder proxy on loopback TCP, with early data, coalesced replies, arbitrary write
// segmentation and all three orders of half-close. The proxy's listener is plain, behind TLS or
// rate-limited and the far leg plain, TLS or wrapped (modes in env.go), so that some configurations
// have no io.ReaderFrom/io.WriterTo fast path on either leg; in over a third of the tunnels of every
// configuration both endpoints stream 1-4 MiB of different pseudo-random data at the same time.
// grace.go adds the grace period of bicopy on the clock (period set through the hook
// martian.VerifSetBicopyGracefulTimeout), judged directly and by the timed machine of Model/C03.lean.
// legs.go is the capability lattice of what a custom ConnectFunc may return (with / without CloseWrite,
// found directly / by reflection / failing, io.Pipe pair, net.Pipe, with io.ReaderFrom / io.WriterTo), crossed
// with every order of half-close; longevity.go keeps tunnels of every configuration alive (idle and
// trickling) for several times every timeout the proxy, its transport and its dialers have.
// abort.go ends one endpoint's sending side ABRUPTLY in every configuration (reset, a TLS leg cut without
// close_notify / inside a record / by a record that does not verify) while the other endpoint waits or is
// still sending: the end must be relayed at once, not by the grace timer (machine with copy errors, `arun`).
// eos.go crosses how the legs are WRAPPED (conntrack with TrackTraffic on both legs, TLS 1.2 / 1.3, rate-limited,
// scripted connections) with how the last bytes and the END of a stream reach the proxy (the last bytes in one
// piece with the half-close - under TLS 1.2 in one segment with close_notify -, a scripted leg whose Read returns
// them together with io.EOF, or the half-close after a pause): whichever copy loop io.CopyBuffer ends up in must
// deliver what the generic one does (Model/C03.lean `copyLoop`, verb `copyloop`).
package c03

import (
	"encoding/json"
	"fmt"
	"os"
	"sort"
	"strings"
	"sync"
	"sync/atomic"
	"time"

	"github.com/saucelabs/forwarder/verifharness/core"
)

func init() { core.Register("C03", core.Scenario{Run: Run, Replay: Replay}) }

type envPool struct {
	mu   sync.Mutex
	envs map[string]*env
	ctx  *core.Ctx
}

func (p *envPool) get(mode string) (*env, error) {
	p.mu.Lock()
	defer p.mu.Unlock()
	if e, ok := p.envs[mode]; ok {
		return e, nil
	}
	e, err := newEnv(p.ctx, mode)
	if err != nil {
		return nil, err
	}
	p.envs[mode] = e
	return e, nil
}

func (p *envPool) closeAll() {
	for _, e := range p.envs {
		e.close()
	}
}

// ---- generator ----

func pickSize(r *core.Rand, quick bool) int {
	switch x := r.Intn(100); {
	case x < 7:
		return 0
	case x < 12:
		return 1
	case x < 30:
		return r.Range(2, 300)
	case x < 42:
		return 4096 + r.Range(-200, 200) // around the request reader's buffer
	case x < 52:
		return core.Pick(r, []int{32767, 32768, 32769, 65535, 65536, 65537, 8192, 16384}) // copy-buffer boundaries
	case x < 78:
		return r.Range(5000, 300000)
	case x < 92:
		return r.Range(300000, 1<<20)
	default:
		if quick {
			return r.Range(1<<20, 2<<20)
		}
		return r.Range(1<<20, 4<<20)
	}
}

func pickSegs(r *core.Rand, size int) []int {
	small := []int{1, 2, 3, 7, 64, 500, 1460, 4095, 4096, 4097, 8192, 32768, 32769, 65536}
	big := []int{1460, 4096, 16384, 32768, 32769, 65536, 100000, 1 << 20}
	n := r.Range(0, 4)
	var out []int
	for i := 0; i < n; i++ {
		switch {
		case size <= 20000:
			out = append(out, core.Pick(r, small))
		case size <= 300000:
			out = append(out, core.Pick(r, small[4:]))
		default:
			out = append(out, core.Pick(r, big))
		}
	}
	return out
}

var orders = []string{"client-first", "target-first", "simultaneous"}

func genCase(r *core.Rand, mode, order string, quick bool) *tunnelCase {
	if !farEndCanHalfClose(mode) {
		order = "client-first" // behind net.Pipe the far end finishes by closing: it goes last
	}
	tc := &tunnelCase{Kind: "tunnel", Mode: mode, Seed: r.U64(), Order: order}
	tc.Up1, tc.Down1 = pickSize(r, quick), pickSize(r, quick)
	second := func() int {
		switch x := r.Intn(10); {
		case x < 1:
			return 0
		case x < 5:
			return r.Range(1, 2000)
		default:
			return r.Range(2000, 200000)
		}
	}
	switch order {
	case "client-first":
		tc.Down2 = second()
		if r.Chance(25) {
			tc.Down1 = 0 // everything flows after the half-close
		}
	case "target-first":
		tc.Up2 = second()
		if r.Chance(25) {
			tc.Up1 = 0
		}
	}
	// full duplex: both endpoints stream a large payload of their own (different seeds) at the same
	// time before either half-closes, whatever the order of the half-closes afterwards; what one
	// direction carries must not show in the other (cross-talk, duplication, reordering = a content
	// mismatch at equal length). More often where both legs go through the copier's buffer.
	share := 35
	if bothLegsBuffered(mode) {
		share = 55
	}
	if r.Chance(share) {
		tc.Duplex = true
		tc.Up1, tc.Down1 = r.Range(1<<20, 4<<20), r.Range(1<<20, 4<<20)
		if r.Chance(30) { // comparable amounts: neither direction is over long before the other
			tc.Down1 = tc.Up1 + r.Range(-4096, 4096)
		}
	}
	if order != "simultaneous" {
		tc.HoldMs = core.Pick(r, []int{0, 0, 1, 5, 20, 50})
		if !quick && r.Chance(2) {
			tc.HoldMs = core.Pick(r, []int{1000, 3000}) // a stretch of the grace period: nothing may be closed meanwhile
		}
	}
	// the client half-closes while the far side is still streaming: on a leg the proxy cannot half-close
	// (no CloseWrite anywhere in what the ConnectFunc returned) the far side cannot wait for the client's
	// end-of-stream, it is only shown when the tunnel is closed; on the other legs in a quarter of the cases
	if order == "client-first" && (!legCanHalfClose(mode) || r.Chance(25)) {
		tc.NoWaitEOF = true
		if r.Chance(75) {
			tc.Down2 = r.Range(256<<10, 512<<10)
		} // else a short second phase: small tunnels are also run on the model (`hrun`) byte for byte
		if tc.HoldMs < 20 {
			tc.HoldMs = core.Pick(r, []int{20, 30, 50}) // the proxy has dealt with the client's half-close by then
		}
	}
	// early data
	switch x := r.Intn(100); {
	case x < 15:
		tc.Early = 0
	case x < 45:
		tc.Early = tc.Up1
	case x < 75:
		tc.Early = r.Range(1, 6000)
	default:
		tc.Early = 4096 - r.Range(30, 100) // fills the 4096-byte request reader, give or take
	}
	if tc.Early > tc.Up1 {
		tc.Early = tc.Up1
	}
	// how the block head+early is cut: offsets relative to the end of the head
	switch x := r.Intn(100); {
	case x < 45: // one write
	case x < 60:
		tc.HeadCuts = []int{0}
	case x < 85:
		k := r.Range(1, 3)
		for i := 0; i < k; i++ {
			tc.HeadCuts = append(tc.HeadCuts, core.Pick(r, []int{-1000, -20, -4, -3, -2, -1, 0, 1, 2, 3, 17, 100, 1000, 4000, 4096}))
		}
	default:
		tc.Bytewise = true
	}
	tc.WaitReply = r.Chance(60)
	// bytes the far side sends in the same write as its reply
	switch x := r.Intn(100); {
	case x < 20:
		tc.Coalesce = 0
	case x < 55:
		tc.Coalesce = tc.Down1
	default:
		tc.Coalesce = r.Range(1, 5000)
	}
	if tc.Coalesce > tc.Down1 {
		tc.Coalesce = tc.Down1
	}
	if tc.Coalesce > 1<<20 {
		tc.Coalesce = 1 << 20
	}
	tc.UpSegs = pickSegs(r, tc.Up1+tc.Up2)
	tc.DownSegs = pickSegs(r, tc.Down1+tc.Down2)
	tc.Pause = r.Chance(30)
	if bm := baseMode(mode); bm == "http" || bm == "https" {
		// the upstream proxy's 2xx reply: in two cases of five it carries a Content-Length and/or a
		// Transfer-Encoding, which a reply to CONNECT must not and which the proxy has to ignore - what
		// follows the blank line belongs to the tunnel (regression target of the repaired finding F29);
		// Coalesce above decides independently whether payload travels in the same write as the reply
		switch x := r.Intn(100); {
		case x < 20:
			tc.ReplyVariant = 1
		case x < 34:
			tc.ReplyVariant = 2
		case x < 46:
			tc.ReplyVariant = 3
		case x < 53:
			tc.ReplyVariant = 4
		case x < 60:
			tc.ReplyVariant = 5
		}
		if tc.ReplyVariant >= 2 && tc.Down1+tc.Down2 == 0 && r.Chance(70) {
			tc.Down1 = r.Range(1, 3000) // something for a mistaken body reader to swallow
			if r.Chance(50) {
				tc.Coalesce = tc.Down1
			}
			tc.DownSegs = pickSegs(r, tc.Down1)
		}
	}
	if baseMode(mode) != "upgrade" && r.Chance(10) {
		tc.HeadVariant = 1
	}
	if baseMode(mode) == "upgrade" && r.Chance(75) {
		// the request that asks for the switch also carries the close option (token order / spelling / several
		// field lines), is sent as HTTP/1.0, or carries keep-alive: all about the connection after the exchange,
		// none of it may show in the tunnel (regression target of the repaired finding F52)
		tc.UpgradeReq = r.Range(1, len(upgradeReqs)-1)
	}
	// how the two streams end (eos.go): the last bytes and the half-close together, or apart
	addEOS(r, tc, 30)
	return tc
}

func sizeBucket(n int) string {
	switch {
	case n == 0:
		return "0"
	case n == 1:
		return "1"
	case n < 4096:
		return "<4K"
	case n < 32768:
		return "4K-32K"
	case n < 1<<20:
		return "32K-1M"
	default:
		return ">=1M"
	}
}

// ---- run ----

const (
	tunnelStall = 8 * time.Second  // no byte moved for this long: give the tunnel up
	tunnelLimit = 90 * time.Second // hard limit per tunnel
)

func Run(ctx *core.Ctx) {
	ctx.SetRule("one case = one tunnel through the real proxy (own connection loop or http.Handler mode) routed direct / via a scripted " +
		"upstream HTTP proxy / HTTPS proxy / SOCKS5 server / custom ConnectFunc / as an HTTP/1.1 Upgrade (101) to a scripted origin; payloads " +
		"0 B-4 MiB each way from a seed (a different pseudo-random stream per direction), in over a third of the tunnels of every configuration " +
		"1-4 MiB each way streamed by both endpoints at the same time (full duplex); the proxy's listener plain, behind TLS or rate-limited, so that " +
		"there are configurations in which neither leg of the tunnel has an io.ReaderFrom/io.WriterTo fast path (TLS listener x https upstream / " +
		"ConnectFunc returning a *tls.Conn / ConnectFunc returning a struct wrapper / X-Martian-Terminate-Tls / 101 body); " +
		"random write segmentation on both sides, request head and early payload in one write or cut at " +
		"offsets around the end of the head / byte by byte, far side sending payload in the same write as its reply, the upstream HTTP/HTTPS " +
		"proxy's 2xx reply being HTTP/1.1 plain, HTTP/1.0, or (two cases in five) carrying Content-Length: 5 / Content-Length: 300000 / " +
		"Transfer-Encoding: chunked / both, which a reply to CONNECT has to be read without (RFC 9110 9.3.6; the shape of the repaired F29), " +
		"the upgrade request - to the origin directly and through an upstream HTTP proxy (px-), under the connection loop and the http.Handler - in three cases of four " +
		"carrying the close option next to Upgrade (Upgrade, close / close, Upgrade / upgrade,CLOSE / on two field lines in both orders / with keep-alive), " +
		"sent as HTTP/1.0 (with and without keep-alive) or with Connection: keep-alive, Upgrade: the tunnel is judged exactly as after a plain upgrade (the shape of the repaired F52), half-close order " +
		"client-first / target-first / simultaneous with more data sent after the peer's end-of-stream was seen; a tunnel is non-trivial " +
		"when it carries early data, a coalesced reply, a sequenced half-close or payload in both directions; distinct = distinct case objects. " +
		"A second group (histogram labels grace/…, grace-tunnel/…, grace-mode/…) exercises the grace period of bicopy on the clock, with the period set " +
		"to 0.3-1.8 s through the hook martian.VerifSetBicopyGracefulTimeout, in every configuration: tunnels one direction of which finishes " +
		"(client first / target first) while the other keeps writing every 50 ms or goes quiet, in sequence and in parallel with staggered starts " +
		"(cut not before their own first finish + period, and soon after), tunnels both directions of which finish within the period followed by a " +
		"tunnel on a new connection that outlives the old deadline, tunnels that live for several periods with both directions trickling; each judged " +
		"directly (sharp lower, generous upper bounds, confirmed by repetition) and by the timed machine (`trun`) on the observed history. " +
		"ConnectFunc configurations cover the capability lattice of the returned io.ReadWriteCloser (labels connectfunc-leg/…, far-leg/…): CloseWrite on the " +
		"value (*tls.Conn, own method), found by reflection (embedded, two named fields down), a CloseWrite that half-closes and returns an error, " +
		"io.ReaderFrom/io.WriterTo with and without CloseWrite, and NO CloseWrite anywhere (closures, a pair of io.Pipe halves, one end of net.Pipe), also " +
		"behind a TLS / rate-limited listener and through the http.Handler; each crossed with the three half-close orders; where the proxy cannot half-close " +
		"the far leg (and in a quarter of the other client-first cases) the far side goes on streaming - three times in four 256-512 KiB - AFTER the client " +
		"has half-closed, and must lose nothing; the model's acceptor and byte-for-byte run are the machine with leg capabilities (`holds … <legs>`, `hrun`). " +
		"A third group (grace/longevity/…, grace-mode/lt-…) runs every configuration with EVERY timeout of proxy, transport and dialers at 300-500 ms " +
		"(ConnectTimeout, DialTimeout, ReadTimeout, ReadHeaderTimeout, WriteTimeout, IdleTimeout, TLS handshake timeouts, ResponseHeaderTimeout, IdleConnTimeout): " +
		"four tunnels at once live 3-5 times the largest of them, two trickling both ways all the time, two silent for two stretches longer than every " +
		"timeout with bytes before, between and after; none may be cut, all deliver everything; judged directly and by the timed machine with limits (`ltrun`). " +
		"Known finding F48 (grace/far-end-replies-after-end-of-stream/…): on every far leg without CloseWrite the client half-closes first and the far end, " +
		"writing every 50 ms meanwhile, replies only after it has READ end-of-stream; the property's clause (end-of-stream promptly after the last byte while " +
		"the opposite direction keeps flowing) is evaluated as it reads and fails in the recorded way - the far end's read ends only when the grace timer " +
		"(0.3-0.45 s through the hook) closes the tunnel -, class decided from the case alone; any other shape (closed early or late, bytes written before " +
		"the expiry lost, other content) is a VIOLATION; the model mirrors it (`trun` with the forced close, `hrun`: far end not shown end-of-stream). " +
		"A fourth group (abort/…, abort-mode/…) ends one endpoint's sending side ABRUPTLY in every configuration, with the grace period at 3.5-4 s through the hook: " +
		"the client or the far end (target, upstream proxy, SOCKS5 server, origin) resets its TCP connection (SO_LINGER 0 + close; also under a TLS leg), or - on " +
		"a TLS leg (client → TLS listener, proxy → https upstream, X-Martian-Terminate-Tls target, ConnectFunc *tls.Conn) - sends a bare FIN without close_notify, " +
		"half a record and a FIN, or a record that does not verify; 90-220 ms into a tunnel in which both endpoints write every 7-15 ms; the other endpoint is idle " +
		"and waits for the end of the stream (then half-closes, or replies first) or is still sending; four tunnels per configuration at once (client resets / far " +
		"end resets with the peer waiting, a TLS cut where there is a TLS leg, one drawn freely); judged directly - the survivor's read ends within 1.5 s of the " +
		"abort (far below the grace period: a tunnel only the grace timer ended shows at abort + period) and not before it, what arrived is a prefix of what was " +
		"sent, everything after a bare FIN, the proxy holds no socket 1.5 s after the survivors have finished; confirmed by repetition - and by the machine with " +
		"copy errors (`arun`, policy always) on the observed history, which must end closed, the survivor shown the end, the grace timer not fired. On a far leg the " +
		"proxy cannot half-close (F48) the far end is not made to wait for the end of the client's stream")
	ctx.Assume("the kernel's loopback TCP delivers what is written in order and signals FIN as end-of-stream (the endpoints observe through it)")
	ctx.Assume("Go's runtime timers do not fire early and time.Now is monotonic within the process (the sharp lower bound of the grace period rests on it)")
	ctx.Assume("socket closure is observed through forwarder's own connection tracking (conntrack OnClose → listener_cx_active / dialer_cx_active) " +
		"and, for the custom ConnectFunc, a Close hook on the connection it returns")
	installGraceLog() // before the first proxy is started
	pool := &envPool{envs: map[string]*env{}, ctx: ctx}
	defer pool.closeAll()
	for _, c := range core.LoadCorpus(ctx.Root, "C03") {
		replayWith(ctx, pool, c)
	}
	modes := allModes
	if v := os.Getenv("VERIF_C03_MODES"); v != "" { // development aid: only these modes
		modes = strings.Split(v, ",")
	}
	n := ctx.N(456, 15000)
	budget := 50 * time.Second
	if !ctx.Quick() {
		budget = 8 * time.Minute
	}
	jobs := make(chan *tunnelCase, 32)
	var wg sync.WaitGroup
	var bytesMoved atomic.Int64
	for w := 0; w < 12; w++ {
		wg.Add(1)
		go func() {
			defer wg.Done()
			for tc := range jobs {
				if ctx.NumFindings() >= 4 {
					continue // enough to report; do not sit through more timeouts
				}
				e, err := pool.get(tc.Mode)
				if err != nil {
					ctx.Crash("proxy starts with a valid configuration", "", tc, err.Error())
					continue
				}
				obs := e.runAndEvaluate(ctx, tc)
				bytesMoved.Add(int64(obs.Up.Got + obs.Down.Got))
			}
		}()
	}
	for i := 0; i < n; i++ {
		if ctx.NumFindings() >= 4 {
			break // enough to report; do not sit through more timeouts
		}
		if i >= 90 && ctx.Elapsed() > budget {
			ctx.Count("stopped-at-time-budget")
			break
		}
		r := ctx.Rng.Sub()
		// every (mode, order) pair is visited in turn, everything else is random
		mode := modes[i%len(modes)]
		order := orders[(i/len(modes))%len(orders)]
		tc := genCase(r, mode, order, ctx.Quick())
		if i < 3 {
			ctx.Sample(tc)
		}
		jobs <- tc
	}
	close(jobs)
	wg.Wait()
	ctx.Extra("payload_bytes_delivered", bytesMoved.Load())
	// how the legs are wrapped x how the end of a stream arrives (eos.go): configurations of their own
	if ctx.NumFindings() < 4 && os.Getenv("VERIF_C03_NO_EOS") == "" && (os.Getenv("VERIF_C03_MODES") == "" || os.Getenv("VERIF_C03_EOS_MODES") != "") {
		runEOSPhase(ctx, pool)
	}
	// the grace period on the clock: a phase of its own (the period is a process-wide variable of the proxy)
	if ctx.NumFindings() < 4 && os.Getenv("VERIF_C03_NO_GRACE") == "" {
		runGracePhase(ctx, pool, modes)
	}
	// one endpoint ends its sending side abruptly (abort.go): the end is relayed at once, not by the grace timer
	if ctx.NumFindings() < 4 && os.Getenv("VERIF_C03_NO_ABORT") == "" {
		runAbortPhase(ctx, pool, modes)
	}
	// established tunnels outlive every request / dial limit (longevity.go)
	if ctx.NumFindings() < 4 && os.Getenv("VERIF_C03_NO_LONGEVITY") == "" {
		runLongevityPhase(ctx, pool, modes)
	}
	// at the end every environment must be back to zero sockets, and the observation channel itself
	// must have been alive
	pool.mu.Lock()
	defer pool.mu.Unlock()
	started := make([]string, 0, len(pool.envs))
	for m := range pool.envs {
		started = append(started, m)
	}
	sort.Strings(started)
	for _, m := range started {
		pool.envs[m].finalCheck(ctx)
	}
}

func replayWith(ctx *core.Ctx, pool *envPool, raw json.RawMessage) {
	var kind struct {
		Kind string `json:"kind"`
	}
	if json.Unmarshal(raw, &kind) == nil && kind.Kind == "grace" {
		replayGrace(ctx, pool, raw)
		return
	}
	if kind.Kind == "abort" {
		replayAbort(ctx, pool, raw)
		return
	}
	var tc tunnelCase
	if err := json.Unmarshal(raw, &tc); err != nil || tc.Mode == "" {
		core.Fatalf("C03: unreadable case: %v %s", err, raw)
	}
	e, err := pool.get(tc.Mode)
	if err != nil {
		ctx.Crash("proxy starts with a valid configuration", "", tc, err.Error())
		return
	}
	obs := e.runAndEvaluate(ctx, &tc)
	b, _ := json.MarshalIndent(obs, "", " ")
	ctx.Extra("last_replayed_observation", json.RawMessage(b))
	if replaying {
		fmt.Printf("implementation: %s\nmodel acceptor:  %s\n", b, obs.modelAnswer)
	}
}

var replaying bool

func Replay(ctx *core.Ctx, raw json.RawMessage) {
	replaying = true
	installGraceLog()
	pool := &envPool{envs: map[string]*env{}, ctx: ctx}
	defer pool.closeAll()
	replayWith(ctx, pool, raw)
	for _, e := range pool.envs {
		e.finalCheck(ctx)
	}
}

// finalCheck: with every tunnel of this environment over, the proxy must hold no socket.
func (e *env) finalCheck(ctx *core.Ctx) {
	n := e.tunnels.Load()
	if n == 0 {
		return
	}
	c, t, err := e.awaitClosed(5 * time.Second)
	last, _ := e.lastCase.Load().(*tunnelCase)
	if err != nil {
		ctx.Disagree("socket closure is observable through forwarder's connection tracking", last, err.Error(), "gauges present")
		return
	}
	if c != 0 || t != 0 {
		ctx.SpecFail("when both directions are finished both sockets are closed", "", last,
			fmt.Sprintf("after all %d tunnels of mode %s were over the proxy still holds %v client-side and %v target-side sockets", n, e.mode, c, t), "")
	}
	if total, err := gauge(e.promP, "fwd_listener_cx_total"); err != nil || total < float64(n) {
		ctx.Disagree("socket closure is observable through forwarder's connection tracking", last,
			fmt.Sprintf("listener_cx_total=%v err=%v after %d tunnels", total, err, n), "counter ≥ tunnels")
	}
	e.reg.mu.Lock()
	strays, names := e.reg.strays, e.reg.strayed
	e.reg.mu.Unlock()
	if strays > 0 {
		ctx.Disagree("every connection reaching a far end belongs to a tunnel of the run", last,
			fmt.Sprintf("%d unexpected connections, e.g. %v", strays, names), "0")
	}
}

// ---- evaluation of one tunnel ----

// One known-finding class is open for C03: F48, connectfunc-leg-without-closewrite (a ConnectFunc
// connection with no CloseWrite anywhere cannot relay the client's half-close). Its cases need the grace
// period on the clock and are generated and judged in grace.go (plan "reply-after-eof", inF48); the ordinary
// tunnels below never make a far end wait for an end-of-stream such a leg cannot show (NoWaitEOF), so no class
// applies to them. Finding F29 (class upstream-2xx-content-length: a
// Content-Length on the upstream proxy's 2xx reply to CONNECT made the proxy swallow that many tunnel
// bytes) is repaired in dialvia/http.go. Replies of that shape (replyShape) are ordinary cases: a byte
// lost behind one is a VIOLATION.

// replyShape names what the far side sends before tunnel bytes (a histogram label).
func replyShape(tc *tunnelCase) string {
	switch bm := baseMode(tc.Mode); bm {
	case "http", "https":
		switch tc.ReplyVariant {
		case 1:
			return "upstream-2xx/http-1.0"
		case 2:
			return "upstream-2xx/with-content-length"
		case 3:
			return "upstream-2xx/with-transfer-encoding-chunked"
		case 4:
			return "upstream-2xx/with-content-length-beyond-the-payload-sent-with-it"
		case 5:
			return "upstream-2xx/with-transfer-encoding-and-content-length"
		}
		return "upstream-2xx/plain"
	case "socks5":
		return "socks5-reply"
	case "upgrade":
		return "origin-101"
	}
	return "none (direct dial / ConnectFunc)"
}

// declaresContent: an upstream proxy's 2xx reply that carries Content-Length / Transfer-Encoding.
func declaresContent(tc *tunnelCase) bool {
	bm := baseMode(tc.Mode)
	return (bm == "http" || bm == "https") && tc.ReplyVariant >= 2
}

func (e *env) runAndEvaluate(ctx *core.Ctx, tc *tunnelCase) *tunnelObs {
	e.active.Add(1)
	obs := e.runTunnel(tc, tunnelStall, tunnelLimit)
	e.active.Add(-1)
	// closure of this tunnel's sockets: the proxy may hold at most as many as there are tunnels
	// still running (bounded wait: closing follows the last end-of-stream asynchronously)
	dl := time.Now().Add(15 * time.Second)
	for {
		c, t, err := e.openSockets()
		a := float64(e.active.Load())
		obs.OpenClient, obs.OpenTarget = c-a, t-a
		if err != nil {
			obs.closureErr = err.Error()
			break
		}
		if (c <= a && t <= a) || time.Now().After(dl) {
			break
		}
		time.Sleep(5 * time.Millisecond)
	}
	e.evaluate(ctx, tc, obs)
	return obs
}

func (e *env) evaluate(ctx *core.Ctx, tc *tunnelCase, obs *tunnelObs) {
	key, _ := json.Marshal(tc)
	nontrivial := tc.Early > 0 || tc.Coalesce > 0 || tc.Order != "simultaneous" || (tc.Up1 > 0 && tc.Down1 > 0)
	ctx.Case(string(key), nontrivial)
	ctx.Count("mode/" + tc.Mode)
	ctx.Count("order/" + tc.Order)
	e.countEOS(ctx, tc)
	ctx.Count("up-size/" + sizeBucket(tc.Up1+tc.Up2))
	ctx.Count("down-size/" + sizeBucket(tc.Down1+tc.Down2))
	switch {
	case tc.Early == 0:
		ctx.Count("early/none")
	case tc.Early == tc.Up1:
		ctx.Count("early/whole-payload")
	case tc.Early+obs.HeadLen >= 4096:
		ctx.Count("early/beyond-reader-buffer")
	default:
		ctx.Count("early/part")
	}
	switch {
	case tc.Bytewise:
		ctx.Count("head-write/bytewise")
	case len(tc.HeadCuts) == 0:
		ctx.Count("head-write/one-write")
	default:
		ctx.Count("head-write/cut")
	}
	if tc.Coalesce > 0 {
		ctx.Count("coalesced-reply/yes")
	} else {
		ctx.Count("coalesced-reply/no")
	}
	ctx.Count("reply/" + replyShape(tc))
	if baseMode(tc.Mode) == "upgrade" {
		v := upgradeReqOf(tc)
		ctx.Count("upgrade-request/" + v.label)
		if v.closes {
			ctx.Count("upgrade-request-asks-to-close/" + tc.Mode)
		}
	}
	if declaresContent(tc) {
		up := "http-upstream"
		if baseMode(tc.Mode) == "https" {
			up = "https-upstream"
		}
		co := "payload-in-a-later-write"
		switch {
		case tc.Down1+tc.Down2 == 0:
			co = "no-payload"
		case tc.Coalesce > 0:
			co = "payload-coalesced-with-the-reply"
		}
		ctx.Count("upstream-2xx-declaring-content/" + up + "/" + co)
	}
	if tc.WaitReply {
		ctx.Count("client/waits-for-reply")
	} else {
		ctx.Count("client/streams-without-waiting")
	}
	if obs.Up.AfterEOF > 0 || obs.Down.AfterEOF > 0 {
		ctx.Count("data-after-peer-eof")
	}
	if isConnectFunc(baseMode(tc.Mode)) {
		ctx.Count("connectfunc-leg/" + strings.TrimPrefix(baseMode(tc.Mode), "cf-") + "/" + tc.Order)
	}
	if legCanHalfClose(tc.Mode) {
		ctx.Count("far-leg/proxy-can-half-close-it")
	} else {
		ctx.Count("far-leg/no-closewrite-anywhere/" + tc.Order)
	}
	if tc.NoWaitEOF {
		ctx.Count("client-first/far-side-streams-256KiB+-after-the-client-half-closed")
	}
	legs := "legs/a-leg-with-readfrom-or-writeto"
	if bothLegsBuffered(tc.Mode) {
		legs = "legs/both-through-the-copy-buffer"
	}
	ctx.Count(legs)
	if tc.Duplex {
		ctx.Count("duplex/both-ways-1-4MiB")
		// how much of it really was simultaneous, as seen at the endpoints (a histogram, not a verdict)
		switch ms := obs.OverlapUs / 1000; {
		case ms < 1:
			ctx.Count("duplex-overlap/<1ms")
		case ms < 10:
			ctx.Count("duplex-overlap/1-10ms")
		default:
			ctx.Count("duplex-overlap/>=10ms")
		}
		if bothLegsBuffered(tc.Mode) && obs.OverlapUs >= 1000 {
			ctx.Count("duplex/both-legs-buffered-and-overlapping")
		}
	}

	impl := summarise(obs)
	if obs.Error != "" || (obs.Status != 200 && obs.Status != 101) {
		ctx.Disagree("the tunnel is established (2xx to CONNECT / 101 to Upgrade)", tc, impl, "established")
		return
	}
	fails := 0
	fail := func(clause, detail string) {
		fails++
		ctx.SpecFail(clause, "", tc, impl, detail) // no known-finding class applies to these cases (see above)
	}
	for _, x := range []struct {
		name string
		d    *dirObs
		opp  *dirObs
	}{{"client→target", &obs.Up, &obs.Down}, {"target→client", &obs.Down, &obs.Up}} {
		d := x.d
		switch {
		case d.FirstDiff >= 0:
			what := "altered, duplicated or out of order"
			if d.FirstDiff == 0 && d.Got < d.Sent {
				what = "the beginning of the stream is missing or altered"
			}
			fail("every byte is delivered exactly once and in order ("+x.name+")",
				fmt.Sprintf("first differing offset %d (%s); got %d bytes sha %s, sent %d bytes sha %s; early=%d coalesce=%d",
					d.FirstDiff, what, d.Got, d.GotSHA, d.Sent, d.SentSHA, tc.Early, tc.Coalesce))
		case d.Got < d.Sent:
			clause := "every byte written is delivered (" + x.name + ")"
			if d.AfterEOF > 0 && d.Got >= d.Sent-d.AfterEOF {
				clause = "the opposite direction keeps flowing after a half-close (" + x.name + ")"
			}
			fail(clause, fmt.Sprintf("%d of %d bytes arrived (%d were sent after the peer's end-of-stream); read ended with %q",
				d.Got, d.Sent, d.AfterEOF, d.ReadErr))
		}
		if d.WriteErr != "" {
			fail("the opposite direction keeps flowing until it is closed too ("+x.name+")",
				fmt.Sprintf("the source's write failed with %q after %d bytes", d.WriteErr, d.Sent))
		}
		if d.Fin && !d.EOF {
			fail("the other endpoint observes end-of-stream after the last byte ("+x.name+")",
				fmt.Sprintf("source half-closed after %d bytes; destination read %d bytes and then %q", d.Sent, d.Got, d.ReadErr))
		}
		if d.EOF && !d.Fin {
			fail("end-of-stream is only shown after the source finished ("+x.name+")",
				fmt.Sprintf("destination read end-of-stream after %d bytes while the source had not half-closed (%d sent, write error %q)", d.Got, d.Sent, d.WriteErr))
		}
	}
	// a far leg the proxy cannot half-close: Model/C03.lean `hstep` shows its far end end-of-stream only when
	// the tunnel is closed (both directions finished); seen earlier, the leg was closed under the direction
	// that was still flowing
	if !legCanHalfClose(tc.Mode) && obs.Up.EOF && obs.Down.Fin && fails == 0 {
		if obs.Up.eofAt.Before(obs.Down.finAt) {
			ctx.Disagree("a far leg without CloseWrite is shown end-of-stream only when the tunnel is closed (model: hstep, Cap.none)", tc, impl,
				fmt.Sprintf("the far end read end-of-stream %v before it half-closed its own side", obs.Down.finAt.Sub(obs.Up.eofAt)))
			return
		}
		ctx.Count("far-leg/no-closewrite-anywhere/end-of-stream-shown-at-tunnel-close")
	}
	bothFin := obs.Up.Fin && obs.Down.Fin
	closedC, closedT := obs.OpenClient <= 0, obs.OpenTarget <= 0
	if obs.closureErr != "" {
		ctx.Disagree("socket closure is observable through forwarder's connection tracking", tc, obs.closureErr, "gauges present")
		closedC, closedT = bothFin, bothFin
	} else if bothFin && (!closedC || !closedT) {
		fail("when both directions are finished both sockets are closed",
			fmt.Sprintf("15 s after both endpoints saw end-of-stream the proxy holds %v client-side / %v target-side sockets more than there are running tunnels", obs.OpenClient, obs.OpenTarget))
	}

	// the model's acceptor on what the endpoints observed
	ans := ctx.Model.MustAsk("C03", "holds", obsField(&obs.Up), obsField(&obs.Down), core.B01(closedC), core.B01(closedT), legsWire(tc.Mode))
	obs.modelAnswer = ans
	if ans != "true" {
		if fails == 0 {
			fail("observation is a settled state of the tunnel model ("+strings.TrimPrefix(ans, "false ")+")", ans)
		}
		return
	}
	if fails > 0 {
		ctx.Disagree("direct evaluation of the clauses agrees with the model's acceptor", tc, impl, ans)
		return
	}
	// small tunnels: the model executes a random legal schedule of the same endpoint behaviour on
	// the real bytes; its terminal state must be what the endpoints saw
	if bothFin && obs.HeadLen+obs.ReplyLen+obs.Up.Sent+obs.Down.Sent <= 16384 {
		ctx.Count("model/run-on-real-bytes")
		if !e.compareWithModelRun(ctx, tc, obs, impl) {
			return
		}
	}
	// a scripted source leg (eos.go): the model's copy loop on the very read results the proxy was handed
	if bothFin && (obs.upReads != nil || obs.downReads != nil) {
		if !e.compareCopyLoop(ctx, tc, obs, impl) {
			return
		}
	}
	ctx.TraceValidated()
}

func obsField(d *dirObs) string {
	return strings.Join([]string{core.Itoa(d.Sent), core.Itoa(d.Got), core.B01(d.FirstDiff < 0), core.B01(d.Fin), core.B01(d.EOF)}, ",")
}

func summarise(o *tunnelObs) string {
	return fmt.Sprintf("status=%d err=%q up{sent=%d got=%d diff=%d fin=%v eof=%v rerr=%q werr=%q} down{sent=%d got=%d diff=%d fin=%v eof=%v rerr=%q werr=%q} open{c=%v t=%v} %dms",
		o.Status, o.Error, o.Up.Sent, o.Up.Got, o.Up.FirstDiff, o.Up.Fin, o.Up.EOF, o.Up.ReadErr, o.Up.WriteErr,
		o.Down.Sent, o.Down.Got, o.Down.FirstDiff, o.Down.Fin, o.Down.EOF, o.Down.ReadErr, o.Down.WriteErr, o.OpenClient, o.OpenTarget, o.ElapsedMs)
}
