package c03

import (
	"context"
	"crypto/tls"
	"crypto/x509"
	"errors"
	"fmt"
	"io"
	"net"
	"net/http"
	"strings"
	"sync"
	"sync/atomic"
	"time"

	"github.com/prometheus/client_golang/prometheus"
	"github.com/saucelabs/forwarder"
	"github.com/saucelabs/forwarder/verifharness/core"
	"github.com/saucelabs/forwarder/verifharness/rig"
)

// Modes: [h-][tls-|rl-]<base>. The base says how the tunnel is routed:
//
//	direct      the proxy's own dialer to a raw TCP target
//	http https socks5   through a scripted upstream proxy (https: the upstream leg is a *tls.Conn)
//	connectfunc a custom ConnectFunc returning a struct-wrapped connection
//	connecttls  a custom ConnectFunc returning a *tls.Conn to a TLS target
//	terminate   direct dial, the CONNECT request carries X-Martian-Terminate-Tls: true and the proxy
//	            itself speaks TLS to the (TLS) target (proxy_connect.go Connect)
//	upgrade     HTTP/1.1 Upgrade (101) to a scripted origin (the far leg is net/http's readWriteCloserBody)
//	cf-…        a custom ConnectFunc returning one point of the capability lattice of legs.go (with / without
//	            CloseWrite, found directly / by reflection / failing, io.Pipe pair, net.Pipe, fast paths)
//
// A leading "h-" runs the proxy through martian's http.Handler (proxy_handler.go, TestingHTTPHandler)
// instead of its own connection loop (proxy_conn.go). "tls-" puts the proxy's listener behind TLS
// (Protocol https, self-signed certificate): the scripted client does TLS first, then CONNECT, and the
// client leg of the tunnel is a *tls.Conn. "rl-" rate-limits the (plain) listener - at a rate no
// tunnel reaches -, which wraps the client leg into a connection without ReadFrom/WriteTo.
// "px-" (upgrade only) sends the upgrade request through a scripted upstream HTTP proxy, which answers the
// 101 itself: the far leg is net/http's readWriteCloserBody over the connection to that proxy.
// "lt-" (longevity.go) sets every timeout the proxy, its transport and its dialers have to 300-500 ms:
// none of them may touch a tunnel once it is established.
//
// io.CopyBuffer only uses the buffer the copier hands it when the source has no WriteTo and the
// destination no ReadFrom; a bare or conntrack-wrapped TCP leg has them. In the modes for which
// bothLegsBuffered is true neither leg does, so both copy directions go through the copier's own
// read-into-buffer / write-from-buffer loop at the same time.
var allModes = []string{"direct", "http", "https", "socks5", "connectfunc", "upgrade", "h-direct", "h-http", "h-upgrade",
	"tls-https", "tls-connecttls", "tls-connectfunc", "tls-terminate", "tls-upgrade", "tls-direct",
	"h-tls-https", "h-tls-connecttls", "rl-connectfunc", "terminate",
	// the capability lattice of a ConnectFunc's connection (legs.go)
	"cf-direct", "cf-nested", "cf-cwerr", "cf-fast", "cf-closeonly", "cf-fast-closeonly", "cf-iopipe", "cf-netpipe",
	"h-cf-closeonly", "tls-cf-closeonly", "rl-cf-iopipe", "tls-cf-netpipe", "h-cf-iopipe",
	// 101 upgrades through an upstream HTTP proxy
	"px-upgrade", "h-px-upgrade"}

const nSlots = 16

type modeSpec struct {
	handler     bool // martian's http.Handler instead of its connection loop
	tlsListener bool // the proxy listens with TLS
	rateLimited bool // the proxy's listener is rate-limited (client leg wrapped)
	shortLimits bool // every timeout of the proxy / transport / dialer is a few hundred milliseconds
	viaProxy    bool // upgrade: the request goes through a scripted upstream HTTP proxy
	// eos.go: how the legs are wrapped and how the end of a stream reaches the proxy
	trackTraffic bool // both legs are conntrack connections WITH TrackTraffic (ListenerConfig.TrackTraffic, DialConnTrackTraffic)
	tls12        bool // every TLS endpoint the harness scripts negotiates TLS 1.2 (close_notify is a visible alert record)
	clientJoin   bool // the client leg is wrapped: its Read returns the last bytes TOGETHER with io.EOF when they arrive together
	base         string
}

func parseMode(mode string) (m modeSpec) {
	for {
		switch {
		case strings.HasPrefix(mode, "h-"):
			m.handler, mode = true, mode[2:]
		case strings.HasPrefix(mode, "tls-"):
			m.tlsListener, mode = true, mode[4:]
		case strings.HasPrefix(mode, "rl-"):
			m.rateLimited, mode = true, mode[3:]
		case strings.HasPrefix(mode, "lt-"):
			m.shortLimits, mode = true, mode[3:]
		case strings.HasPrefix(mode, "px-"):
			m.viaProxy, mode = true, mode[3:]
		case strings.HasPrefix(mode, "tt-"):
			m.trackTraffic, mode = true, mode[3:]
		case strings.HasPrefix(mode, "t12-"):
			m.tls12, mode = true, mode[4:]
		case strings.HasPrefix(mode, "ce-"):
			m.clientJoin, mode = true, mode[3:]
		default:
			m.base = mode
			return m
		}
	}
}

func baseMode(mode string) string { return parseMode(mode).base }

// usesSlots: the far side is one of the env's slot targets (told apart by address, not by name).
func usesSlots(base string) bool {
	return base == "direct" || base == "terminate" || isConnectFunc(base)
}

// bothLegsBuffered: neither leg of the tunnel offers io.ReaderFrom / io.WriterTo (see allModes).
func bothLegsBuffered(mode string) bool {
	m := parseMode(mode)
	if !m.tlsListener && !m.rateLimited {
		return false
	}
	switch m.base {
	case "https", "connecttls", "connectfunc", "terminate", "upgrade",
		"cf-direct", "cf-nested", "cf-cwerr", "cf-closeonly", "cf-iopipe", "cf-netpipe":
		return true
	}
	return false
}

// env is one running proxy configuration with its scripted far ends.
type env struct {
	mode   string
	spec   modeSpec
	proxy  *rig.Proxy
	reg    *registry
	peers  []*rig.Peer
	slots  chan int
	slotAt []string // addresses of the slot targets
	promP  *prometheus.Registry
	promD  *prometheus.Registry

	tunnels  atomic.Int64
	active   atomic.Int64 // tunnels the harness is running right now
	lastCase atomic.Value // *tunnelCase
	// ConnectFunc hook: connections the custom ConnectFunc handed to the proxy and not yet closed
	cfOpen atomic.Int64
	// … and how many of them the proxy has closed so far
	cfClosed atomic.Int64
	// roots the custom ConnectFunc of "connecttls" verifies the TLS slot targets against
	slotRoots *x509.CertPool
	// eos.go: how often a scripted leg handed the proxy its last bytes together with io.EOF
	joined atomic.Int64
	// … and the scripted legs themselves by the address of their far end (sync.Map of *joinReader)
	joins sync.Map
}

func (e *env) close() {
	if e.proxy != nil {
		e.proxy.Stop()
	}
	for _, p := range e.peers {
		p.Close()
	}
}

// trackedConn lets the harness see Close on a connection returned by the custom ConnectFunc. It is a
// struct wrapper on purpose: copier.closeWriter has to find CloseWrite through asCloseWriter's
// reflection (close.go), as it has to for forwarder's own conntrack wrappers.
type trackedConn struct {
	net.Conn
	once   sync.Once
	closed *atomic.Int64
	count  *atomic.Int64
}

func (t *trackedConn) Close() error {
	t.once.Do(func() { t.closed.Add(-1); t.count.Add(1) })
	return t.Conn.Close()
}

func newEnv(ctx *core.Ctx, mode string) (*env, error) {
	e := &env{mode: mode, spec: parseMode(mode), reg: newRegistry(), promP: prometheus.NewRegistry(), promD: prometheus.NewRegistry()}
	ok := false
	defer func() {
		if !ok {
			e.close()
		}
	}()
	var routes []forwarder.HostPortPair
	var caFile string
	bm := e.spec.base
	insecureTargets := false
	addPeer := func(p *rig.Peer, err error) (*rig.Peer, error) {
		if err != nil {
			return nil, err
		}
		e.peers = append(e.peers, p)
		return p, nil
	}
	if isConnectFunc(bm) && bm != "connecttls" {
		bm = "connectfunc"
	}
	switch bm {
	case "direct", "connectfunc", "connecttls", "terminate":
		var ca *rig.CA
		if bm == "connecttls" || bm == "terminate" {
			var err error
			if ca, err = rig.NewCA("verif target CA"); err != nil {
				return nil, err
			}
			e.slotRoots = ca.Pool()
			// Connect's tls.Client gets the transport's client configuration, which names no server:
			// crypto/tls refuses to shake hands without a ServerName unless InsecureSkipVerify is set
			// (without it the proxy answers such a CONNECT with 500)
			insecureTargets = bm == "terminate"
		}
		e.slots = make(chan int, nSlots)
		for i := 0; i < nSlots; i++ {
			name := fmt.Sprintf("slot%d", i)
			var p *rig.Peer
			var err error
			if ca != nil {
				var conf *tls.Config
				if conf, err = tlsConfigFor(ca, name+".test"); err != nil {
					return nil, err
				}
				if e.spec.tls12 {
					p, err = addPeer(rig.NewRawPeer(name, corkTLS(conf, slotHandler(e.reg, name))))
				} else {
					p, err = addPeer(rig.NewRawTLSPeer(name, conf, slotHandler(e.reg, name)))
				}
			} else {
				p, err = addPeer(rig.NewRawPeer(name, slotHandler(e.reg, name)))
			}
			if err != nil {
				return nil, err
			}
			e.slotAt = append(e.slotAt, p.Addr)
			routes = append(routes, rig.Route(name+".test", "443", p.Addr))
			e.slots <- i
		}
	case "http":
		p, err := addPeer(rig.NewRawPeer("upstream-http", connectProxyHandler(e.reg)))
		if err != nil {
			return nil, err
		}
		routes = append(routes, rig.Route("upstream.test", "3128", p.Addr))
	case "https":
		ca, err := rig.NewCA("verif upstream CA")
		if err != nil {
			return nil, err
		}
		conf, err := tlsConfigFor(ca, "upstreams.test")
		if err != nil {
			return nil, err
		}
		var p *rig.Peer
		if e.spec.tls12 {
			p, err = addPeer(rig.NewRawPeer("upstream-https", corkTLS(conf, connectProxyHandler(e.reg))))
		} else {
			p, err = addPeer(rig.NewRawTLSPeer("upstream-https", conf, connectProxyHandler(e.reg)))
		}
		if err != nil {
			return nil, err
		}
		routes = append(routes, rig.Route("upstreams.test", "3129", p.Addr))
		if caFile, err = ca.WriteFile(ctx.Root+"/.work", fmt.Sprintf("c03-ca-%d.pem", time.Now().UnixNano())); err != nil {
			return nil, err
		}
	case "socks5":
		p, err := addPeer(rig.NewRawPeer("upstream-socks5", socks5Handler(e.reg)))
		if err != nil {
			return nil, err
		}
		routes = append(routes, rig.Route("socks.test", "1080", p.Addr))
	case "upgrade":
		p, err := addPeer(rig.NewRawPeer("upgrade-origin", upgradeOriginHandler(e.reg)))
		if err != nil {
			return nil, err
		}
		if e.spec.viaProxy {
			routes = append(routes, rig.Route("upstream.test", "3128", p.Addr))
		} else {
			routes = append(routes, rig.Route("up.test", "80", p.Addr))
		}
	default:
		return nil, fmt.Errorf("unknown mode %q", mode)
	}
	opts := rig.ProxyOpts{
		ConnectTo: routes,
		Transport: func(tc *forwarder.HTTPTransportConfig) {
			if caFile != "" {
				tc.CACertFiles = []string{caFile}
			}
			if insecureTargets {
				tc.Insecure = true
			}
			tc.DialConfig.PromRegistry = e.promD
			tc.DialConfig.PromNamespace = "fwd"
			if e.spec.shortLimits {
				shortTransportLimits(tc)
			}
		},
		Configure: func(cfg *forwarder.HTTPProxyConfig) {
			cfg.Name = "fwdverif"
			cfg.PromRegistry = e.promP
			cfg.PromNamespace = "fwd"
			cfg.TestingHTTPHandler = e.spec.handler
			if e.spec.tlsListener {
				cfg.Protocol = forwarder.HTTPSScheme // no certificate configured: self-signed
			}
			if e.spec.rateLimited {
				cfg.ReadLimit, cfg.WriteLimit = 1<<36, 1<<36 // bytes per second
			}
			if e.spec.trackTraffic {
				cfg.TrackTraffic = true // ListenerConfig.TrackTraffic: conntrack.Builder{TrackTraffic: true} around every accepted connection
			}
			if e.spec.shortLimits {
				shortProxyLimits(cfg)
			}
			switch bm {
			case "http":
				cfg.UpstreamProxy = rig.MustURL("http://upstream.test:3128")
			case "https":
				cfg.UpstreamProxy = rig.MustURL("https://upstreams.test:3129")
			case "socks5":
				cfg.UpstreamProxy = rig.MustURL("socks5://socks.test:1080")
			case "connectfunc", "connecttls":
				cfg.ConnectFunc = e.connectFunc
			case "upgrade":
				if e.spec.viaProxy {
					cfg.UpstreamProxy = rig.MustURL("http://upstream.test:3128")
				}
			}
		},
	}
	if e.spec.trackTraffic {
		// the dialer's side of the same switch: forwarder.Dialer.DialContext builds the connection with
		// conntrack.Builder{TrackTraffic: true} when the context says DialConnTrackTraffic
		opts.PostTransport = func(rt *http.Transport) {
			dial := rt.DialContext
			rt.DialContext = func(ctx context.Context, network, addr string) (net.Conn, error) {
				return dial(forwarder.WithDialConnTrack(ctx, forwarder.DialConnTrackTraffic), network, addr)
			}
		}
	}
	if e.spec.clientJoin {
		opts.WrapListener = func(l net.Listener) net.Listener { return &joinListener{Listener: l, e: e} }
	}
	var err error
	if e.proxy, err = rig.StartProxy(opts); err != nil {
		return nil, err
	}
	ok = true
	return e, nil
}

// connectFunc is the custom ConnectFunc: it dials the slot target itself (no forwarder dialer) and
// hands the proxy a struct wrapper around the TCP connection ("connectfunc") or a *tls.Conn on top of
// that wrapper ("connecttls": the target speaks TLS; Close of the *tls.Conn closes the wrapper).
func (e *env) connectFunc(req *http.Request) (*http.Response, io.ReadWriteCloser, error) {
	host := req.URL.Hostname()
	var i int
	if _, err := fmt.Sscanf(host, "slot%d.test", &i); err != nil || i < 0 || i >= len(e.slotAt) {
		return nil, nil, forwarder.ErrConnectFallback
	}
	c, err := net.DialTimeout("tcp", e.slotAt[i], 5*time.Second)
	if err != nil {
		return nil, nil, err
	}
	e.cfOpen.Add(1)
	crw := e.legFor(c.(*net.TCPConn))
	if e.spec.base == "connecttls" {
		tconn := tls.Client(crw.(net.Conn), &tls.Config{RootCAs: e.slotRoots, ServerName: host, MaxVersion: e.tlsMax()})
		tconn.SetDeadline(time.Now().Add(10 * time.Second))
		if err := tconn.Handshake(); err != nil {
			tconn.Close()
			return nil, nil, err
		}
		tconn.SetDeadline(time.Time{})
		crw = tconn
	}
	res := &http.Response{
		Status: "200 OK", StatusCode: 200, Proto: req.Proto, ProtoMajor: req.ProtoMajor, ProtoMinor: req.ProtoMinor,
		Header: http.Header{}, Body: http.NoBody, ContentLength: -1, Request: req,
	}
	return res, crw, nil
}

// gauge sums the samples of a gauge family of a registry.
func gauge(reg *prometheus.Registry, name string) (float64, error) {
	mfs, err := reg.Gather()
	if err != nil {
		return 0, err
	}
	for _, mf := range mfs {
		if mf.GetName() != name {
			continue
		}
		var v float64
		for _, m := range mf.GetMetric() {
			if g := m.GetGauge(); g != nil {
				v += g.GetValue()
			}
			if c := m.GetCounter(); c != nil {
				v += c.GetValue()
			}
		}
		return v, nil
	}
	if strings.HasSuffix(name, "_active") {
		return 0, nil // a gauge vector without samples yet: nothing was ever opened
	}
	return 0, errors.New("no metric family " + name)
}

// openSockets reports how many client-side and target-side sockets the proxy still holds:
// forwarder's own connection tracking (conntrack.Builder.OnClose → listener_cx_active /
// dialer_cx_active), or the Close hook of the custom ConnectFunc.
func (e *env) openSockets() (client, target float64, err error) {
	if client, err = gauge(e.promP, "fwd_listener_cx_active"); err != nil {
		return
	}
	if isConnectFunc(e.spec.base) {
		return client, float64(e.cfOpen.Load()), nil
	}
	target, err = gauge(e.promD, "fwd_dialer_cx_active")
	return
}

// totalMinusActive reads <prefix>_total and then, in a second gathering, <prefix>_active: how many
// connections of that kind have been closed so far. With the counter read first, a connection that
// arrives in between makes the result too low for a moment, never too high (conntrack increments the
// counter, then the gauge; the window between the two is covered by the caller asking twice).
func totalMinusActive(reg *prometheus.Registry, prefix string) (float64, error) {
	sum := func(name string) (float64, error) {
		mfs, err := reg.Gather()
		if err != nil {
			return 0, err
		}
		var v float64
		for _, mf := range mfs {
			if mf.GetName() == name {
				for _, m := range mf.GetMetric() {
					v += m.GetCounter().GetValue() + m.GetGauge().GetValue()
				}
			}
		}
		return v, nil
	}
	total, err := sum(prefix + "_total")
	if err != nil {
		return 0, err
	}
	active, err := sum(prefix + "_active")
	return total - active, err
}

// closedSockets reports how many client-side and target-side sockets the proxy has closed since it was
// started (monotone, unlike openSockets: a close followed at once by a new connection is not missed).
func (e *env) closedSockets() (client, target float64, err error) {
	if client, err = totalMinusActive(e.promP, "fwd_listener_cx"); err != nil {
		return
	}
	if isConnectFunc(e.spec.base) {
		return client, float64(e.cfClosed.Load()), nil
	}
	target, err = totalMinusActive(e.promD, "fwd_dialer_cx")
	return
}

// awaitClosed waits until the proxy holds no socket any more (all tunnels of this env are over).
func (e *env) awaitClosed(d time.Duration) (client, target float64, err error) {
	deadline := time.Now().Add(d)
	for {
		client, target, err = e.openSockets()
		if err != nil || (client == 0 && target == 0) || time.Now().After(deadline) {
			return
		}
		time.Sleep(10 * time.Millisecond)
	}
}
