package c13

import (
	"context"
	"crypto/tls"
	"encoding/json"
	"fmt"
	"io"
	"net"
	"strconv"
	"strings"
	"sync"
	"sync/atomic"
	"time"

	"github.com/prometheus/client_golang/prometheus"
	"github.com/saucelabs/forwarder"
	"github.com/saucelabs/forwarder/conntrack"
	"github.com/saucelabs/forwarder/verifharness/core"
	"github.com/saucelabs/forwarder/verifharness/rig"
)

// stack.go drives forwarder.Listener in every stacking the product offers (net.go Listen/Accept:
// TCP → PROXY protocol → rate limit → conntrack → TLS) and forwarder.Dialer, with connections that
// are ended by the stack itself (PROXY header never sent / malformed, TLS handshake fed garbage /
// never started), by the peer (FIN, RST) and by the server (1-4 goroutines at once, some twice).
// The harness's end of every connection counts raw bytes below TLS, so the observer of the tracked
// connection (which also sits below TLS) is compared exactly on every stack.

// rawCount counts the raw bytes the harness's end of a connection sends and receives.
type rawCount struct {
	net.Conn
	rx, tx atomic.Int64
}

func (c *rawCount) Read(p []byte) (int, error) {
	n, err := c.Conn.Read(p)
	c.rx.Add(int64(n))
	return n, err
}

func (c *rawCount) Write(p []byte) (int, error) {
	n, err := c.Conn.Write(p)
	c.tx.Add(int64(n))
	return n, err
}

// peerEnd is the harness's end of a connection.
type peerEnd struct {
	tcp    *net.TCPConn
	raw    *rawCount
	c      net.Conn // raw, or the TLS client over it
	hdrLen int64    // bytes of PROXY header (or garbage in its place) consumed below the tracker
}

func newPeerEnd(c net.Conn) *peerEnd {
	tc, _ := c.(*net.TCPConn)
	p := &peerEnd{tcp: tc, raw: &rawCount{Conn: c}}
	p.c = p.raw
	return p
}

func (p *peerEnd) abort() {
	if p.tcp != nil {
		p.tcp.SetLinger(0)
	}
	p.raw.Close()
}

// drain reads raw bytes (below TLS) until the stream ends; it reports whether it ended with a FIN
// (every byte the other side's kernel accepted has then been read here; after a reset some may be lost).
func (p *peerEnd) drain(d time.Duration) bool {
	p.raw.SetReadDeadline(time.Now().Add(d))
	_, err := io.Copy(io.Discard, p.raw)
	return err == nil
}

var (
	stackTLSOnce sync.Once
	stackTLSSrv  *tls.Config
	stackTLSCli  *tls.Config
	stackTLSErr  error
)

func stackTLS() (*tls.Config, *tls.Config, error) {
	stackTLSOnce.Do(func() {
		ca, err := rig.NewCA("verif c13 stack CA")
		if err != nil {
			stackTLSErr = err
			return
		}
		leaf, err := ca.ValidLeaf("127.0.0.1")
		if err != nil {
			stackTLSErr = err
			return
		}
		stackTLSSrv = &tls.Config{Certificates: []tls.Certificate{leaf}}
		stackTLSCli = &tls.Config{RootCAs: ca.Pool(), ServerName: "127.0.0.1"}
	})
	return stackTLSSrv, stackTLSCli, stackTLSErr
}

const proxyV1Header = "PROXY TCP4 10.1.2.3 10.4.5.6 1111 2222\r\n"

var stackKinds = []string{"plain", "tls", "proxy", "proxy+tls", "ratelimit", "proxy+ratelimit", "ratelimit+tls", "proxy+ratelimit+tls"}

func hasLayer(stack, layer string) bool {
	for _, l := range strings.Split(stack, "+") {
		if l == layer {
			return true
		}
	}
	return false
}

// stackEnv is one forwarder.Listener in the given stacking, with its own registry.
type stackEnv struct {
	stack string
	l     *forwarder.Listener
	reg   *prometheus.Registry
	pc    forwarder.PromConfig
	cli   *tls.Config
	addr  string
}

func newStackEnv(stack string, track bool, headerTimeout time.Duration) (*stackEnv, error) {
	e := &stackEnv{stack: stack, reg: prometheus.NewRegistry()}
	e.pc = forwarder.PromConfig{PromNamespace: lstNS, PromRegistry: e.reg}
	e.l = &forwarder.Listener{
		ListenerConfig: forwarder.ListenerConfig{Address: "127.0.0.1:0", TrackTraffic: track},
		PromConfig:     e.pc,
	}
	if hasLayer(stack, "proxy") {
		e.l.ProxyProtocolConfig = &forwarder.ProxyProtocolConfig{ReadHeaderTimeout: headerTimeout}
	}
	if hasLayer(stack, "ratelimit") {
		e.l.ReadLimit, e.l.WriteLimit = 1<<30, 1<<30 // a limiter in the stack, never a wait
	}
	if hasLayer(stack, "tls") {
		srv, cli, err := stackTLS()
		if err != nil {
			return nil, err
		}
		e.l.TLSConfig, e.cli = srv, cli
	}
	if err := e.l.Listen(); err != nil {
		return nil, err
	}
	e.addr = e.l.Addr().String()
	return e, nil
}

// pair makes one connection: the harness dials, sends `first` (the PROXY header, or what the case puts
// in its place) so that it is in the socket before the stack starts its header timer, and accepts.
// One pair at a time per listener, so the accepted connection is the dialled one.
func (e *stackEnv) pair(first string) (net.Conn, *peerEnd, error) {
	c, err := net.DialTimeout("tcp", e.addr, 5*time.Second)
	if err != nil {
		return nil, nil, err
	}
	p := newPeerEnd(c)
	if first != "" {
		if _, err := p.raw.Write([]byte(first)); err != nil {
			c.Close()
			return nil, nil, err
		}
		p.hdrLen = int64(len(first))
	}
	srv, err := e.l.Accept()
	if err != nil {
		c.Close()
		return nil, nil, err
	}
	return srv, p, nil
}

// sconn is one connection of a stack case.
type sconn struct {
	End     string `json:"end"` // server | peer-fin | peer-rst | no-header | bad-header | tls-garbage | tls-silent
	In      int    `json:"in"`  // bytes the peer sends
	Out     int    `json:"out"` // bytes the tracked side writes
	Closers int    `json:"closers"`
	Twice   bool   `json:"twice"`
	Copy    bool   `json:"copy,omitempty"` // the tracked side writes with io.Copy (ReadFrom where the stack has it)
}

func (c sconn) lconn() lconn {
	return lconn{In: c.In, Out: c.Out, Closers: c.Closers, Twice: c.Twice, Copy: c.Copy}
}

func (c sconn) failing() bool {
	switch c.End {
	case "no-header", "bad-header", "tls-garbage", "tls-silent":
		return true
	}
	return false
}

// closeScript: what the wrapped Close of this connection returns, for the model.
func (c sconn) closeScript() string {
	if c.End == "no-header" {
		return "/c" // proxyproto.Conn closed the socket itself: net.ErrClosed from the first call on
	}
	return "n/c"
}

type stackCase struct {
	Kind     string  `json:"kind"` // "stack"
	Stack    string  `json:"stack"`
	Track    bool    `json:"track_traffic"`
	HeaderMS int     `json:"proxy_header_timeout_ms"`
	Conns    []sconn `json:"accepted"`
	Dials    []sconn `json:"dialled"`
	Seed     uint64  `json:"schedule_seed"`
}

// sobs is what one connection did: the tracked side's observer and the raw bytes at the harness's end.
type sobs struct {
	Conn     int    `json:"conn"`
	Side     string `json:"side"`
	End      string `json:"end"`
	Observer bool   `json:"observer"`
	Rx       int64  `json:"rx"`
	Tx       int64  `json:"tx"`
	PeerSent int64  `json:"peer_raw_sent"` // without the PROXY header
	PeerRecv int64  `json:"peer_raw_received"`
	Drained  bool   `json:"peer_read_to_the_end"`
	Err      string `json:"err,omitempty"`
}

const handshakeGiveUp = 250 * time.Millisecond

// serveTracked is what a server does with an accepted (or a client with a dialled) connection:
// ask for the peer address, shake hands, move the bytes, close — from several goroutines at once.
func serveTracked(c net.Conn, spec sconn, o *sobs) {
	c.SetDeadline(time.Now().Add(ioTimeout))
	ob := observerOf(c)
	_ = c.RemoteAddr() // on a PROXY protocol listener this waits for the header
	var err error
	if tc, ok := c.(*tls.Conn); ok {
		d := ioTimeout
		if spec.End == "tls-silent" {
			d = handshakeGiveUp
		}
		hctx, cancel := context.WithTimeout(context.Background(), d)
		err = tc.HandshakeContext(hctx)
		cancel()
	}
	switch {
	case spec.failing():
		if err == nil {
			var one [1]byte
			_, err = c.Read(one[:])
		}
		if err == nil {
			o.Err = "the scripted failure did not happen"
		}
	case err != nil:
		o.Err = "handshake: " + err.Error()
	default:
		if _, err := io.CopyN(io.Discard, c, int64(spec.In)); err != nil {
			o.Err = "read: " + err.Error()
		} else if err := writeOut(c, spec.Out, spec.Copy); err != nil {
			o.Err = "write: " + err.Error()
		} else if spec.End != "server" {
			io.Copy(io.Discard, c) // until the peer's FIN or RST
		}
	}
	closeConcurrently(c, spec.lconn())
	if ob != nil {
		o.Observer, o.Rx, o.Tx = true, int64(ob.Rx()), int64(ob.Tx())
	}
}

// peerScript is the harness's end of the same connection.
func peerScript(p *peerEnd, cli *tls.Config, spec sconn, o *sobs) (perr string) {
	p.raw.SetDeadline(time.Now().Add(ioTimeout))
	defer p.raw.Close()
	switch spec.End {
	case "no-header", "bad-header", "tls-silent":
		// nothing more to say; wait for the stack to give up
		o.Drained = p.drain(ioTimeout)
	case "tls-garbage":
		p.raw.Write([]byte("GET / HTTP/1.1\r\nHost: this is not a ClientHello\r\n\r\n"))
		o.Drained = p.drain(ioTimeout)
	default:
		if cli != nil {
			p.c = tls.Client(p.raw, cli)
		}
		if spec.In > 0 {
			if _, err := p.c.Write(make([]byte, spec.In)); err != nil {
				perr = "peer write: " + err.Error()
			}
		} else if tc, ok := p.c.(*tls.Conn); ok {
			if err := tc.Handshake(); err != nil {
				perr = "peer handshake: " + err.Error()
			}
		}
		if perr == "" {
			if _, err := io.ReadFull(p.c, make([]byte, spec.Out)); err != nil {
				perr = fmt.Sprintf("peer read of %d bytes: %v", spec.Out, err)
			}
		}
		switch spec.End {
		case "peer-fin":
			p.c.Close() // over TLS this sends the close_notify alert first
			o.PeerSent, o.PeerRecv = p.raw.tx.Load()-p.hdrLen, p.raw.rx.Load()
			return
		case "peer-rst":
			o.PeerSent, o.PeerRecv = p.raw.tx.Load()-p.hdrLen, p.raw.rx.Load()
			p.abort()
			return
		default:
			o.Drained = p.drain(ioTimeout)
		}
	}
	o.PeerSent, o.PeerRecv = p.raw.tx.Load()-p.hdrLen, p.raw.rx.Load()
	return
}

func runStack(ctx *core.Ctx, sc *stackCase) {
	key, _ := json.Marshal(sc)
	ctx.Case(string(key), true)
	ctx.Count("stack/" + sc.Stack)
	defer func() {
		if r := recover(); r != nil {
			ctx.Crash("Listener/Dialer connections can be used and closed", "", sc, fmt.Sprint(r))
		}
	}()
	e, err := newStackEnv(sc.Stack, sc.Track, time.Duration(sc.HeaderMS)*time.Millisecond)
	if err != nil {
		ctx.Crash("listener starts", "", sc, err.Error())
		return
	}
	defer e.l.Close()

	var mu sync.Mutex
	var obs []sobs
	var wg sync.WaitGroup
	run := func(c net.Conn, p *peerEnd, cli *tls.Config, spec sconn, o sobs) {
		wg.Add(1)
		go func() {
			defer wg.Done()
			var perr string
			var pw sync.WaitGroup
			pw.Add(1)
			go func() { defer pw.Done(); perr = peerScript(p, cli, spec, &o) }()
			serveTracked(c, spec, &o)
			pw.Wait()
			if o.Err == "" {
				o.Err = perr
			}
			mu.Lock()
			obs = append(obs, o)
			mu.Unlock()
		}()
	}

	// ---- accepted side ----
	for i, spec := range sc.Conns {
		ctx.Count("stack/end/" + spec.End)
		ctx.Count(fmt.Sprintf("stack/close-calls/%d", spec.lconn().closeCalls()))
		first := ""
		if hasLayer(sc.Stack, "proxy") {
			switch spec.End {
			case "no-header":
			case "bad-header":
				first = "GET / HTTP/1.1\r\nHost: a client that does not speak the PROXY protocol\r\n\r\n"
			default:
				first = proxyV1Header
			}
		}
		c, p, err := e.pair(first)
		if err != nil {
			ctx.Crash("a connection to the listener is accepted", "", sc, err.Error())
			return
		}
		run(c, p, e.cli, spec, sobs{Conn: i, Side: "accepted", End: spec.End})
	}

	// ---- dialled side ----
	pl, err := net.Listen("tcp", "127.0.0.1:0")
	if err != nil {
		core.Fatalf("C13: peer listener: %v", err)
	}
	defer pl.Close()
	d := forwarder.NewDialer(&forwarder.DialConfig{PromConfig: e.pc, DialTimeout: 5 * time.Second, Retry: forwarder.DialRetryConfig{Attempts: 1}})
	dctx := context.Background()
	if sc.Track {
		dctx = forwarder.WithDialConnTrack(dctx, forwarder.DialConnTrackTraffic)
	}
	for i, spec := range sc.Dials {
		ctx.Count("stack/dial-end/" + spec.End)
		c, err := d.DialContext(dctx, "tcp", pl.Addr().String())
		if err != nil {
			ctx.Crash("a dial to a listening loopback port succeeds", "", sc, err.Error())
			return
		}
		pc, err := pl.Accept()
		if err != nil {
			core.Fatalf("C13: peer accept: %v", err)
		}
		run(c, newPeerEnd(pc), nil, spec, sobs{Conn: i, Side: "dialled", End: spec.End})
	}
	wg.Wait()

	// the error path of Accept
	e.l.Close()
	if c, err := e.l.Accept(); err == nil {
		c.Close()
	}

	snap := settle(e.reg, lstNS)

	// ---- model: one linearisation of the same history over connections of these kinds ----
	r := core.NewRand(sc.Seed)
	tok := func(conns []sconn) func(i int) string {
		return func(i int) string {
			return fmt.Sprintf("a%d/%s", conns[i].lconn().closeCalls(), conns[i].closeScript())
		}
	}
	calls := func(conns []sconn) func(i int) int {
		return func(i int) int { return conns[i].lconn().closeCalls() }
	}
	accOps := scheduleTok(r, len(sc.Conns), calls(sc.Conns), tok(sc.Conns), 1)
	dialOps := scheduleTok(r, len(sc.Dials), calls(sc.Dials), tok(sc.Dials), 0)
	ansA := ctx.Model.MustAsk("C13", "listenerr", "once", core.JoinList(accOps))
	ansD := ctx.Model.MustAsk("C13", "listenerr", "once", core.JoinList(dialOps))
	ma, md := kvInts(ansA), kvInts(ansD)
	cs := map[string]any{"kind": "stack", "stack": sc.Stack, "track_traffic": sc.Track, "proxy_header_timeout_ms": sc.HeaderMS,
		"accepted": sc.Conns, "dialled": sc.Dials, "schedule_seed": sc.Seed, "observed": snap, "connections": obs}
	impl := fmt.Sprintf("listener total=%d active=%d errors=%d | dialer total=%d active=%d errors=%d", snap.LAccepted, snap.LActive, snap.LErrors,
		snap.DDialed, snap.DActive, snap.DErrors)
	var failed []string
	for _, o := range obs {
		if o.Err != "" {
			failed = append(failed, fmt.Sprintf("%s %d (%s): %s", o.Side, o.Conn, o.End, o.Err))
		}
	}
	if len(failed) > 0 {
		ctx.Disagree("connections through the listener stack / dialer go the way they are scripted", cs, strings.Join(failed, "; "), "as scripted")
	}
	if snap.LAccepted != ma["accepted"] || snap.LActive != ma["active"] || snap.LErrors != ma["errors"] ||
		snap.DDialed != md["accepted"] || snap.DActive != md["active"] || snap.DErrors != md["errors"] {
		ctx.Disagree("listener/dialer metrics = the model's accounting state after the same accepts, errors and Close calls", cs, impl, "listener "+ansA+" | dialer "+ansD)
	} else {
		ctx.TraceValidated()
	}

	// ---- the property's clauses ----
	hv := ctx.Model.MustAsk("C13", "holdsconns", strconv.Itoa(snap.LAccepted), strconv.Itoa(len(sc.Conns)), strconv.Itoa(snap.LActive))
	if hv != "true" || snap.LAccepted != len(sc.Conns) {
		ctx.SpecFail("every accepted connection is counted as closed exactly once — whoever ended it (the stack itself, the peer, the server from several goroutines): active = accepted - closed = 0",
			"", cs, impl, fmt.Sprintf("%s listener, connections ended by %s: %s", sc.Stack, ends(sc.Conns), hv))
	}
	hv = ctx.Model.MustAsk("C13", "holdsconns", strconv.Itoa(snap.DDialed), strconv.Itoa(len(sc.Dials)), strconv.Itoa(snap.DActive))
	if hv != "true" || snap.DDialed != len(sc.Dials) {
		ctx.SpecFail("every dialled connection is counted as closed exactly once: active = dialled - closed = 0", "", cs, impl,
			fmt.Sprintf("dialled connections ended by %s: %s", ends(sc.Dials), hv))
	}
	if snap.MinGauge < 0 {
		ctx.SpecFail("no gauge is ever negative", "", cs, impl, fmt.Sprintf("minimum gauge value seen %d", snap.MinGauge))
	}
	if snap.LErrors != 1 || snap.DErrors != 0 {
		ctx.SpecFail("a failed accept / dial moves the error counter and nothing else", "", cs, impl,
			fmt.Sprintf("listener_errors_total=%d after 1 failed Accept, dialer_errors_total=%d after no failed dial", snap.LErrors, snap.DErrors))
	}
	for _, o := range obs {
		if o.Err != "" {
			continue
		}
		checkRaw(ctx, cs, sc.Track, o, o.End == "server" || (o.End == "peer-fin" && !hasLayer(sc.Stack, "tls")) || o.Side == "dialled" && o.End == "peer-fin")
	}
}

// checkRaw compares a tracked connection's observer with the raw bytes at the harness's end:
// Tx = what the peer received whenever the peer read to the end; Rx = what the peer sent when the
// tracked side read all of it (rxExact), never more.
func checkRaw(ctx *core.Ctx, cs any, track bool, o sobs, rxExact bool) {
	if !track {
		if o.Observer && (o.Rx != 0 || o.Tx != 0) {
			ctx.SpecFail("byte counters are off when traffic tracking is off", "", cs, fmt.Sprintf("%+v", o), "observer counted bytes without TrackTraffic")
		}
		return
	}
	if !o.Observer {
		ctx.SpecFail("a tracked connection exposes its byte counters", "", cs, fmt.Sprintf("%+v", o), "ObserverFromConn returned nil with TrackTraffic on")
		return
	}
	bad := ""
	switch {
	case o.Drained && o.Tx != o.PeerRecv:
		bad = fmt.Sprintf("tx=%d, the peer received %d bytes (it read to the end of the stream)", o.Tx, o.PeerRecv)
	case !o.Drained && o.Tx < o.PeerRecv:
		bad = fmt.Sprintf("tx=%d is less than the %d bytes the peer received", o.Tx, o.PeerRecv)
	case rxExact && o.Rx != o.PeerSent:
		bad = fmt.Sprintf("rx=%d, the peer sent %d bytes and the tracked side read all of them", o.Rx, o.PeerSent)
	case o.Rx > o.PeerSent:
		bad = fmt.Sprintf("rx=%d is more than the %d bytes the peer sent", o.Rx, o.PeerSent)
	}
	if bad != "" {
		ctx.SpecFail("byte counters equal the bytes actually transferred (raw bytes on the wire, counted at the peer)", "", cs, fmt.Sprintf("%+v", o),
			fmt.Sprintf("%s connection %d (%s): %s", o.Side, o.Conn, o.End, bad))
	}
}

func ends(cs []sconn) string {
	var out []string
	for _, c := range cs {
		out = append(out, c.End)
	}
	return strings.Join(out, ",")
}

// settle gathers the registry until the connection gauges are back at 0 (bounded).
func settle(reg *prometheus.Registry, ns string) *snapshot {
	var snap *snapshot
	minGauge := 0
	start := time.Now()
	for {
		var err error
		snap, err = gather(reg, ns)
		if err != nil {
			core.Fatalf("gather: %v", err)
		}
		if snap.MinGauge < minGauge {
			minGauge = snap.MinGauge
		}
		if (snap.LActive == 0 && snap.DActive == 0) || time.Since(start) > 3*time.Second {
			break
		}
		time.Sleep(10 * time.Millisecond)
	}
	snap.MinGauge = minGauge
	return snap
}

// scheduleTok renders one random linearisation of a history for the model: connection i is
// accepted (token accept(i)) before its Close steps; each of its calls(i) Close calls is one
// caller taking two steps; `errs` failed accepts/dials are sprinkled in.
func scheduleTok(r *core.Rand, n int, calls func(i int) int, accept func(i int) string, errs int) []string {
	type tok struct{ conn, caller int }
	var pending []tok
	var ops []string
	steps := map[tok]int{}
	next := 0
	for next < n || len(pending) > 0 || errs > 0 {
		var opts []int
		if next < n {
			opts = append(opts, 0)
		}
		if errs > 0 {
			opts = append(opts, 1)
		}
		if len(pending) > 0 {
			opts = append(opts, 2, 2, 2)
		}
		switch core.Pick(r, opts) {
		case 0:
			ops = append(ops, accept(next))
			for j := 0; j < calls(next); j++ {
				pending = append(pending, tok{next, j})
			}
			next++
		case 1:
			ops = append(ops, "e")
			errs--
		default:
			k := r.Intn(len(pending))
			t := pending[k]
			ops = append(ops, fmt.Sprintf("c%d.%d", t.conn, t.caller))
			steps[t]++
			if steps[t] == 2 {
				pending = append(pending[:k], pending[k+1:]...)
			}
		}
	}
	return ops
}

func genStack(r *core.Rand) *stackCase {
	sc := &stackCase{Kind: "stack", Stack: core.Pick(r, stackKinds), Track: r.Chance(75), HeaderMS: core.Pick(r, []int{150, 250, 400}), Seed: r.U64()}
	endsFor := []string{"server", "server", "peer-fin", "peer-rst"}
	if hasLayer(sc.Stack, "proxy") {
		endsFor = append(endsFor, "no-header", "no-header", "bad-header")
	}
	if hasLayer(sc.Stack, "tls") {
		endsFor = append(endsFor, "tls-garbage", "tls-silent")
	}
	mk := func(ends []string) sconn {
		return sconn{
			End:     core.Pick(r, ends),
			In:      core.Pick(r, []int{0, 1, 100, 4096, 70000}),
			Out:     core.Pick(r, []int{0, 1, 517, 8192, 100000}),
			Closers: r.Range(1, 4),
			Twice:   r.Chance(30),
			Copy:    r.Chance(40),
		}
	}
	for i, n := 0, r.Range(1, 5); i < n; i++ {
		sc.Conns = append(sc.Conns, mk(endsFor))
	}
	for i, n := 0, r.Range(0, 3); i < n; i++ {
		sc.Dials = append(sc.Dials, mk([]string{"server", "peer-fin", "peer-rst"}))
	}
	return sc
}

var _ = conntrack.ObserverFromConn
