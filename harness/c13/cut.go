package c13

import (
	"context"
	"crypto/tls"
	"encoding/json"
	"fmt"
	"io"
	"net"
	"strconv"
	"strings"
	"sync/atomic"
	"time"

	"github.com/prometheus/client_golang/prometheus"
	"github.com/saucelabs/forwarder"
	"github.com/saucelabs/forwarder/verifharness/core"
)

// cut.go: byte accounting when I/O is cut short, on connections handed out by forwarder.Listener (every
// stacking) and forwarder.Dialer with traffic tracking on. A write (Write calls, or io.Copy =
// ReadFrom where the stack has it) is interrupted by a write deadline against a peer that does not
// read, or by the peer's reset in the middle; a read (Read calls, or io.Copy out of the connection)
// is interrupted by a read deadline or by the peer's reset. The observer must equal the raw bytes
// the peer received / sent: exactly once the peer has read to the FIN, never less than what the peer
// got otherwise; and on connections without TLS above the tracker exactly the sum of the `n` the
// calls returned.

type cutCase struct {
	Kind       string `json:"kind"`  // "cut"
	Stack      string `json:"stack"` // accepted side: the listener stacking
	Side       string `json:"side"`  // accepted | dialled
	Op         string `json:"op"`    // write | readfrom | read | copyout
	Cut        string `json:"cut"`   // deadline | peer-rst
	Pre        int    `json:"pre"`   // bytes moved completely each way before
	Size       int    `json:"size"`  // write/readfrom: bytes asked for; read/copyout: bytes the peer sends before the cut
	Chunk      int    `json:"chunk"` // write: bytes per Write call (0 = one call)
	PeerReads  int    `json:"peer_reads"`
	DeadlineMS int    `json:"deadline_ms"`
}

var bigZero = make([]byte, 16<<20)

type countWriter struct{ n atomic.Int64 }

func (w *countWriter) Write(p []byte) (int, error) { w.n.Add(int64(len(p))); return len(p), nil }

type cutObs struct {
	Rx0       int64  `json:"rx_before"`
	Tx0       int64  `json:"tx_before"`
	Rx        int64  `json:"rx"`
	Tx        int64  `json:"tx"`
	N         int64  `json:"n_returned"`
	OpErr     string `json:"op_error,omitempty"`
	Calls     int    `json:"calls"`
	Path      string `json:"path"` // Write | ReadFrom | Read | WriteTo | io.Copy/Read
	PeerSent  int64  `json:"peer_raw_sent"`
	PeerRecv  int64  `json:"peer_raw_received"`
	PeerAtFIN bool   `json:"peer_read_to_fin"`
	LActive   int    `json:"listener_cx_active"`
	DActive   int    `json:"dialer_cx_active"`
}

func isTimeout(err error) bool {
	ne, ok := err.(net.Error)
	return ok && ne.Timeout()
}

func runCut(ctx *core.Ctx, cc *cutCase) {
	key, _ := json.Marshal(cc)
	ctx.Case(string(key), true)
	ctx.Count(fmt.Sprintf("cut/%s/%s/%s", cc.Side, cc.Op, cc.Cut))
	defer func() {
		if r := recover(); r != nil {
			ctx.Crash("tracked connections survive interrupted I/O", "", cc, fmt.Sprint(r))
		}
	}()
	var tracked net.Conn
	var p *peerEnd
	var cli *tls.Config
	var reg *prometheus.Registry
	stack := cc.Stack
	if cc.Side == "accepted" {
		e, err := newStackEnv(cc.Stack, true, 5*time.Second)
		if err != nil {
			ctx.Crash("listener starts", "", cc, err.Error())
			return
		}
		defer e.l.Close()
		first := ""
		if hasLayer(cc.Stack, "proxy") {
			first = proxyV1Header
		}
		if tracked, p, err = e.pair(first); err != nil {
			ctx.Crash("a connection to the listener is accepted", "", cc, err.Error())
			return
		}
		cli, reg = e.cli, e.reg
		ctx.Count("cut/stack/" + cc.Stack)
	} else {
		stack = "plain"
		reg = prometheus.NewRegistry()
		pl, err := net.Listen("tcp", "127.0.0.1:0")
		if err != nil {
			core.Fatalf("C13: peer listener: %v", err)
		}
		defer pl.Close()
		d := forwarder.NewDialer(&forwarder.DialConfig{PromConfig: forwarder.PromConfig{PromNamespace: lstNS, PromRegistry: reg},
			DialTimeout: 5 * time.Second, Retry: forwarder.DialRetryConfig{Attempts: 1}})
		tracked, err = d.DialContext(forwarder.WithDialConnTrack(context.Background(), forwarder.DialConnTrackTraffic), "tcp", pl.Addr().String())
		if err != nil {
			ctx.Crash("a dial to a listening loopback port succeeds", "", cc, err.Error())
			return
		}
		pc, err := pl.Accept()
		if err != nil {
			core.Fatalf("C13: peer accept: %v", err)
		}
		p = newPeerEnd(pc)
	}
	defer p.raw.Close()
	defer tracked.Close()
	overTLS := hasLayer(stack, "tls")
	ob := observerOf(tracked)
	if ob == nil {
		ctx.SpecFail("a tracked connection exposes its byte counters", "", cc, "no observer", "ObserverFromConn returned nil with traffic tracking on")
		return
	}
	tracked.SetDeadline(time.Now().Add(ioTimeout))
	p.raw.SetDeadline(time.Now().Add(ioTimeout))
	// a small receive buffer at the peer: a peer that does not read stops the writer early
	if p.tcp != nil {
		p.tcp.SetReadBuffer(64 << 10)
	}

	// ---- handshake and a complete exchange each way ----
	perr := make(chan error, 1)
	go func() {
		if cli != nil {
			tc := tls.Client(p.raw, cli)
			p.c = tc
			if err := tc.Handshake(); err != nil {
				perr <- err
				return
			}
		}
		if _, err := io.ReadFull(p.c, make([]byte, cc.Pre)); err != nil {
			perr <- err
			return
		}
		_, err := p.c.Write(make([]byte, cc.Pre))
		perr <- err
	}()
	var serr error
	if tc, ok := tracked.(*tls.Conn); ok {
		serr = tc.Handshake()
	}
	if serr == nil {
		_, serr = tracked.Write(make([]byte, cc.Pre))
	}
	if serr == nil {
		_, serr = io.ReadFull(tracked, make([]byte, cc.Pre))
	}
	if err := <-perr; err != nil || serr != nil {
		ctx.Disagree("a complete exchange each way succeeds before the interrupted call", cc, fmt.Sprintf("tracked side: %v, peer: %v", serr, err), "as scripted")
		return
	}
	o := &cutObs{Rx0: int64(ob.Rx()), Tx0: int64(ob.Tx())}

	// ---- the interrupted call ----
	opDone := make(chan struct{})
	peerDone := make(chan struct{})
	dl := time.Duration(cc.DeadlineMS) * time.Millisecond
	switch cc.Op {
	case "write", "readfrom":
		go func() {
			defer close(peerDone)
			if cc.Cut == "peer-rst" {
				io.CopyN(io.Discard, p.raw, int64(cc.PeerReads))
				o.PeerSent, o.PeerRecv = p.raw.tx.Load()-p.hdrLen, p.raw.rx.Load()
				p.abort()
				return
			}
			<-opDone // does not read while the tracked side writes
			o.PeerAtFIN = p.drain(ioTimeout)
			o.PeerSent, o.PeerRecv = p.raw.tx.Load()-p.hdrLen, p.raw.rx.Load()
		}()
		if cc.Cut == "deadline" {
			tracked.SetWriteDeadline(time.Now().Add(dl))
		}
		var err error
		if cc.Op == "write" {
			o.Path = "Write"
			left := cc.Size
			for left > 0 && err == nil {
				k := left
				if cc.Chunk > 0 && cc.Chunk < k {
					k = cc.Chunk
				}
				var n int
				n, err = tracked.Write(bigZero[:k])
				o.N += int64(n)
				o.Calls++
				left -= k
			}
		} else {
			o.Path = "io.Copy/Write"
			if _, ok := tracked.(io.ReaderFrom); ok {
				o.Path = "ReadFrom"
			}
			o.Calls = 1
			o.N, err = io.Copy(tracked, &sizedZero{n: cc.Size})
		}
		if err != nil {
			o.OpErr = err.Error()
		}
		close(opDone)
		tracked.Close()
		<-peerDone
	default: // read, copyout
		sent := make(chan error, 1)
		go func() {
			defer close(peerDone)
			left := cc.Size
			var err error
			for left > 0 && err == nil {
				k := min(left, len(bigZero))
				_, err = p.c.Write(bigZero[:k])
				left -= k
			}
			sent <- err
			if cc.Cut == "peer-rst" {
				o.PeerSent, o.PeerRecv = p.raw.tx.Load()-p.hdrLen, p.raw.rx.Load()
				p.abort()
				return
			}
			<-opDone
			o.PeerAtFIN = p.drain(ioTimeout)
			o.PeerSent, o.PeerRecv = p.raw.tx.Load()-p.hdrLen, p.raw.rx.Load()
		}()
		var err error
		if cc.Op == "read" {
			o.Path = "Read"
			buf := make([]byte, 32<<10)
			for err == nil {
				if cc.Cut == "deadline" && o.N == int64(cc.Size) {
					// everything the peer sent has arrived: the next Read runs into its deadline
					tracked.SetReadDeadline(time.Now().Add(dl))
				}
				var n int
				n, err = tracked.Read(buf)
				o.N += int64(n)
				o.Calls++
			}
		} else {
			o.Path = "io.Copy/Read"
			if _, ok := tracked.(io.WriterTo); ok {
				o.Path = "WriteTo"
			}
			sink := &countWriter{}
			stop := make(chan struct{})
			if cc.Cut == "deadline" {
				go func() {
					for sink.n.Load() < int64(cc.Size) {
						select {
						case <-stop:
							return
						case <-time.After(2 * time.Millisecond):
						}
					}
					tracked.SetReadDeadline(time.Now().Add(dl))
				}()
			}
			o.Calls = 1
			_, err = io.Copy(sink, tracked)
			close(stop)
			o.N = sink.n.Load()
		}
		if err != nil {
			o.OpErr = err.Error()
		}
		if werr := <-sent; werr != nil && cc.Cut == "deadline" {
			ctx.Disagree("the peer can send its bytes while the tracked side reads", cc, werr.Error(), "as scripted")
		}
		close(opDone)
		tracked.Close()
		<-peerDone
	}
	o.Rx, o.Tx = int64(ob.Rx()), int64(ob.Tx())
	snap := settle(reg, lstNS)
	o.LActive, o.DActive = snap.LActive, snap.DActive

	cs := map[string]any{"kind": "cut", "stack": cc.Stack, "side": cc.Side, "op": cc.Op, "cut": cc.Cut, "pre": cc.Pre, "size": cc.Size, "chunk": cc.Chunk,
		"peer_reads": cc.PeerReads, "deadline_ms": cc.DeadlineMS, "observed": o}
	impl := fmt.Sprintf("rx %d→%d tx %d→%d", o.Rx0, o.Rx, o.Tx0, o.Tx)
	writing := cc.Op == "write" || cc.Op == "readfrom"
	cutShort := o.OpErr != "" && (o.N > 0)
	ctx.Count(fmt.Sprintf("cut/path/%s/partial=%v", o.Path, cutShort && writing))
	if cc.Cut == "deadline" && !(o.OpErr != "" && isTimeoutText(o.OpErr)) {
		ctx.Disagree("the call runs into its deadline", cs, fmt.Sprintf("n=%d err=%q", o.N, o.OpErr), "a timeout error")
	}

	// ---- model: the calls as the harness made them (connections without TLS above the tracker) ----
	if !overTLS {
		kind := map[string]string{"write": "w", "readfrom": "f", "read": "r", "copyout": "r"}[cc.Op]
		ops := []string{"w." + strconv.Itoa(cc.Pre), "r." + strconv.Itoa(cc.Pre),
			fmt.Sprintf("io.%s.%d.%d.%s", kind, cc.Size, o.N, core.B01(o.OpErr != ""))}
		ans := ctx.Model.MustAsk("C13", "observe", "done", core.JoinList(ops))
		m := kvInts(ans)
		if int(o.Rx) != m["rx"] || int(o.Tx) != m["tx"] {
			ctx.Disagree("observer = the model's counters after the same calls with the same results", cs, impl, ans)
		} else {
			ctx.TraceValidated()
		}
		if hv := ctx.Model.MustAsk("C13", "holdsbytes", strconv.FormatInt(o.Rx, 10), strconv.FormatInt(o.Tx, 10), strconv.Itoa(m["in"]), strconv.Itoa(m["out"])); hv != "true" {
			ctx.SpecFail("byte counters equal the bytes actually transferred, also when a call moves part of its bytes and fails", "", cs, impl,
				fmt.Sprintf("%s via %s asked for %d bytes, moved %d and returned %q: %s", cc.Op, o.Path, cc.Size, o.N, o.OpErr, hv))
		}
	}

	// ---- the bytes on the wire, counted at the peer ----
	bad := ""
	switch {
	case o.PeerAtFIN && o.Tx != o.PeerRecv:
		bad = fmt.Sprintf("tx=%d, the peer received %d bytes (it read to the FIN)", o.Tx, o.PeerRecv)
	case o.Tx < o.PeerRecv:
		bad = fmt.Sprintf("tx=%d is less than the %d bytes the peer received", o.Tx, o.PeerRecv)
	case !writing && cc.Cut == "deadline" && o.Rx != o.PeerSent:
		bad = fmt.Sprintf("rx=%d, the peer sent %d bytes and all of them were read", o.Rx, o.PeerSent)
	case o.Rx > o.PeerSent:
		bad = fmt.Sprintf("rx=%d is more than the %d bytes the peer sent", o.Rx, o.PeerSent)
	}
	if bad != "" {
		ctx.SpecFail("byte counters equal the bytes actually transferred (raw bytes on the wire, counted at the peer)", "", cs, impl,
			fmt.Sprintf("%s %s connection, %s via %s cut by %s after %d bytes (%q): %s", stack, cc.Side, cc.Op, o.Path, cc.Cut, o.N, o.OpErr, bad))
	}
	if o.LActive != 0 || o.DActive != 0 {
		ctx.SpecFail("active-connection gauges return to 0 when all connections are gone", "", cs,
			fmt.Sprintf("listener_cx_active=%d dialer_cx_active=%d", o.LActive, o.DActive), "after a connection whose I/O was interrupted was closed")
	}
}

func isTimeoutText(s string) bool {
	return strings.Contains(s, "i/o timeout") || strings.Contains(s, "deadline exceeded")
}

func genCut(r *core.Rand) *cutCase {
	cc := &cutCase{Kind: "cut", Side: core.Pick(r, []string{"accepted", "accepted", "dialled"}), Stack: "plain",
		Op:  core.Pick(r, []string{"write", "write", "readfrom", "readfrom", "read", "copyout"}),
		Cut: core.Pick(r, []string{"deadline", "peer-rst"}),
		Pre: core.Pick(r, []int{1, 5, 300, 9000}), DeadlineMS: core.Pick(r, []int{40, 80, 150})}
	if cc.Side == "accepted" {
		cc.Stack = core.Pick(r, []string{"plain", "plain", "plain", "tls", "proxy", "proxy+tls", "ratelimit", "proxy+ratelimit+tls"})
	}
	switch cc.Op {
	case "write", "readfrom":
		cc.Size = len(bigZero)
		cc.Chunk = core.Pick(r, []int{0, 0, 1 << 20, 64 << 10})
		if cc.Cut == "peer-rst" {
			cc.PeerReads = core.Pick(r, []int{1, 4096, 100000, 1 << 20})
		}
	default:
		cc.Size = core.Pick(r, []int{1, 700, 70000, 1 << 20})
	}
	return cc
}
