package c13

import (
	"encoding/json"
	"errors"
	"fmt"
	"io"
	"net"
	"strconv"
	"strings"
	"sync"
	"sync/atomic"
	"time"

	"github.com/saucelabs/forwarder/conntrack"
	"github.com/saucelabs/forwarder/verifharness/core"
)

// builder.go drives conntrack.Builder (the constructor under Listener.Accept and Dialer.DialContext)
// over connections of every kind: a net.Pipe (Close returns nil every time), a TCP connection, a
// TCP connection that was closed underneath the tracker (net.ErrClosed every time), and a scripted
// connection whose Close returns an arbitrary result call by call and whose Read/Write/ReadFrom
// return scripted (n, err) pairs — a write that moved n bytes and failed included. The close
// callback must have run exactly once when the Close calls have returned, whatever the wrapped
// Close returned; the observer must hold the bytes the wrapped connection reported, whatever the error.

// ioStep is one scripted call on the tracked connection.
type ioStep struct {
	K    string `json:"k"`             // r = Read | w = Write | f = ReadFrom (Write when the tracked connection has no ReadFrom)
	Req  int    `json:"req"`           // len(p) / bytes the source holds
	Done int    `json:"done"`          // bytes the wrapped connection reports (capped by Req)
	Err  bool   `json:"err,omitempty"` // ... together with an error
}

type bconn struct {
	Under   string   `json:"under"`         // pipe | tcp | tcp-closed | script | script-rf (script with io.ReaderFrom)
	Results string   `json:"close_results"` // script: what the wrapped Close returns call by call: n = nil, c = net.ErrClosed, o = another error
	Dflt    string   `json:"close_default"` // … and afterwards
	Track   bool     `json:"track_traffic"`
	WithObs bool     `json:"with_observer"` // BuildWithObserver instead of Build + ObserverFromConn
	Closers int      `json:"closers"`
	Twice   bool     `json:"twice"`
	IO      []ioStep `json:"io,omitempty"` // script only
}

func (b bconn) closeCalls() int {
	if b.Twice {
		return 2 * b.Closers
	}
	return b.Closers
}

type builderCase struct {
	Kind  string  `json:"kind"` // "builder"
	Conns []bconn `json:"conns"`
	Seed  uint64  `json:"schedule_seed"`
}

var errScripted = errors.New("c13: scripted error")

// ioCall is what the scripted connection reported for one call.
type ioCall struct {
	K    string `json:"k"`
	Req  int    `json:"req"`
	Done int    `json:"done"`
	Err  bool   `json:"err,omitempty"`
}

func (c ioCall) token() string {
	return fmt.Sprintf("io.%s.%d.%d.%s", c.K, c.Req, c.Done, core.B01(c.Err))
}

// scriptConn is a connection that is nothing but its script.
type scriptConn struct {
	mu      sync.Mutex
	results string
	dflt    byte
	closes  int
	steps   []ioStep
	log     []ioCall
}

func (s *scriptConn) next(k string, req int) (int, error) {
	s.mu.Lock()
	defer s.mu.Unlock()
	if len(s.steps) == 0 {
		s.log = append(s.log, ioCall{K: k, Req: req, Done: 0, Err: true})
		return 0, io.EOF
	}
	st := s.steps[0]
	s.steps = s.steps[1:]
	n := st.Done
	if n > req {
		n = req
	}
	var err error
	if st.Err {
		err = errScripted
	}
	s.log = append(s.log, ioCall{K: k, Req: req, Done: n, Err: st.Err})
	return n, err
}

func (s *scriptConn) Read(p []byte) (int, error)  { return s.next("r", len(p)) }
func (s *scriptConn) Write(p []byte) (int, error) { return s.next("w", len(p)) }

func (s *scriptConn) Close() error {
	s.mu.Lock()
	defer s.mu.Unlock()
	r := s.dflt
	if s.closes < len(s.results) {
		r = s.results[s.closes]
	}
	s.closes++
	switch r {
	case 'n':
		return nil
	case 'c':
		return net.ErrClosed
	}
	return errScripted
}

type scriptAddr struct{}

func (scriptAddr) Network() string { return "script" }
func (scriptAddr) String() string  { return "script" }

func (s *scriptConn) LocalAddr() net.Addr                { return scriptAddr{} }
func (s *scriptConn) RemoteAddr() net.Addr               { return scriptAddr{} }
func (s *scriptConn) SetDeadline(t time.Time) error      { return nil }
func (s *scriptConn) SetReadDeadline(t time.Time) error  { return nil }
func (s *scriptConn) SetWriteDeadline(t time.Time) error { return nil }

// scriptConnRF also offers ReadFrom, so that connfu exposes the tracker's ReadFrom.
type scriptConnRF struct{ *scriptConn }

type lenReader interface{ Len() int }

func (s scriptConnRF) ReadFrom(r io.Reader) (int64, error) {
	req := 0
	if lr, ok := r.(lenReader); ok {
		req = lr.Len()
	}
	n, err := s.next("f", req)
	io.CopyN(io.Discard, r, int64(n))
	return int64(n), err
}

// sizedZero is a source of n zero bytes that knows its length.
type sizedZero struct{ n int }

func (z *sizedZero) Len() int { return z.n }
func (z *sizedZero) Read(p []byte) (int, error) {
	if z.n == 0 {
		return 0, io.EOF
	}
	k := len(p)
	if k > z.n {
		k = z.n
	}
	for i := range p[:k] {
		p[i] = 0
	}
	z.n -= k
	return k, nil
}

type bobs struct {
	Conn      int      `json:"conn"`
	Callbacks int      `json:"close_callbacks"`
	Returned  int      `json:"close_calls_returned"`
	Observer  bool     `json:"observer"`
	Rx        uint64   `json:"rx"`
	Tx        uint64   `json:"tx"`
	Calls     []ioCall `json:"wrapped_calls,omitempty"`
	Err       string   `json:"err,omitempty"`
}

// closeScript is the result behaviour of the wrapped Close for the model.
func (b bconn) closeScript() (results, dflt string) {
	switch b.Under {
	case "pipe":
		return "_", "n"
	case "tcp":
		return "n", "c"
	case "tcp-closed":
		return "_", "c"
	}
	r := b.Results
	if r == "" {
		r = "_"
	}
	return r, b.Dflt
}

func tcpPair() (a, b net.Conn, err error) {
	l, err := net.Listen("tcp", "127.0.0.1:0")
	if err != nil {
		return nil, nil, err
	}
	defer l.Close()
	a, err = net.DialTimeout("tcp", l.Addr().String(), 5*time.Second)
	if err != nil {
		return nil, nil, err
	}
	b, err = l.Accept()
	if err != nil {
		a.Close()
		return nil, nil, err
	}
	return a, b, nil
}

func runBuilderConn(i int, spec bconn) bobs {
	o := bobs{Conn: i}
	var under, other net.Conn
	var sc *scriptConn
	switch spec.Under {
	case "pipe":
		under, other = net.Pipe()
	case "tcp", "tcp-closed":
		var err error
		if under, other, err = tcpPair(); err != nil {
			core.Fatalf("C13: loopback pair: %v", err)
		}
	default:
		d := byte('c')
		if spec.Dflt != "" {
			d = spec.Dflt[0]
		}
		sc = &scriptConn{results: spec.Results, dflt: d, steps: append([]ioStep{}, spec.IO...)}
		if spec.Under == "script-rf" {
			under = scriptConnRF{sc}
		} else {
			under = sc
		}
	}
	if other != nil {
		defer other.Close()
	}
	var callbacks atomic.Int64
	b := conntrack.Builder{TrackTraffic: spec.Track, OnClose: func() { callbacks.Add(1) }}
	var wc net.Conn
	var ob *conntrack.Observer
	if spec.WithObs {
		wc, ob = b.BuildWithObserver(under)
	} else {
		wc = b.Build(under)
		ob = conntrack.ObserverFromConn(wc)
	}
	if spec.Under == "tcp-closed" {
		under.Close() // the stack closes the socket underneath the tracker
	}
	if sc != nil {
		for _, st := range spec.IO {
			switch st.K {
			case "r":
				wc.Read(make([]byte, st.Req))
			case "f":
				if rf, ok := wc.(io.ReaderFrom); ok {
					rf.ReadFrom(&sizedZero{n: st.Req})
					break
				}
				fallthrough
			default:
				wc.Write(make([]byte, st.Req))
			}
		}
	}
	var returned atomic.Int64
	gate := make(chan struct{})
	var wg sync.WaitGroup
	for g := 0; g < spec.Closers; g++ {
		wg.Add(1)
		go func() {
			defer wg.Done()
			<-gate
			wc.Close()
			returned.Add(1)
			if spec.Twice {
				wc.Close()
				returned.Add(1)
			}
		}()
	}
	close(gate)
	wg.Wait()
	o.Callbacks, o.Returned = int(callbacks.Load()), int(returned.Load())
	if ob != nil {
		o.Observer, o.Rx, o.Tx = true, ob.Rx(), ob.Tx()
	}
	if sc != nil {
		sc.mu.Lock()
		o.Calls = append([]ioCall{}, sc.log...)
		sc.mu.Unlock()
	}
	return o
}

func runBuilder(ctx *core.Ctx, bc *builderCase) {
	key, _ := json.Marshal(bc)
	ctx.Case(string(key), true)
	defer func() {
		if r := recover(); r != nil {
			ctx.Crash("conntrack.Builder connections can be used and closed", "", bc, fmt.Sprint(r))
		}
	}()
	r := core.NewRand(bc.Seed)
	for i, spec := range bc.Conns {
		ctx.Count("builder/under/" + spec.Under)
		ctx.Count(fmt.Sprintf("builder/close-calls/%d", spec.closeCalls()))
		o := runBuilderConn(i, spec)
		cs := map[string]any{"kind": "builder", "conns": []bconn{spec}, "schedule_seed": bc.Seed, "observed": o}

		// ---- the close callback ----
		results, dflt := spec.closeScript()
		sched := closeSchedule(r, spec.closeCalls())
		ans := ctx.Model.MustAsk("C13", "closer", "once", strconv.Itoa(spec.closeCalls()), results, dflt, core.JoinList(sched))
		m := kvInts(ans)
		impl := fmt.Sprintf("callbacks=%d after %d Close calls returned", o.Callbacks, o.Returned)
		if o.Returned != spec.closeCalls() {
			ctx.Crash("every Close call returns", "", cs, impl)
			continue
		}
		if o.Callbacks != m["callbacks"] || o.Returned != m["done"] {
			ctx.Disagree("close callbacks of a tracked connection = the model's close machine after the same Close calls over the same wrapped Close", cs, impl, ans)
		} else {
			ctx.TraceValidated()
		}
		if hv := ctx.Model.MustAsk("C13", "holdsclose", strconv.Itoa(o.Callbacks), strconv.Itoa(o.Returned)); hv != "true" {
			ctx.SpecFail("the close callback runs exactly once per connection, however many goroutines close it and whatever the wrapped Close returns", "", cs, impl,
				fmt.Sprintf("%s connection (wrapped Close returns %s then %s), %d goroutines, twice=%v: %s", spec.Under, results, dflt, spec.Closers, spec.Twice, hv))
		}

		// ---- the byte counters ----
		if !spec.Track {
			if o.Observer && (o.Rx != 0 || o.Tx != 0) {
				ctx.SpecFail("byte counters are off when traffic tracking is off", "", cs, fmt.Sprintf("%+v", o), "observer counted bytes without TrackTraffic")
			}
			continue
		}
		if !o.Observer {
			ctx.SpecFail("a tracked connection exposes its byte counters", "", cs, fmt.Sprintf("%+v", o), "no observer with TrackTraffic on")
			continue
		}
		if len(o.Calls) == 0 {
			continue
		}
		var toks []string
		for _, c := range o.Calls {
			toks = append(toks, c.token())
			cut := c.Err && c.Done > 0
			ctx.Count(fmt.Sprintf("builder/io/%s/cut=%v", c.K, cut))
		}
		ans = ctx.Model.MustAsk("C13", "observe", "done", core.JoinList(toks))
		m = kvInts(ans)
		impl = fmt.Sprintf("rx=%d tx=%d", o.Rx, o.Tx)
		if int(o.Rx) != m["rx"] || int(o.Tx) != m["tx"] {
			ctx.Disagree("observer = the model's counters after the calls the wrapped connection reported", cs, impl, ans)
		} else {
			ctx.TraceValidated()
		}
		if hv := ctx.Model.MustAsk("C13", "holdsbytes", strconv.FormatUint(o.Rx, 10), strconv.FormatUint(o.Tx, 10), strconv.Itoa(m["in"]), strconv.Itoa(m["out"])); hv != "true" {
			ctx.SpecFail("byte counters equal the bytes actually transferred, also when a call moves part of its bytes and fails", "", cs, impl,
				fmt.Sprintf("wrapped connection reported %s: %s", strings.Join(toks, " "), hv))
		}
	}
}

// closeSchedule is one random linearisation of `calls` Close calls, two steps each.
func closeSchedule(r *core.Rand, calls int) []string {
	var pending []int
	for j := 0; j < calls; j++ {
		pending = append(pending, j, j)
	}
	core.Shuffle(r, pending)
	out := make([]string, len(pending))
	for i, j := range pending {
		out[i] = strconv.Itoa(j)
	}
	return out
}

func genBuilder(r *core.Rand) *builderCase {
	bc := &builderCase{Kind: "builder", Seed: r.U64()}
	for i, n := 0, r.Range(1, 4); i < n; i++ {
		b := bconn{
			Under:   core.Pick(r, []string{"pipe", "pipe", "tcp", "tcp-closed", "tcp-closed", "script", "script-rf", "script-rf"}),
			Track:   r.Chance(70),
			WithObs: r.Chance(50),
			Closers: r.Range(1, 4),
			Twice:   r.Chance(30),
		}
		if strings.HasPrefix(b.Under, "script") {
			for k, m := 0, r.Range(0, 4); k < m; k++ {
				b.Results += core.Pick(r, []string{"n", "c", "o"})
			}
			b.Dflt = core.Pick(r, []string{"n", "c", "o"})
			if r.Chance(25) { // the same answer every time: always nil, always net.ErrClosed, always some error
				b.Results = ""
			}
			for k, m := 0, r.Range(0, 6); k < m; k++ {
				st := ioStep{K: core.Pick(r, []string{"r", "w", "w", "f"}), Req: core.Pick(r, []int{1, 10, 4096, 100000})}
				switch r.Intn(4) {
				case 0: // complete
					st.Done = st.Req
				case 1: // cut short: part of the bytes, then the error
					st.Done, st.Err = r.Intn(st.Req+1), true
				case 2: // nothing moved
					st.Err = true
				default: // short without error (a short read)
					st.Done = r.Intn(st.Req + 1)
				}
				b.IO = append(b.IO, st)
			}
		}
		bc.Conns = append(bc.Conns, b)
	}
	return bc
}
