package c13

import (
	"bufio"
	"context"
	"encoding/json"
	"errors"
	"fmt"
	"io"
	"net"
	"net/http"
	"strings"
	"sync"
	"time"

	"github.com/prometheus/client_golang/prometheus"
	"github.com/saucelabs/forwarder"
	"github.com/saucelabs/forwarder/conntrack"
	"github.com/saucelabs/forwarder/verifharness/core"
	"github.com/saucelabs/forwarder/verifharness/rig"
)

// pxcut.go: the same two questions asked of the real proxy (TrackTraffic on, a WriteTimeout, traffic
// tracking on its dials): large bodies and tunnels that are cut short — by the proxy's own write
// deadline against a client that does not read, by the client's reset in the middle of a download or
// a tunnel, by the target's reset in the middle of an upload or a tunnel — and clients of a PROXY
// protocol listener that never send the header. The observers of the proxy's accepted and dialled
// connections are compared with the raw bytes counted at the client and at the target; the
// connection gauges must return to 0.

type pxCase struct {
	Kind           string   `json:"kind"` // "proxy-cut"
	Flow           string   `json:"flow"` // download | download-chunked | upload | tunnel-up | tunnel-down | proxy-protocol
	Cut            string   `json:"cut"`  // write-timeout | client-rst | target-rst | (proxy-protocol: none)
	Size           int      `json:"size"`
	K              int      `json:"k"` // bytes the resetting side reads first
	WriteTimeoutMS int      `json:"write_timeout_ms"`
	Clients        []string `json:"clients,omitempty"` // proxy-protocol: good | silent | garbage | header-rst
	HeaderMS       int      `json:"proxy_header_timeout_ms,omitempty"`
}

// obsList collects the observers of the proxy's connections of one side.
type obsList struct {
	mu  sync.Mutex
	obs []*conntrack.Observer
	nil int
}

func (l *obsList) add(c net.Conn) {
	ob := observerOf(c)
	l.mu.Lock()
	if ob == nil {
		l.nil++
	} else {
		l.obs = append(l.obs, ob)
	}
	l.mu.Unlock()
}

func (l *obsList) sum() (n int, rx, tx int64, missing int) {
	l.mu.Lock()
	defer l.mu.Unlock()
	for _, o := range l.obs {
		rx += int64(o.Rx())
		tx += int64(o.Tx())
	}
	return len(l.obs), rx, tx, l.nil
}

type pxObs struct {
	Listener   [3]int64 `json:"accepted_conns_rx_tx"`
	Dialer     [3]int64 `json:"dialled_conns_rx_tx"`
	ClientSent int64    `json:"client_raw_sent"`
	ClientRecv int64    `json:"client_raw_received"`
	ClientFIN  bool     `json:"client_read_to_fin"`
	TargetSent int64    `json:"target_raw_sent"`
	TargetRecv int64    `json:"target_raw_received"`
	TargetFIN  bool     `json:"target_read_to_fin"`
	Status     string   `json:"status_line,omitempty"`
	Snap       any      `json:"metrics"`
	Notes      []string `json:"notes,omitempty"`
}

// readHead reads raw bytes up to and including the blank line (byte by byte: nothing beyond it is consumed).
func readHead(c net.Conn) (string, error) {
	var b []byte
	one := make([]byte, 1)
	for len(b) < 64<<10 {
		if _, err := c.Read(one); err != nil {
			return string(b), err
		}
		b = append(b, one[0])
		if len(b) >= 4 && string(b[len(b)-4:]) == "\r\n\r\n" {
			return string(b), nil
		}
	}
	return string(b), errors.New("head too long")
}

func writeN(c net.Conn, n int) error {
	for n > 0 {
		k := min(n, 1<<20)
		if _, err := c.Write(bigZero[:k]); err != nil {
			return err
		}
		n -= k
	}
	return nil
}

func writeChunked(c net.Conn, n int) error {
	for n > 0 {
		k := min(n, 64<<10)
		if _, err := fmt.Fprintf(c, "%x\r\n", k); err != nil {
			return err
		}
		if _, err := c.Write(bigZero[:k]); err != nil {
			return err
		}
		if _, err := io.WriteString(c, "\r\n"); err != nil {
			return err
		}
		n -= k
	}
	_, err := io.WriteString(c, "0\r\n\r\n")
	return err
}

func runPx(ctx *core.Ctx, pc *pxCase) {
	key, _ := json.Marshal(pc)
	ctx.Case(string(key), true)
	ctx.Count(fmt.Sprintf("proxy-cut/%s/%s", pc.Flow, pc.Cut))
	defer func() {
		if r := recover(); r != nil {
			ctx.Crash("the proxy survives interrupted transfers", "", pc, fmt.Sprint(r))
		}
	}()
	o := &pxObs{}
	var omu sync.Mutex
	note := func(f string, a ...any) { omu.Lock(); o.Notes = append(o.Notes, fmt.Sprintf(f, a...)); omu.Unlock() }

	// ---- the target: origin or tunnel end ----
	tl, err := net.Listen("tcp", "127.0.0.1:0")
	if err != nil {
		core.Fatalf("C13: target listener: %v", err)
	}
	defer tl.Close()
	var twg sync.WaitGroup
	var tmu sync.Mutex
	tconns, tfins := 0, 0
	serveTarget := func(c net.Conn) {
		defer twg.Done()
		t := newPeerEnd(c)
		defer t.raw.Close()
		t.raw.SetDeadline(time.Now().Add(ioTimeout))
		done := func(fin bool) {
			tmu.Lock()
			o.TargetSent += t.raw.tx.Load()
			o.TargetRecv += t.raw.rx.Load()
			if fin {
				tfins++
			}
			tmu.Unlock()
		}
		switch pc.Flow {
		case "download", "download-chunked", "proxy-protocol":
			for { // keep-alive: the proxy may send several requests over one upstream connection
				if _, err := readHead(t.raw); err != nil {
					done(err == io.EOF)
					return
				}
				var err error
				if pc.Flow == "download-chunked" {
					io.WriteString(t.raw, "HTTP/1.1 200 OK\r\nTransfer-Encoding: chunked\r\n\r\n")
					err = writeChunked(t.raw, pc.Size)
				} else {
					fmt.Fprintf(t.raw, "HTTP/1.1 200 OK\r\nContent-Length: %d\r\n\r\n", pc.Size)
					err = writeN(t.raw, pc.Size)
				}
				if err != nil {
					done(t.drain(5 * time.Second))
					return
				}
			}
		case "upload":
			if _, err := readHead(t.raw); err != nil {
				note("target: request head: %v", err)
			}
			io.CopyN(io.Discard, t.raw, int64(pc.K))
			done(false)
			t.abort()
		case "tunnel-up":
			io.CopyN(io.Discard, t.raw, int64(pc.K))
			done(false)
			t.abort()
		case "tunnel-down":
			writeN(t.raw, pc.Size) // fails when the client's reset has torn the tunnel down
			done(t.drain(5 * time.Second))
		}
	}
	acceptDone := make(chan struct{})
	go func() {
		defer close(acceptDone)
		for {
			c, err := tl.Accept()
			if err != nil {
				return
			}
			tmu.Lock()
			tconns++
			tmu.Unlock()
			twg.Add(1)
			go serveTarget(c)
		}
	}()

	// ---- the proxy ----
	reg := prometheus.NewRegistry()
	var accepted, dialled obsList
	opts := rig.ProxyOpts{
		OnAccept: accepted.add,
		PostTransport: func(rt *http.Transport) {
			inner := rt.DialContext
			rt.DialContext = func(dctx context.Context, network, addr string) (net.Conn, error) {
				c, err := inner(forwarder.WithDialConnTrack(dctx, forwarder.DialConnTrackTraffic), network, addr)
				if err == nil {
					dialled.add(c)
				}
				return c, err
			}
		},
		ConnectTo: []forwarder.HostPortPair{
			rig.Route("origin.test", "80", tl.Addr().String()),
			rig.Route("tunnel.test", "443", tl.Addr().String()),
		},
		Transport: func(tc *forwarder.HTTPTransportConfig) {
			tc.PromRegistry = reg
			tc.PromNamespace = promNS
		},
		Configure: func(cfg *forwarder.HTTPProxyConfig) {
			cfg.Name = "fwdverif"
			cfg.PromRegistry = reg
			cfg.PromNamespace = promNS
			cfg.TrackTraffic = true
			cfg.WriteTimeout = time.Duration(pc.WriteTimeoutMS) * time.Millisecond
			if pc.Flow == "proxy-protocol" {
				cfg.ProxyProtocolConfig = &forwarder.ProxyProtocolConfig{ReadHeaderTimeout: time.Duration(pc.HeaderMS) * time.Millisecond}
			}
		},
	}
	proxy, err := rig.StartProxy(opts)
	if err != nil {
		if errors.Is(err, rig.ErrNoListenerTap) {
			ctx.Disagree("the harness can observe the connections the proxy's listeners hand out", pc, err.Error(), "HTTPProxy.listeners []net.Listener")
			return
		}
		ctx.Crash("proxy starts with a valid configuration", "", pc, err.Error())
		return
	}
	defer proxy.Stop()

	// ---- the client(s) ----
	nClients := 1
	if pc.Flow == "proxy-protocol" {
		runPPClients(pc, proxy.Addr, o, note)
		nClients = len(pc.Clients)
	} else {
		runCutClient(pc, proxy.Addr, reg, o, note)
	}
	proxy.RT.CloseIdleConnections()
	targetDone := make(chan struct{})
	go func() { twg.Wait(); close(targetDone) }()
	select {
	case <-targetDone:
	case <-time.After(8 * time.Second):
		note("target still busy after the client had gone")
	}
	tl.Close()
	<-acceptDone
	tmu.Lock()
	o.TargetFIN = tconns > 0 && tfins == tconns
	tmu.Unlock()

	// ---- quiescent point ----
	var snap *snapshot
	start := time.Now()
	for {
		proxy.RT.CloseIdleConnections()
		snap, err = gather(reg, promNS)
		if err != nil {
			core.Fatalf("gather: %v", err)
		}
		if (snap.LActive == 0 && snap.DActive == 0 && snap.LAccepted == nClients) || time.Since(start) > 6*time.Second {
			break
		}
		time.Sleep(10 * time.Millisecond)
	}
	an, arx, atx, amiss := accepted.sum()
	dn, drx, dtx, dmiss := dialled.sum()
	o.Listener, o.Dialer, o.Snap = [3]int64{int64(an), arx, atx}, [3]int64{int64(dn), drx, dtx}, snap
	cs := map[string]any{"kind": "proxy-cut", "flow": pc.Flow, "cut": pc.Cut, "size": pc.Size, "k": pc.K, "write_timeout_ms": pc.WriteTimeoutMS,
		"clients": pc.Clients, "proxy_header_timeout_ms": pc.HeaderMS, "observed": o}
	impl := fmt.Sprintf("accepted conns=%d rx=%d tx=%d | dialled conns=%d rx=%d tx=%d | listener_cx_active=%d dialer_cx_active=%d",
		an, arx, atx, dn, drx, dtx, snap.LActive, snap.DActive)

	// ---- connection accounting ----
	if snap.LActive != 0 || snap.DActive != 0 || snap.MinGauge < 0 {
		ctx.SpecFail("active-connection gauges return to 0 when all connections are gone — whoever ended them (the stack on a header timeout, a write deadline, a reset)",
			"", cs, impl, fmt.Sprintf("listener_cx_active=%d dialer_cx_active=%d (minimum seen %d) after every client and the target had gone", snap.LActive, snap.DActive, snap.MinGauge))
	}
	if snap.LAccepted != nClients || snap.DDialed != dn {
		ctx.SpecFail("every accepted and every dialled connection is counted once", "", cs, impl,
			fmt.Sprintf("listener_cx_total=%d for %d client connections, dialer_cx_total=%d for %d successful dials", snap.LAccepted, nClients, snap.DDialed, dn))
	}
	if amiss > 0 || dmiss > 0 || an != nClients {
		ctx.SpecFail("a tracked connection exposes its byte counters", "", cs, impl,
			fmt.Sprintf("%d of the accepted and %d of the dialled connections have no observer with traffic tracking on (%d accepted connections seen)", amiss, dmiss, an))
		return
	}
	ctx.TraceValidated()

	// ---- byte accounting: the observers against the raw bytes at the client and at the target ----
	bad := ""
	switch {
	case o.ClientFIN && atx != o.ClientRecv:
		bad = fmt.Sprintf("accepted side tx=%d, the client received %d bytes (it read to the FIN)", atx, o.ClientRecv)
	case atx < o.ClientRecv:
		bad = fmt.Sprintf("accepted side tx=%d is less than the %d bytes the client received", atx, o.ClientRecv)
	case arx > o.ClientSent:
		bad = fmt.Sprintf("accepted side rx=%d is more than the %d bytes the client sent", arx, o.ClientSent)
	case o.TargetFIN && dtx != o.TargetRecv:
		bad = fmt.Sprintf("dialled side tx=%d, the target received %d bytes (it read to the FIN)", dtx, o.TargetRecv)
	case dtx < o.TargetRecv:
		bad = fmt.Sprintf("dialled side tx=%d is less than the %d bytes the target received", dtx, o.TargetRecv)
	case drx > o.TargetSent:
		bad = fmt.Sprintf("dialled side rx=%d is more than the %d bytes the target sent", drx, o.TargetSent)
	}
	if bad != "" {
		ctx.SpecFail("byte counters equal the bytes actually transferred (raw bytes on the wire, counted at the client and at the target)", "", cs, impl,
			fmt.Sprintf("%s cut by %s: %s", pc.Flow, pc.Cut, bad))
	}
}

// runCutClient plays the one client of a cut flow.
func runCutClient(pc *pxCase, addr string, reg *prometheus.Registry, o *pxObs, note func(string, ...any)) {
	c, err := net.DialTimeout("tcp", addr, 5*time.Second)
	if err != nil {
		note("client dial: %v", err)
		return
	}
	p := newPeerEnd(c)
	defer p.raw.Close()
	p.raw.SetDeadline(time.Now().Add(ioTimeout))
	fin := false
	defer func() { o.ClientSent, o.ClientRecv, o.ClientFIN = p.raw.tx.Load(), p.raw.rx.Load(), fin }()
	switch pc.Flow {
	case "download", "download-chunked":
		if pc.Cut == "write-timeout" {
			p.tcp.SetReadBuffer(64 << 10)
		}
		io.WriteString(p.raw, "GET http://origin.test/big HTTP/1.1\r\nHost: origin.test\r\n\r\n")
		if pc.Cut == "client-rst" {
			io.CopyN(io.Discard, p.raw, int64(pc.K))
			o.ClientSent, o.ClientRecv = p.raw.tx.Load(), p.raw.rx.Load()
			p.abort()
			return
		}
		// do not read until the proxy has given up on this connection (its gauge is back at 0)
		waitGauge(reg, ioTimeout)
		fin = p.drain(ioTimeout)
	case "upload":
		fmt.Fprintf(p.raw, "POST http://origin.test/up HTTP/1.1\r\nHost: origin.test\r\nConnection: close\r\nContent-Length: %d\r\n\r\n", pc.Size)
		werr := make(chan error, 1)
		go func() { werr <- writeN(p.raw, pc.Size) }()
		p.raw.SetReadDeadline(time.Now().Add(8 * time.Second))
		br := bufio.NewReader(p.raw)
		line, _ := br.ReadString('\n')
		o.Status = strings.TrimSpace(line)
		_, err := io.Copy(io.Discard, br)
		fin = err == nil
		p.raw.Close()
		<-werr
	case "tunnel-up", "tunnel-down":
		io.WriteString(p.raw, "CONNECT tunnel.test:443 HTTP/1.1\r\nHost: tunnel.test:443\r\n\r\n")
		head, err := readHead(p.raw)
		o.Status = strings.SplitN(head, "\r\n", 2)[0]
		if err != nil || !strings.Contains(o.Status, " 200") {
			note("tunnel not established: %q %v", head, err)
			return
		}
		if pc.Flow == "tunnel-down" {
			io.CopyN(io.Discard, p.raw, int64(pc.K))
			o.ClientSent, o.ClientRecv = p.raw.tx.Load(), p.raw.rx.Load()
			p.abort()
			return
		}
		writeN(p.raw, pc.Size) // fails when the target's reset has torn the tunnel down
		_, err = io.Copy(io.Discard, p.raw)
		fin = err == nil
	}
}

// waitGauge waits until no connection is active on the proxy's listener any more.
func waitGauge(reg *prometheus.Registry, d time.Duration) {
	start := time.Now()
	seen := false
	for time.Since(start) < d {
		s, err := gather(reg, promNS)
		if err == nil {
			if s.LActive > 0 {
				seen = true
			}
			if (seen || s.LAccepted > 0) && s.LActive <= 0 {
				return
			}
		}
		time.Sleep(5 * time.Millisecond)
	}
}

// runPPClients: clients of a PROXY protocol listener, one after the other.
func runPPClients(pc *pxCase, addr string, o *pxObs, note func(string, ...any)) {
	var sent, recv int64
	allFIN := true
	for i, kind := range pc.Clients {
		c, err := net.DialTimeout("tcp", addr, 5*time.Second)
		if err != nil {
			note("client %d dial: %v", i, err)
			continue
		}
		p := newPeerEnd(c)
		p.raw.SetDeadline(time.Now().Add(ioTimeout))
		hdr := int64(0)
		switch kind {
		case "good":
			io.WriteString(p.raw, proxyV1Header)
			hdr = int64(len(proxyV1Header))
			io.WriteString(p.raw, "GET http://origin.test/x HTTP/1.1\r\nHost: origin.test\r\nConnection: close\r\n\r\n")
			if !p.drain(ioTimeout) {
				allFIN = false
			}
			if p.raw.rx.Load() < int64(pc.Size) {
				note("client %d (good): received only %d bytes", i, p.raw.rx.Load())
			}
		case "silent":
			if !p.drain(ioTimeout) {
				allFIN = false
			}
		case "garbage":
			io.WriteString(p.raw, "HELLO THIS IS NOT A PROXY HEADER\r\n\r\n")
			hdr = p.raw.tx.Load()
			p.drain(ioTimeout)
			allFIN = false
		case "header-rst":
			io.WriteString(p.raw, proxyV1Header)
			hdr = int64(len(proxyV1Header))
			p.abort()
			allFIN = false
		}
		sent += p.raw.tx.Load() - hdr
		recv += p.raw.rx.Load()
		p.raw.Close()
	}
	o.ClientSent, o.ClientRecv, o.ClientFIN = sent, recv, allFIN
}

func genPx(r *core.Rand) *pxCase {
	pc := &pxCase{Kind: "proxy-cut", WriteTimeoutMS: core.Pick(r, []int{60, 120, 200})}
	switch r.Intn(8) {
	case 0, 1:
		pc.Flow, pc.Cut, pc.Size = core.Pick(r, []string{"download", "download-chunked"}), "write-timeout", len(bigZero)
	case 2:
		pc.Flow, pc.Cut, pc.Size, pc.K = core.Pick(r, []string{"download", "download-chunked"}), "client-rst", len(bigZero), core.Pick(r, []int{1, 70000, 1 << 20})
	case 3:
		pc.Flow, pc.Cut, pc.Size, pc.K = "upload", "target-rst", 8<<20, core.Pick(r, []int{1, 70000, 1 << 20})
	case 4:
		pc.Flow, pc.Cut, pc.Size, pc.K = "tunnel-up", "target-rst", 8<<20, core.Pick(r, []int{1, 70000, 1 << 20})
	case 5:
		pc.Flow, pc.Cut, pc.Size, pc.K = "tunnel-down", "client-rst", 8<<20, core.Pick(r, []int{100, 70000, 1 << 20})
	default:
		pc.Flow, pc.Cut, pc.Size, pc.HeaderMS = "proxy-protocol", "none", core.Pick(r, []int{10, 5000}), core.Pick(r, []int{150, 300})
		pc.WriteTimeoutMS = 5000
		for i, n := 0, r.Range(1, 4); i < n; i++ {
			pc.Clients = append(pc.Clients, core.Pick(r, []string{"good", "silent", "silent", "garbage", "header-rst"}))
		}
	}
	return pc
}
