package c13

import (
	"context"
	"crypto/tls"
	"errors"
	"fmt"
	"io"
	"net"
	"net/http"
	"net/url"
	"strings"
	"sync"
	"sync/atomic"
	"time"

	"github.com/saucelabs/forwarder"
	"github.com/saucelabs/forwarder/verifharness/core"
	"github.com/saucelabs/forwarder/verifharness/rig"
)

// dialfail.go: exchanges in which the proxy DIALS a connection and the exchange then fails (or is the
// control case of such a failure) — the exits of handleConnectRequest from p.Connect on that
// Model/C13.lean enumerates as `ConnectExit` (dial ok + terminate-TLS handshake fails — directly, through an
// http upstream proxy, through SOCKS5 —; the CONNECT to an http / https upstream proxy rejected, torn, garbled,
// cut by FIN, never answered (ConnectTimeout), its header function failing; TLS to an https upstream proxy
// failing after the TCP connect (plain-text peer, certificate not trusted); SOCKS5 negotiation failing after the
// connect at every step; a ConnectFunc that returns a connection together with an error), and the same
// below the transport (TLS to the origin fails after the dial, also inside an intercepted session).
//
// The peers of these exchanges never end a connection themselves: they wait for the proxy's end of it
// (`awaitEnd`). At the quiescent point of the round every such connection must have been seen to end —
// a dialled connection the proxy forgot shows up as a peer socket that is still open — next to
// dialer_cx_active = 0 and dialer_cx_total = the dials that returned a connection. The model's dial
// events of each exit (`connectexit` verb) are compared with what the proxy's dial function was
// asked for, per target name.

// watchStats counts, for one round, the connections whose peer waits for the proxy's end.
type watchStats struct{ begun, ended atomic.Int64 }

// readToEnd reads (and throws away) until the stream ends; it reports whether the end was seen
// (FIN or reset) rather than the wait given up.
func readToEnd(c net.Conn, r io.Reader) bool {
	c.SetReadDeadline(time.Now().Add(ioTimeout))
	_, err := io.Copy(io.Discard, r)
	var ne net.Error
	if err != nil && errors.As(err, &ne) && ne.Timeout() {
		return false
	}
	return true
}

// awaitEnd is how a watching peer finishes: it says nothing more and waits for the proxy to go away.
func (w *world) awaitEnd(pc *rig.PeerConn) {
	ws := w.watch.Load()
	ws.begun.Add(1)
	if readToEnd(pc.Conn, pc.BR) {
		ws.ended.Add(1)
	}
}

func halfClose(pc *rig.PeerConn) {
	if cw, ok := pc.Conn.(interface{ CloseWrite() error }); ok {
		cw.CloseWrite()
	}
}

// plainServe is a plain-text service: it answers the first bytes it gets with a banner (no TLS
// record, no HTTP, no SOCKS) and then waits for the other side to go away.
func (w *world) plainServe(pc *rig.PeerConn) {
	ws := w.watch.Load()
	ws.begun.Add(1)
	pc.SetReadDeadline(time.Now().Add(ioTimeout))
	buf := make([]byte, 4096)
	said := false
	for {
		n, err := pc.Conn.Read(buf)
		if n > 0 && !said {
			said = true
			pc.Write([]byte("220 plain text service ready\r\n"))
		}
		if err != nil {
			var ne net.Error
			if !(errors.As(err, &ne) && ne.Timeout()) {
				ws.ended.Add(1)
			}
			return
		}
	}
}

// badCertServe is a TLS service whose certificate no one trusts; whatever the handshake does, it
// then waits for the other side to go away.
func (w *world) badCertServe(conf *tls.Config) func(pc *rig.PeerConn) {
	return func(pc *rig.PeerConn) {
		ws := w.watch.Load()
		ws.begun.Add(1)
		tc := tls.Server(pc.Conn, conf)
		tc.SetDeadline(time.Now().Add(ioTimeout))
		var seen bool
		if err := tc.Handshake(); err != nil {
			seen = readToEnd(pc.Conn, pc.Conn)
		} else {
			seen = readToEnd(tc, tc)
		}
		if seen {
			ws.ended.Add(1)
		}
	}
}

// socksServe is a SOCKS5 server (no authentication) whose answer to the CONNECT command is decided
// by the target's name: sk<fault>… with fault = rej | torn | mute | fin, anything else is accepted
// and echoed.
func (w *world) socksServe(pc *rig.PeerConn) {
	pc.SetDeadline(time.Now().Add(ioTimeout))
	hdr := make([]byte, 2)
	if _, err := io.ReadFull(pc.BR, hdr); err != nil || hdr[0] != 5 {
		return
	}
	if _, err := io.ReadFull(pc.BR, make([]byte, hdr[1])); err != nil {
		return
	}
	pc.Write([]byte{5, 0})
	req := make([]byte, 4)
	if _, err := io.ReadFull(pc.BR, req); err != nil {
		return
	}
	name := ""
	switch req[3] {
	case 1:
		io.ReadFull(pc.BR, make([]byte, 4))
	case 4:
		io.ReadFull(pc.BR, make([]byte, 16))
	case 3:
		l := make([]byte, 1)
		if _, err := io.ReadFull(pc.BR, l); err != nil {
			return
		}
		b := make([]byte, l[0])
		if _, err := io.ReadFull(pc.BR, b); err != nil {
			return
		}
		name = string(b)
	}
	if _, err := io.ReadFull(pc.BR, make([]byte, 2)); err != nil {
		return
	}
	pc.SetDeadline(time.Time{})
	fault := strings.TrimPrefix(name, "sk")
	switch {
	case strings.HasPrefix(fault, "rej"):
		pc.Write([]byte{5, 5, 0, 1, 0, 0, 0, 0, 0, 0})
		w.awaitEnd(pc)
	case strings.HasPrefix(fault, "torn"):
		pc.Write([]byte{5, 0, 0, 1})
		halfClose(pc)
		w.awaitEnd(pc)
	case strings.HasPrefix(fault, "mute"):
		w.awaitEnd(pc)
	case strings.HasPrefix(fault, "fin"):
		halfClose(pc)
		w.awaitEnd(pc)
	default:
		pc.Write([]byte{5, 0, 0, 1, 0, 0, 0, 0, 0, 0})
		echoLoop(pc)
	}
}

// upFault scripts the faults of an upstream HTTP(S) proxy answering a CONNECT (the target's name after
// the via/hup/tup prefix decides); it reports whether it handled the request.
func (w *world) upFault(pc *rig.PeerConn, base string) bool {
	switch {
	case strings.HasPrefix(base, "tornrst"):
		pc.Write([]byte("HTTP/1.1 200 Connection Esta"))
		time.Sleep(5 * time.Millisecond)
		pc.Abort()
	case strings.HasPrefix(base, "torn"):
		pc.Write([]byte("HTTP/1.1 200 Connection Esta"))
		halfClose(pc)
		w.awaitEnd(pc)
	case strings.HasPrefix(base, "garble"):
		pc.Write([]byte("SSH-2.0-OpenSSH_9.6\r\n\r\n"))
		w.awaitEnd(pc)
	case strings.HasPrefix(base, "mute"):
		w.awaitEnd(pc)
	case strings.HasPrefix(base, "fin"):
		halfClose(pc)
		w.awaitEnd(pc)
	default:
		return false
	}
	return true
}

// upBase strips the prefix that selects the upstream proxy from a target name.
func upBase(host string) string {
	for _, p := range []string{"via", "hup", "tup"} {
		if strings.HasPrefix(host, p) {
			return strings.TrimPrefix(host, p)
		}
	}
	return host
}

// upstreamFor selects the upstream proxy by the target's name (the proxy runs with an
// UpstreamProxyFunc): reject…/via… the http proxy of the older exchange kinds, hup… the same proxy
// under a name of its own (so that its dials can be told apart), tup… the https proxy, ptup… an "https"
// proxy that speaks plain text, utup… one with a certificate nobody trusts, sk… the SOCKS5 server,
// bsk… a "SOCKS5" server that speaks plain text; everything else is reached directly.
func upstreamFor(host string) *url.URL {
	switch {
	case strings.HasPrefix(host, "reject"), strings.HasPrefix(host, "via"):
		return rig.MustURL("http://upstream.test:3128")
	case strings.HasPrefix(host, "hup"):
		return rig.MustURL("http://hup.test:3128")
	case strings.HasPrefix(host, "ptup"):
		return rig.MustURL("https://plainup.test:3130")
	case strings.HasPrefix(host, "utup"):
		return rig.MustURL("https://badcertup.test:3131")
	case strings.HasPrefix(host, "tup"):
		return rig.MustURL("https://tlsup.test:3129")
	case strings.HasPrefix(host, "bsk"):
		return rig.MustURL("socks5://plainsocks.test:1081")
	case strings.HasPrefix(host, "sk"):
		return rig.MustURL("socks5://socks.test:1080")
	}
	return nil
}

// newDialPeers starts the peers of the dial-then-fail exchanges.
func (w *world) newDialPeers() error {
	w.watch.Store(&watchStats{})
	other, err := rig.NewCA("verif c13 CA nobody trusts")
	if err != nil {
		return err
	}
	badLeaf, err := other.ValidLeaf("badcert.test", "badcertup.test")
	if err != nil {
		return err
	}
	echoLeaf, err := w.ca.ValidLeaf("tlsecho.test")
	if err != nil {
		return err
	}
	upLeaf, err := w.ca.ValidLeaf("tlsup.test")
	if err != nil {
		return err
	}
	if w.plain, err = rig.NewRawPeer("plain-text", w.plainServe); err != nil {
		return err
	}
	if w.badcert, err = rig.NewRawPeer("bad-cert", w.badCertServe(&tls.Config{Certificates: []tls.Certificate{badLeaf}})); err != nil {
		return err
	}
	if w.tlsecho, err = rig.NewRawTLSPeer("tls-echo", &tls.Config{Certificates: []tls.Certificate{echoLeaf}}, echoLoop); err != nil {
		return err
	}
	if w.tlsup, err = rig.NewTLSPeer("tls-upstream", &tls.Config{Certificates: []tls.Certificate{upLeaf}}, w.upRespond); err != nil {
		return err
	}
	if w.socks, err = rig.NewRawPeer("socks5", w.socksServe); err != nil {
		return err
	}
	return nil
}

func (w *world) dialRoutes() []forwarder.HostPortPair {
	return []forwarder.HostPortPair{
		rig.Route("ttplain.test", "443", w.plain.Addr),
		rig.Route("plain.test", "443", w.plain.Addr),
		rig.Route("plain-mitm.test", "443", w.plain.Addr),
		rig.Route("cfwatch.test", "443", w.plain.Addr),
		rig.Route("plainup.test", "3130", w.plain.Addr),
		rig.Route("plainsocks.test", "1081", w.plain.Addr),
		rig.Route("badcert.test", "443", w.badcert.Addr),
		rig.Route("badcertup.test", "3131", w.badcert.Addr),
		rig.Route("tlsecho.test", "443", w.tlsecho.Addr),
		rig.Route("cfecho.test", "443", w.echo.Addr),
		rig.Route("hup.test", "3128", w.up.Addr),
		rig.Route("tlsup.test", "3129", w.tlsup.Addr),
		rig.Route("socks.test", "1080", w.socks.Addr),
	}
}

// connectFunc is the proxy's ConnectFunc: targets named cf<what>… are served by it — it dials with
// the proxy's own (tracked, counted) dial function and returns what the name says —, everything else
// falls back to martian.
func connectFunc(dial func() func(ctx context.Context, network, addr string) (net.Conn, error)) forwarder.ConnectFunc {
	okRes := func(req *http.Request) *http.Response {
		return &http.Response{Status: "200 OK", StatusCode: 200, Proto: req.Proto, ProtoMajor: req.ProtoMajor, ProtoMinor: req.ProtoMinor,
			Header: http.Header{}, Body: http.NoBody, ContentLength: -1, Request: req}
	}
	return func(req *http.Request) (*http.Response, io.ReadWriteCloser, error) {
		host := req.URL.Hostname()
		if !strings.HasPrefix(host, "cf") {
			return nil, nil, forwarder.ErrConnectFallback
		}
		what := strings.TrimPrefix(host, "cf")
		if strings.HasPrefix(what, "err") {
			return nil, nil, errors.New("connect function: no route to the target")
		}
		target := "cfwatch.test:443"
		if strings.HasPrefix(what, "ok") {
			target = "cfecho.test:443"
		}
		c, err := dial()(req.Context(), "tcp", target)
		if err != nil {
			return nil, nil, err
		}
		switch {
		case strings.HasPrefix(what, "both"):
			return okRes(req), c, errors.New("connect function: the target turned the session down after the connect")
		case strings.HasPrefix(what, "nores"):
			return nil, c, errors.New("connect function: the target turned the session down after the connect")
		}
		return okRes(req), c, nil
	}
}

// ---- the exchanges ----

var dialKinds = map[string]bool{
	"tt-plain": true, "tt-tls": true, "tt-via": true, "tt-refused": true,
	"up-fault": true, "up-ok": true, "up-reject": true, "up-badtls": true,
	"sk-ok": true, "sk-fault": true, "sk-tt": true, "cf": true,
	"https-plain": true, "https-badcert": true, "mitm-plainorigin": true, "mitm-badhello": true,
}

// dialPlan is what one exchange is expected to make the dialer do.
type dialPlan struct {
	Kind     string `json:"kind"`
	Target   string `json:"target"` // CONNECT target / URL
	TT       bool   `json:"terminate_tls,omitempty"`
	Tunnel   bool   `json:"tunnel,omitempty"`     // the exchange is the control case: a tunnel that echoes
	Rejected bool   `json:"rejected,omitempty"`   // the upstream proxy's non-2xx answer is passed on
	Model    string `json:"model_exit,omitempty"` // arguments of the model's `connectexit` verb ("" = below the transport, not on the CONNECT path)
	DialName string `json:"dial_name,omitempty"`  // what the proxy's dial function is asked for (before --connect-to)
	Watched  int    `json:"watched,omitempty"`    // connections whose peer waits for the proxy's end
	DialErr  bool   `json:"dial_fails,omitempty"`
}

func b01(b bool) string { return core.B01(b) }

// planFor describes the exchange. `insecure`: the proxy's TLS client does not verify (and, unlike
// the CLI's default, can therefore terminate TLS at all: the default configuration carries no
// ServerName, so its handshake fails before a byte is sent).
func planFor(x *xspec, insecure bool) *dialPlan {
	p := &dialPlan{Kind: x.Kind}
	switch x.Kind {
	case "connect-ok":
		p.Target, p.Tunnel, p.Model, p.DialName = "tunnel.test:443", true, "fallback direct.1 0 0 tun.closed.0", "tunnel.test:443"
	case "connect-dialfail":
		p.Target, p.Model, p.DialName, p.DialErr = "refused.test:443", "fallback direct.0 0 0 pass.0", "refused.test:443", true
	case "tt-plain":
		p.Target, p.TT, p.Model, p.DialName, p.Watched = "ttplain.test:443", true, "fallback direct.1 1 0 pass.0", "ttplain.test:443", 1
	case "tt-tls":
		p.Target, p.TT, p.Tunnel, p.DialName = "tlsecho.test:443", true, insecure, "tlsecho.test:443"
		p.Model = "fallback direct.1 1 " + b01(insecure) + " tun.closed.0"
	case "tt-via":
		p.Target, p.TT, p.Model, p.DialName = "hupok.test:443", true, "fallback http.0.1.200 1 0 pass.0", "hup.test:3128"
	case "tt-refused":
		p.Target, p.TT, p.Model, p.DialName, p.DialErr = "refused.test:443", true, "fallback direct.0 1 0 pass.0", "refused.test:443", true
	case "up-fault", "up-ok", "up-reject":
		tlsUp := x.Via == "tup"
		p.DialName = "hup.test:3128"
		if tlsUp {
			p.DialName = "tlsup.test:3129"
		}
		route := "http." + b01(tlsUp) + ".1."
		switch x.Kind {
		case "up-ok":
			p.Target, p.Tunnel, p.Model = x.Via+"ok.test:443", true, "fallback "+route+"200 0 0 tun.closed.0"
		case "up-reject":
			p.Target, p.Rejected, p.Model = fmt.Sprintf("%sreject%d.test:443", x.Via, x.Status), true, fmt.Sprintf("fallback %s%d 0 0 pass.0", route, x.Status)
		default:
			end := "rep"
			switch x.Fault {
			case "mute":
				end = "ctx"
			case "hdr":
				end = "hdr"
			}
			p.Target, p.Model = x.Via+x.Fault+".test:443", "fallback "+route+end+" 0 0 pass.0"
			if x.Fault != "tornrst" && x.Fault != "hdr" {
				p.Watched = 1
			}
		}
	case "up-badtls":
		end := "tls"
		p.DialName = "plainup.test:3130"
		if x.Via == "utup" {
			p.DialName = "badcertup.test:3131"
			if insecure {
				end = "ctx" // the handshake goes through; the peer then never answers the CONNECT
			}
		}
		p.Target, p.Model, p.Watched = x.Via+"x.test:443", "fallback http.1.1."+end+" 0 0 pass.0", 1
	case "sk-ok":
		p.Target, p.Tunnel, p.Model, p.DialName = "skok.test:443", true, "fallback socks.1.est 0 0 tun.closed.0", "socks.test:1080"
	case "sk-tt":
		p.Target, p.TT, p.Model, p.DialName = "skok.test:443", true, "fallback socks.1.est 1 0 pass.0", "socks.test:1080"
	case "sk-fault":
		p.Target, p.Model, p.DialName, p.Watched = "sk"+x.Fault+".test:443", "fallback socks.1.neg 0 0 pass.0", "socks.test:1080", 1
		if x.Fault == "badgreet" {
			p.Target, p.DialName = "bskx.test:443", "plainsocks.test:1081"
		}
	case "cf":
		p.Target = "cf" + x.Fault + ".test:443"
		switch x.Fault {
		case "both":
			p.Model, p.DialName, p.Watched = "r200.1.1 urlerr 0 0 pass.0", "cfwatch.test:443", 1
		case "nores":
			p.Model, p.DialName, p.Watched = "r-.1.1 urlerr 0 0 pass.0", "cfwatch.test:443", 1
		case "ok":
			p.Tunnel, p.Model, p.DialName = true, "r200.1.0 urlerr 0 0 tun.closed.0", "cfecho.test:443"
		default:
			p.Model = "r-.0.1 urlerr 0 0 pass.0"
		}
	case "https-plain":
		p.Target, p.DialName, p.Watched = "https://plain.test/x", "plain.test:443", 1
	case "https-badcert":
		p.Target, p.DialName, p.Watched = "https://badcert.test/x", "badcert.test:443", 1
	case "mitm-plainorigin":
		p.Target, p.DialName, p.Watched = "plain-mitm.test:443", "plain-mitm.test:443", 1
	case "mitm-badhello":
		p.Target = "mitm.test:443"
	default:
		return nil
	}
	return p
}

func planList(ps []*dialPlan) string {
	var out []string
	for _, p := range ps {
		out = append(out, p.Kind+"["+p.Model+"]")
	}
	return strings.Join(out, ", ")
}

func (rr *roundRun) addPlan(p *dialPlan) {
	rr.mu.Lock()
	rr.plans = append(rr.plans, p)
	rr.mu.Unlock()
}

// dialExchange runs one exchange of the dial-then-fail family.
func (rr *roundRun) dialExchange(cl *cli, x *xspec) (alive bool) {
	p := planFor(x, rr.insecure)
	rr.addPlan(p)
	if p.DialErr {
		rr.dialErrs.Add(1)
	}
	switch x.Kind {
	case "https-plain", "https-badcert":
		host := strings.TrimSuffix(strings.TrimPrefix(p.Target, "https://"), "/x")
		cl.c.Send(request("GET", p.Target, host, true, nil, nil, false), nil)
		m, err := cl.c.ReadResponse("GET", ioTimeout)
		if m == nil || m.Status == 0 {
			rr.add(xres{Kind: x.Kind, Path: pathAtom("roundTripError", "GET", 0, true), Method: "GET", Failed: fmt.Sprintf("no response: %v", err)})
			return false
		}
		r := xres{Kind: x.Kind, Path: pathAtom("roundTripError", "GET", m.Status, false), Method: "GET", Status: m.Status}
		if m.Status < 400 {
			r.Failed = "a request to an origin whose TLS handshake fails was answered without an error status"
		}
		rr.add(r)
		return err == nil && m.Complete && !connClose(m)

	case "mitm-plainorigin", "mitm-badhello":
		host := strings.TrimSuffix(p.Target, ":443")
		m, err := rr.connect(cl, p.Target, true)
		if m == nil || m.Status != 200 {
			st := 0
			if m != nil {
				st = m.Status
			}
			rr.add(xres{Kind: x.Kind, Path: pathAtom("mitmWriteError", "CONNECT", 200, true), Method: "CONNECT", Status: st, Failed: fmt.Sprintf("mitm CONNECT not answered with 200: %v", err)})
			return false
		}
		rr.add(xres{Kind: x.Kind, Path: pathAtom("mitmHandoff", "CONNECT", 200, false), Method: "CONNECT", Status: 200})
		if x.Kind == "mitm-badhello" {
			// a record that claims to be a handshake and is not one
			cl.c.Send([]byte("\x16\x03\x01\x00\x10this is no hello"), nil)
			r := xres{Kind: x.Kind + "/tls", Path: pathAtom("readError", "GET", 0, false)}
			if closed, _ := cl.c.ExpectClosed(ioTimeout); !closed {
				r.Failed = "the proxy kept the connection after a failed handshake"
			}
			rr.add(r)
			return false
		}
		if _, err := cl.c.StartTLS(host, rr.trustPool(), false); err != nil {
			rr.add(xres{Kind: x.Kind + "/tls", Path: pathAtom("readError", "GET", 0, false), Failed: err.Error()})
			return false
		}
		cl.c.Send(request("GET", "/x", host, true, nil, nil, false), nil)
		im, err := cl.c.ReadResponse("GET", ioTimeout)
		if im == nil || im.Status == 0 {
			rr.add(xres{Kind: x.Kind + "/inner", Path: pathAtom("roundTripError", "GET", 0, true), Method: "GET", Failed: fmt.Sprintf("no response: %v", err)})
			return false
		}
		r := xres{Kind: x.Kind + "/inner", Path: pathAtom("roundTripError", "GET", im.Status, false), Method: "GET", Status: im.Status}
		if im.Status < 400 {
			r.Failed = "a request to an origin whose TLS handshake fails was answered without an error status"
		}
		rr.add(r)
		cl.c.Close()
		return false
	}

	// the CONNECT path
	req := "CONNECT " + p.Target + " HTTP/1.1\r\nHost: " + p.Target + "\r\n" + authHeader
	if p.TT {
		req += "X-Martian-Terminate-Tls: true\r\n"
	}
	if err := cl.c.Send([]byte(req+"\r\n"), nil); err != nil {
		rr.add(xres{Kind: x.Kind, Path: pathAtom("readError", "GET", 0, false), Failed: "send: " + err.Error()})
		return false
	}
	m, err := cl.c.ReadResponse("CONNECT", ioTimeout)
	if m == nil || m.Status == 0 {
		kind := "connectDialFailure"
		if p.Tunnel {
			kind = "connectTunnel/writeError"
		}
		rr.add(xres{Kind: x.Kind, Path: pathAtom(kind, "CONNECT", 0, true), Method: "CONNECT", Failed: fmt.Sprintf("no response: %v", err)})
		return false
	}
	if p.Tunnel {
		if m.Status != 200 {
			rr.add(xres{Kind: x.Kind, Path: pathAtom("connectDialFailure", "CONNECT", m.Status, false), Method: "CONNECT", Status: m.Status, Failed: "tunnel not established"})
			return false
		}
		r := xres{Kind: x.Kind, Path: pathAtom("connectTunnel/closed", "CONNECT", 200, false), Method: "CONNECT", Status: 200}
		if err := echoRound(cl, x.Size); err != nil {
			r.Failed = err.Error()
		}
		endTunnel(cl, x.End)
		rr.add(r)
		return false
	}
	kind := "connectDialFailure"
	if p.Rejected {
		kind = "connectRejected"
	}
	r := xres{Kind: x.Kind, Path: pathAtom(kind, "CONNECT", m.Status, false), Method: "CONNECT", Status: m.Status}
	switch {
	case p.Rejected && m.Status != x.Status:
		r.Failed = fmt.Sprintf("the upstream proxy's %d was not passed on", x.Status)
	case !p.Rejected && m.Status < 400:
		r.Failed = "a CONNECT that fails after the dial was answered without an error status"
	}
	rr.add(r)
	if m.Status/100 == 1 || m.Status/100 == 2 {
		return false
	}
	return err == nil && m.Complete && !connClose(m)
}

// dialCount counts what the proxy's dial function returned (the transport and martian's CONNECT
// path share it), in total and per name it was asked for (the address before --connect-to), so that
// the dialer metrics can be compared with the dials that really happened.
type dialCount struct {
	ok, failed atomic.Int64
	mu         sync.Mutex
	okBy       map[string]int
	failedBy   map[string]int
}

func (dc *dialCount) note(addr string, err error) {
	dc.mu.Lock()
	if dc.okBy == nil {
		dc.okBy, dc.failedBy = map[string]int{}, map[string]int{}
	}
	if err != nil {
		dc.failedBy[addr]++
	} else {
		dc.okBy[addr]++
	}
	dc.mu.Unlock()
	if err != nil {
		dc.failed.Add(1)
	} else {
		dc.ok.Add(1)
	}
}

func (dc *dialCount) byName() (ok, failed map[string]int) {
	dc.mu.Lock()
	defer dc.mu.Unlock()
	ok, failed = map[string]int{}, map[string]int{}
	for k, v := range dc.okBy {
		ok[k] = v
	}
	for k, v := range dc.failedBy {
		failed[k] = v
	}
	return
}

// dialExpectation folds the model's dial events of the round's CONNECT exits per dial name.
type dialExpectation struct {
	Opened  map[string]int `json:"opened"`
	Failed  map[string]int `json:"failed_dials"`
	Watched int            `json:"watched"`
	Leaks   []string       `json:"model_leaks,omitempty"` // exits after which the model's gauge is not 0 (none in the code's order)
}

func expectDials(ctx *core.Ctx, plans []*dialPlan) *dialExpectation {
	e := &dialExpectation{Opened: map[string]int{}, Failed: map[string]int{}}
	for _, p := range plans {
		e.Watched += p.Watched
		if p.Model == "" {
			// below the transport: one dial per such request, by the script (a connection whose
			// handshake failed is never reused, a request on a fresh connection never retried)
			if p.DialName != "" {
				e.Opened[p.DialName]++
			}
			continue
		}
		ans := ctx.Model.MustAsk(append([]string{"C13", "connectexit", "code"}, strings.Fields(p.Model)...)...)
		kv := kvInts(ans)
		if _, ok := kv["opened"]; !ok {
			core.Fatalf("C13: connectexit %q: %s", p.Model, ans)
		}
		if p.DialName != "" {
			e.Opened[p.DialName] += kv["opened"]
			e.Failed[p.DialName] += kv["dialerr"]
		} else if kv["opened"]+kv["dialerr"] != 0 {
			core.Fatalf("C13: exchange kind %s: the model dials, the plan names no target", p.Kind)
		}
		if kv["active"] != 0 || kv["allgone"] != 1 {
			e.Leaks = append(e.Leaks, p.Model)
		}
	}
	return e
}

// dialMismatch compares, for the names the CONNECT exits dial, what the proxy's dial function was
// asked for with the model's events.
func dialMismatch(e *dialExpectation, okBy, failedBy map[string]int) string {
	names := map[string]bool{}
	for k := range e.Opened {
		names[k] = true
	}
	for k := range e.Failed {
		names[k] = true
	}
	var bad []string
	for k := range names {
		if okBy[k] != e.Opened[k] || failedBy[k] != e.Failed[k] {
			bad = append(bad, fmt.Sprintf("%s: dials ok %d failed %d, model opened %d failed %d", k, okBy[k], failedBy[k], e.Opened[k], e.Failed[k]))
		}
	}
	return strings.Join(bad, "; ")
}
