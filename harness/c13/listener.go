package c13

import (
	"bytes"
	"context"
	"crypto/tls"
	"encoding/binary"
	"encoding/json"
	"fmt"
	"io"
	"net"
	"strconv"
	"strings"
	"sync"
	"time"

	"github.com/prometheus/client_golang/prometheus"
	"github.com/saucelabs/forwarder"
	"github.com/saucelabs/forwarder/conntrack"
	"github.com/saucelabs/forwarder/verifharness/core"
	"github.com/saucelabs/forwarder/verifharness/rig"
)

// lconn is one connection of a listener case: bytes each way, and how it is closed.
type lconn struct {
	In      int  `json:"in"`      // bytes the remote side sends
	Out     int  `json:"out"`     // bytes the tracked side writes
	Closers int  `json:"closers"` // goroutines that call Close concurrently
	Twice   bool `json:"twice"`   // each of them calls Close twice
	Copy    bool `json:"copy"`    // the tracked side writes with io.Copy (ReadFrom when available)
}

func (c lconn) closeCalls() int {
	if c.Twice {
		return 2 * c.Closers
	}
	return c.Closers
}

// listenerCase drives forwarder.Listener and forwarder.Dialer directly.
type listenerCase struct {
	Kind    string  `json:"kind"` // "listener"
	Track   bool    `json:"track_traffic"`
	TLS     bool    `json:"tls"`
	Conns   []lconn `json:"accepted"`
	Dials   []lconn `json:"dialled"`
	Refused int     `json:"refused_dials"`
	Seed    uint64  `json:"schedule_seed"`
}

type lobs struct {
	Conn     int    `json:"conn"`
	Side     string `json:"side"`
	Rx       int64  `json:"rx"`
	Tx       int64  `json:"tx"`
	Observer bool   `json:"observer"`
	Err      string `json:"err,omitempty"`
}

const lstNS = "lst"

// closeConcurrently calls Close from several goroutines released at the same instant.
func closeConcurrently(c net.Conn, spec lconn) {
	gate := make(chan struct{})
	var wg sync.WaitGroup
	for i := 0; i < spec.Closers; i++ {
		wg.Add(1)
		go func() {
			defer wg.Done()
			<-gate
			c.Close()
			if spec.Twice {
				c.Close()
			}
		}()
	}
	close(gate)
	wg.Wait()
}

// observerOf finds the byte counters of a connection handed out by Listener.Accept (for a TLS
// listener the tracked connection is the one under the tls.Conn).
func observerOf(c net.Conn) *conntrack.Observer {
	if tc, ok := c.(*tls.Conn); ok {
		c = tc.NetConn()
	}
	return conntrack.ObserverFromConn(c)
}

func writeOut(c net.Conn, n int, useCopy bool) error {
	if n == 0 {
		return nil
	}
	data := bytes.Repeat([]byte{'o'}, n)
	if useCopy {
		_, err := io.Copy(c, bytes.NewReader(data))
		return err
	}
	// several Write calls
	for len(data) > 0 {
		k := 8 << 10
		if k > len(data) {
			k = len(data)
		}
		if _, err := c.Write(data[:k]); err != nil {
			return err
		}
		data = data[k:]
	}
	return nil
}

func runListener(ctx *core.Ctx, lc *listenerCase) {
	key, _ := json.Marshal(lc)
	ctx.Case(string(key), true)
	ctx.Count(fmt.Sprintf("listener/track=%v/tls=%v", lc.Track, lc.TLS))
	for _, c := range append(append([]lconn{}, lc.Conns...), lc.Dials...) {
		ctx.Count(fmt.Sprintf("listener/close-calls/%d", c.closeCalls()))
	}
	reg := prometheus.NewRegistry()
	pc := forwarder.PromConfig{PromNamespace: lstNS, PromRegistry: reg}
	l := &forwarder.Listener{
		ListenerConfig: forwarder.ListenerConfig{Address: "127.0.0.1:0", TrackTraffic: lc.Track},
		PromConfig:     pc,
	}
	var pool *tls.Config
	if lc.TLS {
		ca, err := rig.NewCA("verif c13 listener CA")
		if err != nil {
			core.Fatalf("ca: %v", err)
		}
		leaf, err := ca.ValidLeaf("127.0.0.1")
		if err != nil {
			core.Fatalf("leaf: %v", err)
		}
		l.TLSConfig = &tls.Config{Certificates: []tls.Certificate{leaf}}
		pool = &tls.Config{RootCAs: ca.Pool(), ServerName: "127.0.0.1"}
	}
	if err := l.Listen(); err != nil {
		ctx.Crash("listener starts", "", lc, err.Error())
		return
	}
	addr := l.Addr().String()

	var mu sync.Mutex
	var obs []lobs
	record := func(o lobs) { mu.Lock(); obs = append(obs, o); mu.Unlock() }

	// ---- accepted side ----
	var swg sync.WaitGroup
	swg.Add(1)
	go func() {
		defer swg.Done()
		for range lc.Conns {
			c, err := l.Accept()
			if err != nil {
				record(lobs{Conn: -1, Side: "accept", Err: err.Error()})
				return
			}
			swg.Add(1)
			go func() {
				defer swg.Done()
				o := lobs{Conn: -1, Side: "accepted"}
				c.SetDeadline(time.Now().Add(ioTimeout))
				var idx [4]byte
				if _, err := io.ReadFull(c, idx[:]); err != nil {
					o.Err = "read index: " + err.Error()
					c.Close()
					record(o)
					return
				}
				o.Conn = int(binary.BigEndian.Uint32(idx[:]))
				if o.Conn >= len(lc.Conns) {
					o.Err = "bad index"
					c.Close()
					record(o)
					return
				}
				spec := lc.Conns[o.Conn]
				if _, err := io.CopyN(io.Discard, c, int64(spec.In)); err != nil {
					o.Err = "read: " + err.Error()
				}
				if err := writeOut(c, spec.Out, spec.Copy); err != nil && o.Err == "" {
					o.Err = "write: " + err.Error()
				}
				ob := observerOf(c)
				closeConcurrently(c, spec)
				if ob != nil {
					o.Observer = true
					o.Rx, o.Tx = int64(ob.Rx()), int64(ob.Tx())
				}
				record(o)
			}()
		}
	}()
	var cwg sync.WaitGroup
	for i, spec := range lc.Conns {
		cwg.Add(1)
		go func(i int, spec lconn) {
			defer cwg.Done()
			var c net.Conn
			var err error
			if lc.TLS {
				c, err = tls.DialWithDialer(&net.Dialer{Timeout: 5 * time.Second}, "tcp", addr, pool)
			} else {
				c, err = net.DialTimeout("tcp", addr, 5*time.Second)
			}
			if err != nil {
				record(lobs{Conn: i, Side: "client", Err: "dial: " + err.Error()})
				l.Close() // unblocks the accept loop
				return
			}
			defer c.Close()
			c.SetDeadline(time.Now().Add(ioTimeout))
			var idx [4]byte
			binary.BigEndian.PutUint32(idx[:], uint32(i))
			c.Write(idx[:])
			c.Write(bytes.Repeat([]byte{'i'}, spec.In))
			n, _ := io.Copy(io.Discard, c) // until the tracked side closes
			if int(n) != spec.Out {
				record(lobs{Conn: i, Side: "client", Err: fmt.Sprintf("received %d of %d bytes", n, spec.Out)})
			}
		}(i, spec)
	}
	cwg.Wait()
	swg.Wait()

	// ---- dialled side ----
	echo, err := rig.NewRawPeer("c13-echo", echoLoop)
	if err != nil {
		core.Fatalf("echo peer: %v", err)
	}
	defer echo.Close()
	refused, release, err := rig.RefusedAddr()
	if err != nil {
		core.Fatalf("refused addr: %v", err)
	}
	defer release()
	d := forwarder.NewDialer(&forwarder.DialConfig{PromConfig: pc, DialTimeout: 5 * time.Second, Retry: forwarder.DialRetryConfig{Attempts: 1}})
	dctx := context.Background()
	if lc.Track {
		dctx = forwarder.WithDialConnTrack(dctx, forwarder.DialConnTrackTraffic)
	}
	var dwg sync.WaitGroup
	for i, spec := range lc.Dials {
		dwg.Add(1)
		go func(i int, spec lconn) {
			defer dwg.Done()
			o := lobs{Conn: i, Side: "dialled"}
			c, err := d.DialContext(dctx, "tcp", echo.Addr)
			if err != nil {
				o.Err = "dial: " + err.Error()
				record(o)
				return
			}
			c.SetDeadline(time.Now().Add(ioTimeout))
			errc := make(chan error, 1)
			go func() { errc <- writeOut(c, spec.Out, spec.Copy) }()
			if _, err := io.CopyN(io.Discard, c, int64(spec.Out)); err != nil {
				o.Err = "read echo: " + err.Error()
			}
			if err := <-errc; err != nil && o.Err == "" {
				o.Err = "write: " + err.Error()
			}
			ob := conntrack.ObserverFromConn(c)
			closeConcurrently(c, spec)
			if ob != nil {
				o.Observer = true
				o.Rx, o.Tx = int64(ob.Rx()), int64(ob.Tx())
			}
			record(o)
		}(i, spec)
	}
	refusedErrs := 0
	for i := 0; i < lc.Refused; i++ {
		c, err := d.DialContext(dctx, "tcp", refused)
		if err != nil {
			refusedErrs++
		} else {
			c.Close()
		}
	}
	dwg.Wait()

	// accept on a closed listener: the error path of Accept
	l.Close()
	if c, err := l.Accept(); err == nil {
		c.Close()
	}

	// ---- quiescent point ----
	var snap *snapshot
	minGauge := 0
	start := time.Now()
	for {
		snap, err = gather(reg, lstNS)
		if err != nil {
			core.Fatalf("gather: %v", err)
		}
		if snap.MinGauge < minGauge {
			minGauge = snap.MinGauge
		}
		if (snap.LActive == 0 && snap.DActive == 0) || time.Since(start) > 5*time.Second {
			break
		}
		time.Sleep(10 * time.Millisecond)
	}
	snap.MinGauge = minGauge

	// ---- model: one random schedule of the same history (the result does not depend on it) ----
	r := core.NewRand(lc.Seed)
	accOps := schedule(r, lc.Conns, 1)
	dialOps := schedule(r, lc.Dials, lc.Refused)
	ansA := ctx.Model.MustAsk("C13", "listener", "1", core.JoinList(accOps))
	ansD := ctx.Model.MustAsk("C13", "listener", "1", core.JoinList(dialOps))
	ma, md := kvInts(ansA), kvInts(ansD)
	cs := map[string]any{"kind": "listener", "track_traffic": lc.Track, "tls": lc.TLS, "accepted": lc.Conns, "dialled": lc.Dials,
		"refused_dials": lc.Refused, "schedule_seed": lc.Seed, "observed": snap, "connections": obs}
	impl := fmt.Sprintf("listener total=%d active=%d errors=%d | dialer total=%d active=%d errors=%d", snap.LAccepted, snap.LActive, snap.LErrors,
		snap.DDialed, snap.DActive, snap.DErrors)
	model := "listener " + ansA + " | dialer " + ansD
	harnessOK := true
	for _, o := range obs {
		if o.Err != "" {
			harnessOK = false
		}
	}
	if !harnessOK || refusedErrs != lc.Refused {
		ctx.Disagree("connections through Listener/Dialer carry the scripted bytes; dials to a closed port fail", cs, fmt.Sprint(obs), "as scripted")
	}
	if snap.LAccepted != ma["accepted"] || snap.LActive != ma["active"] || snap.LErrors != ma["errors"] ||
		snap.DDialed != md["accepted"] || snap.DActive != md["active"] || snap.DErrors != md["errors"] {
		ctx.Disagree("listener/dialer metrics = the model's accounting state after the same accepts, errors and Close calls", cs, impl, model)
	} else {
		ctx.TraceValidated()
	}

	// ---- the property's clauses ----
	hv := ctx.Model.MustAsk("C13", "holdsconns", strconv.Itoa(snap.LAccepted), strconv.Itoa(len(lc.Conns)), strconv.Itoa(snap.LActive))
	if hv != "true" || snap.LAccepted != len(lc.Conns) {
		ctx.SpecFail("every accepted connection is counted as closed exactly once however many goroutines close it: active = accepted - closed = 0", "", cs, impl, hv)
	}
	hv = ctx.Model.MustAsk("C13", "holdsconns", strconv.Itoa(snap.DDialed), strconv.Itoa(len(lc.Dials)), strconv.Itoa(snap.DActive))
	if hv != "true" || snap.DDialed != len(lc.Dials) {
		ctx.SpecFail("every dialled connection is counted as closed exactly once however many goroutines close it: active = dialled - closed = 0", "", cs, impl, hv)
	}
	if snap.MinGauge < 0 {
		ctx.SpecFail("no gauge is ever negative", "", cs, impl, fmt.Sprintf("minimum gauge value seen %d", snap.MinGauge))
	}
	if snap.LErrors != 1 || snap.DErrors != lc.Refused {
		ctx.SpecFail("a failed accept / dial moves the error counter and nothing else", "", cs, impl,
			fmt.Sprintf("listener_errors_total=%d after 1 failed Accept, dialer_errors_total=%d after %d refused dials", snap.LErrors, snap.DErrors, lc.Refused))
	}
	for _, o := range obs {
		if o.Err != "" || o.Side == "client" || o.Side == "accept" {
			continue
		}
		var spec lconn
		var wantRx, wantTx int64
		if o.Side == "accepted" {
			spec = lc.Conns[o.Conn]
			wantRx, wantTx = int64(4+spec.In), int64(spec.Out)
		} else {
			spec = lc.Dials[o.Conn]
			wantRx, wantTx = int64(spec.Out), int64(spec.Out)
		}
		if !lc.Track {
			if o.Observer && (o.Rx != 0 || o.Tx != 0) {
				ctx.SpecFail("byte counters are off when traffic tracking is off", "", cs, fmt.Sprintf("%+v", o), "observer counted bytes without TrackTraffic")
			}
			continue
		}
		if !o.Observer {
			ctx.SpecFail("a tracked connection exposes its byte counters", "", cs, fmt.Sprintf("%+v", o), "ObserverFromConn returned nil with TrackTraffic on")
			continue
		}
		exact := !(lc.TLS && o.Side == "accepted")
		if exact && (o.Rx != wantRx || o.Tx != wantTx) {
			ctx.SpecFail("byte counters equal the bytes actually transferred", "", cs, fmt.Sprintf("%+v", o),
				fmt.Sprintf("%s connection %d: rx=%d tx=%d, transferred rx=%d tx=%d", o.Side, o.Conn, o.Rx, o.Tx, wantRx, wantTx))
		}
		if !exact && (o.Rx < wantRx || o.Tx < wantTx || o.Rx > wantRx+16384 || o.Tx > wantTx+16384+wantTx/100) {
			ctx.SpecFail("byte counters cover the bytes transferred (TLS: payload plus record/handshake overhead)", "", cs, fmt.Sprintf("%+v", o),
				fmt.Sprintf("%s connection %d: rx=%d tx=%d, payload rx=%d tx=%d", o.Side, o.Conn, o.Rx, o.Tx, wantRx, wantTx))
		}
	}
}

// schedule renders one random linearisation of the history for the model: every connection is
// accepted before its Close steps; each Close call is one caller taking two steps; `errs` failed
// accepts/dials are sprinkled in.
func schedule(r *core.Rand, conns []lconn, errs int) []string {
	type tok struct{ conn, caller int }
	var pending []tok
	var ops []string
	steps := map[tok]int{}
	next := 0
	for next < len(conns) || len(pending) > 0 || errs > 0 {
		var opts []int
		if next < len(conns) {
			opts = append(opts, 0)
		}
		if errs > 0 {
			opts = append(opts, 1)
		}
		if len(pending) > 0 {
			opts = append(opts, 2, 2, 2)
		}
		switch core.Pick(r, opts) {
		case 0:
			ops = append(ops, fmt.Sprintf("a%d", conns[next].closeCalls()))
			for j := 0; j < conns[next].closeCalls(); j++ {
				pending = append(pending, tok{next, j})
			}
			next++
		case 1:
			ops = append(ops, "e")
			errs--
		default:
			k := r.Intn(len(pending))
			t := pending[k]
			ops = append(ops, fmt.Sprintf("c%d.%d", t.conn, t.caller))
			steps[t]++
			if steps[t] == 2 {
				pending = append(pending[:k], pending[k+1:]...)
			}
		}
	}
	return ops
}

func kvInts(ans string) map[string]int {
	out := map[string]int{}
	for _, f := range strings.Fields(ans) {
		if k, v, ok := strings.Cut(f, "="); ok {
			n, err := strconv.Atoi(v)
			if err == nil {
				out[k] = n
			}
		}
	}
	return out
}

func genListener(r *core.Rand) *listenerCase {
	lc := &listenerCase{Kind: "listener", Track: r.Chance(70), TLS: r.Chance(20), Refused: r.Intn(3), Seed: r.U64()}
	mk := func() lconn {
		return lconn{
			In:      core.Pick(r, []int{0, 1, 100, 4096, 70000}),
			Out:     core.Pick(r, []int{0, 1, 517, 8192, 100000}),
			Closers: r.Range(1, 4),
			Twice:   r.Chance(30),
			Copy:    r.Chance(40),
		}
	}
	for i, n := 0, r.Range(1, 6); i < n; i++ {
		lc.Conns = append(lc.Conns, mk())
	}
	for i, n := 0, r.Range(0, 4); i < n; i++ {
		lc.Dials = append(lc.Dials, mk())
	}
	return lc
}
