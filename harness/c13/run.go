package c13

import (
	"encoding/json"
	"fmt"
	"strconv"
	"strings"
	"sync"

	"github.com/saucelabs/forwarder/verifharness/core"
)

// weighted exchange kinds of a client connection (outside MITM)
var outerKinds = []struct {
	kind string
	w    int
}{
	{"ok", 30}, {"status", 6}, {"chunked", 4}, {"auth407", 5}, {"deny403", 5}, {"loop400", 3},
	{"refused", 4}, {"reset-head", 4}, {"reset-body", 4}, {"timeout", 2}, {"viaup", 3},
	{"connect-ok", 7}, {"connect-viaok", 3}, {"connect-dialfail", 3}, {"connect-denied", 2}, {"connect-auth407", 2}, {"connect-reject", 5},
	{"mitm", 8}, {"mitm-abort", 2}, {"upgrade", 5},
	{"abort-upload", 4}, {"abort-download", 4}, {"write-error", 4}, {"connect-write-error", 3}, {"upgrade-write-error", 3}, {"eof", 3}, {"garbage", 2},
	// a connection is dialled and the exchange then fails — and the control cases (dialfail.go)
	{"tt-plain", 4}, {"tt-tls", 3}, {"tt-via", 2}, {"tt-refused", 1}, {"up-fault", 5}, {"up-ok", 2}, {"up-reject", 2}, {"up-badtls", 2},
	{"sk-ok", 2}, {"sk-fault", 3}, {"sk-tt", 1}, {"cf", 3}, {"https-plain", 2}, {"https-badcert", 1}, {"mitm-plainorigin", 2}, {"mitm-badhello", 1},
}

// dialThenFail: the kinds in which the proxy holds a dialled connection when the exchange fails
var dialThenFail = []string{"tt-plain", "tt-plain", "tt-tls", "tt-via", "up-fault", "up-fault", "up-reject", "up-badtls", "sk-fault", "sk-tt", "cf", "cf",
	"https-plain", "https-badcert"}

var innerKinds = []string{"ok", "ok", "ok", "status", "chunked", "reset-head", "reset-body", "abort-download", "write-error"}

func pickKind(r *core.Rand) string {
	total := 0
	for _, k := range outerKinds {
		total += k.w
	}
	n := r.Intn(total)
	for _, k := range outerKinds {
		if n < k.w {
			return k.kind
		}
		n -= k.w
	}
	return "ok"
}

func fill(r *core.Rand, x *xspec) {
	switch x.Kind {
	case "ok":
		x.Method = core.Pick(r, []string{"GET", "GET", "HEAD", "POST", "POST", "PUT", "OPTIONS"})
		x.Size = core.Pick(r, []int{0, 1, 100, 5000, 70000})
		if x.Method == "POST" || x.Method == "PUT" {
			x.Body = core.Pick(r, []int{0, 1, 300, 40000, 200000})
			x.ReqChk = x.Body > 0 && r.Chance(30)
		}
	case "status":
		x.Status = core.Pick(r, []int{204, 301, 304, 404, 500, 503})
	case "chunked":
		x.Size = core.Pick(r, []int{3, 1000, 50000})
	case "connect-ok", "connect-viaok":
		x.Size = core.Pick(r, []int{0, 10, 5000, 100000})
		x.End = core.Pick(r, []string{"close", "fin", "rst"})
	case "upgrade":
		x.Size = core.Pick(r, []int{0, 10, 5000, 100000})
		x.End = core.Pick(r, []string{"close", "fin", "rst", "origin"})
		if r.Chance(60) {
			// the request also says something about the connection: the close option next to Upgrade (token
			// order / spelling / two field lines), HTTP/1.0, keep-alive (the shapes of the repaired F52)
			x.Req = upgradeReqs[r.Range(1, len(upgradeReqs)-1)].name
		}
	case "tt-tls", "sk-ok":
		x.Size = core.Pick(r, []int{0, 10, 5000})
		x.End = core.Pick(r, []string{"close", "fin", "rst"})
	case "up-ok":
		x.Via = core.Pick(r, []string{"hup", "tup", "tup"})
		x.Size = core.Pick(r, []int{0, 10, 5000})
		x.End = core.Pick(r, []string{"close", "fin", "rst"})
	case "up-fault":
		x.Via = core.Pick(r, []string{"hup", "tup"})
		x.Fault = core.Pick(r, []string{"torn", "torn", "tornrst", "garble", "fin", "fin", "hdr", "mute"})
	case "up-reject":
		x.Via = core.Pick(r, []string{"hup", "tup"})
		x.Status = core.Pick(r, []int{403, 407, 502, 503, 302, 101})
	case "up-badtls":
		x.Via = core.Pick(r, []string{"ptup", "utup"})
	case "sk-fault":
		x.Fault = core.Pick(r, []string{"rej", "rej", "torn", "fin", "badgreet", "mute"})
	case "cf":
		x.Fault = core.Pick(r, []string{"both", "both", "nores", "ok", "err"})
		if x.Fault == "ok" {
			x.Size = core.Pick(r, []int{0, 10, 5000})
			x.End = core.Pick(r, []string{"close", "fin", "rst"})
		}
	case "connect-reject":
		x.Status = core.Pick(r, []int{403, 407, 502, 503, 302, 101})
	case "abort-upload":
		x.Body = core.Pick(r, []int{1 << 20, 3 << 20})
		x.End = core.Pick(r, []string{"rst", "close"})
	case "abort-download":
		x.Size = core.Pick(r, []int{2 << 20, 6 << 20})
		x.End = core.Pick(r, []string{"rst", "close"})
	case "write-error", "eof":
		x.End = core.Pick(r, []string{"rst", "close"})
		if x.Kind == "eof" {
			x.Size = core.Pick(r, []int{0, 0, 5, 28})
		}
	case "mitm":
		n := r.Range(1, 4)
		for i := 0; i < n; i++ {
			in := xspec{Kind: core.Pick(r, innerKinds)}
			fill(r, &in)
			x.Inner = append(x.Inner, in)
			if terminal(in.Kind) {
				break
			}
		}
	}
}

// genRound draws 1-8 connections of 1-5 exchanges. target: "" | "dialfail" (an exchange in which the proxy holds a
// dialled connection when it fails) | "f12" (a transport-level CONNECT
// rejection, the path of the repaired F12: a regression target) | "f40/<n>" (a CONNECT answered 101 by the
// upstream proxy, the paths of the repaired F40: a regression target; n picks the shape — the client's CONNECT
// through the http proxy of the older kinds, through the http and through the https proxy of the dial-then-fail
// kinds, the transport's own CONNECT for 'GET https://' and another method, the same inside an intercepted
// session — and the server mode, so that every shape runs under the TCP server and, but for the intercepted
// session, under the http.Handler) | "f42" (an origin answering 101 without a protocol switch, the path of the
// repaired F42: a regression target) | "f52/<n>" (an upgrade request that also asks to close the connection —
// the close option in every spelling, HTTP/1.0 —, tunnel traffic and teardown by either side, the path of the
// repaired F52: a regression target; n picks the request form and the server mode) puts one such exchange into
// the round.
func genRound(r *core.Rand, defect string) *roundCase {
	rc := &roundCase{Kind: "round", Handler: r.Chance(20), Insecure: r.Chance(35)}
	f40 := -1
	if rest, ok := strings.CutPrefix(defect, "f40/"); ok {
		f40, _ = strconv.Atoi(rest)
		rc.Handler = (f40/len(f40Shapes))%2 == 1
		defect = "f40"
	}
	f52 := -1
	if rest, ok := strings.CutPrefix(defect, "f52/"); ok {
		f52, _ = strconv.Atoi(rest)
		rc.Handler = f52%2 == 1
		defect = "f52"
	}
	nc := r.Range(1, 8)
	for i := 0; i < nc; i++ {
		var cs connSpec
		n := r.Range(1, 5)
		for j := 0; j < n; j++ {
			x := xspec{Kind: pickKind(r)}
			for rc.Handler && strings.HasPrefix(x.Kind, "mitm") {
				x.Kind = pickKind(r)
			}
			fill(r, &x)
			cs.Exchanges = append(cs.Exchanges, x)
			if terminal(x.Kind) && r.Chance(70) {
				break // otherwise the script goes on on a new connection
			}
		}
		rc.Conns = append(rc.Conns, cs)
	}
	switch defect {
	case "f12":
		n := 1
		if r.Chance(30) {
			n = 2 // two on one round, possibly on one connection: the connection is kept after the relay
		}
		for i := 0; i < n; i++ {
			x := xspec{Kind: core.Pick(r, []string{"f12-plain", "f12-plain", "f12-mitm"}), Status: core.Pick(r, []int{403, 407, 502, 503, 302, 429, 101}),
				Method: core.Pick(r, []string{"GET", "GET", "HEAD", "POST", "OPTIONS"})}
			if x.Method == "POST" {
				x.Body = core.Pick(r, []int{0, 1, 300})
			}
			if rc.Handler {
				x.Kind = "f12-plain"
			}
			c := &rc.Conns[r.Intn(len(rc.Conns))]
			// anywhere before a terminal exchange
			pos := len(c.Exchanges)
			for j, e := range c.Exchanges {
				if terminal(e.Kind) {
					pos = j
					break
				}
			}
			pos = r.Intn(pos + 1)
			c.Exchanges = append(c.Exchanges[:pos], append([]xspec{x}, c.Exchanges[pos:]...)...)
		}
	case "dialfail":
		x := xspec{Kind: core.Pick(r, dialThenFail)}
		fill(r, &x)
		c := &rc.Conns[r.Intn(len(rc.Conns))]
		pos := len(c.Exchanges)
		for j, e := range c.Exchanges {
			if terminal(e.Kind) {
				pos = j
				break
			}
		}
		pos = r.Intn(pos + 1)
		c.Exchanges = append(c.Exchanges[:pos], append([]xspec{x}, c.Exchanges[pos:]...)...)
	case "f52":
		var closing []upgradeReq
		for _, v := range upgradeReqs {
			if v.closes {
				closing = append(closing, v)
			}
		}
		n := 1
		if r.Chance(30) {
			n = 2
		}
		for k := 0; k < n; k++ {
			x := xspec{Kind: "upgrade", Req: closing[(f52/2+k)%len(closing)].name, Size: core.Pick(r, []int{0, 10, 5000, 100000}),
				End: core.Pick(r, []string{"close", "fin", "rst", "origin"})}
			c := &rc.Conns[r.Intn(len(rc.Conns))]
			// anywhere before a terminal exchange: the ordinary exchanges before it run on the connection that is then
			// switched, those after it on a new one
			pos := len(c.Exchanges)
			for j, e := range c.Exchanges {
				if terminal(e.Kind) {
					pos = j
					break
				}
			}
			pos = r.Intn(pos + 1)
			c.Exchanges = append(c.Exchanges[:pos], append([]xspec{x}, c.Exchanges[pos:]...)...)
		}
	case "f42":
		c := &rc.Conns[r.Intn(len(rc.Conns))]
		pos := len(c.Exchanges)
		for j, e := range c.Exchanges {
			if terminal(e.Kind) {
				pos = j
				break
			}
		}
		pos = r.Intn(pos + 1)
		c.Exchanges = append(c.Exchanges[:pos], append([]xspec{{Kind: "status", Status: 101}}, c.Exchanges[pos:]...)...)
	case "f40":
		x := f40Shapes[f40%len(f40Shapes)]
		if rc.Handler && x.Kind == "f12-mitm" {
			x.Kind = "f12-plain" // no interception under the http.Handler
		}
		if x.Method == "POST" {
			x.Body = core.Pick(r, []int{0, 1, 300})
		}
		c := &rc.Conns[r.Intn(len(rc.Conns))]
		// anywhere before a terminal exchange: the exchanges after it run on a new connection (the client
		// does not go on after a 1xx answer), those before it on the connection the 101 is written to
		pos := len(c.Exchanges)
		for j, e := range c.Exchanges {
			if terminal(e.Kind) {
				pos = j
				break
			}
		}
		pos = r.Intn(pos + 1)
		c.Exchanges = append(c.Exchanges[:pos], append([]xspec{x}, c.Exchanges[pos:]...)...)
	}
	return rc
}

// f40Shapes: the ways a CONNECT can be answered 101 by an upstream proxy without a tunnel following
var f40Shapes = []xspec{
	{Kind: "connect-reject", Status: 101},
	{Kind: "up-reject", Via: "hup", Status: 101},
	{Kind: "up-reject", Via: "tup", Status: 101},
	{Kind: "f12-plain", Status: 101, Method: "GET"},
	{Kind: "f12-plain", Status: 101, Method: "POST"},
	{Kind: "f12-mitm", Status: 101, Method: "GET"},
	{Kind: "f12-plain", Status: 101, Method: "HEAD"},
}

func Run(ctx *core.Ctx) {
	ctx.SetRule("rounds of 1-8 concurrent client connections of 1-5 exchanges each against a real proxy with a fresh Prometheus registry " +
		"(basic auth, deny-domains, upstream proxy for some hosts, MITM for some hosts, traffic tracking on): GET/HEAD/POST/PUT/OPTIONS with bodies, " +
		"origin statuses, 407/403/400 refusals, upstream refused / reset mid-head / reset mid-body / header timeout, CONNECT tunnels direct and through the " +
		"upstream proxy (ok, dial failure, rejection incl. 101 — by the http and by the https upstream proxy, every 10th round, under the TCP server and the http.Handler), CONNECTs that fail AFTER the proxy dialled a connection (X-Martian-Terminate-Tls to a plain-text target / through an http upstream proxy / through SOCKS5 / with the default TLS client, which cannot terminate at all; " +
		"the CONNECT to an http or https upstream proxy torn by FIN or RST, garbled, cut, never answered (ConnectTimeout), its header function failing, rejected; TLS to an https upstream proxy failing after the TCP connect; SOCKS5 negotiation refused, torn, cut, never answered, not SOCKS at all; " +
		"a ConnectFunc returning a connection together with an error; TLS to the origin failing below the transport, also inside an intercepted session; a failed MITM handshake) with their control cases (terminate-TLS tunnel with --insecure, tunnels through the https proxy / SOCKS5 / the ConnectFunc), " +
		"whose peers wait for the proxy's end of every connection, requests whose CONNECT the upstream proxy rejects inside the proxy's transport (GET https:// and inside an intercepted session; with 101 as well), MITM hand-off with requests inside, 101 upgrade tunnels — the request plain, or (three in five, and in every 10th round, under the TCP server and the http.Handler) carrying the close option next to Upgrade in every order / spelling / on two field lines, sent as HTTP/1.0, or with keep-alive (the shapes of the repaired F52), with tunnel traffic and the tunnel ended by the client (close / FIN / RST) or by the origin —, a 101 that is no protocol switch (answered 502), client aborts while uploading / " +
		"downloading / before reading the response (RST and FIN), EOF and garbage before a request, keep-alive reuse; tunnel ends by close/FIN/RST; " +
		"plus cases on the exported Listener/Dialer: 1-6 accepted and 0-4 dialled connections with byte transfers, each closed by 1-4 goroutines at once " +
		"(some twice), refused dials, Accept on a closed listener; " +
		"plus conntrack.Builder over connections of every kind (net.Pipe = Close returns nil every time, TCP, TCP closed underneath the tracker = net.ErrClosed every time, " +
		"scripted connections whose Close returns nil / net.ErrClosed / another error call by call and whose Read/Write/ReadFrom return scripted (n, err) incl. n > 0 with an error), " +
		"1-4 goroutines closing at once; plus forwarder.Listener in every stacking (plain, TLS, PROXY protocol, rate limit and their combinations) and forwarder.Dialer with connections ended by the " +
		"stack itself (PROXY header never sent / not a header, TLS handshake fed garbage / never started), by the peer (FIN, RST) and by the server, raw bytes counted at the peer below TLS; " +
		"plus interrupted I/O on tracked connections (Write / io.Copy=ReadFrom of 16 MiB cut by a write deadline against a peer that does not read or by the peer's reset; Read / io.Copy out cut by a " +
		"read deadline or the peer's reset) on every stacking and on dialled connections; plus the real proxy with TrackTraffic, a WriteTimeout and tracked dials: 16 MiB downloads (Content-Length and chunked) " +
		"cut by the write timeout against a client that does not read or by the client's reset, 8 MiB uploads and tunnels cut by the target's / client's reset, PROXY-protocol clients that send a good header, " +
		"none, garbage, or reset after it; plus accepted connections of the real proxy that end BEFORE their first request on every listener stacking (plain, HTTPS, PROXY protocol, both, with and without rate limit and traffic tracking), 3-10 clients at once interleaved with good exchanges: " +
		"closed or reset right after the accept / in the middle of or after the PROXY header / in the middle of or after the TLS handshake, silent until the PROXY header, TLS handshake or idle timer fires, a PROXY header that is none, TLS handshakes that fail every way (plain-text request on the TLS port, random bytes, a malformed or truncated ClientHello, a ClientHello then FIN / RST, " +
		"no common protocol version, no common cipher suite, the client rejecting the certificate with an alert) — the client keeps its end open and must see the proxy close; non-trivial = anything but a single plain request; distinct = distinct case description")
	ctx.Assume("sync.Once.Do is modelled as an atomic check-and-run; the Go scheduler, TCP and the Prometheus client are not modelled")
	ctx.Assume("real schedules are sampled: each round is one interleaving chosen by the scheduler; gauges are observed at gather points only (quiescent point = registry equal to the model's counters and connection gauges 0 on three consecutive polls, waited for at most 12 s)")
	ctx.Assume("bytes on the wire are counted at the harness's end of each connection: equal to the observer once that end has read to the FIN, a lower bound for the observer's Tx (an upper bound for its Rx) when the connection ended in a reset (bytes the kernel had accepted may be lost); on connections without TLS above the tracker the observer is also compared exactly with the n the calls returned")
	ctx.Assume("paths not reachable from outside and therefore covered by the theorems only: tunnel drain failure, write failure of the MITM 200, the shutdown path")
	pool := newWorldPool(ctx)
	defer pool.closeAll()
	for _, c := range core.LoadCorpus(ctx.Root, "C13") {
		replayWith(ctx, pool, c)
	}
	nRounds := ctx.N(450, 4000)
	nListener := ctx.N(150, 1300)
	type job struct {
		rc *roundCase
		lc *listenerCase
		x  func()
	}
	jobs := make(chan job, 32)
	var extras []func()
	var wg sync.WaitGroup
	for w := 0; w < 6; w++ {
		wg.Add(1)
		go func() {
			defer wg.Done()
			for j := range jobs {
				if j.x != nil {
					j.x()
					continue
				}
				if j.lc != nil {
					runListener(ctx, j.lc)
					continue
				}
				wd, err := pool.get()
				if err != nil {
					core.Fatalf("C13: scripted peers: %v", err)
				}
				runRound(ctx, wd, j.rc)
				pool.put(wd)
			}
		}()
	}
	// connections of every kind, every listener stacking, interrupted I/O (builder.go, stack.go, cut.go,
	// pxcut.go), shuffled and spread over the rounds
	nBuilder, nStack, nCut, nPx := ctx.N(120, 1000), ctx.N(70, 600), ctx.N(70, 600), ctx.N(50, 400)
	for i := 0; i < nBuilder; i++ {
		c := genBuilder(ctx.Rng.Sub())
		if i == 0 {
			ctx.Sample(c)
		}
		extras = append(extras, func() { runBuilder(ctx, c) })
	}
	for i := 0; i < nStack; i++ {
		c := genStack(ctx.Rng.Sub())
		if i == 0 {
			ctx.Sample(c)
		}
		extras = append(extras, func() { runStack(ctx, c) })
	}
	for i := 0; i < nCut; i++ {
		c := genCut(ctx.Rng.Sub())
		if i == 0 {
			ctx.Sample(c)
		}
		extras = append(extras, func() { runCut(ctx, c) })
	}
	for i := 0; i < nPx; i++ {
		c := genPx(ctx.Rng.Sub())
		if i == 0 {
			ctx.Sample(c)
		}
		extras = append(extras, func() { runPx(ctx, c) })
	}
	// accepted connections of the real proxy that end before their first request (pre.go)
	for i, nPre := 0, ctx.N(45, 400); i < nPre; i++ {
		c := genPre(ctx.Rng.Sub())
		if i == 0 {
			ctx.Sample(c)
		}
		extras = append(extras, func() { runPre(ctx, c) })
	}
	core.Shuffle(ctx.Rng.Sub(), extras)
	xi := 0
	li := 0
	for i := 0; i < nRounds; i++ {
		r := ctx.Rng.Sub()
		defect := ""
		switch {
		case i%8 == 3:
			defect = "f12"
		case i%4 == 1:
			defect = "dialfail"
		case i%10 == 6:
			defect = fmt.Sprintf("f40/%d", i/10)
		case i%50 == 27:
			defect = "f42"
		case i%10 == 2:
			defect = fmt.Sprintf("f52/%d", i/10)
		}
		rc := genRound(r, defect)
		if i < 2 {
			ctx.Sample(rc)
		}
		jobs <- job{rc: rc}
		for li*nRounds < (i+1)*nListener {
			lc := genListener(ctx.Rng.Sub())
			if li == 0 {
				ctx.Sample(lc)
			}
			jobs <- job{lc: lc}
			li++
		}
		for xi*nRounds < (i+1)*len(extras) {
			jobs <- job{x: extras[xi]}
			xi++
		}
	}
	close(jobs)
	wg.Wait()
}

// worldPool hands out sets of scripted peers (one per worker at a time).
type worldPool struct {
	mu   sync.Mutex
	free []*world
	all  []*world
	ctx  *core.Ctx
}

func newWorldPool(ctx *core.Ctx) *worldPool { return &worldPool{ctx: ctx} }

func (p *worldPool) get() (*world, error) {
	p.mu.Lock()
	if n := len(p.free); n > 0 {
		w := p.free[n-1]
		p.free = p.free[:n-1]
		p.mu.Unlock()
		return w, nil
	}
	n := len(p.all)
	p.mu.Unlock()
	w, err := newWorld(p.ctx, n)
	if err != nil {
		return nil, err
	}
	p.mu.Lock()
	p.all = append(p.all, w)
	p.mu.Unlock()
	return w, nil
}

func (p *worldPool) put(w *world) { p.mu.Lock(); p.free = append(p.free, w); p.mu.Unlock() }

func (p *worldPool) closeAll() {
	for _, w := range p.all {
		w.close()
	}
}

func replayWith(ctx *core.Ctx, pool *worldPool, raw json.RawMessage) {
	var k struct {
		Kind string `json:"kind"`
	}
	json.Unmarshal(raw, &k)
	switch k.Kind {
	case "builder":
		var c builderCase
		if err := json.Unmarshal(raw, &c); err != nil {
			core.Fatalf("C13: bad builder case: %v", err)
		}
		runBuilder(ctx, &c)
	case "stack":
		var c stackCase
		if err := json.Unmarshal(raw, &c); err != nil {
			core.Fatalf("C13: bad stack case: %v", err)
		}
		runStack(ctx, &c)
	case "cut":
		var c cutCase
		if err := json.Unmarshal(raw, &c); err != nil {
			core.Fatalf("C13: bad cut case: %v", err)
		}
		runCut(ctx, &c)
	case "proxy-cut":
		var c pxCase
		if err := json.Unmarshal(raw, &c); err != nil {
			core.Fatalf("C13: bad proxy-cut case: %v", err)
		}
		runPx(ctx, &c)
	case "pre-request":
		var c preCase
		if err := json.Unmarshal(raw, &c); err != nil {
			core.Fatalf("C13: bad pre-request case: %v", err)
		}
		runPre(ctx, &c)
	case "listener":
		var lc listenerCase
		if err := json.Unmarshal(raw, &lc); err != nil {
			core.Fatalf("C13: bad listener case: %v", err)
		}
		runListener(ctx, &lc)
	default:
		var rc roundCase
		if err := json.Unmarshal(raw, &rc); err != nil {
			core.Fatalf("C13: bad round case: %v", err)
		}
		rc.Kind = "round"
		w, err := pool.get()
		if err != nil {
			core.Fatalf("C13: scripted peers: %v", err)
		}
		runRound(ctx, w, &rc)
		pool.put(w)
	}
}

func Replay(ctx *core.Ctx, raw json.RawMessage) {
	pool := newWorldPool(ctx)
	defer pool.closeAll()
	replayWith(ctx, pool, raw)
}
