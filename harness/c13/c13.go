// Package c13 ties the accounting model (Model/C13.lean) to the real proxy: rounds of exchanges of
// every kind (success, refusals, upstream faults, CONNECT tunnels, MITM, upgrades, client aborts)
// on 1-8 concurrent client connections against a proxy with a fresh Prometheus registry; at the
// quiescent point after each round the registry is compared with the model's counters and the
// conservation clauses are evaluated on it. listener.go drives the exported Listener/Dialer types
// directly (byte counters, concurrent double Close); builder.go conntrack.Builder over connections whose
// Close and I/O return anything; stack.go every listener stacking with connections ended by the stack,
// the peer or the server; cut.go and pxcut.go byte accounting when I/O is cut short (directly and
// through the real proxy).
package c13

import (
	"bufio"
	"bytes"
	"context"
	"crypto/tls"
	"crypto/x509"
	"encoding/base64"
	"encoding/json"
	"errors"
	"fmt"
	"io"
	"net"
	"net/http"
	"net/url"
	"sort"
	"strconv"
	"strings"
	"sync"
	"sync/atomic"
	"time"

	"github.com/prometheus/client_golang/prometheus"
	dto "github.com/prometheus/client_model/go"
	"github.com/saucelabs/forwarder"
	"github.com/saucelabs/forwarder/verifharness/core"
	"github.com/saucelabs/forwarder/verifharness/rig"
)

func init() { core.Register("C13", core.Scenario{Run: Run, Replay: Replay}) }

const (
	promNS    = "fwd"
	authUser  = "u13"
	authPass  = "p13"
	ioTimeout = 20 * time.Second
	// ResponseHeaderTimeout of the proxy's transport (the "timeout" exchange kind waits for it)
	headerTimeout = 1200 * time.Millisecond
	// ConnectTimeout of the proxy (an upstream proxy / SOCKS5 server that never answers is given up after it)
	connectTimeout = 1500 * time.Millisecond
)

var authHeader = "Proxy-Authorization: Basic " + base64.StdEncoding.EncodeToString([]byte(authUser+":"+authPass)) + "\r\n"

// ---- case description ----

// xspec is one exchange of a client connection.
type xspec struct {
	Kind   string  `json:"kind"`
	Method string  `json:"method,omitempty"` // ok: GET | HEAD | POST | PUT | OPTIONS
	Size   int     `json:"size,omitempty"`   // response body / tunnel payload size
	Body   int     `json:"body,omitempty"`   // request body size
	ReqChk bool    `json:"req_chunked,omitempty"`
	Status int     `json:"status,omitempty"` // status: origin status; connect-reject: the upstream proxy's answer
	End    string  `json:"end,omitempty"`    // how the client ends a tunnel / abort: "close" | "fin" | "rst"; upgrade also "origin" (the origin finishes first)
	Req    string  `json:"req,omitempty"`    // upgrade: how the request spells its version and Connection field(s) (upgradeReqs); "" = HTTP/1.1, Connection: Upgrade
	Fault  string  `json:"fault,omitempty"`  // dial-then-fail kinds (dialfail.go): what goes wrong after the dial
	Via    string  `json:"via,omitempty"`    // dial-then-fail kinds: which upstream proxy (hup = http, tup = https, ptup, utup)
	Inner  []xspec `json:"inner,omitempty"`  // mitm: exchanges inside the TLS session
}

type connSpec struct {
	Exchanges []xspec `json:"exchanges"`
}

type roundCase struct {
	Kind string `json:"kind"` // "round"
	// Handler runs the proxy as martian's http.Handler under net/http's server (the
	// proxy_handler.go twins; MITM is not supported there) instead of the TCP server.
	Handler bool       `json:"handler,omitempty"`
	Conns   []connSpec `json:"conns"`

	// Insecure runs the proxy's TLS client without verification (--insecure): the only configuration
	// in which a terminate-TLS CONNECT can succeed at all.
	Insecure bool `json:"insecure,omitempty"`
}

// terminal kinds end the client connection.
func terminal(kind string) bool {
	switch kind {
	case "ok", "status", "chunked", "auth407", "deny403", "refused", "reset-head", "timeout", "viaup", "connect-reject", "f12-plain",
		"connect-dialfail", "connect-denied", "connect-auth407",
		"tt-plain", "tt-via", "tt-refused", "up-fault", "up-reject", "up-badtls", "sk-fault", "sk-tt", "https-plain", "https-badcert":
		return false
	}
	return true
}

// knownClass decides the recorded defect class from the input alone. No class is recorded for the
// rounds any more: the transport-level CONNECT rejection (F12), the CONNECT — the client's, or the
// proxy transport's own — that the upstream proxy answers with 101 (F40, class
// "connect-rejection-status-101") and the upgrade request that also asks to close the connection (F52, class
// "upgrade-with-close-never-reported") are repaired; their inputs are generated on every run (run.go:
// targets "f12", "f40" and "f52") and a failure on them is a violation.
func knownClass(rc *roundCase) string {
	return ""
}

// upgradeReq is one way to ask for a protocol switch. closes: http.ReadRequest sets Request.Close for it (the
// close connection option, or HTTP/1.0 without keep-alive). The 101 that answers it opens a tunnel all the same,
// and the exchange is reported when the tunnel is closed (the repaired F52, class
// "upgrade-with-close-never-reported": the 101 went out with "Connection: close", the connection was closed
// instead of tunnelled and Trace.WroteResponse was never called).
type upgradeReq struct {
	name, proto string
	conn        []string // one Connection field line each
	closes      bool
}

var upgradeReqs = []upgradeReq{
	{"", "HTTP/1.1", []string{"Upgrade"}, false},
	{"upgrade,close", "HTTP/1.1", []string{"Upgrade, close"}, true},
	{"close,upgrade", "HTTP/1.1", []string{"close, Upgrade"}, true},
	{"spelling", "HTTP/1.1", []string{"upgrade,CLOSE"}, true},
	{"two-lines", "HTTP/1.1", []string{"Upgrade", "close"}, true},
	{"two-lines-close-first", "HTTP/1.1", []string{"Close", "Upgrade"}, true},
	{"http/1.0", "HTTP/1.0", []string{"Upgrade"}, true},
	{"http/1.0-close", "HTTP/1.0", []string{"Upgrade, close"}, true},
	{"http/1.0-keep-alive", "HTTP/1.0", []string{"keep-alive, Upgrade"}, false},
	{"keep-alive,upgrade", "HTTP/1.1", []string{"keep-alive, Upgrade"}, false},
}

func upgradeReqOf(name string) upgradeReq {
	for _, v := range upgradeReqs {
		if v.name == name {
			return v
		}
	}
	core.Fatalf("C13: unknown upgrade request form %q", name)
	return upgradeReq{}
}

// connect101 names the shape of a CONNECT answered 101 by an upstream proxy ("" if x is none): whose CONNECT it
// is (the client's, passed on by handleConnectRequest; the transport's own for 'GET https://' or inside an
// intercepted session, relayed by writeErrorResponse) and which upstream proxy answers.
func connect101(x *xspec) string {
	if x.Status != 101 {
		return ""
	}
	switch x.Kind {
	case "connect-reject":
		return "client-connect/http-upstream"
	case "up-reject":
		if x.Via == "tup" {
			return "client-connect/https-upstream"
		}
		return "client-connect/http-upstream"
	case "f12-plain":
		return "transport-connect/get-https"
	case "f12-mitm":
		return "transport-connect/intercepted"
	}
	return ""
}

// ---- world: the scripted peers of one worker ----

type world struct {
	origin, tlsOrigin, echo, up, slow *rig.Peer
	ca                                *rig.CA
	caFile                            string
	refused                           string
	release                           func()
	arrived                           sync.Map // id -> chan struct{}: the request with that Case-Id reached a peer
	released                          sync.Map // id -> chan struct{}: the client is done, the peer may answer
	idSeq                             atomic.Int64

	// peers of the dial-then-fail exchanges (dialfail.go)
	plain, badcert, tlsecho, tlsup, socks *rig.Peer
	watch                                 atomic.Pointer[watchStats]
}

func (w *world) peers() []*rig.Peer {
	return []*rig.Peer{w.origin, w.tlsOrigin, w.echo, w.up, w.slow, w.plain, w.badcert, w.tlsecho, w.tlsup, w.socks}
}

func (w *world) accepts() int64 {
	var n int64
	for _, p := range w.peers() {
		if p != nil {
			n += p.Accepts()
		}
	}
	return n
}

func (w *world) close() {
	for _, p := range w.peers() {
		if p != nil {
			p.Close()
		}
	}
	if w.release != nil {
		w.release()
	}
}

func (w *world) newID() (string, chan struct{}) {
	id := fmt.Sprintf("x%d", w.idSeq.Add(1))
	ch := make(chan struct{})
	w.arrived.Store(id, ch)
	return id, ch
}

// newHold is newID plus a channel the client closes when the held peer may go on.
func (w *world) newHold() (id string, arrived chan struct{}, release func()) {
	id, arrived = w.newID()
	ch := make(chan struct{})
	w.released.Store(id, ch)
	return id, arrived, func() { close(ch) }
}

// hold announces the request and blocks the peer until the client releases it (bounded).
func (w *world) hold(id string) {
	v, ok := w.released.LoadAndDelete(id)
	w.signal(id)
	if !ok {
		return
	}
	select {
	case <-v.(chan struct{}):
	case <-time.After(ioTimeout):
	}
	time.Sleep(30 * time.Millisecond) // let the client's reset reach the proxy
}

func (w *world) signal(id string) {
	if v, ok := w.arrived.LoadAndDelete(id); ok {
		close(v.(chan struct{}))
	}
}

func echoLoop(pc *rig.PeerConn) {
	buf := make([]byte, 32<<10)
	for {
		n, err := pc.BR.Read(buf)
		if n > 0 {
			if _, werr := pc.Write(buf[:n]); werr != nil {
				return
			}
		}
		if err != nil {
			return
		}
	}
}

func queryStr(target, key string) string {
	if i := strings.Index(target, "?"); i >= 0 {
		if q, err := url.ParseQuery(target[i+1:]); err == nil {
			return q.Get(key)
		}
	}
	return ""
}

// echoN echoes the first n bytes and returns: the origin finishes the tunnel.
func echoN(pc *rig.PeerConn, n int) {
	buf := make([]byte, 32<<10)
	pc.SetReadDeadline(time.Now().Add(ioTimeout))
	for n > 0 {
		k := len(buf)
		if k > n {
			k = n
		}
		m, err := pc.BR.Read(buf[:k])
		if m > 0 {
			if _, werr := pc.Write(buf[:m]); werr != nil {
				return
			}
			n -= m
		}
		if err != nil {
			return
		}
	}
}

func queryInt(target, key string, dflt int) int {
	if i := strings.Index(target, "?"); i >= 0 {
		if q, err := url.ParseQuery(target[i+1:]); err == nil {
			if n, err := strconv.Atoi(q.Get(key)); err == nil {
				return n
			}
		}
	}
	return dflt
}

func pathOf(target string) string {
	if strings.HasPrefix(target, "http://") || strings.HasPrefix(target, "https://") {
		if u, err := url.Parse(target); err == nil {
			target = u.RequestURI()
		}
	}
	if i := strings.Index(target, "?"); i >= 0 {
		target = target[:i]
	}
	return target
}

// originRespond scripts the origin (plain and TLS).
func (w *world) originRespond(pc *rig.PeerConn, ex *rig.Exchange) bool {
	req := ex.Req
	p := pathOf(req.Target)
	head := req.Method == "HEAD"
	switch {
	case p == "/ok":
		n := queryInt(req.Target, "n", 2)
		b := rig.Head("HTTP/1.1 200 OK", []rig.Field{{Name: "Content-Length", Value: strconv.Itoa(n)}, {Name: "Content-Type", Value: "application/octet-stream"}})
		if !head {
			b = append(b, bytes.Repeat([]byte{'x'}, n)...)
		}
		_, err := pc.Write(b)
		return err == nil
	case strings.HasPrefix(p, "/status/"):
		code, _ := strconv.Atoi(strings.TrimPrefix(p, "/status/"))
		if code == 204 || code == 304 {
			pc.Write(rig.Head(fmt.Sprintf("HTTP/1.1 %d Scripted", code), nil))
			return true
		}
		b := rig.Head(fmt.Sprintf("HTTP/1.1 %d Scripted", code), []rig.Field{{Name: "Content-Length", Value: "3"}})
		if !head {
			b = append(b, "sts"...)
		}
		pc.Write(b)
		return true
	case p == "/chunked":
		n := queryInt(req.Target, "n", 10)
		b := rig.Head("HTTP/1.1 200 OK", []rig.Field{{Name: "Transfer-Encoding", Value: "chunked"}})
		b = append(b, rig.ChunkEncode(bytes.Repeat([]byte{'c'}, n), []int{n/3 + 1, n/3 + 1}, nil)...)
		pc.Write(b)
		return true
	case p == "/reset-head":
		pc.Write([]byte("HTTP/1.1 200 OK\r\nContent-Le"))
		time.Sleep(5 * time.Millisecond)
		pc.Abort()
		return false
	case p == "/reset-body":
		pc.Write([]byte("HTTP/1.1 200 OK\r\nContent-Length: 100000\r\n\r\n" + strings.Repeat("r", 1000)))
		time.Sleep(20 * time.Millisecond)
		pc.Abort()
		return false
	case p == "/stall":
		// say nothing until the proxy gives up and closes
		pc.SetReadDeadline(time.Now().Add(ioTimeout))
		pc.BR.Peek(1)
		return false
	case p == "/big":
		n := queryInt(req.Target, "n", 1<<20)
		if _, err := pc.Write(rig.Head("HTTP/1.1 200 OK", []rig.Field{{Name: "Content-Length", Value: strconv.Itoa(n)}})); err != nil {
			return false
		}
		chunk := bytes.Repeat([]byte{'B'}, 64<<10)
		pc.SetWriteDeadline(time.Now().Add(ioTimeout))
		for n > 0 {
			k := len(chunk)
			if k > n {
				k = n
			}
			if _, err := pc.Write(chunk[:k]); err != nil {
				return false
			}
			n -= k
		}
		return true
	case p == "/notify":
		// tell the client its request has reached the origin, give its reset time to land, answer
		w.signal(req.Get("Case-Id"))
		time.Sleep(30 * time.Millisecond)
		pc.Write([]byte("HTTP/1.1 200 OK\r\nContent-Length: 8\r\n\r\nnotified"))
		return true
	case p == "/upgrade-hold":
		// switch protocols only after the client has gone away: the proxy's write of the 101 fails
		w.hold(req.Get("Case-Id"))
		pc.Write([]byte("HTTP/1.1 101 Switching Protocols\r\nConnection: Upgrade\r\nUpgrade: websocket\r\n\r\n"))
		echoLoop(pc)
		return false
	case p == "/upgrade":
		pc.Write([]byte("HTTP/1.1 101 Switching Protocols\r\nConnection: Upgrade\r\nUpgrade: websocket\r\n\r\n"))
		if queryStr(req.Target, "end") == "origin" {
			// the origin ends the tunnel: it echoes what the client is scripted to send and closes
			echoN(pc, queryInt(req.Target, "n", 0))
			return false
		}
		echoLoop(pc)
		return false
	}
	pc.Write([]byte("HTTP/1.1 404 Not Found\r\nContent-Length: 0\r\n\r\n"))
	return true
}

// upRespond scripts the upstream proxy: the CONNECT target's name decides.
func (w *world) upRespond(pc *rig.PeerConn, ex *rig.Exchange) bool {
	req := ex.Req
	if req.Method == "CONNECT" {
		host := req.Target
		base := upBase(host)
		if w.upFault(pc, base) {
			return false
		}
		if strings.HasPrefix(base, "reject") {
			digits := strings.TrimPrefix(base, "reject")
			if len(digits) >= 3 {
				digits = digits[:3]
			}
			code, err := strconv.Atoi(digits)
			if err != nil {
				code = 403
			}
			fmt.Fprintf(pc, "HTTP/1.1 %d Rejected\r\nContent-Length: 0\r\n\r\n", code)
			return false
		}
		if strings.HasPrefix(host, "viahold") {
			// accept the tunnel only after the client has gone away: the proxy's write of the 200 fails
			w.hold(req.Get("Case-Id"))
		}
		pc.Write([]byte("HTTP/1.1 200 OK\r\n\r\n"))
		echoLoop(pc)
		return false
	}
	pc.Write([]byte("HTTP/1.1 200 OK\r\nContent-Length: 2\r\n\r\nup"))
	return true
}

// slowServe is the origin for upload aborts: it announces the head and then swallows the body.
func (w *world) slowServe(pc *rig.PeerConn) {
	id := ""
	for {
		line, err := pc.BR.ReadString('\n')
		if err != nil {
			return
		}
		line = strings.TrimRight(line, "\r\n")
		if line == "" {
			break
		}
		if k, v, ok := strings.Cut(line, ":"); ok && strings.EqualFold(strings.TrimSpace(k), "Case-Id") {
			id = strings.TrimSpace(v)
		}
	}
	w.signal(id)
	pc.SetReadDeadline(time.Now().Add(ioTimeout))
	io.Copy(io.Discard, pc.BR)
}

func newWorld(ctx *core.Ctx, n int) (*world, error) {
	w := &world{}
	var err error
	if w.ca, err = rig.NewCA("verif c13 origin CA"); err != nil {
		return nil, err
	}
	leaf, err := w.ca.ValidLeaf("mitm.test")
	if err != nil {
		return nil, err
	}
	if w.origin, err = rig.NewPeer("origin", w.originRespond); err != nil {
		return nil, err
	}
	if w.tlsOrigin, err = rig.NewTLSPeer("tls-origin", &tls.Config{Certificates: []tls.Certificate{leaf}}, w.originRespond); err != nil {
		return nil, err
	}
	if w.echo, err = rig.NewRawPeer("echo", echoLoop); err != nil {
		return nil, err
	}
	if w.up, err = rig.NewPeer("upstream", w.upRespond); err != nil {
		return nil, err
	}
	if w.slow, err = rig.NewRawPeer("slow", w.slowServe); err != nil {
		return nil, err
	}
	if w.refused, w.release, err = rig.RefusedAddr(); err != nil {
		return nil, err
	}
	if err = w.newDialPeers(); err != nil {
		return nil, err
	}
	w.caFile, err = w.ca.WriteFile(ctx.Root+"/.work", fmt.Sprintf("c13-ca-%d-%d.pem", time.Now().UnixNano(), n))
	return w, err
}

func mitmHost(host string) bool { return host == "mitm.test" || strings.HasSuffix(host, "-mitm.test") }

func (w *world) startProxy(reg *prometheus.Registry, handler, insecure bool, dc *dialCount) (*rig.Proxy, error) {
	var dial func(ctx context.Context, network, addr string) (net.Conn, error)
	return rig.StartProxy(rig.ProxyOpts{
		PostTransport: func(rt *http.Transport) {
			inner := rt.DialContext
			dial = func(ctx context.Context, network, addr string) (net.Conn, error) {
				c, err := inner(ctx, network, addr)
				dc.note(addr, err)
				return c, err
			}
			rt.DialContext = dial
			// the header function of the CONNECT to an upstream proxy fails for targets named …hdr…
			rt.GetProxyConnectHeader = func(_ context.Context, _ *url.URL, target string) (http.Header, error) {
				if strings.HasPrefix(upBase(target), "hdr") {
					return nil, errors.New("no credentials for this upstream proxy")
				}
				return nil, nil
			}
		},
		ConnectTo: append(w.dialRoutes(), []forwarder.HostPortPair{
			rig.Route("origin.test", "80", w.origin.Addr),
			rig.Route("slow.test", "80", w.slow.Addr),
			rig.Route("mitm.test", "443", w.tlsOrigin.Addr),
			rig.Route("tunnel.test", "443", w.echo.Addr),
			rig.Route("upstream.test", "3128", w.up.Addr),
			rig.Route("refused.test", "", w.refused),
		}...),
		Transport: func(tc *forwarder.HTTPTransportConfig) {
			tc.CACertFiles = []string{w.caFile}
			tc.TLSClientConfig.Insecure = insecure
			tc.PromRegistry = reg
			tc.PromNamespace = promNS
			tc.ResponseHeaderTimeout = headerTimeout
		},
		Configure: func(cfg *forwarder.HTTPProxyConfig) {
			cfg.Name = "fwdverif"
			cfg.PromRegistry = reg
			cfg.PromNamespace = promNS
			cfg.TrackTraffic = true
			cfg.BasicAuth = url.UserPassword(authUser, authPass)
			cfg.DenyDomains = forwarder.MatchFunc(func(h string) bool { return h == "denied.test" })
			cfg.UpstreamProxyFunc = func(req *http.Request) (*url.URL, error) { return upstreamFor(req.URL.Hostname()), nil }
			cfg.ConnectTimeout = connectTimeout
			cfg.ConnectFunc = connectFunc(func() func(ctx context.Context, network, addr string) (net.Conn, error) { return dial })
			if handler {
				cfg.TestingHTTPHandler = true
			} else {
				cfg.MITM = forwarder.DefaultMITMConfig()
				cfg.MITMDomains = forwarder.MatchFunc(mitmHost)
			}
		},
	})
}

// ---- metrics ----

type snapshot struct {
	Inflight  map[string]int `json:"inflight"`
	Total     map[string]int `json:"total"` // "<code>.<METHOD>"
	LAccepted int            `json:"listener_cx_total"`
	LActive   int            `json:"listener_cx_active"`
	LErrors   int            `json:"listener_errors_total"`
	DDialed   int            `json:"dialer_cx_total"`
	DActive   int            `json:"dialer_cx_active"`
	DErrors   int            `json:"dialer_errors_total"`
	DRetries  int            `json:"dialer_retries_total"`
	MinGauge  int            `json:"min_gauge_seen"`
}

func gather(reg *prometheus.Registry, ns string) (*snapshot, error) {
	mfs, err := reg.Gather()
	if err != nil {
		return nil, err
	}
	s := &snapshot{Inflight: map[string]int{}, Total: map[string]int{}}
	for _, mf := range mfs {
		name := strings.TrimPrefix(mf.GetName(), ns+"_")
		for _, m := range mf.Metric {
			lab := map[string]string{}
			for _, l := range m.Label {
				lab[l.GetName()] = l.GetValue()
			}
			var v float64
			switch mf.GetType() {
			case dto.MetricType_COUNTER:
				v = m.GetCounter().GetValue()
			case dto.MetricType_GAUGE:
				v = m.GetGauge().GetValue()
			default:
				continue
			}
			n := int(v)
			switch name {
			case "http_requests_in_flight":
				s.Inflight[lab["method"]] += n
				if n < s.MinGauge {
					s.MinGauge = n
				}
			case "http_requests_total":
				s.Total[lab["code"]+"."+lab["method"]] += n
			case "listener_cx_total":
				s.LAccepted += n
			case "listener_cx_active":
				s.LActive += n
				if n < s.MinGauge {
					s.MinGauge = n
				}
			case "listener_errors_total":
				s.LErrors += n
			case "dialer_cx_total":
				s.DDialed += n
			case "dialer_cx_active":
				s.DActive += n
				if n < s.MinGauge {
					s.MinGauge = n
				}
			case "dialer_errors_total":
				s.DErrors += n
			case "dialer_retries_total":
				s.DRetries += n
			}
		}
	}
	return s, nil
}

func encInflight(m map[string]int) string {
	var ks []string
	for k := range m {
		ks = append(ks, k)
	}
	sort.Strings(ks)
	var out []string
	for _, k := range ks {
		out = append(out, fmt.Sprintf("%s:%d", k, m[k]))
	}
	return core.JoinList(out)
}

func encTotal(m map[string]int) string { return encInflight(m) }

func parseCounters(ans string) (requests int, inflight, total map[string]int) {
	inflight, total = map[string]int{}, map[string]int{}
	for _, f := range strings.Fields(ans) {
		k, v, ok := strings.Cut(f, "=")
		if !ok {
			continue
		}
		switch k {
		case "requests":
			requests, _ = strconv.Atoi(v)
		case "inflight", "total":
			for _, e := range core.SplitList(v) {
				i := strings.LastIndex(e, ":")
				if i < 0 {
					core.Fatalf("bad counters from model: %q", ans)
				}
				n, err := strconv.Atoi(e[i+1:])
				if err != nil {
					core.Fatalf("bad counters from model: %q", ans)
				}
				if k == "inflight" {
					inflight[e[:i]] = n
				} else {
					total[e[:i]] = n
				}
			}
		}
	}
	return
}

// ---- running one round ----

// xres is what one exchange did, as far as the harness can know from outside.
type xres struct {
	Kind   string `json:"kind"`
	Path   string `json:"path"`             // the model's path for it: kind,method,status,werr (status 0 = not seen by the client)
	Method string `json:"method,omitempty"` // method of the request if one was certainly read by the proxy
	Status int    `json:"status,omitempty"` // status the client saw (0 = none seen)
	Note   string `json:"note,omitempty"`
	Failed string `json:"failed,omitempty"` // the exchange did not go as scripted (hang, unexpected close …)
}

type roundRun struct {
	w        *world
	proxy    *rig.Proxy
	tag      string
	dials    atomic.Int64
	dialErrs atomic.Int64 // dials the proxy is expected to fail (refused targets)
	insecure bool
	mu       sync.Mutex
	results  []xres
	plans    []*dialPlan // what the CONNECT exits of the round are expected to make the dialer do
}

func (rr *roundRun) add(r xres) {
	rr.mu.Lock()
	rr.results = append(rr.results, r)
	rr.mu.Unlock()
}

type cli struct {
	c     *rig.Client
	inner bool   // inside an intercepted TLS session
	host  string // inner: the intercepted host
}

func (rr *roundRun) dial() (*cli, error) {
	c, err := rig.Dial(rr.proxy.Addr)
	if err != nil {
		return nil, err
	}
	rr.dials.Add(1)
	return &cli{c: c}, nil
}

// target builds the request-target and Host for an origin path.
func (cl *cli) target(host, path string) (string, string) {
	if cl.inner {
		return path, cl.host
	}
	return "http://" + host + path, host
}

func pathAtom(kind, method string, status int, werr bool) string {
	return core.JoinList([]string{kind, method, strconv.Itoa(status), core.B01(werr)})
}

func connClose(m *rig.Msg) bool {
	for _, v := range m.Values("Connection") {
		for _, t := range strings.Split(v, ",") {
			if strings.EqualFold(strings.TrimSpace(t), "close") {
				return true
			}
		}
	}
	return m.Proto == "HTTP/1.0" || m.Proto == "HTTP/0.0"
}

// request renders an HTTP/1.1 request.
func request(method, target, host string, auth bool, extra []string, body []byte, chunked bool) []byte {
	return requestProto("HTTP/1.1", method, target, host, auth, extra, body, chunked)
}

func requestProto(proto, method, target, host string, auth bool, extra []string, body []byte, chunked bool) []byte {
	var b bytes.Buffer
	fmt.Fprintf(&b, "%s %s %s\r\nHost: %s\r\n", method, target, proto, host)
	if auth {
		b.WriteString(authHeader)
	}
	for _, e := range extra {
		b.WriteString(e + "\r\n")
	}
	switch {
	case body != nil && chunked:
		b.WriteString("Transfer-Encoding: chunked\r\n\r\n")
		b.Write(rig.ChunkEncode(body, []int{len(body)/2 + 1}, nil))
	case body != nil:
		fmt.Fprintf(&b, "Content-Length: %d\r\n\r\n", len(body))
		b.Write(body)
	default:
		b.WriteString("\r\n")
	}
	return b.Bytes()
}

// simple runs a request/response exchange and classifies it by the scripted kind.
func (rr *roundRun) simple(cl *cli, x *xspec) (alive bool) {
	method, pathKind := "GET", "response"
	auth := true
	var extra []string
	var body []byte
	var target, host string
	switch x.Kind {
	case "ok":
		method = x.Method
		target, host = cl.target("origin.test", fmt.Sprintf("/ok?n=%d", x.Size))
		if method == "POST" || method == "PUT" {
			body = bytes.Repeat([]byte{'q'}, x.Body)
		}
	case "status":
		target, host = cl.target("origin.test", fmt.Sprintf("/status/%d", x.Status))
		if x.Status == 101 {
			// a 101 that is no protocol switch (no Upgrade field): answered with an error response
			// (the repaired F42: a regression target)
			pathKind = "upgradeNonWritable"
		}
	case "chunked":
		target, host = cl.target("origin.test", fmt.Sprintf("/chunked?n=%d", x.Size))
	case "auth407":
		auth, pathKind = false, "refused"
		target, host = cl.target("origin.test", "/ok?n=1")
	case "deny403":
		pathKind = "refused"
		target, host = "http://denied.test/x", "denied.test"
	case "loop400":
		pathKind = "refused"
		extra = []string{"Via: 1.1 " + rr.tag}
		target, host = cl.target("origin.test", "/ok?n=1")
	case "refused":
		pathKind = "roundTripError"
		target, host = "http://refused.test/x", "refused.test"
		rr.dialErrs.Add(1)
	case "reset-head":
		pathKind = "roundTripError"
		target, host = cl.target("origin.test", "/reset-head")
	case "reset-body":
		target, host = cl.target("origin.test", "/reset-body")
	case "timeout":
		pathKind = "roundTripError"
		target, host = cl.target("origin.test", "/stall")
	case "viaup":
		target, host = "http://viaup.test/x", "viaup.test"
	}
	if err := cl.c.Send(request(method, target, host, auth, extra, body, x.ReqChk), nil); err != nil {
		rr.add(xres{Kind: x.Kind, Path: pathAtom("readError", "GET", 0, false), Failed: "send: " + err.Error()})
		return false
	}
	m, err := cl.c.ReadResponse(method, ioTimeout)
	if m == nil || m.Status == 0 {
		rr.add(xres{Kind: x.Kind, Path: pathAtom(pathKind, method, 0, true), Method: method, Failed: fmt.Sprintf("no response: %v", err)})
		return false
	}
	rr.add(xres{Kind: x.Kind, Path: pathAtom(pathKind, method, m.Status, false), Method: method, Status: m.Status})
	return err == nil && m.Complete && !connClose(m)
}

// endTunnel finishes a tunnel from the client side.
func endTunnel(cl *cli, how string) {
	switch how {
	case "rst":
		cl.c.Abort()
	case "fin":
		if cl.c.CloseWrite() == nil {
			cl.c.Conn.SetReadDeadline(time.Now().Add(ioTimeout))
			io.Copy(io.Discard, cl.c.BR)
		}
		cl.c.Close()
	default:
		cl.c.Close()
	}
}

// echoRound sends n bytes through a tunnel and reads them back.
func echoRound(cl *cli, n int) error {
	if n <= 0 {
		return nil
	}
	payload := bytes.Repeat([]byte{'t'}, n)
	errc := make(chan error, 1)
	go func() { _, err := cl.c.Conn.Write(payload); errc <- err }()
	cl.c.Conn.SetReadDeadline(time.Now().Add(ioTimeout))
	defer cl.c.Conn.SetReadDeadline(time.Time{})
	if _, err := io.ReadFull(cl.c.BR, make([]byte, n)); err != nil {
		return fmt.Errorf("echo read: %w", err)
	}
	return <-errc
}

func (rr *roundRun) connect(cl *cli, hostport string, auth bool) (*rig.Msg, error) {
	req := "CONNECT " + hostport + " HTTP/1.1\r\nHost: " + hostport + "\r\n"
	if auth {
		req += authHeader
	}
	if err := cl.c.Send([]byte(req+"\r\n"), nil); err != nil {
		return nil, err
	}
	return cl.c.ReadResponse("CONNECT", ioTimeout)
}

func (rr *roundRun) trustPool() *x509.CertPool {
	pool := rr.w.ca.Pool()
	pool.AddCert(rr.proxy.CACert())
	return pool
}

// runExchange runs one exchange on cl; it reports whether the connection can carry another one.
func (rr *roundRun) runExchange(cl *cli, x *xspec) (alive bool) {
	if dialKinds[x.Kind] {
		return rr.dialExchange(cl, x)
	}
	switch x.Kind {
	case "ok", "status", "chunked", "auth407", "deny403", "loop400", "refused", "reset-head", "reset-body", "timeout", "viaup":
		return rr.simple(cl, x)

	case "connect-ok", "connect-viaok":
		hp := "tunnel.test:443"
		if x.Kind == "connect-viaok" {
			hp = "viaok.test:443"
		} else {
			rr.addPlan(planFor(x, rr.insecure))
		}
		m, err := rr.connect(cl, hp, true)
		if m == nil || m.Status == 0 {
			rr.add(xres{Kind: x.Kind, Path: pathAtom("connectTunnel/writeError", "CONNECT", 200, true), Method: "CONNECT", Failed: fmt.Sprintf("no response: %v", err)})
			return false
		}
		if m.Status != 200 {
			rr.add(xres{Kind: x.Kind, Path: pathAtom("connectDialFailure", "CONNECT", m.Status, false), Method: "CONNECT", Status: m.Status, Failed: "tunnel not established"})
			return false
		}
		r := xres{Kind: x.Kind, Path: pathAtom("connectTunnel/closed", "CONNECT", 200, false), Method: "CONNECT", Status: 200}
		if err := echoRound(cl, x.Size); err != nil {
			r.Failed = err.Error()
		}
		endTunnel(cl, x.End)
		rr.add(r)
		return false

	case "connect-dialfail", "connect-denied", "connect-auth407", "connect-reject":
		hp, kind, auth := "refused.test:443", "connectDialFailure", true
		switch x.Kind {
		case "connect-dialfail":
			rr.dialErrs.Add(1)
			rr.addPlan(planFor(x, rr.insecure))
		case "connect-denied":
			hp, kind = "denied.test:443", "connectRefused"
		case "connect-auth407":
			hp, kind, auth = "tunnel.test:443", "connectRefused", false
		case "connect-reject":
			hp, kind = fmt.Sprintf("reject%d.test:443", x.Status), "connectRejected"
		}
		m, err := rr.connect(cl, hp, auth)
		if m == nil || m.Status == 0 {
			rr.add(xres{Kind: x.Kind, Path: pathAtom(kind, "CONNECT", 0, true), Method: "CONNECT", Failed: fmt.Sprintf("no response: %v", err)})
			return false
		}
		rr.add(xres{Kind: x.Kind, Path: pathAtom(kind, "CONNECT", m.Status, false), Method: "CONNECT", Status: m.Status})
		if m.Status/100 == 1 || m.Status/100 == 2 {
			return false // not a refusal the client can continue after
		}
		return err == nil && m.Complete && !connClose(m)

	case "mitm", "mitm-abort", "f12-mitm":
		host := "mitm.test"
		if x.Kind == "f12-mitm" {
			host = fmt.Sprintf("reject%d-mitm.test", x.Status)
		}
		m, err := rr.connect(cl, host+":443", true)
		if m == nil || m.Status != 200 {
			st := 0
			if m != nil {
				st = m.Status
			}
			rr.add(xres{Kind: x.Kind, Path: pathAtom("mitmWriteError", "CONNECT", 200, true), Method: "CONNECT", Status: st, Failed: fmt.Sprintf("mitm CONNECT not answered with 200: %v", err)})
			return false
		}
		rr.add(xres{Kind: x.Kind, Path: pathAtom("mitmHandoff", "CONNECT", 200, false), Method: "CONNECT", Status: 200})
		if x.Kind == "mitm-abort" {
			cl.c.Abort()
			return false
		}
		if _, err := cl.c.StartTLS(host, rr.trustPool(), false); err != nil {
			rr.add(xres{Kind: x.Kind + "/tls", Path: pathAtom("readError", "GET", 0, false), Failed: err.Error()})
			return false
		}
		in := &cli{c: cl.c, inner: true, host: host}
		if x.Kind == "f12-mitm" {
			rr.f12(in, "/x", host, x)
			cl.c.Close()
			return false
		}
		ok := true
		for i := range x.Inner {
			if !ok {
				break
			}
			ok = rr.runExchange(in, &x.Inner[i])
		}
		if ok {
			cl.c.Close()
		}
		return false

	case "f12-plain":
		host := fmt.Sprintf("reject%d.test", x.Status)
		return rr.f12(cl, "https://"+host+"/x", host, x)

	case "upgrade":
		v := upgradeReqOf(x.Req)
		path, kind := "/upgrade", "upgrade/"
		if x.End == "origin" {
			path = fmt.Sprintf("/upgrade?end=origin&n=%d", x.Size)
		}
		if v.closes {
			kind = "upgrade/reqclose/" // the model's path carries the request's close flag
		}
		target, host := cl.target("origin.test", path)
		var fields []string
		for _, c := range v.conn {
			fields = append(fields, "Connection: "+c)
		}
		cl.c.Send(requestProto(v.proto, "GET", target, host, true, append(fields, "Upgrade: websocket"), nil, false), nil)
		m, err := cl.c.ReadResponse("GET", ioTimeout)
		if m == nil || m.Status == 0 {
			rr.add(xres{Kind: x.Kind, Path: pathAtom(kind+"writeError", "GET", 101, true), Method: "GET", Failed: fmt.Sprintf("no response: %v", err)})
			return false
		}
		if m.Status != 101 {
			rr.add(xres{Kind: x.Kind, Path: pathAtom("response", "GET", m.Status, false), Method: "GET", Status: m.Status, Failed: "no protocol switch"})
			return false
		}
		r := xres{Kind: x.Kind, Path: pathAtom(kind+"closed", "GET", 101, false), Method: "GET", Status: 101}
		if err := echoRound(cl, x.Size); err != nil {
			r.Failed = err.Error()
		}
		if x.End == "origin" {
			// the origin has closed after its echo: the proxy relays the end of its stream, the client follows
			cl.c.Conn.SetReadDeadline(time.Now().Add(ioTimeout))
			if n, err := io.Copy(io.Discard, cl.c.BR); (err != nil || n != 0) && r.Failed == "" {
				r.Failed = fmt.Sprintf("the origin closed the tunnel after its echo; the client then read %d more bytes and %v instead of end-of-stream", n, err)
			}
			cl.c.Close()
		} else {
			endTunnel(cl, x.End)
		}
		rr.add(r)
		return false

	case "connect-write-error", "upgrade-write-error":
		id, ch, release := rr.w.newHold()
		var r xres
		if x.Kind == "connect-write-error" {
			cl.c.Send([]byte("CONNECT viahold.test:443 HTTP/1.1\r\nHost: viahold.test:443\r\n"+authHeader+"Case-Id: "+id+"\r\n\r\n"), nil)
			r = xres{Kind: x.Kind, Path: pathAtom("connectTunnel/writeError", "CONNECT", 200, true), Method: "CONNECT"}
		} else {
			target, host := cl.target("origin.test", "/upgrade-hold")
			cl.c.Send(request("GET", target, host, true, []string{"Connection: Upgrade", "Upgrade: websocket", "Case-Id: " + id}, nil, false), nil)
			r = xres{Kind: x.Kind, Path: pathAtom("upgrade/writeError", "GET", 101, true), Method: "GET"}
		}
		select {
		case <-ch:
		case <-time.After(ioTimeout):
			r.Failed = "request never reached the peer"
		}
		cl.c.Abort()
		release()
		rr.add(r)
		return false

	case "abort-upload":
		id, ch := rr.w.newID()
		total := x.Body
		sent := total / 8
		var b bytes.Buffer
		fmt.Fprintf(&b, "POST http://slow.test/up HTTP/1.1\r\nHost: slow.test\r\n%sCase-Id: %s\r\nContent-Length: %d\r\n\r\n", authHeader, id, total)
		b.Write(bytes.Repeat([]byte{'u'}, sent))
		cl.c.Conn.SetWriteDeadline(time.Now().Add(ioTimeout))
		cl.c.Send(b.Bytes(), nil)
		r := xres{Kind: x.Kind, Path: pathAtom("roundTripError", "POST", 0, true), Method: "POST"}
		select {
		case <-ch:
		case <-time.After(ioTimeout):
			r.Failed = "request head never reached the origin"
		}
		endAbort(cl, x.End)
		rr.add(r)
		return false

	case "abort-download":
		target, host := cl.target("origin.test", fmt.Sprintf("/big?n=%d", x.Size))
		cl.c.Send(request("GET", target, host, true, nil, nil, false), nil)
		br := cl.c.BR
		cl.c.Conn.SetReadDeadline(time.Now().Add(ioTimeout))
		st, err := readHeadOnly(br)
		if err != nil {
			rr.add(xres{Kind: x.Kind, Path: pathAtom("response", "GET", 0, true), Method: "GET", Failed: "no response head: " + err.Error()})
			return false
		}
		io.ReadFull(br, make([]byte, 32<<10))
		endAbort(cl, x.End)
		rr.add(xres{Kind: x.Kind, Path: pathAtom("response", "GET", st, true), Method: "GET", Status: st})
		return false

	case "write-error":
		id, ch := rr.w.newID()
		target, host := cl.target("origin.test", "/notify")
		cl.c.Send(request("GET", target, host, true, []string{"Case-Id: " + id}, nil, false), nil)
		r := xres{Kind: x.Kind, Path: pathAtom("response", "GET", 0, true), Method: "GET"}
		select {
		case <-ch:
		case <-time.After(ioTimeout):
			r.Failed = "request never reached the origin"
		}
		endAbort(cl, x.End)
		rr.add(r)
		return false

	case "eof":
		if x.Size > 0 {
			cl.c.Send([]byte("GET http://origin.test/ok HT")[:min(x.Size, 28)], nil)
		}
		endAbort(cl, x.End)
		rr.add(xres{Kind: x.Kind, Path: pathAtom("readError", "GET", 0, false)})
		return false

	case "garbage":
		cl.c.Send([]byte("\x16\x03NOT-HTTP at all\r\n\r\n"), nil)
		cl.c.ExpectClosed(ioTimeout)
		cl.c.Close()
		rr.add(xres{Kind: x.Kind, Path: pathAtom("readError", "GET", 0, false)})
		return false
	}
	core.Fatalf("C13: unknown exchange kind %q", x.Kind)
	return false
}

func endAbort(cl *cli, how string) {
	if how == "rst" {
		cl.c.Abort()
	} else {
		cl.c.Close()
	}
}

// readHeadOnly reads a response head and returns the status code.
func readHeadOnly(br *bufio.Reader) (int, error) {
	line, err := br.ReadString('\n')
	if err != nil {
		return 0, err
	}
	parts := strings.SplitN(strings.TrimRight(line, "\r\n"), " ", 3)
	if len(parts) < 2 {
		return 0, fmt.Errorf("malformed status line %q", line)
	}
	st, err := strconv.Atoi(parts[1])
	if err != nil {
		return 0, err
	}
	for {
		l, err := br.ReadString('\n')
		if err != nil {
			return st, err
		}
		if l == "\r\n" || l == "\n" {
			return st, nil
		}
	}
}

// f12 sends a request whose CONNECT the upstream proxy rejects inside the proxy's transport (the
// path of the repaired F12): the rejection is relayed as the answer to this request, so it is
// reported under the request's method and the connection goes on as the client asked.
func (rr *roundRun) f12(cl *cli, target, host string, x *xspec) (alive bool) {
	method := x.Method
	if method == "" {
		method = "GET"
	}
	var body []byte
	if method == "POST" || method == "PUT" {
		body = bytes.Repeat([]byte{'q'}, x.Body)
	}
	cl.c.Send(request(method, target, host, true, nil, body, false), nil)
	m, err := cl.c.ReadResponse(method, ioTimeout)
	if m == nil || m.Status == 0 {
		rr.add(xres{Kind: x.Kind, Path: pathAtom("transportConnectRejected", method, 0, true), Method: method, Failed: fmt.Sprintf("no response: %v", err)})
		return false
	}
	r := xres{Kind: x.Kind, Path: pathAtom("transportConnectRejected", method, m.Status, false), Method: method, Status: m.Status, Note: m.Proto}
	if m.Proto != "HTTP/1.1" {
		r.Failed = "status line with protocol " + m.Proto + " in answer to an HTTP/1.1 request"
	}
	rr.add(r)
	if m.Status/100 == 1 {
		return false
	}
	return err == nil && m.Complete && !connClose(m)
}

func (rr *roundRun) runConn(cs *connSpec) {
	var cl *cli
	defer func() {
		if cl != nil {
			cl.c.Close()
		}
	}()
	for i := range cs.Exchanges {
		x := &cs.Exchanges[i]
		if cl == nil {
			var err error
			if cl, err = rr.dial(); err != nil {
				rr.add(xres{Kind: x.Kind, Path: pathAtom("readError", "GET", 0, false), Failed: "dial proxy: " + err.Error()})
				return
			}
		}
		if !rr.runExchange(cl, x) {
			cl.c.Close()
			cl = nil
		}
	}
}

// learnTag sends a probe and reads this proxy instance's Via tag from what the origin received.
func (rr *roundRun) learnTag() error {
	cl, err := rr.dial()
	if err != nil {
		return err
	}
	defer cl.c.Close()
	before := len(rr.w.origin.Log())
	x := xspec{Kind: "ok", Method: "GET", Size: 1}
	rr.simple(cl, &x)
	for _, ex := range rr.w.origin.Log()[before:] {
		if ex.Req != nil {
			for _, v := range ex.Req.Values("Via") {
				if i := strings.LastIndex(v, " "); i >= 0 {
					rr.tag = v[i+1:]
				}
			}
		}
	}
	if rr.tag == "" {
		return fmt.Errorf("no Via tag seen by the origin")
	}
	return nil
}

func needsTag(rc *roundCase) bool {
	for _, c := range rc.Conns {
		for _, x := range c.Exchanges {
			if x.Kind == "loop400" {
				return true
			}
		}
	}
	return false
}

type roundReport struct {
	Results    []xres    `json:"results"`
	Expected   string    `json:"model_counters"`
	Observed   *snapshot `json:"observed"`
	Dials      int       `json:"client_connections"`
	PeerAcc    int       `json:"peer_accepts"`
	DialErrs   int       `json:"expected_dial_errors"`
	DialOK     int       `json:"proxy_dials_ok"`
	DialFailed int       `json:"proxy_dials_failed"`
	Settled    bool      `json:"settled"`
	WaitedMS   int       `json:"waited_ms"`

	// the dial-then-fail accounting (dialfail.go)
	Plans      []*dialPlan      `json:"connect_exits,omitempty"`
	DialModel  *dialExpectation `json:"model_dials,omitempty"`
	DialOKBy   map[string]int   `json:"proxy_dials_ok_by_name,omitempty"`
	DialFailBy map[string]int   `json:"proxy_dials_failed_by_name,omitempty"`
	PeersBegun int              `json:"watching_peers_connections"`
	PeersEnded int              `json:"watching_peers_saw_the_end"`
}

// runRound runs the round on a fresh proxy and checks the registry at the quiescent point.
func runRound(ctx *core.Ctx, w *world, rc *roundCase) {
	key, _ := json.Marshal(rc)
	cls := knownClass(rc)
	nontrivial := false
	for _, c := range rc.Conns {
		for _, x := range c.Exchanges {
			ctx.Count("kind/" + x.Kind)
			if x.Kind == "status" && x.Status == 101 {
				ctx.Count("regression/f42-101-not-a-switch")
			}
			if x.Kind == "upgrade" && x.Req != "" {
				lab := "keeps"
				if upgradeReqOf(x.Req).closes {
					lab = "asks-to-close"
				}
				ctx.Count(fmt.Sprintf("regression/f52-upgrade-request-%s/%s/handler=%v", lab, x.Req, rc.Handler))
			}
			if x.Kind == "upgrade" {
				ctx.Count("upgrade-tunnel-ended-by/" + x.End)
			}
			if sh := connect101(&x); sh != "" {
				ctx.Count(fmt.Sprintf("regression/f40-connect-answered-101/%s/handler=%v", sh, rc.Handler))
			}
			if x.Kind != "ok" || len(c.Exchanges) > 1 {
				nontrivial = true
			}
			for _, in := range x.Inner {
				ctx.Count("kind/mitm-inner/" + in.Kind)
			}
		}
	}
	ctx.Count(fmt.Sprintf("connections/%d", len(rc.Conns)))
	ctx.Count(fmt.Sprintf("server/handler=%v", rc.Handler))
	ctx.Count(fmt.Sprintf("tls-client/insecure=%v", rc.Insecure))
	ctx.Case(string(key), nontrivial || len(rc.Conns) > 1)

	reg := prometheus.NewRegistry()
	dc := &dialCount{}
	ws := &watchStats{}
	w.watch.Store(ws)
	proxy, err := w.startProxy(reg, rc.Handler, rc.Insecure, dc)
	if err != nil {
		ctx.Crash("proxy starts with a valid configuration", "", rc, err.Error())
		return
	}
	defer proxy.Stop()
	rr := &roundRun{w: w, proxy: proxy, insecure: rc.Insecure}
	accBefore := w.accepts()
	if needsTag(rc) {
		if err := rr.learnTag(); err != nil {
			ctx.Crash("probe request is forwarded", "", rc, err.Error())
			return
		}
	}
	var wg sync.WaitGroup
	for i := range rc.Conns {
		wg.Add(1)
		go func(cs *connSpec) {
			defer wg.Done()
			rr.runConn(cs)
		}(&rc.Conns[i])
	}
	done := make(chan struct{})
	go func() { wg.Wait(); close(done) }()
	select {
	case <-done:
	case <-time.After(4 * ioTimeout):
		ctx.Crash("every exchange of the round ends", cls, rc, "client scripts still running after 80 s")
		return
	}

	// the model's counters for what happened
	var atoms []string
	seen := map[string]int{}   // "<code>.<METHOD>" as the clients saw
	unseen := map[string]int{} // METHOD -> requests read whose status no client saw
	requests := 0
	var failed []string
	for _, r := range rr.results {
		atoms = append(atoms, r.Path)
		if r.Method != "" {
			requests++
			if r.Status != 0 {
				seen[fmt.Sprintf("%d.%s", r.Status, r.Method)]++
			} else {
				unseen[r.Method]++
			}
		}
		if r.Failed != "" {
			ctx.Count("exchange-not-as-scripted/" + r.Kind)
			failed = append(failed, r.Kind+": "+r.Failed)
		}
	}
	ans := ctx.Model.MustAsk("C13", "expect", core.JoinList2(atoms))
	mReq, mInfl, mTot := parseCounters(ans)

	// wait for the quiescent point: the registry has reached what the model says and the
	// connection gauges are back; bounded
	rep := &roundReport{Results: rr.results, Expected: ans, Dials: int(rr.dials.Load()), DialErrs: int(rr.dialErrs.Load())}
	// the model's dial events of the CONNECT exits that were taken
	for _, p := range rr.plans {
		if p.Model == "" {
			ctx.Count("dial-below-the-transport/" + p.Kind)
		} else {
			ctx.Count("connect-exit/" + p.Model)
		}
	}
	dexp := expectDials(ctx, rr.plans)
	rep.Plans, rep.DialModel = rr.plans, dexp
	start := time.Now()
	var snap *snapshot
	minGauge := 0
	okStreak := 0
	for {
		proxy.RT.CloseIdleConnections()
		snap, err = gather(reg, promNS)
		if err != nil {
			core.Fatalf("gather: %v", err)
		}
		if snap.MinGauge < minGauge {
			minGauge = snap.MinGauge
		}
		rep.PeerAcc = int(w.accepts() - accBefore)
		rep.DialOK, rep.DialFailed = int(dc.ok.Load()), int(dc.failed.Load())
		rep.PeersBegun, rep.PeersEnded = int(ws.begun.Load()), int(ws.ended.Load())
		if countersMatch(snap, mInfl, mTot) && snap.LActive == 0 && snap.DActive == 0 && snap.LAccepted == rep.Dials &&
			snap.DDialed == rep.DialOK && snap.DErrors == rep.DialFailed && rep.DialOK <= rep.PeerAcc &&
			rep.PeersBegun == dexp.Watched && rep.PeersEnded == rep.PeersBegun {
			okStreak++
			if okStreak >= 3 {
				rep.Settled = true
				break
			}
		} else {
			okStreak = 0
		}
		if time.Since(start) > 12*time.Second {
			break
		}
		time.Sleep(15 * time.Millisecond)
	}
	snap.MinGauge = minGauge
	rep.Observed = snap
	rep.WaitedMS = int(time.Since(start).Milliseconds())
	rep.DialOKBy, rep.DialFailBy = dc.byName()
	cs := map[string]any{"kind": "round", "handler": rc.Handler, "insecure": rc.Insecure, "conns": rc.Conns, "report": rep}
	impl := fmt.Sprintf("inflight=%s total=%s listener=%d/%d dialer=%d/%d errors=%d", encInflight(snap.Inflight), encTotal(snap.Total),
		snap.LAccepted, snap.LActive, snap.DDialed, snap.DActive, snap.DErrors)

	if len(failed) > 0 {
		ctx.Disagree("every exchange goes the way its kind is scripted (response arrives, tunnel echoes)", cs, strings.Join(failed, "; "), "as scripted")
	}
	// (1) correspondence: the registry is what the model computes for these paths
	if !countersMatch(snap, mInfl, mTot) {
		ctx.Disagree("registry counters = fold of the model's events over the round's paths", cs, impl, ans)
	} else {
		ctx.TraceValidated()
	}
	if mReq != requests {
		core.Fatalf("C13: model counts %d requests, harness %d", mReq, requests)
	}

	// (2) the property's clauses on what the implementation did
	verdict := ctx.Model.MustAsk("C13", "holds", strconv.Itoa(requests), encInflight(snap.Inflight), encTotal(snap.Total))
	if verdict != "true" {
		ctx.SpecFail("at a quiescent point every in-flight series is 0 and the request counter has grown by one per request read", cls, cs, impl, verdict)
	}
	if d := seenMismatch(snap.Total, seen, unseen); d != "" {
		ctx.SpecFail("every request is counted once under its own method and the status the client was sent", cls, cs, impl, d)
	}
	if snap.MinGauge < 0 {
		ctx.SpecFail("no gauge is ever negative", cls, cs, impl, fmt.Sprintf("minimum gauge value seen %d", snap.MinGauge))
	}
	if snap.LActive != 0 || snap.DActive != 0 {
		ctx.SpecFail("active-connection gauges return to 0 when all connections are gone", "", cs, impl,
			fmt.Sprintf("listener_cx_active=%d dialer_cx_active=%d", snap.LActive, snap.DActive))
	}
	if snap.LAccepted != rep.Dials || snap.LErrors != 0 {
		ctx.SpecFail("every accepted connection is counted once", "", cs, impl,
			fmt.Sprintf("listener_cx_total=%d listener_errors_total=%d, clients made %d connections", snap.LAccepted, snap.LErrors, rep.Dials))
	}
	// a dial the transport abandons (CloseIdleConnections cancels dials nobody waits for) can fail
	// after the peer's kernel accepted it, so the exact reference is what the dial function returned;
	// the scripted peers and the refused targets bound it from outside
	if snap.DDialed != rep.DialOK || snap.DErrors != rep.DialFailed || rep.DialOK > rep.PeerAcc || rep.DialFailed < rep.DialErrs {
		ctx.SpecFail("every dialled connection is counted once, every failed dial as an error", "", cs, impl,
			fmt.Sprintf("dialer_cx_total=%d, dials that succeeded %d (peers accepted %d); dialer_errors_total=%d, dials that failed %d (dials to the refusing port %d)",
				snap.DDialed, rep.DialOK, rep.PeerAcc, snap.DErrors, rep.DialFailed, rep.DialErrs))
	}
	// the dialled connections of the CONNECT path: what the dial function was asked for is what the model's
	// exits dial, per target …
	if d := dialMismatch(dexp, rep.DialOKBy, rep.DialFailBy); d != "" {
		ctx.Disagree("dials per target of the round's CONNECT exchanges = the model's `opened` / failed-dial events of these exits", cs, d, fmt.Sprintf("%+v", *dexp))
	} else if len(rr.plans) > 0 {
		ctx.TraceValidated()
	}
	if len(dexp.Leaks) > 0 {
		core.Fatalf("C13: the model leaves the dialer gauge up after %v in the code's order", dexp.Leaks)
	}
	// … every one of them counted as closed (model form of the clause: active = dialled - closed, all closed) …
	if dv := ctx.Model.MustAsk("C13", "holdsconns", strconv.Itoa(snap.DDialed), strconv.Itoa(rep.DialOK), strconv.Itoa(snap.DActive)); dv != "true" {
		ctx.SpecFail("every dialled connection is counted as closed exactly once when the exchange that dialled it is over, however it ended: dialer_cx_active = dialled - closed = 0", "", cs, impl,
			fmt.Sprintf("%s; CONNECT exits of the round: %s", dv, planList(rr.plans)))
	}
	// … and really closed: the peer that waits for the proxy's end of the connection has seen it
	switch {
	case rep.PeersEnded < rep.PeersBegun:
		ctx.SpecFail("the peer of every dialled connection sees the proxy's end of it (FIN or reset) once the exchange is over: no dialled connection is left open", "", cs, impl,
			fmt.Sprintf("%d connections reached peers that wait for the proxy to close, %d of them were closed %d ms after the last exchange; CONNECT exits of the round: %s",
				rep.PeersBegun, rep.PeersEnded, rep.WaitedMS, planList(rr.plans)))
	case rep.PeersBegun != dexp.Watched:
		ctx.Disagree("connections reaching the watching peers = the dials the round's exchanges are scripted to make", cs, strconv.Itoa(rep.PeersBegun), strconv.Itoa(dexp.Watched))
	}
	// model side of the connection clause
	hv := ctx.Model.MustAsk("C13", "holdsconns", strconv.Itoa(snap.LAccepted), strconv.Itoa(rep.Dials), strconv.Itoa(snap.LActive))
	if hv != "true" && snap.LActive == 0 && snap.LAccepted == rep.Dials {
		core.Fatalf("C13: holdsconns inconsistent: %s", hv)
	}
}

func countersMatch(s *snapshot, mInfl, mTot map[string]int) bool {
	for k, v := range mInfl {
		if s.Inflight[k] != v {
			return false
		}
	}
	for k, v := range s.Inflight {
		if mInfl[k] != v {
			return false
		}
	}
	// totals: keys with status 0 are requests whose status no client saw: wildcard per method
	wild := map[string]int{}
	exact := map[string]int{}
	for k, v := range mTot {
		code, m, _ := strings.Cut(k, ".")
		if code == "0" {
			wild[m] += v
		} else {
			exact[k] = v
		}
	}
	extra := map[string]int{}
	for k, v := range s.Total {
		_, m, _ := strings.Cut(k, ".")
		d := v - exact[k]
		if d < 0 {
			return false
		}
		extra[m] += d
	}
	for k, v := range exact {
		if s.Total[k] < v {
			return false
		}
	}
	for m, v := range extra {
		if wild[m] != v {
			return false
		}
	}
	for m, v := range wild {
		if extra[m] != v {
			return false
		}
	}
	return true
}

// seenMismatch compares the counter family with what the clients saw (per method × status), the
// requests whose status nobody saw being allowed under any status of their method.
func seenMismatch(total, seen, unseen map[string]int) string {
	extra := map[string]int{}
	for k, v := range total {
		_, m, _ := strings.Cut(k, ".")
		if v < seen[k] {
			return fmt.Sprintf("series %s = %d, clients saw %d such responses", k, v, seen[k])
		}
		extra[m] += v - seen[k]
	}
	for k, v := range seen {
		if total[k] < v {
			return fmt.Sprintf("series %s = %d, clients saw %d such responses", k, total[k], v)
		}
	}
	for m, v := range extra {
		if unseen[m] != v {
			return fmt.Sprintf("method %s: %d completions beyond what clients saw, %d requests had no visible status", m, v, unseen[m])
		}
	}
	for m, v := range unseen {
		if extra[m] != v {
			return fmt.Sprintf("method %s: %d completions beyond what clients saw, %d requests had no visible status", m, extra[m], v)
		}
	}
	return ""
}
