package c13

import (
	"crypto/tls"
	"crypto/x509"
	"encoding/json"
	"errors"
	"fmt"
	"io"
	"net"
	"os"
	"strconv"
	"strings"
	"sync"
	"time"

	"github.com/prometheus/client_golang/prometheus"
	"github.com/saucelabs/forwarder"
	"github.com/saucelabs/forwarder/verifharness/core"
	"github.com/saucelabs/forwarder/verifharness/rig"
)

// pre.go: accepted connections of the REAL proxy that end before their first request, on every listener
// stacking command/run can configure (plain, HTTPS, PROXY protocol, both, each with and without a rate
// limit and traffic tracking): the client goes away (FIN, RST) or stalls right after the accept, in the
// middle of or after the PROXY header, in the middle of or after the TLS handshake; the PROXY header is
// not one; the TLS handshake fails in every way a handshake can fail (a plain-text request on the TLS
// port, random bytes, a truncated ClientHello, a ClientHello followed by FIN or RST, no common protocol
// version, no common cipher suite, the client rejecting the certificate with an alert, the handshake
// time-out) — many of them at once, interleaved with good exchanges. Judged by the conservation clauses:
// every accepted connection is counted closed exactly once (listener_cx_active back at 0, listener_cx_total =
// connections made), the proxy really closes the socket (a client that keeps its end open sees EOF or a
// reset within a bound), the request counters move for the good exchanges only; the listener's metrics are
// compared with the life-cycle automaton of Model/C13Life.lean run over one interleaving of the same history.

type preCase struct {
	Kind        string   `json:"kind"`  // "pre-request"
	Stack       string   `json:"stack"` // plain | tls | proxy | proxy+tls | … (stackKinds)
	Track       bool     `json:"track_traffic"`
	HandshakeMS int      `json:"tls_handshake_timeout_ms"`
	HeaderMS    int      `json:"proxy_header_timeout_ms"`
	IdleMS      int      `json:"idle_timeout_ms"`
	Clients     []string `json:"clients"`
	Seed        uint64   `json:"seed"` // start stagger, garbage, truncation points, the model's interleaving
}

// prePlan: where in the life-cycle a client kind ends its connection, for the model.
type prePlan struct {
	layer   string // proxy | tls | serving: the phase that fails ("first" = the first phase of the stack)
	timeout bool   // ended by the layer's timer (else by the peer)
	served  int    // exchanges served before (good clients)
	self    bool   // the client closes / resets its socket itself: the proxy's close cannot be observed
	needs   string // layer the stack must have ("" = any)
}

var prePlans = map[string]prePlan{
	"good":           {layer: "serving", served: 1},
	"good-keepalive": {layer: "serving", served: 1, self: true},
	"close-at-once":  {layer: "first", self: true},
	"rst-at-once":    {layer: "first", self: true},
	"silent":         {layer: "first", timeout: true},

	"pp-garbage":       {layer: "proxy", needs: "proxy"},
	"pp-partial-fin":   {layer: "proxy", needs: "proxy"},
	"pp-partial-rst":   {layer: "proxy", self: true, needs: "proxy"},
	"pp-partial-stall": {layer: "proxy", timeout: true, needs: "proxy"},
	"hdr-close":        {layer: "after-proxy", self: true, needs: "proxy"},
	"hdr-rst":          {layer: "after-proxy", self: true, needs: "proxy"},
	"hdr-silent":       {layer: "after-proxy", timeout: true, needs: "proxy"},

	"tls-plaintext":       {layer: "tls", needs: "tls"},
	"tls-garbage":         {layer: "tls", needs: "tls"},
	"tls-truncated-fin":   {layer: "tls", needs: "tls"},
	"tls-truncated-stall": {layer: "tls", timeout: true, needs: "tls"},
	"tls-hello-fin":       {layer: "tls", needs: "tls"},
	"tls-hello-rst":       {layer: "tls", self: true, needs: "tls"},
	"tls-version-low":     {layer: "tls", needs: "tls"},
	"tls-no-cipher":       {layer: "tls", needs: "tls"},
	"tls-unknown-ca":      {layer: "tls", needs: "tls"},
	"tls-done-close":      {layer: "serving", self: true, needs: "tls"},
	"tls-done-rst":        {layer: "serving", self: true, needs: "tls"},
	"tls-done-silent":     {layer: "serving", timeout: true, needs: "tls"},
}

// prePhases: the phases of a stack after `accepted`, in order.
func prePhases(stack string) []string {
	var ph []string
	if hasLayer(stack, "proxy") {
		ph = append(ph, "proxy")
	}
	if hasLayer(stack, "tls") {
		ph = append(ph, "tls")
	}
	return append(ph, "serving")
}

// failIndex: index in prePhases(stack) of the phase in which a client of this kind ends.
func (pl prePlan) failIndex(stack string) int {
	ph := prePhases(stack)
	switch pl.layer {
	case "first":
		return 0
	case "after-proxy":
		return 1 // stacks with a PROXY layer only
	}
	for i, p := range ph {
		if p == pl.layer {
			return i
		}
	}
	return len(ph) - 1
}

type preObs struct {
	Client   int    `json:"client"`
	Kind     string `json:"kind"`
	Closed   bool   `json:"closed_by_proxy"`       // the client saw EOF or a reset (meaningful when it kept its end open)
	How      string `json:"end_seen,omitempty"`    // eof | reset | still-open | self
	WaitedMS int64  `json:"waited_ms,omitempty"`   // how long the client waited for the proxy's close
	Status   string `json:"status_line,omitempty"` // good exchanges
	Err      string `json:"err,omitempty"`         // the scripted course did not happen
}

var (
	preHelloOnce sync.Once
	preHello     []byte
)

// clientHelloBytes: the first record a stock TLS client sends.
func clientHelloBytes() []byte {
	preHelloOnce.Do(func() {
		a, b := net.Pipe()
		defer a.Close()
		defer b.Close()
		go tls.Client(a, &tls.Config{InsecureSkipVerify: true, ServerName: "localhost"}).Handshake()
		b.SetReadDeadline(time.Now().Add(5 * time.Second))
		hdr := make([]byte, 5)
		if _, err := io.ReadFull(b, hdr); err != nil {
			return
		}
		body := make([]byte, int(hdr[3])<<8|int(hdr[4]))
		if _, err := io.ReadFull(b, body); err != nil {
			return
		}
		preHello = append(hdr, body...)
	})
	return preHello
}

// waitClosed reads (and discards) whatever the proxy still sends until the stream ends: EOF or a reset =
// the proxy closed its end; a read that times out = the socket is still open.
func waitClosed(c net.Conn, bound time.Duration) (closed bool, how string, waited time.Duration) {
	start := time.Now()
	c.SetReadDeadline(start.Add(bound))
	_, err := io.Copy(io.Discard, c)
	waited = time.Since(start)
	var ne net.Error
	switch {
	case err == nil:
		return true, "eof", waited
	case errors.Is(err, os.ErrDeadlineExceeded) || (errors.As(err, &ne) && ne.Timeout()):
		return false, "still-open", waited
	default:
		return true, "reset", waited
	}
}

func halfCloseTCP(p *peerEnd) {
	if p.tcp != nil {
		p.tcp.CloseWrite()
	}
}

// runPreClient plays one client against the proxy at addr.
func runPreClient(pc *preCase, i int, addr string, r *core.Rand) preObs {
	kind := pc.Clients[i]
	pl := prePlans[kind]
	o := preObs{Client: i, Kind: kind}
	time.Sleep(time.Duration(r.Intn(30)) * time.Millisecond)
	c, err := net.DialTimeout("tcp", addr, 5*time.Second)
	if err != nil {
		o.Err = "dial: " + err.Error()
		return o
	}
	p := newPeerEnd(c)
	defer p.raw.Close()
	p.raw.SetDeadline(time.Now().Add(ioTimeout))
	bound := 4 * time.Second
	if pl.timeout {
		bound += time.Duration(max(pc.HandshakeMS, pc.HeaderMS, pc.IdleMS)) * time.Millisecond
	}
	wait := func(rc net.Conn) {
		closed, how, waited := waitClosed(rc, bound)
		o.Closed, o.How, o.WaitedMS = closed, how, waited.Milliseconds()
	}
	self := func() { o.How = "self" }
	proxyL, tlsL := hasLayer(pc.Stack, "proxy"), hasLayer(pc.Stack, "tls")
	sendHeader := func() {
		if proxyL {
			io.WriteString(p.raw, proxyV1Header)
		}
	}
	handshake := func(cfg *tls.Config) (*tls.Conn, error) {
		tc := tls.Client(p.raw, cfg)
		return tc, tc.Handshake()
	}
	okCfg := &tls.Config{InsecureSkipVerify: true, ServerName: "localhost"}

	switch kind {
	case "close-at-once":
		p.raw.Close()
		self()
	case "rst-at-once":
		p.abort()
		self()
	case "silent":
		wait(p.raw)

	case "pp-garbage":
		p.raw.Write(garbage(r, 40+r.Intn(200), 'G'))
		wait(p.raw)
	case "pp-partial-fin", "pp-partial-rst", "pp-partial-stall":
		io.WriteString(p.raw, proxyV1Header[:1+r.Intn(len(proxyV1Header)-2)])
		switch kind {
		case "pp-partial-fin":
			halfCloseTCP(p)
			wait(p.raw)
		case "pp-partial-rst":
			p.abort()
			self()
		default:
			wait(p.raw)
		}
	case "hdr-close":
		sendHeader()
		p.raw.Close()
		self()
	case "hdr-rst":
		sendHeader()
		p.abort()
		self()
	case "hdr-silent":
		sendHeader()
		wait(p.raw)

	case "tls-plaintext":
		sendHeader()
		io.WriteString(p.raw, "GET http://origin.test/plain HTTP/1.1\r\nHost: origin.test\r\n\r\n")
		wait(p.raw)
	case "tls-garbage":
		sendHeader()
		if r.Chance(50) {
			b := garbage(r, 64+r.Intn(500), 0)
			b[0] |= 0x80 // not a TLS record type
			p.raw.Write(b)
		} else { // a well-formed record carrying a ClientHello that is not one
			body := garbage(r, 40+r.Intn(300), 1)
			body[1], body[2], body[3] = 0, byte((len(body)-4)>>8), byte(len(body)-4)
			p.raw.Write(append([]byte{0x16, 0x03, 0x01, byte(len(body) >> 8), byte(len(body))}, body...))
		}
		wait(p.raw)
	case "tls-truncated-fin", "tls-truncated-stall", "tls-hello-fin", "tls-hello-rst":
		sendHeader()
		hello := clientHelloBytes()
		if len(hello) < 10 {
			o.Err = "no ClientHello to send"
			return o
		}
		switch kind {
		case "tls-truncated-fin":
			p.raw.Write(hello[:1+r.Intn(len(hello)-2)])
			halfCloseTCP(p)
			wait(p.raw)
		case "tls-truncated-stall":
			p.raw.Write(hello[:1+r.Intn(len(hello)-2)])
			wait(p.raw)
		case "tls-hello-fin":
			p.raw.Write(hello)
			halfCloseTCP(p)
			wait(p.raw)
		default:
			p.raw.Write(hello)
			p.abort()
			self()
		}
	case "tls-version-low", "tls-no-cipher", "tls-unknown-ca":
		sendHeader()
		var cfg *tls.Config
		switch kind {
		case "tls-version-low":
			cfg = &tls.Config{InsecureSkipVerify: true, ServerName: "localhost", MinVersion: tls.VersionTLS10, MaxVersion: tls.VersionTLS11}
		case "tls-no-cipher":
			cfg = &tls.Config{InsecureSkipVerify: true, ServerName: "localhost", MaxVersion: tls.VersionTLS12,
				CipherSuites: []uint16{tls.TLS_ECDHE_ECDSA_WITH_CHACHA20_POLY1305_SHA256, tls.TLS_ECDHE_RSA_WITH_CHACHA20_POLY1305_SHA256}}
		default:
			cfg = &tls.Config{RootCAs: x509.NewCertPool(), ServerName: "localhost"} // trusts nobody: answers the certificate with an alert
		}
		if _, err := handshake(cfg); err == nil {
			o.Err = "the handshake that was to fail succeeded"
			return o
		}
		wait(p.raw) // the client keeps its socket open
	case "tls-done-close", "tls-done-rst", "tls-done-silent":
		sendHeader()
		tc, err := handshake(okCfg)
		if err != nil {
			o.Err = "handshake: " + err.Error()
			return o
		}
		switch kind {
		case "tls-done-close":
			tc.Close()
			self()
		case "tls-done-rst":
			p.abort()
			self()
		default:
			wait(p.raw)
		}

	case "good", "good-keepalive":
		sendHeader()
		var rc net.Conn = p.raw
		if tlsL {
			tc, err := handshake(okCfg)
			if err != nil {
				o.Err = "handshake: " + err.Error()
				return o
			}
			rc = tc
		}
		closeOpt := ""
		if kind == "good" {
			closeOpt = "Connection: close\r\n"
		}
		fmt.Fprintf(rc, "GET http://origin.test/c%d HTTP/1.1\r\nHost: origin.test\r\n%s\r\n", i, closeOpt)
		head, err := readHead(rc)
		o.Status = strings.SplitN(head, "\r\n", 2)[0]
		if err != nil || !strings.HasPrefix(o.Status, "HTTP/1.1 200") {
			o.Err = fmt.Sprintf("exchange: status %q err %v", o.Status, err)
			return o
		}
		if _, err := io.CopyN(io.Discard, rc, preBodyLen); err != nil {
			o.Err = "body: " + err.Error()
			return o
		}
		if kind == "good" {
			wait(rc)
		} else {
			rc.Close()
			self()
		}
	default:
		o.Err = "unknown client kind"
	}
	return o
}

const preBodyLen = 2000

func garbage(r *core.Rand, n int, first byte) []byte {
	b := make([]byte, n)
	for i := range b {
		b[i] = byte(r.Intn(256))
	}
	if first != 0 {
		b[0] = first
	}
	return b
}

func runPre(ctx *core.Ctx, pc *preCase) {
	key, _ := json.Marshal(pc)
	ctx.Case(string(key), true)
	ctx.Count("pre-request/" + pc.Stack)
	defer func() {
		if r := recover(); r != nil {
			ctx.Crash("the proxy survives connections that end before their first request", "", pc, fmt.Sprint(r))
		}
	}()
	for _, k := range pc.Clients {
		pl, ok := prePlans[k]
		if !ok || (pl.needs != "" && !hasLayer(pc.Stack, pl.needs)) {
			core.Fatalf("C13: pre-request case: client kind %q on stack %q", k, pc.Stack)
		}
		ctx.Count("pre-request/client/" + k)
	}

	// ---- the origin ----
	tl, err := net.Listen("tcp", "127.0.0.1:0")
	if err != nil {
		core.Fatalf("C13: origin listener: %v", err)
	}
	defer tl.Close()
	var twg sync.WaitGroup
	go func() {
		for {
			c, err := tl.Accept()
			if err != nil {
				return
			}
			twg.Add(1)
			go func() {
				defer twg.Done()
				defer c.Close()
				c.SetDeadline(time.Now().Add(ioTimeout))
				body := strings.Repeat("b", preBodyLen)
				for {
					if _, err := readHead(c); err != nil {
						return
					}
					fmt.Fprintf(c, "HTTP/1.1 200 OK\r\nContent-Length: %d\r\n\r\n%s", preBodyLen, body)
				}
			}()
		}
	}()

	// ---- the proxy ----
	reg := prometheus.NewRegistry()
	opts := rig.ProxyOpts{
		ConnectTo: []forwarder.HostPortPair{rig.Route("origin.test", "80", tl.Addr().String())},
		Transport: func(tc *forwarder.HTTPTransportConfig) {
			tc.PromRegistry = reg
			tc.PromNamespace = promNS
		},
		Configure: func(cfg *forwarder.HTTPProxyConfig) {
			cfg.Name = "fwdverif"
			cfg.PromRegistry = reg
			cfg.PromNamespace = promNS
			cfg.TrackTraffic = pc.Track
			cfg.IdleTimeout = time.Duration(pc.IdleMS) * time.Millisecond
			cfg.TLSServerConfig.HandshakeTimeout = time.Duration(pc.HandshakeMS) * time.Millisecond
			if hasLayer(pc.Stack, "tls") {
				cfg.Protocol = forwarder.HTTPSScheme // no certificate configured: self-signed
			}
			if hasLayer(pc.Stack, "proxy") {
				cfg.ProxyProtocolConfig = &forwarder.ProxyProtocolConfig{ReadHeaderTimeout: time.Duration(pc.HeaderMS) * time.Millisecond}
			}
			if hasLayer(pc.Stack, "ratelimit") {
				cfg.ReadLimit, cfg.WriteLimit = 1<<30, 1<<30
			}
		},
	}
	proxy, err := rig.StartProxy(opts)
	if err != nil {
		ctx.Crash("proxy starts with a valid configuration", "", pc, err.Error())
		return
	}
	defer proxy.Stop()

	// ---- the clients, all at once ----
	r := core.NewRand(pc.Seed)
	obs := make([]preObs, len(pc.Clients))
	var cwg sync.WaitGroup
	for i := range pc.Clients {
		cr := r.Sub()
		cwg.Add(1)
		go func(i int) {
			defer cwg.Done()
			obs[i] = runPreClient(pc, i, proxy.Addr, cr)
		}(i)
	}
	cwg.Wait()

	// ---- quiescent point ----
	n := len(pc.Clients)
	var snap *snapshot
	minGauge := 0
	start := time.Now()
	for {
		proxy.RT.CloseIdleConnections()
		snap, err = gather(reg, promNS)
		if err != nil {
			core.Fatalf("gather: %v", err)
		}
		if snap.MinGauge < minGauge {
			minGauge = snap.MinGauge
		}
		if (snap.LActive == 0 && snap.DActive == 0 && snap.LAccepted == n) || time.Since(start) > 4*time.Second {
			break
		}
		time.Sleep(10 * time.Millisecond)
	}
	snap.MinGauge = minGauge

	// ---- the model: one interleaving of the same history on the life-cycle automaton ----
	nGood := 0
	steps := make([][]string, n)
	for i, k := range pc.Clients {
		pl := prePlans[k]
		nGood += pl.served
		for j := 0; j <= pl.failIndex(pc.Stack)+pl.served; j++ {
			steps[i] = append(steps[i], fmt.Sprintf("%d.ok", i))
		}
		if pl.timeout {
			steps[i] = append(steps[i], fmt.Sprintf("%d.ft", i))
		} else {
			steps[i] = append(steps[i], fmt.Sprintf("%d.fp", i))
		}
	}
	ops := interleaveLife(r.Sub(), steps)
	ans := ctx.Model.MustAsk("C13", "life", "code", core.B01(hasLayer(pc.Stack, "proxy")), core.B01(hasLayer(pc.Stack, "tls")), core.JoinList(ops))
	m := kvInts(ans)

	stillOpen := 0
	var failed, open []string
	for _, o := range obs {
		pl := prePlans[o.Kind]
		if o.Err != "" {
			failed = append(failed, fmt.Sprintf("client %d (%s): %s", o.Client, o.Kind, o.Err))
			continue
		}
		if !pl.self && !o.Closed {
			stillOpen++
			open = append(open, fmt.Sprintf("client %d (%s) after %d ms", o.Client, o.Kind, o.WaitedMS))
		}
	}
	total := 0
	for _, v := range snap.Total {
		total += v
	}
	inflight := 0
	for _, v := range snap.Inflight {
		if v != 0 {
			inflight++
		}
	}
	cs := map[string]any{"kind": "pre-request", "stack": pc.Stack, "track_traffic": pc.Track, "tls_handshake_timeout_ms": pc.HandshakeMS,
		"proxy_header_timeout_ms": pc.HeaderMS, "idle_timeout_ms": pc.IdleMS, "clients": pc.Clients, "seed": pc.Seed, "observed": snap, "connections": obs}
	impl := fmt.Sprintf("listener total=%d active=%d errors=%d | sockets the clients still see open=%d | requests=%d | dialer active=%d",
		snap.LAccepted, snap.LActive, snap.LErrors, stillOpen, total, snap.DActive)

	if len(failed) > 0 {
		ctx.Disagree("clients of the proxy's listener go the way they are scripted (good exchanges answered 200, handshakes that are to fail fail)", cs,
			strings.Join(failed, "; "), "as scripted")
		return
	}
	if snap.LAccepted != m["accepted"] || snap.LActive != m["active"] || snap.LErrors != m["errors"] || stillOpen != m["open"] {
		ctx.Disagree("listener metrics and open sockets = the life-cycle automaton's state after the same accepts and phase outcomes", cs, impl, ans)
	} else {
		ctx.TraceValidated()
	}

	// ---- the property's clauses ----
	hv := ctx.Model.MustAsk("C13", "holdsconns", strconv.Itoa(snap.LAccepted), strconv.Itoa(n), strconv.Itoa(snap.LActive))
	if hv != "true" || snap.LAccepted != n {
		ctx.SpecFail("every accepted connection is counted as closed exactly once — also one that ends before its first request (after the accept, in or after the PROXY header, in or after the TLS handshake; ended by the client or by the proxy's timers): active = accepted - closed = 0",
			"", cs, impl, fmt.Sprintf("%s listener, clients %s: %s", pc.Stack, strings.Join(pc.Clients, ","), hv))
	}
	if stillOpen > 0 {
		ctx.SpecFail("the proxy closes the socket of every accepted connection it gives up (the client sees EOF or a reset within the bound)", "", cs, impl,
			"still open at the client: "+strings.Join(open, "; "))
	}
	if snap.MinGauge < 0 {
		ctx.SpecFail("no gauge is ever negative", "", cs, impl, fmt.Sprintf("minimum gauge value seen %d", snap.MinGauge))
	}
	if snap.LErrors != 0 || snap.DActive != 0 {
		ctx.SpecFail("a connection that ends before its first request moves no error counter and leaves no dialled connection behind", "", cs, impl,
			fmt.Sprintf("listener_errors_total=%d dialer_cx_active=%d", snap.LErrors, snap.DActive))
	}
	if total != nGood || inflight != 0 {
		ctx.SpecFail("the request counter moves by one per request read and the in-flight gauge returns to 0: connections that end before their first request count no request", "", cs, impl,
			fmt.Sprintf("http_requests_total=%d for %d good exchanges, %d in-flight series not 0", total, nGood, inflight))
	}
}

// interleaveLife merges the per-connection step lists in a random order; connection i is accepted ("a")
// before its first step, accepts in index order (the automaton numbers connections by accept).
func interleaveLife(r *core.Rand, steps [][]string) []string {
	var ops []string
	next := 0 // next connection to accept
	pos := make([]int, len(steps))
	for {
		var ready []int
		for i := 0; i < next; i++ {
			if pos[i] < len(steps[i]) {
				ready = append(ready, i)
			}
		}
		if next == len(steps) && len(ready) == 0 {
			return ops
		}
		if next < len(steps) && (len(ready) == 0 || r.Chance(40)) {
			ops = append(ops, "a")
			next++
			continue
		}
		i := core.Pick(r, ready)
		ops = append(ops, steps[i][pos[i]])
		pos[i]++
	}
}

func genPre(r *core.Rand) *preCase {
	pc := &preCase{Kind: "pre-request", Stack: core.Pick(r, stackKinds), Track: r.Chance(60), Seed: r.U64()}
	if r.Chance(35) {
		pc.Stack = core.Pick(r, []string{"tls", "proxy+tls", "ratelimit+tls"}) // the stacks with the most phases
	}
	var peer, timed []string
	for k, pl := range prePlans {
		if pl.needs != "" && !hasLayer(pc.Stack, pl.needs) {
			continue
		}
		switch {
		case pl.served > 0: // picked separately
		case pl.timeout:
			timed = append(timed, k)
		default:
			peer = append(peer, k)
		}
	}
	sortStrings(peer)
	sortStrings(timed)
	// timers: short ones only in cases that wait for one (good clients then race nothing that matters: they
	// send at once); the product's defaults otherwise
	pc.HandshakeMS, pc.HeaderMS, pc.IdleMS = 10000, 5000, 10000
	withTimers := r.Chance(45)
	if withTimers {
		pc.HandshakeMS, pc.HeaderMS, pc.IdleMS = core.Pick(r, []int{500, 800}), core.Pick(r, []int{300, 500}), core.Pick(r, []int{600, 900})
	}
	for i, n := 0, r.Range(3, 10); i < n; i++ {
		switch {
		case withTimers && r.Chance(30):
			pc.Clients = append(pc.Clients, core.Pick(r, timed))
		case r.Chance(25):
			pc.Clients = append(pc.Clients, core.Pick(r, []string{"good", "good-keepalive"}))
		default:
			pc.Clients = append(pc.Clients, core.Pick(r, peer))
		}
	}
	return pc
}

func sortStrings(s []string) {
	for i := 1; i < len(s); i++ {
		for j := i; j > 0 && s[j] < s[j-1]; j-- {
			s[j], s[j-1] = s[j-1], s[j]
		}
	}
}
