package c19

import (
	"crypto/sha256"
	"encoding/binary"
	"encoding/hex"
	"encoding/pem"
	"fmt"
	"net"
	"os"
	"path/filepath"
	"regexp"
	"strings"
	"sync"
	"time"

	"github.com/saucelabs/forwarder/verifharness/core"
)

// Failing start-ups (case kind "startfail"): a configuration as in the serving cases, with one thing
// in it that lets the secret-bearing values pass the syntax checks they pass today and makes the
// start-up fail later.  Everything the process writes before it exits - stdout, stderr, the log file,
// /dev/termination-log - is searched for the secrets, and compared between two secret assignments.

var startFaults = []string{
	// key material that decodes but does not fit
	"tls-pair-mismatch", // the key of another pair
	"tls-key-not-pem",   // DER, PEM body without armour, the certificate, a PRIVATE KEY block of junk, text
	"tls-cert-not-pem",
	"tls-key-bad-base64",
	"mitm-pair-mismatch",
	"mitm-key-not-pem",
	"mitm-cert-not-pem",
	"cacert-not-pem", // one --cacert-file entry without a PEM certificate in it
	// a PAC script that decodes but does not compile; PAC together with an upstream proxy
	"pac-unparsable",
	"pac-and-proxy",
	// values whose user:password part is fine and whose rest the flag's parser rejects
	"proxy-bad-port", "proxy-bad-host", "proxy-bad-scheme",
	"cred-bad-host", "cred-bad-port",
	"basic-auth-no-user", "api-basic-auth-no-user",
	// accepted one by one, rejected together
	"cred-duplicate",
	// nothing wrong with the values: the proxy port is taken
	"listen-in-use",
	// the textual form of one inline data: value is one the decoder refuses (layoutsRejected: TABs, blanks,
	// URL alphabet, no padding, percent-encoding, a media type, ...); twice, for its weight in the draw
	"inline-layout-rejected", "inline-layout-rejected",
	// one value looks like an inline value but is no data: URI (white space or "./" in front, another scheme):
	// a file name by definition, outside the property (layoutsFileName)
	"inline-unrecognised",
}

// inlineFaultKey names the inline value an inline-* fault sits in.
func inlineFaultKey(c *Case) string {
	if c.StartFault != "inline-layout-rejected" && c.StartFault != "inline-unrecognised" {
		return ""
	}
	ks := c.inlineKeys()
	if len(ks) == 0 {
		return ""
	}
	return ks[c.FaultIndex%len(ks)]
}

// rejectedFlag names the secret-bearing flag whose value the flag parser rejects ("" if the start-up
// fails later than flag parsing).
func rejectedFlag(c *Case) string {
	switch {
	case strings.HasPrefix(c.StartFault, "proxy-bad-"):
		return "proxy"
	case strings.HasPrefix(c.StartFault, "cred-bad-"):
		return "credentials"
	case c.StartFault == "basic-auth-no-user":
		return "basic-auth"
	case c.StartFault == "api-basic-auth-no-user":
		return "api-basic-auth"
	}
	return ""
}

func startFaultNote(c *Case) string {
	if c.Kind != "startfail" {
		return ""
	}
	return fmt.Sprintf("; start-up fails by design of the case: %s (variant %d, entry %d)", c.StartFault, c.FaultVariant, c.FaultIndex)
}

func genFailCase(r *core.Rand, i int) *Case {
	c := genConfig(r, i)
	c.Kind, c.ID = "startfail", "f"+c.ID
	c.Stall, c.UpstreamTLS = false, false
	c.StartFault = core.Pick(r, startFaults)
	c.FaultVariant = r.Intn(60)
	data := func() string { return core.Pick(r, []string{"data", "data-base64"}) }
	switch c.StartFault {
	case "tls-pair-mismatch", "tls-key-not-pem", "tls-key-bad-base64":
		c.TLSCert, c.TLSKey = genFileStyle(r), data()
	case "tls-cert-not-pem":
		c.TLSCert, c.TLSKey = data(), genFileStyle(r)
	case "mitm-pair-mismatch", "mitm-key-not-pem", "mitm-cert-not-pem":
		c.MITM = data()
	case "cacert-not-pem":
		if len(c.CACerts) == 0 {
			c.CACerts = append(c.CACerts, data())
		}
		c.FaultIndex = r.Intn(len(c.CACerts))
		c.CACerts[c.FaultIndex] = data()
	case "pac-unparsable":
		c.Upstream, c.UpstreamUser = "none", nil
	case "pac-and-proxy", "proxy-bad-port", "proxy-bad-host", "proxy-bad-scheme":
		c.Upstream, c.UpstreamUser = "userinfo", genUser(r, false, 100)
	case "cred-bad-host", "cred-bad-port", "cred-duplicate":
		if len(c.Creds) == 0 {
			c.Creds = append(c.Creds, CredSpec{User: *genUser(r, true, 100), Target: "origin", Pattern: "exact"})
		}
		c.FaultIndex = r.Intn(len(c.Creds))
		c.Creds[c.FaultIndex].User.HasPass = true
		if c.StartFault == "cred-duplicate" {
			dup := c.Creds[c.FaultIndex]
			dup.User = *genUser(r, true, 100)
			c.Creds = append(c.Creds, dup)
			c.FaultIndex = len(c.Creds) - 1
		}
	case "basic-auth-no-user":
		c.BasicAuth = &UserPub{User: "", HasPass: true}
	case "api-basic-auth-no-user":
		c.APIBasicAuth = &UserPub{User: "", HasPass: true}
	case "inline-layout-rejected", "inline-unrecognised":
		// make sure there is an inline value, then put the fault into one of them
		switch r.Intn(3) {
		case 0:
			c.TLSCert, c.TLSKey = core.Pick(r, []string{"path", "data", "data-base64"}), data()
		case 1:
			c.MITM = data()
		default:
			c.CACerts = append(c.CACerts, data())
		}
		c.FaultIndex = r.Intn(8)
	}
	if c.Upstream != "userinfo" {
		c.UpstreamUser = nil
	}
	genLayouts(r, c) // the styles changed
	switch c.StartFault {
	case "tls-key-bad-base64":
		delete(c.Layouts, "tls-key-file") // spoil rewrites the value where it is written
	case "inline-layout-rejected":
		c.Layouts = withLayout(c.Layouts, inlineFaultKey(c), core.Pick(r, layoutsRejected))
	case "inline-unrecognised":
		c.Layouts = withLayout(c.Layouts, inlineFaultKey(c), core.Pick(r, layoutsFileName))
	}
	genSecrets(r, c)
	return c
}

func withLayout(m map[string]string, k, layout string) map[string]string {
	if m == nil {
		m = map[string]string{}
	}
	m[k] = layout
	return m
}

// faultyProxyHost is the host:port part of the --proxy value.
func faultyProxyHost(c *Case, addr string) string {
	h, port := hostPort(addr)
	switch c.StartFault {
	case "proxy-bad-port":
		port = []string{"99999", "0", "80x", "-1"}[c.FaultVariant%4]
	case "proxy-bad-host":
		h = []string{"bad_host!", "exa mple.com", "-x-.example"}[c.FaultVariant%3]
	}
	return h + ":" + port
}

// faultyPair is the key pair behind --tls-*-file (which = "tls") or --mitm-ca*-file ("mitm").
func faultyPair(c *Case, k int, which string, seed uint64, ca bool) (cert, key []byte) {
	cert, key = keyPair(seed, ca)
	if c.KeyAlg == "rsa4096" {
		cert, key = rsaPair(k, seed, ca)
	}
	switch c.StartFault {
	case which + "-pair-mismatch":
		_, key = keyPair(seed^0x9e3779b97f4a7c15, ca)
		if c.KeyAlg == "rsa4096" {
			_, key = rsaPair(1-k, seed, ca)
		}
	case which + "-key-not-pem":
		key = notPEM(key, cert, c.FaultVariant, seed)
	case which + "-cert-not-pem":
		cert = notPEM(cert, key, c.FaultVariant, seed)
	case which + "-key-bad-base64":
		// handled where the value is written: see spoilBase64
	}
	return cert, key
}

// notPEM turns a PEM file into something a user could plausibly supply instead and that the
// decoder of the flag accepts (valid base64) while the consumer does not.
func notPEM(own, other []byte, variant int, seed uint64) []byte {
	blk, _ := pem.Decode(own)
	switch variant % 5 {
	case 0: // DER instead of PEM
		return blk.Bytes
	case 1: // the armour lines lost
		var keep []string
		for _, l := range strings.Split(string(own), "\n") {
			if !strings.HasPrefix(l, "-----") {
				keep = append(keep, l)
			}
		}
		return []byte(strings.Join(keep, "\n"))
	case 2: // the other file of the pair
		return other
	case 3: // a block of the right type holding junk
		var junk []byte
		var sb [8]byte
		binary.LittleEndian.PutUint64(sb[:], seed)
		h := sha256.Sum256(sb[:])
		for i := 0; i < 4; i++ {
			junk = append(junk, h[:]...)
			h = sha256.Sum256(h[:])
		}
		return pem.EncodeToMemory(&pem.Block{Type: blk.Type, Bytes: junk})
	default: // something else entirely
		var sb [8]byte
		binary.LittleEndian.PutUint64(sb[:], seed)
		h := sha256.Sum256(append([]byte("text"), sb[:]...))
		return []byte("# key material goes here\napi_token = " + hex.EncodeToString(h[:]) + hex.EncodeToString(h[:16]) + "\n")
	}
}

// spoilBase64 makes the payload of a data: value undecodable while keeping most of it.
func spoilBase64(raw string, variant int) string {
	i := strings.LastIndexAny(raw, ":,") + 1 + (len(raw)-strings.LastIndexAny(raw, ":,")-1)*(1+variant%3)/4
	return raw[:i] + "!" + raw[i:]
}

// failObservation is everything one failing start-up emitted.
type failObservation struct {
	Args    []string
	Log     string // stdout + log file
	Stderr  string
	TermLog string
	Exit    string // "exit N" | "still running after …" | "signal …"
	Dir     string
	Port    string // the occupied port of listen-in-use
}

func (o *failObservation) channels() []channelText {
	return []channelText{
		{"startup-log", o.Log, true},
		{"stderr", o.Stderr, true},
		{"termination-log", o.TermLog, true},
	}
}

// failDeadline bounds a failing start-up.
const failDeadline = 12 * time.Second

func runFail(ctx *core.Ctx, c *Case, k int) (*failObservation, *plan) {
	g := getRig()
	termLogSetup(ctx)
	dir := filepath.Join(workDir(ctx), fmt.Sprintf("%s-%d", c.ID, k))
	os.MkdirAll(dir, 0o755)
	defer os.RemoveAll(dir)

	paddr, aaddr := "127.0.0.1:0", "127.0.0.1:0"
	o := &failObservation{Dir: dir}
	if c.StartFault == "listen-in-use" {
		ln, err := net.Listen("tcp4", "127.0.0.1:0")
		if err != nil {
			core.Fatalf("C19: no free loopback port: %v", err)
		}
		defer ln.Close()
		paddr = ln.Addr().String()
		_, o.Port = hostPort(paddr)
	}
	p := assemble(c, k, endpoints{Origin: g.originAddr, Upstream: g.upstreamAddr}, dir, paddr, aaddr)
	if c.StartFault == "tls-key-bad-base64" {
		spoil(p, c, "tls-key-file")
	}
	for name, content := range p.Files {
		if err := os.WriteFile(filepath.Join(dir, name), content, 0o600); err != nil {
			core.Fatalf("C19: %v", err)
		}
	}
	o.Args = p.Args
	for attempt := 0; ; attempt++ {
		var stdout, stderr syncBuf
		tl := filepath.Join(dir, "termination-log")
		cmd := termLogCommand(fwdBinary(ctx), p.Args, tl)
		cmd.Env = p.Env
		cmd.Dir = dir
		cmd.Stdout, cmd.Stderr = &stdout, &stderr
		if err := cmd.Start(); err != nil {
			core.Fatalf("C19: cannot start the binary: %v", err)
		}
		exited := make(chan error, 1)
		go func() { exited <- cmd.Wait() }()
		select {
		case err := <-exited:
			o.Exit = "exit 0"
			if err != nil {
				o.Exit = err.Error()
			}
		case <-time.After(failDeadline):
			cmd.Process.Kill()
			<-exited
			o.Exit = fmt.Sprintf("still running after %s", failDeadline)
		}
		o.Stderr = stderr.String()
		if isolationBroke(o.Stderr) && attempt == 0 {
			// the private mount did not work for this child: run it on the shared file
			termLog.isolated.Store(false)
			ctx.Count("termination-log/isolation-lost")
			continue
		}
		o.Log = stdout.String()
		if c.LogTo == "file" {
			b, _ := os.ReadFile(filepath.Join(dir, "forwarder.log"))
			o.Log += string(b)
		}
		o.TermLog = termLogRead(tl)
		return o, p
	}
}

// spoil rewrites the raw value of a data: flag in an assembled plan (arguments, environment and
// config file are rebuilt by re-running the distribution step on the changed setting).
func spoil(p *plan, c *Case, flag string) {
	for i, st := range p.Settings {
		if st.Flag != flag || len(st.Raws) != 1 || !strings.HasPrefix(st.Raws[0], "data:") {
			continue
		}
		old := st.Raws[0]
		bad := spoilBase64(old, c.FaultVariant)
		p.Settings[i].Raws[0] = bad
		for j, a := range p.Args {
			if a == old {
				p.Args[j] = bad
			}
		}
		for j, e := range p.Env {
			if strings.HasSuffix(e, "="+old) {
				p.Env[j] = strings.TrimSuffix(e, old) + bad
			}
		}
		for name, content := range p.Files {
			if strings.HasPrefix(name, "config.") {
				p.Files[name] = []byte(strings.ReplaceAll(string(content), old, bad))
			}
		}
		for j, it := range p.Secrets {
			if it.Flag == flag {
				p.Secrets[j].Secret = strings.TrimPrefix(strings.TrimPrefix(bad, "data:"), "base64,")
			}
		}
	}
}

// checkFailCase runs one failing start-up with both secret assignments, searches the output for
// the secrets, compares the renderings the model has (rejected flag value, CA certificate error)
// and diffs the two runs.
func checkFailCase(ctx *core.Ctx, c *Case) {
	var obs [2]*failObservation
	var plans [2]*plan
	var wg sync.WaitGroup
	for k := 0; k < 2; k++ {
		wg.Add(1)
		go func(k int) {
			defer wg.Done()
			obs[k], plans[k] = runFail(ctx, c, k)
		}(k)
	}
	wg.Wait()

	failed := true
	for k := 0; k < 2; k++ {
		o, p := obs[k], plans[k]
		if os.Getenv("C19_DUMP") != "" {
			fmt.Fprintf(os.Stderr, "=== startfail %s run %d fault=%s/%d/%d %s\nargs: %q\nenv: %q\n--- log\n%s--- stderr\n%s\n--- termination-log\n%s\n",
				c.ID, k, c.StartFault, c.FaultVariant, c.FaultIndex, o.Exit, o.Args, p.Env, o.Log, o.Stderr, o.TermLog)
		}
		scanChannels(ctx, c, k, o.channels(), p)
		switch {
		case strings.HasPrefix(o.Exit, "still running"):
			// the configuration was accepted after all: nothing failed, nothing to say about C19
			failed = false
			ctx.Count("startfail-outcome/" + c.StartFault + "=served")
		case o.Exit == "exit status 1":
			ctx.Count("startfail-outcome/" + c.StartFault + "=exit-1")
		default:
			failed = false
			ctx.Crash("a start-up that fails ends with exit status 1", "", c,
				o.Exit+"\nstderr: "+short(tail(o.Stderr, 800), 900)+"\nlog: "+short(tail(o.Log, 800), 900))
		}
		if failed {
			compareFailModel(ctx, c, k, o, p)
		}
	}
	if failed && c.StartFault != "listen-in-use" {
		diffFailRuns(ctx, c, obs[0], obs[1], plans[0], plans[1])
	}

	nsec := len(plans[0].Secrets)
	ctx.Case(c.key(), failed && nsec > 0)
	ctx.Count("startfail/" + c.StartFault)
	countLayouts(ctx, c, plans[0])
	ctx.Count("startfail-log-level/" + c.Level)
	ctx.Count("startfail-log-format/" + c.Format)
	ctx.Count("startfail-log-to/" + c.LogTo)
	if f := rejectedFlag(c); f != "" {
		src := sourceOf(c, f)
		if src == "file" {
			src += ":" + c.ConfigFmt
		}
		ctx.Count("startfail-rejected-flag/" + f + "/" + src)
	}
	for _, flag := range []string{"tls-key-file", "mitm-cakey-file", "cacert-file"} {
		for _, st := range plans[0].Settings {
			if st.Flag == flag && strings.HasPrefix(c.StartFault, strings.SplitN(flag, "-", 2)[0]) {
				ctx.Count("startfail-key-material/" + flag + "/" + c.Source[flag])
			}
		}
	}
}

// compareFailModel ties the two error texts that render a flag value, and the debug record
// "loading TLS certificate" where the start-up got that far, to the model.
func compareFailModel(ctx *core.Ctx, c *Case, k int, o *failObservation, p *plan) {
	set := map[string]setting{}
	for _, st := range p.Settings {
		set[st.Flag] = st
	}
	compareTLSLoad(ctx, c, parseRecords(c.Format, o.Log), p, false)
	if flag := rejectedFlag(c); flag != "" {
		st := set[flag]
		src := sourceOf(c, flag)
		var raws []string
		switch {
		case src == "flag" && st.Slice:
			raws = []string{csvField(st.Raws[c.FaultIndex])}
		case src == "env" && st.Slice:
			vs := make([]string, len(st.Raws))
			for i, v := range st.Raws {
				vs[i] = csvField(v)
			}
			raws = []string{strings.Join(vs, ",")}
		default:
			raws = st.Raws
		}
		ans := ctx.Model.MustAsk("C19", "flagerr", src, flag, core.HexList(raws))
		want := ""
		if strings.HasPrefix(ans, "ok ") {
			want = string(core.MustUnHex(strings.TrimPrefix(ans, "ok ")))
		}
		if want == "" || !strings.Contains(o.Stderr, want) {
			ctx.Disagree("stderr of a start-up with a rejected --"+flag+" value has Model.C19.invalidArgText", c, short(o.Stderr, 500), ans+" = "+want)
		} else {
			ctx.TraceValidated()
		}
	}
	if key := inlineFaultKey(c); key != "" {
		// the error of ReadFileOrBase64 for the faulted value = Model.C19.readFileOrBase64 (error text built
		// from a fixed message or from the decoder's offset, never from the value); the decoder's outcome
		// is the standard library's, taken independently of the tree
		flag, idx := key, 0
		if strings.HasPrefix(key, "cacert-file/") {
			flag = "cacert-file"
			fmt.Sscanf(key, "cacert-file/%d", &idx)
		}
		if raw := faultedRaw(p, key); raw != "" {
			kind, off := inlineOutcome(raw)
			ctx.Count("inline-fault/" + c.layoutOf(flag, idx) + "=" + kind)
			if kind == "corrupt" || kind == "format" {
				ans := ctx.Model.MustAsk("C19", "inlineerr", core.HexS(raw), fmt.Sprint(off))
				want := ""
				if strings.HasPrefix(ans, "err ") {
					want = string(core.MustUnHex(strings.TrimPrefix(ans, "err ")))
				}
				got := ""
				for _, r := range parseRecords(c.Format, o.Log) {
					if r.Msg == "fatal error exiting" {
						got = r.Attrs["error"]
					}
				}
				// an earlier value of the same start-up may fail first (both values of a pair carry a fault in
				// no generated case; the wrappers "load certificate: ", "mitm: ...", "load CAs: " are not modelled)
				if want == "" || !strings.HasSuffix(got, want) {
					ctx.Disagree("error of the 'fatal error exiting' record for an inline value the decoder refuses ends with Model.C19.readFileOrBase64's error text", c, short(got, 300), ans+" = "+want)
				} else {
					ctx.TraceValidated()
				}
			}
		}
	}
	if c.StartFault == "cacert-not-pem" {
		raw := set["cacert-file"].Raws[c.FaultIndex]
		ans := ctx.Model.MustAsk("C19", "cacerterr", core.HexS(raw))
		want := string(core.MustUnHex(strings.TrimPrefix(ans, "ok ")))
		got := ""
		for _, r := range parseRecords(c.Format, o.Log) {
			if r.Msg == "fatal error exiting" {
				got = r.Attrs["error"]
			}
		}
		if !strings.HasPrefix(ans, "ok ") || got != want {
			ctx.Disagree("error of the 'fatal error exiting' record for a --cacert-file value without certificate = Model.C19.caCertErrorText", c, short(got, 300), short(want, 300))
		} else {
			ctx.TraceValidated()
		}
		if o.TermLog != "" && termLog.isolated.Load() && o.TermLog != want {
			ctx.Disagree("termination log of that start-up = Model.C19.caCertErrorText", c, short(o.TermLog, 300), short(want, 300))
		}
	}
}

var reInputByte = regexp.MustCompile(`input byte \d+`)

// faultedRaw is the raw value of the inline value named key ("" if the plan has none).
func faultedRaw(p *plan, key string) string {
	flag, idx := key, 0
	if strings.HasPrefix(key, "cacert-file/") {
		flag = "cacert-file"
		fmt.Sscanf(key, "cacert-file/%d", &idx)
	}
	for _, st := range p.Settings {
		if st.Flag == flag && idx < len(st.Raws) {
			return st.Raws[idx]
		}
	}
	return ""
}

// diffFailRuns compares the output of the two secret assignments line by line.
func diffFailRuns(ctx *core.Ctx, c *Case, oa, ob *failObservation, pa, pb *plan) {
	type pair struct{ name, a, b string }
	ps := []pair{
		{"startup-log", oa.Log, ob.Log},
		{"stderr", oa.Stderr, ob.Stderr},
	}
	if termLog.isolated.Load() {
		ps = append(ps, pair{"termination-log", oa.TermLog, ob.TermLog})
	}
	if key := inlineFaultKey(c); key != "" {
		// What the decoder makes of a refused layout is a function of the payload's length and characters
		// (a truncated payload may end on a quantum boundary and decode; the URL alphabet differs from the
		// standard one only where the payload has '+' or '/'): the two assignments are compared only if the
		// standard decoder treats both alike.
		ka, _ := inlineOutcome(faultedRaw(pa, key))
		kb, _ := inlineOutcome(faultedRaw(pb, key))
		if ka != kb {
			ctx.Count("inline-fault/decoder-outcome-differs-between-assignments")
			return
		}
	}
	// the offset of base64.CorruptInputError is a function of the payload's length (RSA keys of one size
	// differ by a few characters) and of where the case put the stray character: not part of the comparison
	for i := range ps {
		ps[i].a = reInputByte.ReplaceAllString(ps[i].a, "input byte <N>")
		ps[i].b = reInputByte.ReplaceAllString(ps[i].b, "input byte <N>")
	}
	for _, p := range ps {
		la := sortedLines(canonicalWith(p.a, oa.Dir, nil))
		lb := sortedLines(canonicalWith(p.b, ob.Dir, nil))
		onlyA, onlyB := diffLines(la, lb)
		byClass := map[string][2][]string{}
		for _, l := range onlyA {
			cl := leakClass(c, p.name, l, pa)
			e := byClass[cl]
			e[0] = append(e[0], l)
			byClass[cl] = e
		}
		for _, l := range onlyB {
			cl := leakClass(c, p.name, l, pb)
			e := byClass[cl]
			e[1] = append(e[1], l)
			byClass[cl] = e
		}
		for _, cl := range sortedKeys(byClass) {
			e := byClass[cl]
			x, y := "", ""
			if len(e[0]) > 0 {
				x = e[0][0]
			}
			if len(e[1]) > 0 {
				y = e[1][0]
			}
			specFail(ctx, "two failing start-ups that differ only in the secrets emit the same "+p.name, cl, c,
				"run 0: "+short(x, 400)+"\nrun 1: "+short(y, 400),
				fmt.Sprintf("after canonicalising timestamps, durations, ports, ids and the run directory the %s of the two runs differ in %d+%d lines%s", p.name, len(e[0]), len(e[1]), startFaultNote(c)))
		}
	}
}
