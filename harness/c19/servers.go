package c19

import (
	"bufio"
	"context"
	"crypto/tls"
	"io"
	"net"
	"net/http"
	"net/http/httputil"
	"strings"
	"sync"
	"time"
)

// rig is the scripted environment of one fwdcheck run, all on loopback: an origin that records the
// Authorization headers it receives, an upstream HTTP proxy (absolute-form requests and CONNECT)
// that records Proxy-Authorization, and a "dead" endpoint that reads the request head and closes without answering.
type rig struct {
	origin   *http.Server
	upstream *http.Server
	dead     net.Listener

	originAddr, upstreamAddr, deadAddr string
	frontCert                          tls.Certificate // presented by the per-run fault fronts (front.go)

	mu           sync.Mutex
	originAuth   map[string]int // Authorization header values seen by the origin
	upstreamAuth map[string]int // Proxy-Authorization header values seen by the upstream proxy
}

// originFailMark: a path segment the scripted origin answers 503 for.
const originFailMark = "site-out-of-service"

func (g *rig) sawOrigin(v string) bool {
	g.mu.Lock()
	defer g.mu.Unlock()
	return g.originAuth[v] > 0
}

// noteUpstream records credentials a scripted SOCKS5 proxy received (socksfront.go).
func (g *rig) noteUpstream(v string) {
	g.mu.Lock()
	g.upstreamAuth[v]++
	g.mu.Unlock()
}

func (g *rig) sawUpstream(v string) bool {
	g.mu.Lock()
	defer g.mu.Unlock()
	return g.upstreamAuth[v] > 0
}

func newRig() (*rig, error) {
	g := &rig{originAuth: map[string]int{}, upstreamAuth: map[string]int{}}
	certPEM, keyPEM := keyPair(0xc19f, false)
	fc, err := tls.X509KeyPair(certPEM, keyPEM)
	if err != nil {
		return nil, err
	}
	g.frontCert = fc

	ol, err := net.Listen("tcp4", "127.0.0.1:0")
	if err != nil {
		return nil, err
	}
	g.originAddr = ol.Addr().String()
	g.origin = &http.Server{Handler: http.HandlerFunc(func(w http.ResponseWriter, r *http.Request) {
		if a := r.Header.Get("Authorization"); a != "" {
			g.mu.Lock()
			g.originAuth[a]++
			g.mu.Unlock()
		}
		w.Header().Set("Content-Type", "text/plain")
		w.Header().Set("X-Origin", "c19")
		if strings.Contains(r.URL.Path, "/"+originFailMark) {
			// the site is broken for this path (history.go): any number of clients at once
			w.WriteHeader(http.StatusServiceUnavailable)
			io.WriteString(w, "origin out of service\n")
			return
		}
		io.WriteString(w, "origin ok\n")
	})}
	// no idle connections in the proxy's pool: every exchange of a run meets the fault armed for it
	g.origin.SetKeepAlivesEnabled(false)
	go g.origin.Serve(ol)

	dl, err := net.Listen("tcp4", "127.0.0.1:0")
	if err != nil {
		return nil, err
	}
	g.dead = dl
	g.deadAddr = dl.Addr().String()
	go func() {
		for {
			c, err := dl.Accept()
			if err != nil {
				return
			}
			// read the request head, then close without answering: the client sees a clean EOF
			go func(c net.Conn) {
				defer c.Close()
				c.SetDeadline(time.Now().Add(5 * time.Second))
				br := bufio.NewReader(c)
				for {
					line, err := br.ReadString('\n')
					if err != nil || line == "\r\n" || line == "\n" {
						return
					}
				}
			}(c)
		}
	}()

	ul, err := net.Listen("tcp4", "127.0.0.1:0")
	if err != nil {
		return nil, err
	}
	g.upstreamAddr = ul.Addr().String()
	fwd := &httputil.ReverseProxy{
		Director:  func(*http.Request) {},
		Transport: &http.Transport{Proxy: nil, DisableKeepAlives: true,
			// the names of the test domain (PAC cases) live on loopback
			DialContext: func(ctx context.Context, network, addr string) (net.Conn, error) {
				return (&net.Dialer{Timeout: 3 * time.Second}).DialContext(ctx, "tcp4", resolveTest(addr))
			}},
		ErrorHandler: func(w http.ResponseWriter, r *http.Request, err error) {
			w.WriteHeader(http.StatusBadGateway)
		},
	}
	g.upstream = &http.Server{Handler: http.HandlerFunc(func(w http.ResponseWriter, r *http.Request) {
		if a := r.Header.Get("Proxy-Authorization"); a != "" {
			g.mu.Lock()
			g.upstreamAuth[a]++
			g.mu.Unlock()
		}
		target := r.Host
		if r.Method == http.MethodConnect {
			target = r.RequestURI
		}
		if target == g.deadAddr {
			// the upstream drops the exchange: the proxy under test has to produce its own error response
			if hj, ok := w.(http.Hijacker); ok {
				if c, _, err := hj.Hijack(); err == nil {
					c.Close()
				}
			}
			return
		}
		if r.Method == http.MethodConnect {
			dst, err := net.DialTimeout("tcp4", resolveTest(target), 3*time.Second)
			if err != nil {
				w.WriteHeader(http.StatusBadGateway)
				return
			}
			hj, ok := w.(http.Hijacker)
			if !ok {
				dst.Close()
				return
			}
			c, buf, err := hj.Hijack()
			if err != nil {
				dst.Close()
				return
			}
			io.WriteString(c, "HTTP/1.1 200 OK\r\n\r\n")
			go func() {
				io.Copy(dst, buf)
				dst.(*net.TCPConn).CloseWrite()
			}()
			io.Copy(c, dst)
			c.Close()
			dst.Close()
			return
		}
		fwd.ServeHTTP(w, r)
	})}
	g.upstream.SetKeepAlivesEnabled(false)
	go g.upstream.Serve(ul)
	return g, nil
}

func (g *rig) close() {
	g.origin.Close()
	g.upstream.Close()
	g.dead.Close()
}
