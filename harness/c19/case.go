package c19

import (
	"bytes"
	"crypto/ed25519"
	"crypto/rand"
	"crypto/sha256"
	"crypto/x509"
	"crypto/x509/pkix"
	"encoding/base64"
	"encoding/binary"
	"encoding/csv"
	"encoding/json"
	"encoding/pem"
	"fmt"
	"math/big"
	"net"
	"strings"
	"time"

	"github.com/saucelabs/forwarder/verifharness/core"
)

// UserPub is the non-secret part of a user[:password] value.
type UserPub struct {
	User    string `json:"user"`
	HasPass bool   `json:"has_pass"`
}

// CredSpec is one --credentials entry: user[:password]@host:port, host/port possibly wildcards.
type CredSpec struct {
	User    UserPub `json:"user"`
	Target  string  `json:"target"`  // "origin" | "upstream" | "other"; with a PAC script: "pac-http" | "pac-socks5" (the scripted proxies) | "gateway" | "gateway2" (SOCKS/SOCKS4 gateways)
	Pattern string  `json:"pattern"` // "exact" | "any-host" (*:port) | "any-port" (host:*) | "global" (*:*)
}

// SecretSet is one assignment of the secret parts of a configuration.
type SecretSet struct {
	BasicAuth    string   `json:"basic_auth"`
	APIBasicAuth string   `json:"api_basic_auth"`
	Proxy        string   `json:"proxy"`
	Creds        []string `json:"creds"`
	TLSSeed      uint64   `json:"tls_seed"`  // key pair behind --tls-cert-file / --tls-key-file
	MITMSeed     uint64   `json:"mitm_seed"` // CA behind --mitm-cacert-file / --mitm-cakey-file
	CASeeds      []uint64 `json:"ca_seeds"`  // certificates behind --cacert-file
}

// Case is one configuration (public part), the forms it is supplied in, and two secret assignments.
type Case struct {
	Kind      string `json:"kind"` // "run"
	ID        string `json:"id"`
	Level     string `json:"log_level"`  // error | info | debug
	Format    string `json:"log_format"` // text | json
	LogHTTP   string `json:"log_http"`   // none | short-url | url | errors (the proxy module's mode; of every module when LogHTTPSpec is absent)
	LogTo     string `json:"log_to"`     // stdout | file
	ConfigFmt string `json:"config_fmt"` // yaml | json | toml
	// Source says, per secret-bearing flag, how it reaches the process: flag | env | file
	Source map[string]string `json:"source"`

	BasicAuth    *UserPub `json:"basic_auth,omitempty"`
	APIBasicAuth *UserPub `json:"api_basic_auth,omitempty"`
	// Upstream: none | userinfo (credentials inside --proxy) | credentials (--proxy without
	// userinfo, a --credentials entry for the proxy's host:port) | nouser | pac (--pac instead of
	// --proxy: the script selects the proxy, the --credentials table supplies its credentials; see pac.go)
	Upstream     string     `json:"upstream"`
	UpstreamUser *UserPub   `json:"upstream_user,omitempty"`
	ProxyScheme  bool       `json:"proxy_scheme"` // write "http://" in front of the --proxy value
	Creds        []CredSpec `json:"credentials,omitempty"`
	// file-valued flags: none | path | data (data:<b64>) | data-base64 (data:base64,<b64>)
	TLSCert string   `json:"tls_cert"`
	TLSKey  string   `json:"tls_key"`
	MITM    string   `json:"mitm"`
	CACerts []string `json:"cacerts,omitempty"`

	// UpstreamTLS: the upstream proxy is reached over TLS (--proxy https://…, --insecure)
	UpstreamTLS bool `json:"upstream_tls,omitempty"`
	// Stall: the fault phase also injects stalls (needs a short --http-response-header-timeout)
	Stall bool `json:"stall,omitempty"`
	// PAC: the script and the form --pac is given in (Upstream == "pac")
	PAC *PACSpec `json:"pac,omitempty"`

	// kind "startfail": the configuration is syntactically plausible but start-up fails
	// (see startFaults in startfail.go); FaultIndex = entry of a slice flag the fault sits in,
	// FaultVariant selects among the shapes of one fault
	StartFault   string `json:"start_fault,omitempty"`
	FaultIndex   int    `json:"fault_index,omitempty"`
	FaultVariant int    `json:"fault_variant,omitempty"`

	// Layouts: the textual form of the inline data: values (layout.go), keyed by flag ("cacert-file/<entry>"
	// for the entries of --cacert-file); absent = on one line. FileQuoting: how a multi-line value is written
	// in the config file: "" = string literal with escapes | "block" (YAML literal block scalar, TOML
	// multi-line basic string; JSON has escapes only). KeyAlg: "" = Ed25519 | "rsa4096" (long payloads)
	Layouts     map[string]string `json:"layouts,omitempty"`
	FileQuoting string            `json:"file_quoting,omitempty"`
	KeyAlg      string            `json:"key_alg,omitempty"`

	// LogHTTPSpec: the api module's mode, the form --log-http is written in and its source; History: the
	// bursts of exchanges played after the fault phase (history.go)
	LogHTTPSpec *LogHTTPSpec `json:"log_http_spec,omitempty"`
	History     []HistStep   `json:"history,omitempty"`

	Secrets [2]SecretSet `json:"secrets"`
}

func (c *Case) key() string {
	cc := *c
	cc.ID = ""
	cc.Secrets = [2]SecretSet{}
	b, _ := json.Marshal(cc)
	return string(b)
}

// ---- generation ----

const secretAlphabet = "abcdefghkmnpqrstuvwxyzABCDEFGHJKLMNPQRSTUVWXYZ23456789"

var specials = []string{"%", ":", "/", "+", "=", " ", "%2F", "%40", "%25", "::", "//", "==", "+/", "?", "&", "#", "$", "~", "!", "*", "'", "(", ")", ";"}

// genSecret draws a password: a random alphanumeric core interleaved with characters that need
// escaping somewhere (URL userinfo, query, CSV-free). at says whether '@' is admitted.
func genSecret(r *core.Rand, at bool) string {
	var b strings.Builder
	n := r.Range(3, 5)
	for i := 0; i < n; i++ {
		for j := r.Range(2, 4); j > 0; j-- {
			b.WriteByte(secretAlphabet[r.Intn(len(secretAlphabet))])
		}
		if i < n-1 || r.Chance(40) {
			if at && r.Chance(25) {
				b.WriteString("@")
			} else {
				b.WriteString(core.Pick(r, specials))
			}
		}
	}
	s := b.String()
	if r.Chance(10) {
		s = core.Pick(r, specials) + s
	}
	return s
}

var userPool = []string{"user", "alice", "us er", "u%ser", "adm+in", "a=b", "x/y", "svc-1", "me.too", "q?x", "A_B~c"}
var userPoolAt = []string{"me@corp", "a@b@c"}

func genUser(r *core.Rand, at bool, passPct int) *UserPub {
	u := core.Pick(r, userPool)
	if at && r.Chance(15) {
		u = core.Pick(r, userPoolAt)
	}
	return &UserPub{User: u, HasPass: r.Chance(passPct)}
}

func genFileStyle(r *core.Rand) string {
	return core.Pick(r, []string{"data", "data", "data-base64", "data-base64", "path"})
}

func genCase(r *core.Rand, i int) *Case {
	c := genConfig(r, i)
	genSecrets(r, c)
	return c
}

// genConfig draws the public part of a configuration.
func genConfig(r *core.Rand, i int) *Case {
	c := &Case{Kind: "run", ID: fmt.Sprintf("%04d-%08x", i, uint32(r.U64()))}
	c.Level = core.Pick(r, []string{"error", "info", "info", "debug", "debug"})
	c.Format = core.Pick(r, []string{"text", "json"})
	c.LogHTTP = core.Pick(r, []string{"none", "short-url", "url", "errors"})
	c.LogTo = core.Pick(r, []string{"stdout", "stdout", "file"})
	c.ConfigFmt = core.Pick(r, []string{"yaml", "json", "toml"})
	c.Source = map[string]string{}
	for _, f := range secretFlags {
		c.Source[f] = core.Pick(r, []string{"flag", "env", "file"})
	}
	if r.Chance(75) {
		c.BasicAuth = genUser(r, true, 90)
	}
	if r.Chance(60) {
		c.APIBasicAuth = genUser(r, true, 90)
	}
	c.Upstream = core.Pick(r, []string{"none", "userinfo", "userinfo", "userinfo", "credentials", "nouser"})
	c.ProxyScheme = r.Chance(70)
	anyPort := false // every endpoint is on 127.0.0.1: a second "127.0.0.1:*" entry would be a duplicate
	pattern := func(ps ...string) string {
		p := core.Pick(r, ps)
		if p == "any-port" {
			if anyPort {
				return "exact"
			}
			anyPort = true
		}
		return p
	}
	switch c.Upstream {
	case "userinfo":
		c.UpstreamUser = genUser(r, false, 90)
	case "credentials":
		c.Creds = append(c.Creds, CredSpec{User: *genUser(r, true, 90), Target: "upstream",
			Pattern: pattern("exact", "exact", "any-port")})
	}
	if r.Chance(70) {
		c.Creds = append(c.Creds, CredSpec{User: *genUser(r, true, 90), Target: "origin",
			Pattern: pattern("exact", "exact", "any-host", "any-port")})
	}
	if r.Chance(30) {
		c.Creds = append(c.Creds, CredSpec{User: *genUser(r, true, 90), Target: "other",
			Pattern: core.Pick(r, []string{"exact", "global"})})
	}
	c.TLSCert, c.TLSKey, c.MITM = "none", "none", "none"
	if r.Chance(40) {
		c.TLSCert, c.TLSKey = genFileStyle(r), genFileStyle(r)
	}
	if r.Chance(25) {
		c.MITM = genFileStyle(r)
	}
	for n := r.Intn(3); n > 0 && r.Chance(60); n-- {
		c.CACerts = append(c.CACerts, genFileStyle(r))
	}
	c.UpstreamTLS = c.Upstream != "none" && r.Chance(25)
	if c.UpstreamTLS {
		c.ProxyScheme = true
	}
	c.Stall = r.Chance(20)
	genLayouts(r, c)
	genLogHTTP(r, c)
	genHistory(r, c)
	return c
}

// genSecrets draws the two secret assignments of a configuration.
func genSecrets(r *core.Rand, c *Case) {
	for k := 0; k < 2; k++ {
		s := &c.Secrets[k]
		s.BasicAuth = genSecret(r, true)
		s.APIBasicAuth = genSecret(r, true)
		s.Proxy = genSecret(r, false)
		// without a scheme in front, ParseProxyURL cuts the value at the first "://": a password that
		// begins with "//" (after "user:") or contains "://" makes the flag invalid
		for !c.ProxyScheme && (strings.HasPrefix(s.Proxy, "//") || strings.Contains(s.Proxy, "://")) {
			s.Proxy = genSecret(r, false)
		}
		for range c.Creds {
			s.Creds = append(s.Creds, genSecret(r, true))
		}
		s.TLSSeed, s.MITMSeed = r.U64(), r.U64()
		for range c.CACerts {
			s.CASeeds = append(s.CASeeds, r.U64())
		}
	}
}

// ---- key material ----

// keyPair derives a self-signed Ed25519 certificate and its key from a seed (deterministic, so
// that a case is replayable from the seed alone).
func keyPair(seed uint64, ca bool) (certPEM, keyPEM []byte) {
	var sb [8]byte
	binary.LittleEndian.PutUint64(sb[:], seed)
	h := sha256.Sum256(sb[:])
	priv := ed25519.NewKeyFromSeed(h[:])
	tmpl := &x509.Certificate{
		SerialNumber:          new(big.Int).SetUint64(seed | 1),
		Subject:               pkix.Name{CommonName: fmt.Sprintf("c19-%x", seed), Organization: []string{"verif"}},
		NotBefore:             time.Date(2020, 1, 1, 0, 0, 0, 0, time.UTC),
		NotAfter:              time.Date(2090, 1, 1, 0, 0, 0, 0, time.UTC),
		KeyUsage:              x509.KeyUsageDigitalSignature | x509.KeyUsageCertSign,
		ExtKeyUsage:           []x509.ExtKeyUsage{x509.ExtKeyUsageServerAuth},
		BasicConstraintsValid: true,
		IsCA:                  ca,
		IPAddresses:           []net.IP{net.IPv4(127, 0, 0, 1)},
		DNSNames:              []string{"localhost"},
	}
	der, err := x509.CreateCertificate(rand.Reader, tmpl, tmpl, priv.Public(), priv)
	if err != nil {
		core.Fatalf("C19: cannot create certificate: %v", err)
	}
	kder, err := x509.MarshalPKCS8PrivateKey(priv)
	if err != nil {
		core.Fatalf("C19: cannot marshal key: %v", err)
	}
	certPEM = pem.EncodeToMemory(&pem.Block{Type: "CERTIFICATE", Bytes: der})
	keyPEM = pem.EncodeToMemory(&pem.Block{Type: "PRIVATE KEY", Bytes: kder})
	return
}

// ---- a secret and where it lives ----

// secretItem is one secret of one run: what to look for in the output.
type secretItem struct {
	Flag    string // the flag that carries it
	Index   int    // entry index for slice flags
	User    string // user name it belongs to ("" for data payloads)
	Secret  string // the password, or the base64 payload of a data: URI (on one line, standard alphabet)
	Laid    string // data: values: the payload as it is written in the value (layout.go)
	PEM     []byte // decoded payload for data: values
	Private bool   // payload is private key material
}

// setting is one secret-bearing flag as it is given to the process.
type setting struct {
	Flag  string
	Slice bool
	Raws  []string // raw values (one per entry for slice flags)
}

// plan is a fully assembled run: argv, environment, config file, what is secret.
type plan struct {
	Args     []string
	Env      []string
	Files    map[string][]byte // file name (relative to the run dir) → content
	Settings []setting
	Secrets  []secretItem
	// resolved endpoints
	OriginAddr, UpstreamAddr   string
	UpstreamUser, UpstreamPass string
	UpstreamAuth               string // expected Proxy-Authorization at the upstream ("" if none)
	OriginAuth                 string // expected Authorization at the origin ("" if none)
	// with a PAC script (pac.go)
	Endpoints   endpoints
	PACScript   string
	PACRaw      string // the value of --pac
	Stdin       string // the script when --pac - reads it from standard input
	CredEntries []credEntry
}

func hostPort(addr string) (string, string) {
	h, p, _ := net.SplitHostPort(addr)
	return h, p
}

func basic(user, pass string) string {
	return "Basic " + base64.StdEncoding.EncodeToString([]byte(user+":"+pass))
}

func rawUser(u UserPub, pw string) string {
	if u.HasPass {
		return u.User + ":" + pw
	}
	return u.User
}

func fileValue(style, layout, name string, content []byte, dir string, files map[string][]byte) (raw string, payload string) {
	switch style {
	case "path":
		files[name] = content
		return dir + "/" + name, ""
	case "data", "data-base64":
		p := base64.StdEncoding.EncodeToString(content)
		return inlineValue(style, layout, p), p
	}
	return "", ""
}

// laidPayload is what follows the "data:[base64,]" prefix of an inline value.
func laidPayload(raw string) string {
	if isDataURI(raw) {
		raw = raw[5:] // data: in any spelling
	} else if i := strings.Index(raw, "data:"); i >= 0 {
		raw = raw[i+5:]
	} else if len(raw) > 5 {
		raw = raw[5:]
	}
	if i := strings.IndexByte(raw, ','); i >= 0 && i < 40 {
		raw = raw[i+1:]
	}
	return raw
}

func csvField(s string) string {
	if !strings.ContainsAny(s, ",\"\n") {
		return s
	}
	var b bytes.Buffer
	w := csv.NewWriter(&b)
	w.Write([]string{s})
	w.Flush()
	return strings.TrimRight(b.String(), "\n")
}

func envName(flag string) string {
	return "FORWARDER_" + strings.ToUpper(strings.ReplaceAll(flag, "-", "_"))
}

// endpoints are the addresses a run's configuration points at: its own fault fronts (front.go) in
// front of the shared origin and upstream proxy.
type endpoints struct {
	Origin, Upstream string
	// with a PAC script: the scripted HTTP(S) proxy, the scripted SOCKS5 proxy (Upstream is the one the
	// script answers by default), the server the script is fetched from (--pac http://…)
	HTTPProxy, Socks5, PACServer string
}

// assemble turns a case and one of its secret assignments into a concrete invocation.
// dir is the run directory; paddr/aaddr are the listen addresses to request.
func assemble(c *Case, k int, ep endpoints, dir, paddr, aaddr string) *plan {
	s := c.Secrets[k]
	p := &plan{Files: map[string][]byte{}, OriginAddr: ep.Origin, UpstreamAddr: ep.Upstream, Endpoints: ep}
	add := func(flag string, slice bool, raws ...string) {
		p.Settings = append(p.Settings, setting{Flag: flag, Slice: slice, Raws: raws})
	}
	if c.BasicAuth != nil {
		add("basic-auth", false, rawUser(*c.BasicAuth, s.BasicAuth))
		if c.BasicAuth.HasPass {
			p.Secrets = append(p.Secrets, secretItem{Flag: "basic-auth", User: c.BasicAuth.User, Secret: s.BasicAuth})
		}
	}
	if c.APIBasicAuth != nil {
		add("api-basic-auth", false, rawUser(*c.APIBasicAuth, s.APIBasicAuth))
		if c.APIBasicAuth.HasPass {
			p.Secrets = append(p.Secrets, secretItem{Flag: "api-basic-auth", User: c.APIBasicAuth.User, Secret: s.APIBasicAuth})
		}
	}
	if c.Upstream != "none" && c.Upstream != "pac" {
		v := faultyProxyHost(c, ep.Upstream)
		if c.Upstream == "userinfo" {
			v = rawUser(*c.UpstreamUser, s.Proxy) + "@" + v
			p.UpstreamUser = c.UpstreamUser.User
			if c.UpstreamUser.HasPass {
				p.UpstreamPass = s.Proxy
				p.Secrets = append(p.Secrets, secretItem{Flag: "proxy", User: c.UpstreamUser.User, Secret: s.Proxy})
			}
			p.UpstreamAuth = basic(p.UpstreamUser, p.UpstreamPass)
		}
		switch {
		case c.StartFault == "proxy-bad-scheme":
			v = []string{"ftp", "socks4", "htp"}[c.FaultVariant%3] + "://" + v
		case c.UpstreamTLS:
			v = "https://" + v
		case c.ProxyScheme:
			v = "http://" + v
		}
		add("proxy", false, v)
	}
	if len(c.Creds) > 0 {
		var raws []string
		for i, cr := range c.Creds {
			var addr string
			switch cr.Target {
			case "origin":
				addr = ep.Origin
			case "upstream":
				addr = ep.Upstream
			case "pac-http":
				addr = ep.HTTPProxy
			case "pac-socks5":
				addr = ep.Socks5
			case "gateway":
				addr = pacGateway
			case "gateway2":
				addr = pacGateway2
			default:
				addr = "127.0.0.1:9"
			}
			h, port := hostPort(addr)
			switch cr.Pattern {
			case "any-host":
				h = "*"
			case "any-port":
				port = "*"
			case "global":
				h, port = "*", "*"
			}
			if i == c.FaultIndex {
				switch c.StartFault {
				case "cred-bad-host":
					h = []string{"bad_host!", "exa mple.com", "-x-.example", "host/path"}[c.FaultVariant%4]
				case "cred-bad-port":
					port = []string{"99999", "80x", "-1", ""}[c.FaultVariant%4]
				}
			}
			raws = append(raws, rawUser(cr.User, s.Creds[i])+"@"+h+":"+port)
			pw := ""
			if cr.User.HasPass {
				pw = s.Creds[i]
				p.Secrets = append(p.Secrets, secretItem{Flag: "credentials", Index: i, User: cr.User.User, Secret: pw})
			}
			p.CredEntries = append(p.CredEntries, credEntry{Host: h, Port: port, User: cr.User.User, Pass: pw, HasPass: cr.User.HasPass})
			if cr.Target == "upstream" && c.Upstream == "credentials" {
				p.UpstreamUser, p.UpstreamPass, p.UpstreamAuth = cr.User.User, pw, basic(cr.User.User, pw)
			}
			if cr.Target == "origin" && p.OriginAuth == "" {
				p.OriginAuth = basic(cr.User.User, pw)
			}
		}
		add("credentials", true, raws...)
	}
	if c.PAC != nil {
		// which entry applies to an endpoint is decided by the matcher's precedence
		p.UpstreamAuth, p.OriginAuth = p.authToward(ep.Upstream, ep.Upstream == ep.Socks5), p.authToward(ep.Origin, false)
		if e := matchCred(p.CredEntries, ep.Upstream); e != nil {
			p.UpstreamUser, p.UpstreamPass = e.User, e.Pass
		}
	}
	fileFlag := func(flag, style, name string, content []byte, private bool) {
		if style == "none" {
			return
		}
		raw, payload := fileValue(style, c.layoutOf(flag, 0), name, content, dir, p.Files)
		add(flag, false, raw)
		if payload != "" {
			p.Secrets = append(p.Secrets, secretItem{Flag: flag, Secret: payload, Laid: laidPayload(raw), PEM: content, Private: private})
		}
	}
	if c.TLSCert != "none" {
		cert, key := faultyPair(c, k, "tls", s.TLSSeed, false)
		fileFlag("tls-cert-file", c.TLSCert, "tls-cert.pem", cert, false)
		fileFlag("tls-key-file", c.TLSKey, "tls-key.pem", key, true)
	}
	if c.MITM != "none" {
		cert, key := faultyPair(c, k, "mitm", s.MITMSeed, true)
		fileFlag("mitm-cacert-file", c.MITM, "mitm-cacert.pem", cert, false)
		fileFlag("mitm-cakey-file", c.MITM, "mitm-cakey.pem", key, true)
	}
	if len(c.CACerts) > 0 {
		var raws []string
		for i, st := range c.CACerts {
			cert, key := keyPair(s.CASeeds[i], true)
			private := false
			if c.StartFault == "cacert-not-pem" && i == c.FaultIndex {
				// variant 2: the private key pasted into the CA slot
				private = c.FaultVariant%5 == 2
				cert = notPEM(cert, key, c.FaultVariant, s.CASeeds[i])
			}
			raw, payload := fileValue(st, c.layoutOf("cacert-file", i), fmt.Sprintf("ca-%d.pem", i), cert, dir, p.Files)
			raws = append(raws, raw)
			if payload != "" {
				p.Secrets = append(p.Secrets, secretItem{Flag: "cacert-file", Index: i, Secret: payload, Laid: laidPayload(raw), PEM: cert, Private: private})
			}
		}
		add("cacert-file", true, raws...)
	}

	// non-secret flags always travel on the command line
	p.Args = []string{"run", "--address", paddr, "--api-address", aaddr, "--proxy-localhost", "allow",
		"--log-level", c.Level, "--log-format", c.Format, "--name", proxyName,
		"--http-dial-attempts", "1", "--shutdown-timeout", "2s", "--api-shutdown-timeout", "2s"}
	if c.LogTo == "file" {
		p.Args = append(p.Args, "--log-file", dir+"/forwarder.log")
	}
	if c.TLSCert != "none" {
		p.Args = append(p.Args, "--protocol", "https")
	}
	if c.MITM != "none" || c.UpstreamTLS || c.PAC != nil {
		// the fault fronts present a throw-away certificate
		p.Args = append(p.Args, "--insecure")
	}
	if c.Stall {
		p.Args = append(p.Args, "--http-response-header-timeout", stallTimeout.String())
	}
	switch c.StartFault {
	case "pac-unparsable":
		js := []string{"function FindProxyForURL(url, host) { return (((; }", "this is not a PAC script", "function FindProxyForURL(url, host) { return DIRECT"}[c.FaultVariant%3]
		p.Args = append(p.Args, "--pac", "data:base64,"+base64.StdEncoding.EncodeToString([]byte(js)))
	case "pac-and-proxy":
		p.Args = append(p.Args, "--pac", "data:base64,"+base64.StdEncoding.EncodeToString([]byte(`function FindProxyForURL(url, host) { return "DIRECT"; }`)))
	}
	if c.PAC != nil {
		pacArgs(c, ep, dir, p)
	}
	p.Env = []string{"PATH=/usr/bin:/bin", "HOME=" + dir, "GOMAXPROCS=4"}
	fileVals := map[string]any{}
	logHTTPSettings(c, p, fileVals)
	for _, st := range p.Settings {
		switch c.Source[st.Flag] {
		case "env":
			vs := make([]string, len(st.Raws))
			for i, v := range st.Raws {
				vs[i] = v
				if st.Slice {
					vs[i] = csvField(v)
				}
			}
			p.Env = append(p.Env, envName(st.Flag)+"="+strings.Join(vs, ","))
		case "file":
			if st.Slice {
				fileVals[st.Flag] = st.Raws
			} else {
				fileVals[st.Flag] = st.Raws[0]
			}
		default:
			for _, v := range st.Raws {
				if st.Slice {
					v = csvField(v)
				}
				p.Args = append(p.Args, "--"+st.Flag, v)
			}
		}
	}
	if len(fileVals) > 0 {
		name := "config." + c.ConfigFmt
		p.Files[name] = renderConfig(c.ConfigFmt, c.FileQuoting, fileVals)
		p.Args = append(p.Args, "--config-file", dir+"/"+name)
	}
	return p
}

// renderConfig writes the config file. String literals are JSON string literals, which YAML
// (double-quoted flow scalars) and TOML (basic strings) read the same way.
//
// quoting "block": a multi-line value that can be held verbatim (blockable) is written the way such
// values are pasted into a file: a YAML literal block scalar, a TOML multi-line basic string.
func renderConfig(format, quoting string, vals map[string]any) []byte {
	if format == "json" {
		b, _ := json.MarshalIndent(vals, "", "  ")
		return b
	}
	lit := func(v any) string {
		var b bytes.Buffer
		enc := json.NewEncoder(&b)
		enc.SetEscapeHTML(false)
		enc.Encode(v)
		// (DEL is the one control character encoding/json leaves as it is; TOML wants it escaped)
		return strings.ReplaceAll(strings.TrimSpace(b.String()), "\x7f", `\u007f`)
	}
	var b strings.Builder
	for _, k := range sortedKeys(vals) {
		sep := ": "
		if format == "toml" {
			sep = " = "
		}
		if quoting == "block" {
			if v, ok := vals[k].(string); ok && blockable(v) {
				if format == "toml" {
					b.WriteString(k + sep + tomlBlock(v) + "\n")
				} else {
					b.WriteString(k + ": " + yamlBlock(v, "  "))
				}
				continue
			}
			if vs, ok := vals[k].([]string); ok {
				any := false
				for _, v := range vs {
					any = any || blockable(v)
				}
				if any {
					if format == "toml" {
						b.WriteString(k + " = [\n")
					} else {
						b.WriteString(k + ":\n")
					}
					for _, v := range vs {
						switch {
						case format == "toml" && blockable(v):
							b.WriteString("  " + tomlBlock(v) + ",\n")
						case format == "toml":
							b.WriteString("  " + lit(v) + ",\n")
						case blockable(v):
							b.WriteString("  - " + yamlBlock(v, "    "))
						default:
							b.WriteString("  - " + lit(v) + "\n")
						}
					}
					if format == "toml" {
						b.WriteString("]\n")
					}
					continue
				}
			}
		}
		b.WriteString(k + sep + lit(vals[k]) + "\n")
	}
	return []byte(b.String())
}
