package c19

import (
	"bufio"
	"crypto/tls"
	"fmt"
	"io"
	"net"
	"strings"
	"sync"
	"time"
)

// front is a per-run TCP listener in front of one of the shared scripted servers (the origin or the
// upstream proxy).  Unarmed it relays bytes to the server behind it (terminating TLS first when the
// peer opens with a ClientHello), so the run's configuration points at the front's address.  Armed
// with a fault it treats every new connection the way a broken peer would:
//
//	accept-close      close right after accept (nothing read)
//	reset             the same with SO_LINGER 0: the peer sees a RST
//	read-close        read the request head, close without a byte of response
//	truncated         read the head, send half a response head, close
//	truncated-status  read the head, send half a status line, close
//	garbage           read the head, answer with an SSH banner and binary bytes, close
//	status-NNN[-body] read the head, answer NNN (407/401 with a challenge) without/with a body, close
//	stall             read the head, then hold the connection open without answering
//
// refuse() closes the listener for good: connection refused.  Exchanges of a run are sequential,
// so the armed fault is the fault of the next exchange.
type front struct {
	name    string // "upstream" | "origin"
	ln      net.Listener
	addr    string
	backend string
	tlsCfg  *tls.Config
	// socks: the front is itself a SOCKS5 proxy (socksfront.go); backend is unused
	socks  bool
	onAuth func(string) // socks: the credentials an unarmed handshake carried
	dead   string       // socks: a target whose exchange is dropped

	mu      sync.Mutex
	fault   string
	conns   map[net.Conn]struct{}
	hits    int      // connections that met the armed fault
	heads   []string // request heads read on those connections
	refused bool
}

func newFront(name, backend string, cert tls.Certificate) (*front, error) {
	ln, err := net.Listen("tcp4", "127.0.0.1:0")
	if err != nil {
		return nil, err
	}
	f := &front{name: name, ln: ln, addr: ln.Addr().String(), backend: backend,
		tlsCfg: &tls.Config{Certificates: []tls.Certificate{cert}, MinVersion: tls.VersionTLS12},
		conns:  map[net.Conn]struct{}{}}
	go func() {
		for {
			c, err := ln.Accept()
			if err != nil {
				return
			}
			go f.serve(c)
		}
	}()
	return f, nil
}

// arm sets the fault for the connections accepted from now on and drops the connections that are
// still open (idle keep-alive connections of the proxy under test would bypass the fault).
func (f *front) arm(fault string) {
	f.mu.Lock()
	f.fault, f.hits, f.heads = fault, 0, nil
	old := f.conns
	f.conns = map[net.Conn]struct{}{}
	f.mu.Unlock()
	for c := range old {
		c.Close()
	}
}

// disarm ends the fault and reports how many connections met it and the request heads they sent.
func (f *front) disarm() (hits int, heads []string) {
	f.mu.Lock()
	hits, heads = f.hits, f.heads
	f.mu.Unlock()
	f.arm("")
	return hits, heads
}

func (f *front) refuse() {
	f.mu.Lock()
	f.refused = true
	f.mu.Unlock()
	f.ln.Close()
	f.arm("")
}

func (f *front) close() {
	f.ln.Close()
	f.arm("")
}

// peekConn serves the bytes already buffered by the sniffing reader before the connection's own.
type peekConn struct {
	net.Conn
	r *bufio.Reader
}

func (p *peekConn) Read(b []byte) (int, error) { return p.r.Read(b) }

type closeWriter interface{ CloseWrite() error }

func (f *front) serve(raw net.Conn) {
	f.mu.Lock()
	fault, socks := f.fault, f.socks
	if fault != "" {
		f.hits++
	}
	f.conns[raw] = struct{}{}
	f.mu.Unlock()
	defer func() {
		raw.Close()
		f.mu.Lock()
		delete(f.conns, raw)
		f.mu.Unlock()
	}()

	switch fault {
	case "accept-close":
		return
	case "reset":
		if tc, ok := raw.(*net.TCPConn); ok {
			tc.SetLinger(0)
		}
		return
	}
	raw.SetDeadline(time.Now().Add(20 * time.Second))
	if socks {
		f.serveSocks(raw, fault)
		return
	}
	br := bufio.NewReader(raw)
	var conn net.Conn = &peekConn{raw, br}
	if b, err := br.Peek(1); err != nil {
		return
	} else if b[0] == 0x16 { // TLS ClientHello
		tc := tls.Server(conn, f.tlsCfg)
		if err := tc.Handshake(); err != nil {
			return
		}
		defer tc.Close()
		br = bufio.NewReader(tc)
		conn = &peekConn{tc, br}
	}
	if fault == "" {
		f.relay(conn)
		return
	}

	// read the request head
	var head strings.Builder
	for {
		line, err := br.ReadString('\n')
		head.WriteString(line)
		if err != nil {
			return
		}
		if line == "\r\n" || line == "\n" {
			break
		}
	}
	f.mu.Lock()
	f.heads = append(f.heads, head.String())
	f.mu.Unlock()

	switch {
	case fault == "read-close":
	case fault == "truncated":
		io.WriteString(conn, "HTTP/1.1 200 OK\r\nContent-Type: text/pl")
	case fault == "truncated-status":
		io.WriteString(conn, "HTTP/1.1 2")
	case fault == "garbage":
		io.WriteString(conn, "SSH-2.0-OpenSSH_9.6p1 Ubuntu-3ubuntu13.5\r\n\x00\x00\x03\x14\x08\x14\xfe\x01\x02 not http at all\r\n\r\n")
	case strings.HasPrefix(fault, "status-"):
		io.WriteString(conn, statusResponse(f.name, fault))
	case fault == "stall":
		// hold until the peer gives up (or the harness moves on and drops the connection)
		raw.SetReadDeadline(time.Now().Add(6 * time.Second))
		io.Copy(io.Discard, br)
	}
	if cw, ok := conn.(*peekConn).Conn.(closeWriter); ok {
		cw.CloseWrite()
	}
}

// statusResponse renders the rejection an upstream proxy / origin answers with.
func statusResponse(site, fault string) string {
	parts := strings.Split(fault, "-") // status-NNN[-body]
	code := parts[1]
	text := map[string]string{"401": "Unauthorized", "403": "Forbidden", "407": "Proxy Authentication Required",
		"502": "Bad Gateway", "503": "Service Unavailable"}[code]
	var b strings.Builder
	fmt.Fprintf(&b, "HTTP/1.1 %s %s\r\n", code, text)
	switch code {
	case "407":
		b.WriteString("Proxy-Authenticate: Basic realm=\"c19-" + site + "\"\r\n")
	case "401":
		b.WriteString("WWW-Authenticate: Basic realm=\"c19-" + site + "\"\r\n")
	}
	b.WriteString("X-Fault-Site: " + site + "\r\nConnection: close\r\n")
	body := ""
	if len(parts) > 2 {
		body = "<html><body><h1>" + code + " " + text + "</h1><p>rejected by the scripted " + site + "</p></body></html>\n"
		b.WriteString("Content-Type: text/html\r\n")
	}
	fmt.Fprintf(&b, "Content-Length: %d\r\n\r\n%s", len(body), body)
	return b.String()
}

// relay pipes the (possibly TLS-terminated) connection to the server behind the front.
func (f *front) relay(conn net.Conn) {
	dst, err := net.DialTimeout("tcp4", f.backend, 3*time.Second)
	if err != nil {
		return
	}
	defer dst.Close()
	dst.SetDeadline(time.Now().Add(20 * time.Second))
	done := make(chan struct{}, 2)
	go func() {
		io.Copy(dst, conn)
		dst.(*net.TCPConn).CloseWrite()
		done <- struct{}{}
	}()
	go func() {
		io.Copy(conn, dst)
		if cw, ok := conn.(*peekConn).Conn.(closeWriter); ok {
			cw.CloseWrite()
		}
		done <- struct{}{}
	}()
	<-done
	<-done
}
