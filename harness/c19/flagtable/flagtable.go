// Package flagtable is the regenerated translator of property C19: it reads the flag declarations
// of $VERIF_REPO (bind/*.go and command/run/*.go) with go/ast and emits the table
// flag name ↦ (value constructor, type, parser, redactor present?, redactor) as a Lean definition
// (lean/FwdVerif/Model/C19FlagTable.lean). Only syntax is used: which constructor a flag value is
// built with and whether a redactor argument is present.
package flagtable

import (
	"bytes"
	"fmt"
	"go/ast"
	"go/parser"
	"go/printer"
	"go/token"
	"os"
	"path/filepath"
	"regexp"
	"sort"
	"strconv"
	"strings"
)

type Entry struct {
	Name        string
	Ctor        string // NewValueWithRedact, NewSliceValue, StringVar, custom …
	Slice       bool
	Type        string // type argument of the anyflag constructor
	Parser      string
	HasRedactor bool
	Redactor    string
}

type fn struct {
	decl  *ast.FuncDecl
	param int    // index of the prefix parameter, -1 if none
	pname string // its name ("prefix": dash is appended when non-empty; "namePrefix": used as is)
	pfx   map[string]bool
}

var (
	regRe  = regexp.MustCompile(`^(Var|VarP|[A-Z][A-Za-z0-9]*Var|[A-Z][A-Za-z0-9]*VarP)$`)
	spaces = regexp.MustCompile(`\s+`)
)

func dashed(raw string) string {
	if raw == "" {
		return ""
	}
	return raw + "-"
}

// Extract returns the flag table of the tree rooted at repo, sorted by flag name.
func Extract(repo string) ([]Entry, error) {
	fset := token.NewFileSet()
	var files []*ast.File
	for _, dir := range []string{"bind", filepath.Join("command", "run")} {
		ms, _ := filepath.Glob(filepath.Join(repo, dir, "*.go"))
		sort.Strings(ms)
		for _, m := range ms {
			if strings.HasSuffix(m, "_test.go") {
				continue
			}
			f, err := parser.ParseFile(fset, m, nil, 0)
			if err != nil {
				return nil, err
			}
			files = append(files, f)
		}
	}
	if len(files) == 0 {
		return nil, fmt.Errorf("no flag declarations found under %s", repo)
	}
	show := func(e ast.Expr) string {
		var b bytes.Buffer
		printer.Fprint(&b, fset, e)
		return strings.TrimSpace(spaces.ReplaceAllString(b.String(), " "))
	}
	fns := map[string]*fn{}
	for _, f := range files {
		for _, d := range f.Decls {
			fd, ok := d.(*ast.FuncDecl)
			if !ok || fd.Body == nil || fd.Recv != nil {
				continue
			}
			x := &fn{decl: fd, param: -1, pfx: map[string]bool{}}
			i := 0
			for _, fl := range fd.Type.Params.List {
				for _, n := range fl.Names {
					if id, ok := fl.Type.(*ast.Ident); ok && id.Name == "string" && (n.Name == "prefix" || n.Name == "namePrefix") {
						x.param, x.pname = i, n.Name
					}
					i++
				}
			}
			if x.param < 0 {
				x.pfx[""] = true
			}
			fns[fd.Name.Name] = x
		}
	}
	calleeName := func(c *ast.CallExpr) string {
		switch f := c.Fun.(type) {
		case *ast.Ident:
			return f.Name
		case *ast.SelectorExpr: // bind.HTTPServerConfig(...)
			if id, ok := f.X.(*ast.Ident); ok && id.Name == "bind" {
				return f.Sel.Name
			}
		}
		return ""
	}
	// propagate prefixes along the call graph until nothing changes
	for changed := true; changed; {
		changed = false
		for _, caller := range fns {
			ast.Inspect(caller.decl.Body, func(n ast.Node) bool {
				c, ok := n.(*ast.CallExpr)
				if !ok {
					return true
				}
				callee := fns[calleeName(c)]
				if callee == nil || callee.param < 0 || callee.param >= len(c.Args) {
					return true
				}
				var add []string
				switch a := c.Args[callee.param].(type) {
				case *ast.BasicLit:
					if s, err := strconv.Unquote(a.Value); err == nil {
						if callee.pname == "prefix" {
							add = append(add, dashed(s))
						} else {
							add = append(add, s)
						}
					}
				case *ast.Ident: // the caller's own prefix / namePrefix handed on
					for p := range caller.pfx {
						add = append(add, p)
					}
				}
				for _, p := range add {
					if !callee.pfx[p] {
						callee.pfx[p], changed = true, true
					}
				}
				return true
			})
		}
	}
	// the anyflag constructor inside a value expression (through &x, (x), struct{pflag.Value}{x})
	var ctorOf func(e ast.Expr) *ast.CallExpr
	ctorOf = func(e ast.Expr) *ast.CallExpr {
		switch v := e.(type) {
		case *ast.CallExpr:
			return v
		case *ast.ParenExpr:
			return ctorOf(v.X)
		case *ast.UnaryExpr:
			return ctorOf(v.X)
		case *ast.CompositeLit:
			for _, el := range v.Elts {
				if kv, ok := el.(*ast.KeyValueExpr); ok {
					el = kv.Value
				}
				if c := ctorOf(el); c != nil {
					return c
				}
			}
		}
		return nil
	}
	var out []Entry
	for _, x := range fns {
		ast.Inspect(x.decl.Body, func(n ast.Node) bool {
			c, ok := n.(*ast.CallExpr)
			if !ok {
				return true
			}
			sel, ok := c.Fun.(*ast.SelectorExpr)
			if !ok || !regRe.MatchString(sel.Sel.Name) || len(c.Args) < 3 {
				return true
			}
			var lit string
			symbolic := false
			switch a := c.Args[1].(type) {
			case *ast.BasicLit:
				s, err := strconv.Unquote(a.Value)
				if err != nil || a.Kind != token.STRING {
					return true
				}
				lit = s
			case *ast.BinaryExpr:
				id, ok1 := a.X.(*ast.Ident)
				bl, ok2 := a.Y.(*ast.BasicLit)
				if !ok1 || !ok2 || a.Op != token.ADD || (id.Name != "prefix" && id.Name != "namePrefix") {
					return true
				}
				s, err := strconv.Unquote(bl.Value)
				if err != nil {
					return true
				}
				lit, symbolic = s, true
			default:
				return true
			}
			e := Entry{Ctor: sel.Sel.Name}
			if sel.Sel.Name == "Var" || sel.Sel.Name == "VarP" {
				e.Ctor = "custom"
				if cc := ctorOf(c.Args[0]); cc != nil {
					fun := cc.Fun
					switch ix := fun.(type) {
					case *ast.IndexExpr:
						fun, e.Type = ix.X, show(ix.Index)
					case *ast.IndexListExpr:
						fun = ix.X
					}
					if s, ok := fun.(*ast.SelectorExpr); ok {
						e.Ctor = s.Sel.Name
						e.Slice = strings.Contains(s.Sel.Name, "Slice")
						if len(cc.Args) >= 3 {
							e.Parser = show(cc.Args[2])
						}
						if len(cc.Args) >= 4 {
							if id, isId := cc.Args[3].(*ast.Ident); !isId || id.Name != "nil" {
								e.HasRedactor, e.Redactor = true, show(cc.Args[3])
							}
						}
					}
				}
			}
			if !symbolic {
				e.Name = lit
				out = append(out, e)
				return true
			}
			for p := range x.pfx {
				ee := e
				ee.Name = p + lit
				out = append(out, ee)
			}
			return true
		})
	}
	sort.Slice(out, func(i, j int) bool {
		if out[i].Name != out[j].Name {
			return out[i].Name < out[j].Name
		}
		return fmt.Sprint(out[i]) < fmt.Sprint(out[j])
	})
	// identical declarations reached twice collapse to one
	var ded []Entry
	for i, e := range out {
		if i > 0 && e == out[i-1] {
			continue
		}
		ded = append(ded, e)
	}
	if len(ded) == 0 {
		return nil, fmt.Errorf("no flag registrations recognised under %s", repo)
	}
	return ded, nil
}

func leanStr(s string) string {
	var b strings.Builder
	b.WriteByte('"')
	for _, r := range s {
		switch {
		case r == '"':
			b.WriteString(`\"`)
		case r == '\\':
			b.WriteString(`\\`)
		case r < 0x20 || r > 0x7e:
			fmt.Fprintf(&b, `\u{%x}`, r)
		default:
			b.WriteRune(r)
		}
	}
	b.WriteByte('"')
	return b.String()
}

// RenderLean prints the table as the Lean module FwdVerif.Model.C19FlagTable.
func RenderLean(es []Entry) string {
	var b strings.Builder
	b.WriteString(`/-
  GENERATED — do not edit.  Written by harness/c19/flagtable (cmd/flagtable, and the Prepare step of
  every ` + "`bin/check C19`" + `) from the flag declarations of $VERIF_REPO (bind/*.go, command/run/*.go).
  One entry per registered flag: the constructor of its value, whether it is a slice flag, the type
  argument, the parser expression and whether a redactor argument is present.  Core-only.
-/
namespace FwdVerif
namespace C19

structure FlagEntry where
  name : String
  ctor : String
  slice : Bool
  type : String
  parser : String
  hasRedactor : Bool
  redactor : String
  deriving Repr, DecidableEq

def flagTable : List FlagEntry := [
`)
	for i, e := range es {
		sep := ","
		if i == len(es)-1 {
			sep = ""
		}
		fmt.Fprintf(&b, "  ⟨%s, %s, %t, %s, %s, %t, %s⟩%s\n", leanStr(e.Name), leanStr(e.Ctor), e.Slice, leanStr(e.Type),
			leanStr(e.Parser), e.HasRedactor, leanStr(e.Redactor), sep)
	}
	b.WriteString("]\n\nend C19\nend FwdVerif\n")
	return b.String()
}

// Generate extracts the table from repo and (re)writes the Lean module under root when its content
// changed. It reports whether the file was rewritten.
func Generate(repo, root string) (entries []Entry, rewritten bool, err error) {
	entries, err = Extract(repo)
	if err != nil {
		return nil, false, err
	}
	path := filepath.Join(root, "lean", "FwdVerif", "Model", "C19FlagTable.lean")
	want := RenderLean(entries)
	if old, rerr := os.ReadFile(path); rerr == nil && string(old) == want {
		return entries, false, nil
	}
	if err := os.WriteFile(path, []byte(want), 0o644); err != nil {
		return entries, false, err
	}
	return entries, true, nil
}
