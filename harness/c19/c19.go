// Package c19 decides property C19 (configured secrets never appear in diagnostics) on the real
// `forwarder` binary: it is built from $VERIF_REPO/cmd/forwarder on every run, started as a child
// process with secrets supplied through flags, FORWARDER_* variables and a config file, driven with
// requests that use the credentials, and everything it emits (start-up log, /configz, request log,
// error responses) is scanned for the secrets and their encodings, compared with the Lean model's
// rendering (Model/C19.lean) and diffed between two runs that differ only in the secrets.
package c19

import (
	"encoding/json"
	"fmt"
	"os"
	"os/exec"
	"path/filepath"
	"runtime"
	"sort"
	"strconv"
	"strings"
	"sync"

	"github.com/saucelabs/forwarder/verifharness/c19/flagtable"
	"github.com/saucelabs/forwarder/verifharness/core"
)

func init() { core.Register("C19", core.Scenario{Run: Run, Replay: Replay, Prepare: Prepare}) }

func repoDir() string {
	if v := os.Getenv("VERIF_REPO"); v != "" {
		return v
	}
	return "/repo"
}

// secretFlags mirrors `secretFlags` of Theorems/C19.lean.
var secretFlags = []string{"basic-auth", "api-basic-auth", "proxy", "credentials",
	"tls-cert-file", "tls-key-file", "mitm-cacert-file", "mitm-cakey-file", "cacert-file"}

// Prepare regenerates lean/FwdVerif/Model/C19FlagTable.lean from the flag declarations of the tree
// under verification, before the proof step re-checks c19_secret_flags_redacted over it.
func Prepare(ctx *core.Ctx) {
	es, rewritten, err := flagtable.Generate(repoDir(), ctx.Root)
	if err != nil {
		ctx.Disagree("flag table can be extracted from bind/*.go and command/run/*.go", nil, err.Error(), "")
		return
	}
	ctx.Extra("flag_table_entries", len(es))
	ctx.Extra("flag_table_rewritten", rewritten)
	with := 0
	byName := map[string][]flagtable.Entry{}
	for _, e := range es {
		byName[e.Name] = append(byName[e.Name], e)
		if e.HasRedactor {
			with++
		}
	}
	ctx.Extra("flag_table_with_redactor", with)
	for _, n := range secretFlags {
		ok := len(byName[n]) > 0
		for _, e := range byName[n] {
			ok = ok && e.HasRedactor
		}
		if !ok {
			ctx.Count("flag-table/secret-flag-without-redactor/" + n)
		}
	}
}

var (
	rigOnce sync.Once
	theRig  *rig
	rigErr  error

	binOnce sync.Once
	binPath string
	binErr  string
)

func getRig() *rig {
	rigOnce.Do(func() { theRig, rigErr = newRig() })
	if rigErr != nil {
		core.Fatalf("C19: cannot start the scripted loopback servers: %v", rigErr)
	}
	return theRig
}

func workDir(ctx *core.Ctx) string {
	d := filepath.Join(ctx.Root, ".work", "c19", fmt.Sprint(os.Getpid()))
	os.MkdirAll(d, 0o755)
	return d
}

// binary builds the real command from the tree under verification (once per fwdcheck process).
func fwdBinary(ctx *core.Ctx) string {
	binOnce.Do(func() {
		out := filepath.Join(workDir(ctx), "forwarder")
		cmd := exec.Command("go", "build", "-tags", "verif", "-o", out, "./cmd/forwarder")
		cmd.Dir = repoDir()
		b, err := cmd.CombinedOutput()
		if err != nil {
			binErr = fmt.Sprintf("go build ./cmd/forwarder: %v\n%s", err, b)
			return
		}
		binPath = out
	})
	return binPath
}

func cleanup(ctx *core.Ctx) {
	termLogRestore()
	os.RemoveAll(workDir(ctx))
}

func Run(ctx *core.Ctx) {
	ctx.SetRule("one case = one configuration of the real binary (secret-bearing flags given as flags, FORWARDER_* variables or " +
		"config-file entries; log level/format; --log-http with a mode PER MODULE (proxy, api) in every written form of the flag, as flag, variable or config-file entry; upstream proxy over http or https, site credentials, TLS/MITM/CA data: URIs) run twice with two " +
		"independent secret assignments. Kind run: driven with GET, CONNECT (intercepted when MITM is on), /configz, a 407 and a 502 exchange, then with " +
		"GET and CONNECT/intercepted GET once per fault shape of the upstream proxy and of the origin (closed at accept, reset, closed after the request, " +
		"truncated head, non-HTTP bytes, 407/401/403/502 with and without body, stall, refused), then with a drawn HISTORY (history.go): 14-17 bursts in a drawn order of exchanges that `errors` mode dumps by right " +
		"(proxied 503 of the --credentials site, the proxy's own 502, an API 500 with the API's basic auth), 401/407 refusals and successful exchanges on the proxy and on the API server, from one client or 4/8 goroutines, alternating between the modules; " +
		"every record is judged by the mode of ITS module and its own status (Model logRecord). Upstream pac: --pac (path, file URL, data: URI, http URL, stdin) instead of " +
		"--proxy; the script answers PROXY/HTTP/HTTPS/SOCKS5 (scripted proxies, one of them by default: it takes the fault shapes), SOCKS/SOCKS4, unparsable entries, a script " +
		"error, DIRECT and several entries per target host, --credentials has exact/*:port/host:*/*:* entries for the host:port of all those proxies, and every host class is " +
		"asked for with each request kind. Kind startfail: one thing in the configuration makes the " +
		"start-up fail after the values were read (mismatching or non-PEM key material, unparsable PAC, a rejected host/port/scheme after the user:password, " +
		"duplicate credentials, occupied port, an inline data: value written in a form the decoder refuses, or a value that is no data: URI at all = a file name by definition (run, counted as outside the property). " +
		"The TEXTUAL FORM of every inline data: value is drawn per value (layout.go): on one line, wrapped at 64/76 characters with LF or CR LF, with a final line break, one break, a " +
		"leading break, the scheme spelled DATA: / Data: / dAtA:; in a config file either as an escaped string literal or verbatim in a YAML block scalar / TOML multi-line string; Ed25519 or RSA-4096 material. Non-trivial = at least one secret-bearing flag is set and the process served the requests / exited with status 1; " +
		"distinct = distinct configurations")
	ctx.Assume("C19: the theorems cover the configuration dump (start-up 'configuration:' lines, /configz), the 'using upstream proxy' line, the cert/key attributes of the debug record 'loading TLS certificate' and the two error texts that render a flag value (rejected flag value, --cacert-file without certificate) and the outcome of pacProxy on the string a PAC script returned (error texts, credentials merged into the selected proxy URL) and WHICH fields a request-log record of a module carries under its mode (logRecord: nothing / method, URL, status / also the header fields), whatever the loggers handled before; the text of the request log lines, every other log line and the error responses are covered by the search on the running binary only")
	ctx.Assume("C19: the log lines the proxy writes about exchanges that fail because of a fault of the upstream proxy / origin are searched like the start-up log, except the header dumps of --log-http errors for 5xx exchanges (the property covers request log lines of successful exchanges); during the history a record counts as such a dump only if ITS module runs in errors mode and ITS exchange was answered with 500 or more")
	ctx.Assume("C19: a secret is searched literally, as base64 (std/url, padded/raw) of the password and of user:password, percent-encoded (query, path, userinfo, all bytes), as Go/JSON string literal, hex, and for data: payloads as written, as fragments, as decoded PEM lines and as ANY window of 24 characters of the base64 text or of the PEM body after removing white space, control characters, their escapes and percent triples from the output; other forms are caught only by the diff of two runs that differ in the secrets alone")
	ctx.Assume("C19: flag table extracted syntactically (go/ast) from bind/*.go and command/run/*.go of the tree under verification: constructor name and presence of a redactor argument")
	defer cleanup(ctx)
	if fwdBinary(ctx) == "" {
		ctx.Crash("the forwarder command builds", "", nil, binErr)
		return
	}
	for _, c := range core.LoadCorpus(ctx.Root, "C19") {
		replayCase(ctx, c)
	}
	n := ctx.N(160, 2400)
	if v, err := strconv.Atoi(os.Getenv("C19_CASES")); err == nil && v >= 0 {
		n = v // development aid only; registered commands do not set it
	}
	cases := make([]*Case, n)
	for i := range cases {
		cases[i] = genCase(ctx.Rng.Sub(), i)
	}
	np := ctx.N(48, 480)
	if v, err := strconv.Atoi(os.Getenv("C19_PAC_CASES")); err == nil && v >= 0 {
		np = v // development aid only
	}
	for i := 0; i < np; i++ {
		// spread over the run: they are served in parallel with the other configurations
		pc := genPACCase(ctx.Rng.Sub(), i)
		at := len(cases)
		if n > 0 {
			at = (i * (n + np) / np) % (len(cases) + 1)
		}
		cases = append(cases, nil)
		copy(cases[at+1:], cases[at:])
		cases[at] = pc
	}
	n = len(cases)
	nf := ctx.N(240, 2400)
	if v, err := strconv.Atoi(os.Getenv("C19_FAIL_CASES")); err == nil && v >= 0 {
		nf = v // development aid only
	}
	for i := 0; i < nf; i++ {
		// interleaved with the serving cases (they take longer)
		fc := genFailCase(ctx.Rng.Sub(), i)
		at := len(cases)
		if n > 0 {
			at = (i * (n + nf) / nf) % (len(cases) + 1)
		}
		cases = append(cases, nil)
		copy(cases[at+1:], cases[at:])
		cases[at] = fc
	}
	var wg sync.WaitGroup
	jobs := make(chan *Case)
	workers := runtime.NumCPU()
	if workers > 16 {
		workers = 16
	}
	for w := 0; w < workers; w++ {
		wg.Add(1)
		go func() {
			defer wg.Done()
			for c := range jobs {
				checkCase(ctx, c)
			}
		}()
	}
	samples := map[string]int{}
	for _, c := range cases {
		if samples[c.Kind] < 2 {
			samples[c.Kind]++
			ctx.Sample(c)
		}
		jobs <- c
	}
	close(jobs)
	wg.Wait()
}

func Replay(ctx *core.Ctx, raw json.RawMessage) {
	defer cleanup(ctx)
	if fwdBinary(ctx) == "" {
		ctx.Crash("the forwarder command builds", "", nil, binErr)
		return
	}
	replayCase(ctx, raw)
}

func replayCase(ctx *core.Ctx, raw json.RawMessage) {
	var c Case
	if err := json.Unmarshal(raw, &c); err != nil || c.Kind != "run" && c.Kind != "startfail" {
		core.Fatalf("C19: not a C19 case: %v %s", err, tail(string(raw), 200))
	}
	checkCase(ctx, &c)
}

func tail(s string, n int) string {
	if len(s) > n {
		return "…" + s[len(s)-n:]
	}
	return s
}

func sortedKeys[V any](m map[string]V) []string {
	ks := make([]string, 0, len(m))
	for k := range m {
		ks = append(ks, k)
	}
	sort.Strings(ks)
	return ks
}

func short(s string, n int) string {
	s = strings.ReplaceAll(s, "\n", "\\n")
	if len(s) > n {
		return s[:n] + "…"
	}
	return s
}
