package c19

import (
	"encoding/base64"
	"encoding/hex"
	"encoding/json"
	"fmt"
	"net/url"
	"os"
	"regexp"
	"sort"
	"strconv"
	"strings"
	"sync"

	"github.com/saucelabs/forwarder/verifharness/core"
)

// needle is one textual form of a secret.
type needle struct {
	Enc  string
	Text string
}

func pctAll(s string, upper bool) string {
	var b strings.Builder
	for i := 0; i < len(s); i++ {
		c := s[i]
		if c >= '0' && c <= '9' || c >= 'a' && c <= 'z' || c >= 'A' && c <= 'Z' {
			b.WriteByte(c)
		} else if upper {
			fmt.Fprintf(&b, "%%%02X", c)
		} else {
			fmt.Fprintf(&b, "%%%02x", c)
		}
	}
	return b.String()
}

// needles lists the forms under which a secret is looked for: literally, base64 (of the password
// and of user:password, standard and URL alphabets, padded and raw), percent-encoded (query, path,
// userinfo, everything), as Go/JSON string literals, hex; for data: payloads also the decoded PEM
// body lines and head/tail fragments.
func needles(it secretItem) []needle {
	var ns []needle
	add := func(enc, text string) {
		if len(text) < 6 {
			return
		}
		for _, n := range ns {
			if n.Text == text {
				return
			}
		}
		ns = append(ns, needle{enc, text})
	}
	s := it.Secret
	add("literal", s)
	if it.PEM != nil {
		add("as-written", it.Laid)
		add("query-escaped", url.QueryEscape(s))
		if len(s) > 120 {
			for i, at := range []int{len(s) / 3, len(s) / 2, 2 * len(s) / 3} {
				add(fmt.Sprintf("fragment-%d", i), s[at-20:at+20])
			}
		}
		if raw, err := base64.StdEncoding.DecodeString(s); err == nil {
			add("base64url", base64.URLEncoding.EncodeToString(raw))
		}
		for _, line := range strings.Split(string(it.PEM), "\n") {
			if len(line) >= 40 && !strings.HasPrefix(line, "-----") {
				add("pem-body-line", line)
			}
		}
		return ns
	}
	encs := []struct {
		name string
		e    *base64.Encoding
	}{{"base64-std", base64.StdEncoding}, {"base64-url", base64.URLEncoding}, {"base64-rawstd", base64.RawStdEncoding}, {"base64-rawurl", base64.RawURLEncoding}}
	for _, e := range encs {
		add(e.name+"(user:pass)", e.e.EncodeToString([]byte(it.User+":"+s)))
	}
	for _, e := range encs {
		add(e.name+"(pass)", e.e.EncodeToString([]byte(s)))
	}
	add("query-escaped", url.QueryEscape(s))
	add("path-escaped", url.PathEscape(s))
	add("userinfo-escaped", strings.TrimPrefix(url.UserPassword("u", s).String(), "u:"))
	add("percent-all", pctAll(s, true))
	add("percent-all-lower", pctAll(s, false))
	q := strconv.Quote(s)
	add("go-quoted", q[1:len(q)-1])
	if j, err := json.Marshal(s); err == nil {
		add("json-escaped", string(j[1:len(j)-1]))
	}
	add("hex", hex.EncodeToString([]byte(s)))
	return ns
}

// knownClass decides from the configuration (and the flag/entry/channel a leak concerns) whether a
// leak falls in a recorded defect class of the unchanged tree.
//
// Repaired classes are no longer listed, so that a leak of their kind is a violation again:
// F31 (6ee5ae9: the debug record "loading TLS certificate" printed a data: URI given to
// --tls-cert-file/--tls-key-file in full) and F44 (d35211c: loadRootCAs printed a --cacert-file
// data: URI without PEM certificate in the fatal log line and the termination log); F54 (a data: URI whose
// scheme is spelled DATA: / Data: was taken for a file name and os.ReadFile's error printed it): such
// spellings are accepted layouts of the serving cases (layout.go).
func knownClass(c *Case, it secretItem, channel string) string {
	flag := it.Flag
	if c.Kind != "startfail" {
		return ""
	}
	// NOT a class of findings: a value that is no data: URI (layoutsFileName: white space or "./" in front of
	// the scheme, another scheme) is a file name by definition; os.ReadFile's error names the file it cannot
	// open - "open <name>: no such file or directory" / "file name too long" - in the 'fatal error exiting'
	// record and the termination log. That is outside the property (it speaks about key material supplied
	// inline as data: URIs): counted, not judged (see specFail).
	if c.StartFault == "inline-unrecognised" && layoutKey(flag, it.Index) == inlineFaultKey(c) &&
		isFileNameLayout(c.layoutOf(flag, it.Index)) && (channel == "startup-log" || channel == "termination-log") {
		return fileNameLabel
	}
	// F43: a value that the flag's parser rejects is echoed with %q in the usage error: pflag's
	// "invalid argument %q for %q flag" (printed by cobra on stderr, copied to /dev/termination-log
	// by cmd/forwarder) for a command-line flag, utils/cobrautil/bind.go for FORWARDER_* variables
	// and config-file entries (there the whole variable / the whole list is echoed).
	if flag == rejectedFlag(c) && (channel == "stderr" || channel == "termination-log") &&
		(sourceOf(c, flag) != "flag" || !sliceFlag(flag) || it.Index == c.FaultIndex) {
		return "rejected-flag-value-echoed"
	}
	return ""
}

// attributed: long payloads share one RSA key per secret assignment (layout.go rsaKey), so --tls-key-file and
// --mitm-cakey-file of a case can hold the SAME material; text found in the output is then attributed to the
// first flag that holds it. When the value an inline-* fault sits in holds that very material, the finding is
// about the faulted value (that is the one the start-up prints): it is judged as such.
func attributed(c *Case, p *plan, it secretItem) secretItem {
	key := inlineFaultKey(c)
	if key == "" || layoutKey(it.Flag, it.Index) == key {
		return it
	}
	for _, f := range p.Secrets {
		if layoutKey(f.Flag, f.Index) == key && f.Secret == it.Secret {
			return f
		}
	}
	return it
}

func sliceFlag(flag string) bool { return flag == "credentials" || flag == "cacert-file" }

// sourceOf says how a flag reaches the process (cases written by hand may leave it out: command line).
func sourceOf(c *Case, flag string) string {
	if s := c.Source[flag]; s == "env" || s == "file" {
		return s
	}
	return "flag"
}

type channelText struct {
	Name    string
	Text    string
	Covered bool // one of the channels the property lists
}

func channels(o *observation) []channelText {
	cs := []channelText{
		{"startup-log", o.Startup, true},
		{"stderr", o.Stderr, true},
		{"configz", o.Configz.Dump, true},
		{"request-log", o.ReqLog, true},
		{"error-response/407", o.Resp407.Dump, true},
		{"error-response/502", o.Resp502.Dump, true},
		{"error-response/api-401", o.API401.Dump, true},
		// written while the failing exchanges and the shutdown ran: the property covers request log
		// lines of successful exchanges only (mode `errors` dumps the headers of a 5xx exchange here)
		{"failure-phase-log", o.FailLog, false},
	}
	for i, r := range o.OK {
		cs = append(cs, channelText{fmt.Sprintf("ok-response/%d", i), r.Dump, false})
	}
	// the fault phase (faults.go): what the client receives, and what the proxy logs about exchanges
	// that fail because the peer the credentials are for misbehaves; the header dumps of
	// --log-http errors are kept apart
	for _, f := range o.Faults {
		cs = append(cs, channelText{"error-response/fault/" + f.Label, f.Dump, true})
	}
	// the drawn history (history.go): every line except the records whose module runs in `errors` mode and
	// whose own exchange was answered with 500 or more
	cs = append(cs, channelText{"request-log/history", o.HistLog, true},
		channelText{"history-http-dump", o.HistDumps, false})
	return append(cs,
		channelText{"fault-phase-log", o.FaultLog, true},
		channelText{"fault-phase-log/racy", o.FaultLogRacy, true},
		channelText{"fault-phase-http-dump", o.FaultDumps, false})
}

func snippet(text string, at, n int) string {
	lo, hi := at-60, at+n+60
	if lo < 0 {
		lo = 0
	}
	if hi > len(text) {
		hi = len(text)
	}
	return short(text[lo:hi], 400)
}

// distinctNeedles lists, per secret of the plan, the forms it is looked for under. A form that also
// occurs inside another secret of the same run (constant PEM framing, shared certificate fields)
// cannot be attributed to one flag and is dropped.
func distinctNeedles(p *plan) [][]needle {
	all := make([][]needle, len(p.Secrets))
	for i, it := range p.Secrets {
		all[i] = needles(it)
	}
	out := make([][]needle, len(p.Secrets))
	for i := range p.Secrets {
		for _, n := range all[i] {
			distinct := true
			for j, other := range p.Secrets {
				if j == i {
					continue
				}
				if strings.Contains(other.Secret, n.Text) || strings.Contains(string(other.PEM), n.Text) {
					distinct = false
				}
				for _, m := range all[j] {
					if m.Text == n.Text {
						distinct = false
					}
				}
			}
			if distinct {
				out[i] = append(out[i], n)
			}
		}
	}
	return out
}

// scan looks for every secret of the run in every channel.
func scan(ctx *core.Ctx, c *Case, k int, o *observation, p *plan) {
	scanChannels(ctx, c, k, channels(o), p)
}

// specFail is ctx.SpecFail, except that what a start-up prints about a value that is a file name by
// definition (knownClass: fileNameLabel) is outside the property: counted under a neutral label.
func specFail(ctx *core.Ctx, clause, class string, c *Case, impl, detail string) {
	if class == fileNameLabel {
		ctx.Count("outside-the-property/" + fileNameLabel + "/" + strings.SplitN(clause, " emit the same ", 2)[0])
		return
	}
	noteFinding("spec", clause, class, c)
	ctx.SpecFail(clause, class, c, impl, detail)
}

// noteFinding lists every finding on stderr when C19_LIST_FINDINGS is set (development aid: the replay
// file keeps the first eleven only).
func noteFinding(kind, clause, class string, c *Case) {
	if os.Getenv("C19_LIST_FINDINGS") == "" {
		return
	}
	var ls []string
	for _, k := range sortedKeys(c.Layouts) {
		ls = append(ls, k+"="+c.Layouts[k])
	}
	fmt.Fprintf(os.Stderr, "finding: %s | %s | class=%q | case %s %s start_fault=%q log-http=%s layouts=%v\n",
		kind, clause, class, c.Kind, c.ID, c.StartFault, strings.Join(c.logHTTPValues(), " "), ls)
}

func scanChannels(ctx *core.Ctx, c *Case, k int, chs []channelText, p *plan) {
	all := distinctNeedles(p)
	wins := planWindows(p)
	type squeezed struct {
		text []byte
		pos  []int
	}
	sq := map[int]squeezed{}
	for i, it := range p.Secrets {
		ns := all[i]
		for ci, ch := range chs {
			if ch.Text == "" {
				continue
			}
			ctx.CountN("scanned-bytes/"+strings.SplitN(ch.Name, "/", 2)[0], len(ch.Text))
			cns, winAt := ns, -1
			if it.PEM != nil {
				// key material: every windowLen-character window of its base64 text, however the output
				// breaks, escapes or re-encodes the lines
				found := false
				for _, n := range ns {
					found = found || strings.Contains(ch.Text, n.Text)
				}
				if !found && len(wins[i]) > 0 {
					z, ok := sq[ci]
					if !ok {
						z.text, z.pos = squeeze(ch.Text)
						sq[ci] = z
					}
					if winAt = findWindow(z.text, z.pos, wins[i]); winAt >= 0 {
						cns = []needle{{fmt.Sprintf("window of %d characters of the base64 text (line breaks, escapes and percent-encoding removed)", windowLen), ch.Text[winAt : winAt+1]}}
					}
				}
			}
			for _, n := range cns {
				at := strings.Index(ch.Text, n.Text)
				if winAt >= 0 {
					at = winAt
				}
				if at < 0 {
					continue
				}
				if !ch.Covered {
					if os.Getenv("C19_DUMP_OUTSIDE") != "" {
						fmt.Fprintf(os.Stderr, "outside-property %s --%s %s: %s\n", ch.Name, it.Flag, n.Enc, snippet(ch.Text, at, len(n.Text)))
					}
					ctx.Count("outside-property/" + strings.SplitN(ch.Name, "/", 2)[0] + "/" + it.Flag + "/log-http=" + c.LogHTTP)
					break
				}
				what := "password"
				if it.PEM != nil {
					what = "data: payload"
				}
				specFail(ctx, "secret absent from "+ch.Name, knownClass(c, attributed(c, p, it), ch.Name), c,
					snippet(ch.Text, at, len(n.Text)),
					fmt.Sprintf("%s of --%s (given as %s, entry %d, secret assignment %d) appears in %s, encoding %s; log-level=%s log-format=%s log-http=%s%s",
						what, it.Flag, sourceOf(c, it.Flag), it.Index, k, ch.Name, n.Enc, c.Level, c.Format, strings.Join(c.logHTTPValues(), " "), startFaultNote(c)))
				break // one finding per (secret, channel)
			}
		}
	}
}

// compareModel checks the renderings of the secret-bearing flags in the configuration dumps
// against the Lean model, and evaluates the model's `absent` on them.
func compareModel(ctx *core.Ctx, c *Case, k int, o *observation, p *plan) {
	type dump struct {
		name, fmt string
		m         map[string]string
		all       bool
	}
	var dumps []dump
	if o.Configz.Status == 200 {
		dumps = append(dumps, dump{"/configz", "plain", configzMap(o.Configz.Body), true})
	} else {
		ctx.Disagree("/configz answers 200 with the Plain configuration dump", c, short(o.Configz.Dump+o.Configz.Err, 300), "200")
	}
	recs := parseRecords(c.Format, o.Startup)
	if c.Level != "error" {
		if m, ok := configLine(recs, "configuration: "); ok {
			dumps = append(dumps, dump{"start-up log 'configuration:'", "oneline", m, false})
		} else {
			ctx.Disagree("start-up log has the 'configuration:' line at info level", c, short(o.Startup, 300), "present")
		}
	}
	if c.Level == "debug" {
		if m, ok := configLine(recs, "all configuration: "); ok {
			dumps = append(dumps, dump{"start-up log 'all configuration:'", "oneline", m, true})
		} else {
			ctx.Disagree("start-up log has the 'all configuration:' line at debug level", c, short(o.Startup, 300), "present")
		}
	}
	compareUpstreamURL(ctx, c, k, recs, p)
	compareTLSLoad(ctx, c, recs, p, c.Level == "debug")
	set := map[string]setting{}
	for _, st := range p.Settings {
		set[st.Flag] = st
	}
	secretsOf := map[string][]secretItem{}
	for _, it := range p.Secrets {
		secretsOf[it.Flag] = append(secretsOf[it.Flag], it)
	}
	for _, d := range dumps {
		for _, flag := range secretFlags {
			st, isSet := set[flag]
			if !isSet && !d.all {
				continue
			}
			raws := "~"
			if isSet {
				raws = core.HexList(st.Raws)
			}
			ans := ctx.Model.MustAsk("C19", "describe", d.fmt, flag, raws)
			impl, present := d.m[flag]
			if !present {
				ctx.Disagree(d.name+" lists --"+flag, c, "absent", ans)
				continue
			}
			want := ""
			if strings.HasPrefix(ans, "ok ") {
				want = string(core.MustUnHex(strings.TrimPrefix(ans, "ok ")))
			}
			if !strings.HasPrefix(ans, "ok ") || impl != want {
				ctx.Disagree(d.name+": value printed for --"+flag+" = Model.C19.describeValue/renderValues", c, impl, ans+" = "+want)
			}
			ok := true
			for _, it := range secretsOf[flag] {
				if ctx.Model.MustAsk("C19", "absent", core.HexS(it.Secret), core.HexS(impl)) != "true" {
					ok = false
				}
			}
			if ok && isSet {
				ctx.TraceValidated()
			}
		}
	}
}

// compareUpstreamURL checks the url attribute of the "using upstream proxy" start-up line against
// Model.C19.upstreamLogURL where the credentials the proxy URL ends up with are unambiguous: its own
// userinfo, or the --credentials entry written for exactly its host:port.
func compareUpstreamURL(ctx *core.Ctx, c *Case, k int, recs []record, p *plan) {
	if c.Level == "error" || c.Upstream == "none" {
		return
	}
	ui := func(u UserPub, pw string) string {
		if u.HasPass {
			return "p:" + core.HexS(u.User) + ":" + core.HexS(pw)
		}
		return "u:" + core.HexS(u.User)
	}
	own, cred := "-", "-"
	switch c.Upstream {
	case "userinfo":
		own = ui(*c.UpstreamUser, c.Secrets[k].Proxy)
	case "credentials":
		for i, cr := range c.Creds {
			if cr.Target == "upstream" && cr.Pattern == "exact" {
				cred = ui(cr.User, c.Secrets[k].Creds[i])
			}
		}
		if cred == "-" {
			return
		}
	default:
		return
	}
	scheme := "http"
	if c.UpstreamTLS {
		scheme = "https"
	}
	ans := ctx.Model.MustAsk("C19", "upstreamurl", core.HexS(scheme), core.HexS(p.UpstreamAddr), own, cred)
	want := string(core.MustUnHex(strings.TrimPrefix(ans, "ok ")))
	got, seen := "", false
	for _, r := range recs {
		if r.Msg == "using upstream proxy" {
			got, seen = r.Attrs["url"], true
		}
	}
	switch {
	case !seen:
		ctx.Disagree("start-up log has the 'using upstream proxy' line at info level", c, "absent", want)
	case !strings.HasPrefix(ans, "ok ") || got != want:
		ctx.Disagree("url of the 'using upstream proxy' line = Model.C19.upstreamLogURL", c, got, ans+" = "+want)
	default:
		ctx.TraceValidated()
	}
}

// compareTLSLoad checks the cert and key attributes of the debug record "loading TLS certificate"
// (configureHTTPS of http_proxy.go, written when --tls-cert-file / --tls-key-file is given) against
// Model.C19.tlsLoadAttrs, and evaluates the model's `absent` on them. expected says whether the run
// must have the record if the model has it (a serving run at debug level); a start-up that fails may
// end before the listener is configured.
func compareTLSLoad(ctx *core.Ctx, c *Case, recs []record, p *plan, expected bool) {
	raw := func(flag string) string {
		for _, st := range p.Settings {
			if st.Flag == flag && len(st.Raws) > 0 {
				return st.Raws[len(st.Raws)-1]
			}
		}
		return ""
	}
	cert, key := raw("tls-cert-file"), raw("tls-key-file")
	var got *record
	for i := range recs {
		if recs[i].Msg == "loading TLS certificate" || strings.HasPrefix(recs[i].Msg, "loading TLS certificate ") {
			got = &recs[i]
		}
	}
	if got == nil && !expected {
		return
	}
	ans := ctx.Model.MustAsk("C19", "tlsload", core.HexS(cert), core.HexS(key))
	const rel = "cert/key of the debug record 'loading TLS certificate' = Model.C19.tlsLoadAttrs"
	fs := strings.Fields(ans)
	switch {
	case ans == "none":
		if got != nil {
			ctx.Disagree(rel, c, short(got.Msg+" cert="+got.Attrs["cert"]+" key="+got.Attrs["key"], 300), "no such record")
		}
		return
	case len(fs) != 3 || fs[0] != "ok":
		ctx.Disagree(rel, c, "", ans)
		return
	}
	wantCert, wantKey := string(core.MustUnHex(fs[1])), string(core.MustUnHex(fs[2]))
	want := "cert=" + wantCert + " key=" + wantKey
	if got == nil {
		ctx.Disagree("start-up log has the 'loading TLS certificate' record at debug level", c, "absent", want)
		return
	}
	if got.Msg != "loading TLS certificate" || got.Attrs["cert"] != wantCert || got.Attrs["key"] != wantKey {
		ctx.Disagree(rel, c, short(got.Msg+" cert="+got.Attrs["cert"]+" key="+got.Attrs["key"], 400), short(want, 300))
		return
	}
	for _, it := range p.Secrets {
		if it.Flag != "tls-cert-file" && it.Flag != "tls-key-file" {
			continue
		}
		for _, v := range []string{got.Attrs["cert"], got.Attrs["key"]} {
			if ctx.Model.MustAsk("C19", "absent", core.HexS(it.Secret), core.HexS(v)) != "true" {
				return // reported by the scan of the start-up log
			}
		}
	}
	style := func(v string) string {
		switch {
		case v == "":
			return "unset"
		case isDataURI(v):
			return "data"
		}
		return "path"
	}
	ctx.Count("tls-load-record/" + c.Kind + "/cert=" + style(cert) + ",key=" + style(key))
	ctx.TraceValidated()
}

// ---- two runs that differ only in the secrets ----

var (
	reTimeText      = regexp.MustCompile(`time=\S+`)
	reTimeJSON      = regexp.MustCompile(`"time":"[^"]*"`)
	reDurText       = regexp.MustCompile(`(duration|period|elapsed)=("[^"]*"|\S+)`)
	reDurJSON       = regexp.MustCompile(`"(duration|period|elapsed)":("[^"]*"|[0-9.e+-]+)`)
	reLoopPort      = regexp.MustCompile(`127\.0\.0\.1:(\d+)`)
	reDate          = regexp.MustCompile(`(?m)^Date: .*$`)
	reIDText        = regexp.MustCompile(`\b(id|trace|trace_id|request_id)=("[^"]*"|\S+)`)
	reIDJSON        = regexp.MustCompile(`"(id|trace|trace_id|request_id)":"[^"]*"`)
	reContentLength = regexp.MustCompile(`(?m)^Content-Length: \d+$`)
	reBracket       = regexp.MustCompile(`\[[0-9a-f]{4,}(?:-[0-9a-f]+)*\]`)
)

func canonical(text string, o *observation, g *rig) string {
	static := map[string]string{}
	for name, addr := range map[string]string{"ORIGIN-SERVER": g.originAddr, "UPSTREAM-SERVER": g.upstreamAddr, "DEAD": g.deadAddr} {
		_, p := hostPort(addr)
		static[p] = name
	}
	static[o.OriginPort], static[o.UpstreamPort] = "ORIGIN", "UPSTREAM"
	static[o.ProxyPort], static[o.APIPort] = "PROXY", "API"
	static[o.AuxPort], static[o.PACPort] = "UPSTREAM2", "PACSERVER"
	if strings.HasPrefix(o.PACRaw, "data:") {
		// --pac given inline: the script (not a secret) names this run's ports
		text = strings.ReplaceAll(text, o.PACRaw, "data:<PAC-SCRIPT>")
	}
	return canonicalWith(text, o.Dir, static)
}

// canonicalWith replaces what differs between two runs of one configuration for reasons other than
// the secrets: the run directory, ports (static: port → name), timestamps, durations, ids.
func canonicalWith(text, dir string, static map[string]string) string {
	text = strings.ReplaceAll(text, dir, "<DIR>")
	// times and durations first: a duration in nanoseconds can happen to equal a port number of this run
	// and would then be taken for that port (seen once: `"duration":<API>` in one of the two runs)
	text = reTimeText.ReplaceAllString(text, "time=<T>")
	text = reTimeJSON.ReplaceAllString(text, `"time":"<T>"`)
	text = reDurText.ReplaceAllString(text, "$1=<D>")
	text = reDurJSON.ReplaceAllString(text, `"$1":"<D>"`)
	// a port of this run may also stand alone (`*:port` of a credentials entry, port="…" attributes)
	for _, port := range sortedKeys(static) {
		if port == "" {
			continue
		}
		re := regexp.MustCompile(`(^|[^0-9A-Za-z.])` + port + `($|[^0-9A-Za-z])`)
		text = re.ReplaceAllString(text, "${1}<"+static[port]+">${2}")
		text = re.ReplaceAllString(text, "${1}<"+static[port]+">${2}") // neighbours sharing a separator
	}
	text = reLoopPort.ReplaceAllStringFunc(text, func(m string) string {
		port := m[len("127.0.0.1:"):]
		if strings.HasPrefix(port, "<") {
			return m
		}
		if n, ok := static[port]; ok {
			return "127.0.0.1:<" + n + ">"
		}
		return "127.0.0.1:<EPH>"
	})
	text = reIDText.ReplaceAllString(text, "$1=<ID>")
	text = reIDJSON.ReplaceAllString(text, `"$1":"<ID>"`)
	text = reBracket.ReplaceAllString(text, "[<ID>]")
	text = reDate.ReplaceAllString(text, "Date: <DATE>")
	return text
}

func sortedLines(s string) []string {
	ls := strings.Split(s, "\n")
	sort.Strings(ls)
	return ls
}

// diffLines returns the lines present in only one of two sorted multisets of lines.
func diffLines(a, b []string) (onlyA, onlyB []string) {
	i, j := 0, 0
	for i < len(a) && j < len(b) {
		switch {
		case a[i] == b[j]:
			i++
			j++
		case a[i] < b[j]:
			onlyA = append(onlyA, a[i])
			i++
		default:
			onlyB = append(onlyB, b[j])
			j++
		}
	}
	return append(onlyA, a[i:]...), append(onlyB, b[j:]...)
}

// leakClass names the recorded defect class that explains a line which differs between the two
// runs because it carries a secret ("" if none does).
func leakClass(c *Case, channel, line string, p *plan) string {
	class, found := "", false
	all := distinctNeedles(p)
	wins := planWindows(p)
	sq, pos := squeeze(line)
	for i, it := range p.Secrets {
		hit := findWindow(sq, pos, wins[i]) >= 0
		for _, n := range all[i] {
			hit = hit || strings.Contains(line, n.Text)
		}
		if hit {
			cl := knownClass(c, attributed(c, p, it), channel)
			if cl == "" {
				return "" // a secret that no recorded class explains
			}
			class, found = cl, true
		}
	}
	if found {
		return class
	}
	// a value that was echoed over several lines: the line holds a run of its text too short for a window
	if key := inlineFaultKey(c); key != "" && c.StartFault == "inline-unrecognised" {
		for _, it := range p.Secrets {
			if layoutKey(it.Flag, it.Index) != key || !isFileNameLayout(c.layoutOf(it.Flag, it.Index)) {
				continue
			}
			for _, tok := range strings.FieldsFunc(line, func(r rune) bool { return r > 0x7f || !isB64Byte(byte(r)) }) {
				if len(tok) >= 8 && strings.Contains(it.Laid, tok) {
					return knownClass(c, it, channel)
				}
			}
		}
	}
	// material shared by several flags (the certificate pasted into the key slot as well): any of them
	for _, it := range p.Secrets {
		for _, n := range needles(it) {
			if strings.Contains(line, n.Text) {
				if cl := knownClass(c, it, channel); cl != "" {
					return cl
				}
				break
			}
		}
	}
	return ""
}

// errorPath names the path an error response came by: the status and the kind of cause, read off the
// FIXED texts the proxy chooses among (the first body line is `<name> <message of the handler that
// matched>`; for a *net.OpError the operation and the errno text follow) - never off anything a
// configured value could be part of. timing says that which of these causes a peer's abrupt end
// produces depends on scheduling (a close is seen as EOF, as ECONNRESET or as EPIPE; a slow machine
// turns either into a timeout).
func errorPath(dump string) (path string, timing bool) {
	status := ""
	if f := strings.Fields(strings.SplitN(dump, "\n", 2)[0]); len(f) >= 2 {
		status = f[1]
	}
	if !strings.Contains(dump, "\nX-Forwarder-Error: ") {
		return status + "/relayed", false
	}
	body := dump
	if i := strings.Index(dump, "\n\n"); i >= 0 {
		body = dump[i+2:]
	}
	kind := "other"
	for _, k := range []struct{ text, kind string }{
		{"connection closed by remote host", "eof"},
		{"timed out connecting to remote host", "timeout"},
		{"failed to connect to remote host", "net"},
		{"tls handshake failed", "tls"},
		{"tls alert for host", "tls-alert"},
		{"proxy error for host", "martian"},
		{"proxying is denied", "denied"},
		{"request context canceled", "canceled"},
		{"encountered an unexpected error", "unexpected"},
	} {
		if strings.HasPrefix(body, proxyName+" "+k.text) {
			kind = k.kind
			break
		}
	}
	timing = kind == "eof" || kind == "timeout" || kind == "net"
	if kind == "net" {
		for _, op := range []string{"read", "write", "dial", "proxyconnect", "socks connect"} {
			if strings.Contains(body, "\n"+op+" tcp") {
				kind += "-" + op
			}
		}
		for _, e := range []string{"connection reset by peer", "broken pipe", "connection refused"} {
			if strings.Contains(body, ": "+e+"\n") {
				kind += "-" + strings.Fields(e)[1]
			}
		}
	}
	return status + "/" + kind, timing
}

// sameErrorPath decides whether the error responses of the two runs to one request can be compared: only
// if both came by the same path. If the paths differ and both are causes whose choice depends on timing,
// it is the harness's environment that differed between the runs (seen under heavy load: the dropped
// exchange ended in EOF in one run and in ECONNRESET in the other), not the secrets: no verdict.
// Anything else that differs is judged as before.
func sameErrorPath(ctx *core.Ctx, name, a, b string) bool {
	if a == "" || b == "" {
		return true
	}
	pa, ta := errorPath(a)
	pb, tb := errorPath(b)
	if pa != pb && ta && tb {
		ctx.Count("inconclusive/two-run-environment-differed")
		ctx.Count("inconclusive/two-run-environment-differed/" + strings.SplitN(name, "/fault/", 2)[0] + "/" + pa + "≠" + pb)
		return false
	}
	return true
}

func diffRuns(ctx *core.Ctx, c *Case, oa, ob *observation, pa, pb *plan) {
	g := getRig()
	type pair struct {
		name string
		a, b string
	}
	ps := []pair{
		{"startup-log", oa.Startup, ob.Startup},
		{"stderr", oa.Stderr, ob.Stderr},
		{"configz", oa.Configz.Dump, ob.Configz.Dump},
		{"request-log", oa.ReqLog, ob.ReqLog},
		{"error-response/407", oa.Resp407.Dump, ob.Resp407.Dump},
		{"error-response/502", oa.Resp502.Dump, ob.Resp502.Dump},
		{"error-response/api-401", oa.API401.Dump, ob.API401.Dump},
		{"fault-phase-log", oa.FaultLog, ob.FaultLog},
	}
	if sameHistory(oa.History, ob.History) {
		ps = append(ps, pair{"request-log/history", oa.HistLog, ob.HistLog})
	} else {
		// a client of one run saw another status than its twin (a timeout on a loaded machine, the race
		// inside the api-5xx pair): the runs did not take the same path
		ctx.Count("inconclusive/two-run-environment-differed")
		ctx.Count("inconclusive/two-run-environment-differed/history")
	}
	for i, fa := range oa.Faults {
		if i < len(ob.Faults) && fa.Deterministic && ob.Faults[i].Label == fa.Label {
			// the proxy's own error texts name ports, whose number of digits varies
			ps = append(ps, pair{"error-response/fault/" + fa.Label, reContentLength.ReplaceAllString(fa.Dump, "Content-Length: <N>"),
				reContentLength.ReplaceAllString(ob.Faults[i].Dump, "Content-Length: <N>")})
		}
	}
	// Which segment a line falls in depends on timing (a "closed tunnel" debug line may be written
	// while the next phase already runs), so a line counts as different only if it occurs nowhere
	// in the other run's log.
	wholeA, wholeB := map[string]bool{}, map[string]bool{}
	for _, l := range sortedLines(canonical(oa.Startup+oa.ReqLog+oa.FailLog+oa.FaultLog+oa.FaultLogRacy+oa.FaultDumps+oa.HistLog+oa.HistDumps, oa, g)) {
		wholeA[l] = true
	}
	for _, l := range sortedLines(canonical(ob.Startup+ob.ReqLog+ob.FailLog+ob.FaultLog+ob.FaultLogRacy+ob.FaultDumps+ob.HistLog+ob.HistDumps, ob, g)) {
		wholeB[l] = true
	}
	drop := func(ls []string, other map[string]bool) []string {
		var out []string
		for _, l := range ls {
			if !other[l] {
				out = append(out, l)
			}
		}
		return out
	}
	skip := map[string]bool{}
	for _, p := range ps {
		if strings.HasPrefix(p.name, "error-response/") && !sameErrorPath(ctx, p.name, p.a, p.b) {
			skip[p.name] = true
			if strings.HasPrefix(p.name, "error-response/fault/") {
				// what the proxy logged about that exchange differs for the same reason
				skip["fault-phase-log"] = true
			}
		}
	}
	for _, p := range ps {
		if skip[p.name] {
			continue
		}
		la, lb := sortedLines(canonical(p.a, oa, g)), sortedLines(canonical(p.b, ob, g))
		onlyA, onlyB := diffLines(la, lb)
		if p.name == "startup-log" || p.name == "request-log" || p.name == "fault-phase-log" || p.name == "request-log/history" {
			onlyA, onlyB = drop(onlyA, wholeB), drop(onlyB, wholeA)
		}
		// group the differing lines by the recorded class that explains them
		byClass := map[string][2][]string{}
		for _, l := range onlyA {
			cl := leakClass(c, p.name, l, pa)
			e := byClass[cl]
			e[0] = append(e[0], l)
			byClass[cl] = e
		}
		for _, l := range onlyB {
			cl := leakClass(c, p.name, l, pb)
			e := byClass[cl]
			e[1] = append(e[1], l)
			byClass[cl] = e
		}
		for _, cl := range sortedKeys(byClass) {
			e := byClass[cl]
			x, y := "", ""
			if len(e[0]) > 0 {
				x = e[0][0]
			}
			if len(e[1]) > 0 {
				y = e[1][0]
			}
			specFail(ctx, "two runs that differ only in the secrets emit the same "+p.name, cl, c,
				"run 0: "+short(x, 400)+"\nrun 1: "+short(y, 400),
				fmt.Sprintf("after canonicalising timestamps, durations, ports, ids and the run directory the %s of the two runs differ in %d+%d lines (lines compared as a multiset)", p.name, len(e[0]), len(e[1])))
		}
	}
}

// transient reports trouble that a loaded machine can cause (a loopback dial or read timing out,
// servers not up in time): such a case is run once more before anything is reported.
func transient(o *observation) bool {
	if strings.Contains(o.Problem, "did not come up") {
		return true
	}
	rs := append([]reply{o.Configz, o.API401, o.Resp407, o.Resp502}, o.OK...)
	for _, r := range rs {
		if strings.Contains(r.Err, "timeout") {
			return true
		}
	}
	return false
}

// checkCase runs one case: both secret assignments, scans, model comparison, diff.
func checkCase(ctx *core.Ctx, c *Case) {
	if c.Kind == "startfail" {
		checkFailCase(ctx, c)
		return
	}
	var obs [2]*observation
	var plans [2]*plan
	for attempt := 0; attempt < 2; attempt++ {
		var wg sync.WaitGroup
		for k := 0; k < 2; k++ {
			wg.Add(1)
			go func(k int) {
				defer wg.Done()
				obs[k], plans[k] = runOnce(ctx, c, k)
			}(k)
		}
		wg.Wait()
		if !transient(obs[0]) && !transient(obs[1]) {
			break
		}
		ctx.Count("rerun-after-timeout")
	}

	served := true
	for k := 0; k < 2; k++ {
		o := obs[k]
		if os.Getenv("C19_DUMP") != "" {
			fmt.Fprintf(os.Stderr, "=== case %s run %d\nargs: %q\n--- startup\n%s--- stderr\n%s--- reqlog\n%s--- faillog\n%s--- configz\n%s\n--- 407\n%s\n--- 502\n%s\n--- 401\n%s\nproblem=%q usedUp=%v usedSite=%v\n",
				c.ID, k, o.Args, o.Startup, o.Stderr, o.ReqLog, o.FailLog, o.Configz.Dump, o.Resp407.Dump, o.Resp502.Dump, o.API401.Dump, o.Problem, o.UsedUp, o.UsedSite)
			for i, r := range o.OK {
				fmt.Fprintf(os.Stderr, "--- ok %d: %d %s %s\n", i, r.Status, r.Err, short(r.Dump, 200))
			}
		}
		if os.Getenv("C19_DUMP") != "" {
			fmt.Fprintf(os.Stderr, "--- fault log\n%s--- fault log (racy)\n%s--- fault dumps\n%s", o.FaultLog, o.FaultLogRacy, o.FaultDumps)
			for _, f := range o.Faults {
				fmt.Fprintf(os.Stderr, "--- fault %s: %s hits=%d auth=%v\n%s\n", f.Label, f.Outcome, f.Hits, f.SawAuth, short(f.Dump, 600))
			}
		}
		scan(ctx, c, k, o, plans[k])
		if o.Problem == "" {
			countFaults(ctx, c, o, plans[k])
			countHistory(ctx, c, o)
		}
		if o.SlowStop {
			ctx.Count("killed-20s-after-SIGTERM")
		}
		if o.PortRace {
			served = false
			ctx.Count("inconclusive/port-race-on-every-attempt")
			continue
		}
		if o.Problem != "" {
			served = false
			noteFinding("crash", "the binary starts with a valid configuration and serves", "", c)
			ctx.Crash("the binary starts with a valid configuration and serves", "", c,
				o.Problem+"\nstderr: "+short(o.Stderr, 600)+"\nlog: "+short(tail(o.Startup, 800), 900))
			continue
		}
		compareModel(ctx, c, k, o, plans[k])
		comparePAC(ctx, c, o, plans[k])
		// the exchanges really used the credentials
		for i, r := range o.OK {
			if r.Status != 200 {
				served = false
				ctx.Disagree(fmt.Sprintf("successful exchange %d answers 200", i), c, fmt.Sprintf("%d %s %s", r.Status, r.Err, short(r.Dump, 300)), "200")
			}
		}
		if c.BasicAuth != nil && o.Resp407.Status != 407 {
			ctx.Disagree("a wrong proxy password is answered 407", c, fmt.Sprintf("%d %s", o.Resp407.Status, o.Resp407.Err), "407")
		}
		if c.APIBasicAuth != nil && o.API401.Status != 401 {
			ctx.Disagree("a wrong API password is answered 401", c, fmt.Sprintf("%d %s", o.API401.Status, o.API401.Err), "401")
		}
		if o.Resp502.Status < 500 {
			ctx.Disagree("a dropped upstream exchange is answered 5xx", c, fmt.Sprintf("%d %s", o.Resp502.Status, o.Resp502.Err), "5xx")
		}
		if plans[k].UpstreamAuth != "" {
			ctx.Count(fmt.Sprintf("used/upstream-credentials=%v", o.UsedUp))
		}
		if plans[k].OriginAuth != "" {
			ctx.Count(fmt.Sprintf("used/site-credentials=%v", o.UsedSite))
		}
	}
	if served {
		diffRuns(ctx, c, obs[0], obs[1], plans[0], plans[1])
	}

	nsec := len(plans[0].Secrets)
	ctx.Case(c.key(), served && nsec > 0)
	ctx.Count("log-level/" + c.Level)
	ctx.Count("log-format/" + c.Format)
	ctx.Count("log-http/" + c.LogHTTP)
	ctx.Count("log-http-per-module/proxy=" + c.LogHTTP + ",api=" + c.apiMode())
	if c.LogHTTPSpec != nil {
		ctx.Count("log-http-form/" + c.LogHTTPSpec.Form + "/" + c.LogHTTPSpec.Source)
	}
	ctx.Count("log-to/" + c.LogTo)
	ctx.Count("upstream/" + c.Upstream)
	ctx.Count(fmt.Sprintf("secrets-per-case/%d", nsec))
	for _, st := range plans[0].Settings {
		src := c.Source[st.Flag]
		if src == "file" {
			src += ":" + c.ConfigFmt
		}
		ctx.Count("flag/" + st.Flag + "/" + src)
	}
	countLayouts(ctx, c, plans[0])
	for _, it := range plans[0].Secrets {
		if it.PEM != nil {
			ctx.Count("secret-kind/data-payload")
		} else {
			ctx.Count("secret-kind/password")
			if strings.Contains(it.Secret, "@") {
				ctx.Count("secret-has/at-sign")
			}
			if strings.Contains(it.Secret, ":") {
				ctx.Count("secret-has/colon")
			}
			if strings.Contains(it.Secret, "%") {
				ctx.Count("secret-has/percent")
			}
			if strings.ContainsAny(it.Secret, " /+=") {
				ctx.Count("secret-has/space-slash-plus-equals")
			}
		}
	}
}

// countLayouts records the textual forms the inline values of a case were written in, per source.
func countLayouts(ctx *core.Ctx, c *Case, p *plan) {
	for _, it := range p.Secrets {
		if it.PEM == nil {
			continue
		}
		src := sourceOf(c, it.Flag)
		if src == "file" {
			src += ":" + c.ConfigFmt
			if c.FileQuoting == "block" && c.ConfigFmt != "json" {
				for _, st := range p.Settings {
					if st.Flag == it.Flag && it.Index < len(st.Raws) && blockable(st.Raws[it.Index]) {
						src += ":block"
					}
				}
			}
		}
		ctx.Count("inline-layout/" + c.Kind + "/" + c.layoutOf(it.Flag, it.Index) + "/" + src)
		ctx.Count("inline-layout-flag/" + it.Flag + "/" + c.layoutOf(it.Flag, it.Index))
		if len(it.Secret) > 3000 {
			ctx.Count("inline-payload/longer-than-3000-characters")
		}
	}
}
