package c19

import (
	"encoding/base64"
	"encoding/hex"
	"encoding/json"
	"fmt"
	"net/url"
	"os"
	"regexp"
	"sort"
	"strconv"
	"strings"
	"sync"

	"github.com/saucelabs/forwarder/verifharness/core"
)

// needle is one textual form of a secret.
type needle struct {
	Enc  string
	Text string
}

func pctAll(s string, upper bool) string {
	var b strings.Builder
	for i := 0; i < len(s); i++ {
		c := s[i]
		if c >= '0' && c <= '9' || c >= 'a' && c <= 'z' || c >= 'A' && c <= 'Z' {
			b.WriteByte(c)
		} else if upper {
			fmt.Fprintf(&b, "%%%02X", c)
		} else {
			fmt.Fprintf(&b, "%%%02x", c)
		}
	}
	return b.String()
}

// needles lists the forms under which a secret is looked for: literally, base64 (of the password
// and of user:password, standard and URL alphabets, padded and raw), percent-encoded (query, path,
// userinfo, everything), as Go/JSON string literals, hex; for data: payloads also the decoded PEM
// body lines and head/tail fragments.
func needles(it secretItem) []needle {
	var ns []needle
	add := func(enc, text string) {
		if len(text) < 6 {
			return
		}
		for _, n := range ns {
			if n.Text == text {
				return
			}
		}
		ns = append(ns, needle{enc, text})
	}
	s := it.Secret
	add("literal", s)
	if it.PEM != nil {
		add("query-escaped", url.QueryEscape(s))
		if len(s) > 120 {
			for i, at := range []int{len(s) / 3, len(s) / 2, 2 * len(s) / 3} {
				add(fmt.Sprintf("fragment-%d", i), s[at-20:at+20])
			}
		}
		if raw, err := base64.StdEncoding.DecodeString(s); err == nil {
			add("base64url", base64.URLEncoding.EncodeToString(raw))
		}
		for _, line := range strings.Split(string(it.PEM), "\n") {
			if len(line) >= 40 && !strings.HasPrefix(line, "-----") {
				add("pem-body-line", line)
			}
		}
		return ns
	}
	encs := []struct {
		name string
		e    *base64.Encoding
	}{{"base64-std", base64.StdEncoding}, {"base64-url", base64.URLEncoding}, {"base64-rawstd", base64.RawStdEncoding}, {"base64-rawurl", base64.RawURLEncoding}}
	for _, e := range encs {
		add(e.name+"(user:pass)", e.e.EncodeToString([]byte(it.User+":"+s)))
	}
	for _, e := range encs {
		add(e.name+"(pass)", e.e.EncodeToString([]byte(s)))
	}
	add("query-escaped", url.QueryEscape(s))
	add("path-escaped", url.PathEscape(s))
	add("userinfo-escaped", strings.TrimPrefix(url.UserPassword("u", s).String(), "u:"))
	add("percent-all", pctAll(s, true))
	add("percent-all-lower", pctAll(s, false))
	q := strconv.Quote(s)
	add("go-quoted", q[1:len(q)-1])
	if j, err := json.Marshal(s); err == nil {
		add("json-escaped", string(j[1:len(j)-1]))
	}
	add("hex", hex.EncodeToString([]byte(s)))
	return ns
}

// knownClass decides from the configuration (and the flag/channel a leak concerns) whether a leak
// falls in a recorded defect class of the unchanged tree.
func knownClass(c *Case, flag, channel string) string {
	// F31: configureHTTPS logs CertFile/KeyFile verbatim at debug level (http_proxy.go),
	// so a data: URI given to --tls-cert-file/--tls-key-file is printed in full.
	if c.Level == "debug" && channel == "startup-log" && c.TLSCert != "none" &&
		((flag == "tls-cert-file" && strings.HasPrefix(c.TLSCert, "data")) || (flag == "tls-key-file" && strings.HasPrefix(c.TLSKey, "data"))) {
		return "tls-data-uri-debug-log"
	}
	return ""
}

type channelText struct {
	Name    string
	Text    string
	Covered bool // one of the channels the property lists
}

func channels(o *observation) []channelText {
	cs := []channelText{
		{"startup-log", o.Startup, true},
		{"stderr", o.Stderr, true},
		{"configz", o.Configz.Dump, true},
		{"request-log", o.ReqLog, true},
		{"error-response/407", o.Resp407.Dump, true},
		{"error-response/502", o.Resp502.Dump, true},
		{"error-response/api-401", o.API401.Dump, true},
		// written while the failing exchanges and the shutdown ran: the property covers request log
		// lines of successful exchanges only (mode `errors` dumps the headers of a 5xx exchange here)
		{"failure-phase-log", o.FailLog, false},
	}
	for i, r := range o.OK {
		cs = append(cs, channelText{fmt.Sprintf("ok-response/%d", i), r.Dump, false})
	}
	return cs
}

func snippet(text string, at, n int) string {
	lo, hi := at-60, at+n+60
	if lo < 0 {
		lo = 0
	}
	if hi > len(text) {
		hi = len(text)
	}
	return short(text[lo:hi], 400)
}

// scan looks for every secret of the run in every channel.
func scan(ctx *core.Ctx, c *Case, k int, o *observation, p *plan) {
	chs := channels(o)
	all := make([][]needle, len(p.Secrets))
	for i, it := range p.Secrets {
		all[i] = needles(it)
	}
	for i, it := range p.Secrets {
		// a form that also occurs inside another secret of the same run (constant PEM framing,
		// shared certificate fields) cannot be attributed to this flag: drop it
		var ns []needle
		for _, n := range all[i] {
			distinct := true
			for j, other := range p.Secrets {
				if j == i {
					continue
				}
				if strings.Contains(other.Secret, n.Text) || strings.Contains(string(other.PEM), n.Text) {
					distinct = false
				}
				for _, m := range all[j] {
					if m.Text == n.Text {
						distinct = false
					}
				}
			}
			if distinct {
				ns = append(ns, n)
			}
		}
		for _, ch := range chs {
			if ch.Text == "" {
				continue
			}
			ctx.CountN("scanned-bytes/"+strings.SplitN(ch.Name, "/", 2)[0], len(ch.Text))
			for _, n := range ns {
				at := strings.Index(ch.Text, n.Text)
				if at < 0 {
					continue
				}
				if !ch.Covered {
					ctx.Count("outside-property/" + strings.SplitN(ch.Name, "/", 2)[0] + "/" + it.Flag + "/log-http=" + c.LogHTTP)
					break
				}
				what := "password"
				if it.PEM != nil {
					what = "data: payload"
				}
				ctx.SpecFail("secret absent from "+ch.Name, knownClass(c, it.Flag, ch.Name), c,
					snippet(ch.Text, at, len(n.Text)),
					fmt.Sprintf("%s of --%s (given as %s, entry %d, secret assignment %d) appears in %s, encoding %s; log-level=%s log-format=%s log-http=%s",
						what, it.Flag, c.Source[it.Flag], it.Index, k, ch.Name, n.Enc, c.Level, c.Format, c.LogHTTP))
				break // one finding per (secret, channel)
			}
		}
	}
}

// compareModel checks the renderings of the secret-bearing flags in the configuration dumps
// against the Lean model, and evaluates the model's `absent` on them.
func compareModel(ctx *core.Ctx, c *Case, k int, o *observation, p *plan) {
	type dump struct {
		name, fmt string
		m         map[string]string
		all       bool
	}
	var dumps []dump
	if o.Configz.Status == 200 {
		dumps = append(dumps, dump{"/configz", "plain", configzMap(o.Configz.Body), true})
	} else {
		ctx.Disagree("/configz answers 200 with the Plain configuration dump", c, short(o.Configz.Dump+o.Configz.Err, 300), "200")
	}
	recs := parseRecords(c.Format, o.Startup)
	if c.Level != "error" {
		if m, ok := configLine(recs, "configuration: "); ok {
			dumps = append(dumps, dump{"start-up log 'configuration:'", "oneline", m, false})
		} else {
			ctx.Disagree("start-up log has the 'configuration:' line at info level", c, short(o.Startup, 300), "present")
		}
	}
	if c.Level == "debug" {
		if m, ok := configLine(recs, "all configuration: "); ok {
			dumps = append(dumps, dump{"start-up log 'all configuration:'", "oneline", m, true})
		} else {
			ctx.Disagree("start-up log has the 'all configuration:' line at debug level", c, short(o.Startup, 300), "present")
		}
	}
	set := map[string]setting{}
	for _, st := range p.Settings {
		set[st.Flag] = st
	}
	secretsOf := map[string][]secretItem{}
	for _, it := range p.Secrets {
		secretsOf[it.Flag] = append(secretsOf[it.Flag], it)
	}
	for _, d := range dumps {
		for _, flag := range secretFlags {
			st, isSet := set[flag]
			if !isSet && !d.all {
				continue
			}
			raws := "~"
			if isSet {
				raws = core.HexList(st.Raws)
			}
			ans := ctx.Model.MustAsk("C19", "describe", d.fmt, flag, raws)
			impl, present := d.m[flag]
			if !present {
				ctx.Disagree(d.name+" lists --"+flag, c, "absent", ans)
				continue
			}
			want := ""
			if strings.HasPrefix(ans, "ok ") {
				want = string(core.MustUnHex(strings.TrimPrefix(ans, "ok ")))
			}
			if !strings.HasPrefix(ans, "ok ") || impl != want {
				ctx.Disagree(d.name+": value printed for --"+flag+" = Model.C19.describeValue/renderValues", c, impl, ans+" = "+want)
			}
			ok := true
			for _, it := range secretsOf[flag] {
				if ctx.Model.MustAsk("C19", "absent", core.HexS(it.Secret), core.HexS(impl)) != "true" {
					ok = false
				}
			}
			if ok && isSet {
				ctx.TraceValidated()
			}
		}
	}
}

// ---- two runs that differ only in the secrets ----

var (
	reTimeText = regexp.MustCompile(`time=\S+`)
	reTimeJSON = regexp.MustCompile(`"time":"[^"]*"`)
	reDurText  = regexp.MustCompile(`(duration|period|elapsed)=("[^"]*"|\S+)`)
	reDurJSON  = regexp.MustCompile(`"(duration|period|elapsed)":("[^"]*"|[0-9.e+-]+)`)
	reLoopPort = regexp.MustCompile(`127\.0\.0\.1:(\d+)`)
	reDate     = regexp.MustCompile(`(?m)^Date: .*$`)
	reIDText   = regexp.MustCompile(`\b(id|trace|trace_id|request_id)=("[^"]*"|\S+)`)
	reIDJSON   = regexp.MustCompile(`"(id|trace|trace_id|request_id)":"[^"]*"`)
	reBracket  = regexp.MustCompile(`\[[0-9a-f]{4,}(?:-[0-9a-f]+)*\]`)
)

func canonical(text string, o *observation, g *rig) string {
	text = strings.ReplaceAll(text, o.Dir, "<DIR>")
	static := map[string]string{}
	for name, addr := range map[string]string{"ORIGIN": g.originAddr, "UPSTREAM": g.upstreamAddr, "DEAD": g.deadAddr} {
		_, p := hostPort(addr)
		static[p] = name
	}
	static[o.ProxyPort], static[o.APIPort] = "PROXY", "API"
	text = reLoopPort.ReplaceAllStringFunc(text, func(m string) string {
		port := m[len("127.0.0.1:"):]
		if n, ok := static[port]; ok {
			return "127.0.0.1:<" + n + ">"
		}
		return "127.0.0.1:<EPH>"
	})
	text = reTimeText.ReplaceAllString(text, "time=<T>")
	text = reTimeJSON.ReplaceAllString(text, `"time":"<T>"`)
	text = reDurText.ReplaceAllString(text, "$1=<D>")
	text = reDurJSON.ReplaceAllString(text, `"$1":"<D>"`)
	text = reIDText.ReplaceAllString(text, "$1=<ID>")
	text = reIDJSON.ReplaceAllString(text, `"$1":"<ID>"`)
	text = reBracket.ReplaceAllString(text, "[<ID>]")
	text = reDate.ReplaceAllString(text, "Date: <DATE>")
	return text
}

func sortedLines(s string) []string {
	ls := strings.Split(s, "\n")
	sort.Strings(ls)
	return ls
}

// diffLines returns the lines present in only one of two sorted multisets of lines.
func diffLines(a, b []string) (onlyA, onlyB []string) {
	i, j := 0, 0
	for i < len(a) && j < len(b) {
		switch {
		case a[i] == b[j]:
			i++
			j++
		case a[i] < b[j]:
			onlyA = append(onlyA, a[i])
			i++
		default:
			onlyB = append(onlyB, b[j])
			j++
		}
	}
	return append(onlyA, a[i:]...), append(onlyB, b[j:]...)
}

// leakClass names the recorded defect class that explains a line which differs between the two
// runs because it carries a secret ("" if none does).
func leakClass(c *Case, channel, line string, p *plan) string {
	for _, it := range p.Secrets {
		for _, n := range needles(it) {
			if strings.Contains(line, n.Text) {
				return knownClass(c, it.Flag, channel)
			}
		}
	}
	return ""
}

func diffRuns(ctx *core.Ctx, c *Case, oa, ob *observation, pa, pb *plan) {
	g := getRig()
	type pair struct {
		name string
		a, b string
	}
	ps := []pair{
		{"startup-log", oa.Startup, ob.Startup},
		{"stderr", oa.Stderr, ob.Stderr},
		{"configz", oa.Configz.Dump, ob.Configz.Dump},
		{"request-log", oa.ReqLog, ob.ReqLog},
		{"error-response/407", oa.Resp407.Dump, ob.Resp407.Dump},
		{"error-response/502", oa.Resp502.Dump, ob.Resp502.Dump},
		{"error-response/api-401", oa.API401.Dump, ob.API401.Dump},
	}
	// Which segment a line falls in depends on timing (a "closed tunnel" debug line may be written
	// while the next phase already runs), so a line counts as different only if it occurs nowhere
	// in the other run's log.
	wholeA, wholeB := map[string]bool{}, map[string]bool{}
	for _, l := range sortedLines(canonical(oa.Startup+oa.ReqLog+oa.FailLog, oa, g)) {
		wholeA[l] = true
	}
	for _, l := range sortedLines(canonical(ob.Startup+ob.ReqLog+ob.FailLog, ob, g)) {
		wholeB[l] = true
	}
	drop := func(ls []string, other map[string]bool) []string {
		var out []string
		for _, l := range ls {
			if !other[l] {
				out = append(out, l)
			}
		}
		return out
	}
	for _, p := range ps {
		la, lb := sortedLines(canonical(p.a, oa, g)), sortedLines(canonical(p.b, ob, g))
		onlyA, onlyB := diffLines(la, lb)
		if p.name == "startup-log" || p.name == "request-log" {
			onlyA, onlyB = drop(onlyA, wholeB), drop(onlyB, wholeA)
		}
		// group the differing lines by the recorded class that explains them
		byClass := map[string][2][]string{}
		for _, l := range onlyA {
			cl := leakClass(c, p.name, l, pa)
			e := byClass[cl]
			e[0] = append(e[0], l)
			byClass[cl] = e
		}
		for _, l := range onlyB {
			cl := leakClass(c, p.name, l, pb)
			e := byClass[cl]
			e[1] = append(e[1], l)
			byClass[cl] = e
		}
		for _, cl := range sortedKeys(byClass) {
			e := byClass[cl]
			x, y := "", ""
			if len(e[0]) > 0 {
				x = e[0][0]
			}
			if len(e[1]) > 0 {
				y = e[1][0]
			}
			ctx.SpecFail("two runs that differ only in the secrets emit the same "+p.name, cl, c,
				"run 0: "+short(x, 400)+"\nrun 1: "+short(y, 400),
				fmt.Sprintf("after canonicalising timestamps, durations, ports, ids and the run directory the %s of the two runs differ in %d+%d lines (lines compared as a multiset)", p.name, len(e[0]), len(e[1])))
		}
	}
}

// transient reports trouble that a loaded machine can cause (a loopback dial or read timing out,
// servers not up in time): such a case is run once more before anything is reported.
func transient(o *observation) bool {
	if strings.Contains(o.Problem, "did not come up") {
		return true
	}
	rs := append([]reply{o.Configz, o.API401, o.Resp407, o.Resp502}, o.OK...)
	for _, r := range rs {
		if strings.Contains(r.Err, "timeout") {
			return true
		}
	}
	return false
}

// checkCase runs one case: both secret assignments, scans, model comparison, diff.
func checkCase(ctx *core.Ctx, c *Case) {
	var obs [2]*observation
	var plans [2]*plan
	for attempt := 0; attempt < 2; attempt++ {
		var wg sync.WaitGroup
		for k := 0; k < 2; k++ {
			wg.Add(1)
			go func(k int) {
				defer wg.Done()
				obs[k], plans[k] = runOnce(ctx, c, k)
			}(k)
		}
		wg.Wait()
		if !transient(obs[0]) && !transient(obs[1]) {
			break
		}
		ctx.Count("rerun-after-timeout")
	}

	served := true
	for k := 0; k < 2; k++ {
		o := obs[k]
		if os.Getenv("C19_DUMP") != "" {
			fmt.Fprintf(os.Stderr, "=== case %s run %d\nargs: %q\n--- startup\n%s--- stderr\n%s--- reqlog\n%s--- faillog\n%s--- configz\n%s\n--- 407\n%s\n--- 502\n%s\n--- 401\n%s\nproblem=%q usedUp=%v usedSite=%v\n",
				c.ID, k, o.Args, o.Startup, o.Stderr, o.ReqLog, o.FailLog, o.Configz.Dump, o.Resp407.Dump, o.Resp502.Dump, o.API401.Dump, o.Problem, o.UsedUp, o.UsedSite)
			for i, r := range o.OK {
				fmt.Fprintf(os.Stderr, "--- ok %d: %d %s %s\n", i, r.Status, r.Err, short(r.Dump, 200))
			}
		}
		scan(ctx, c, k, o, plans[k])
		if o.SlowStop {
			ctx.Count("killed-20s-after-SIGTERM")
		}
		if o.Problem != "" {
			served = false
			ctx.Crash("the binary starts with a valid configuration and serves", "", c,
				o.Problem+"\nstderr: "+short(o.Stderr, 600)+"\nlog: "+short(tail(o.Startup, 800), 900))
			continue
		}
		compareModel(ctx, c, k, o, plans[k])
		// the exchanges really used the credentials
		for i, r := range o.OK {
			if r.Status != 200 {
				served = false
				ctx.Disagree(fmt.Sprintf("successful exchange %d answers 200", i), c, fmt.Sprintf("%d %s %s", r.Status, r.Err, short(r.Dump, 300)), "200")
			}
		}
		if c.BasicAuth != nil && o.Resp407.Status != 407 {
			ctx.Disagree("a wrong proxy password is answered 407", c, fmt.Sprintf("%d %s", o.Resp407.Status, o.Resp407.Err), "407")
		}
		if c.APIBasicAuth != nil && o.API401.Status != 401 {
			ctx.Disagree("a wrong API password is answered 401", c, fmt.Sprintf("%d %s", o.API401.Status, o.API401.Err), "401")
		}
		if o.Resp502.Status < 500 {
			ctx.Disagree("a dropped upstream exchange is answered 5xx", c, fmt.Sprintf("%d %s", o.Resp502.Status, o.Resp502.Err), "5xx")
		}
		if plans[k].UpstreamAuth != "" {
			ctx.Count(fmt.Sprintf("used/upstream-credentials=%v", o.UsedUp))
		}
		if plans[k].OriginAuth != "" {
			ctx.Count(fmt.Sprintf("used/site-credentials=%v", o.UsedSite))
		}
	}
	if served {
		diffRuns(ctx, c, obs[0], obs[1], plans[0], plans[1])
	}

	nsec := len(plans[0].Secrets)
	ctx.Case(c.key(), served && nsec > 0)
	ctx.Count("log-level/" + c.Level)
	ctx.Count("log-format/" + c.Format)
	ctx.Count("log-http/" + c.LogHTTP)
	ctx.Count("log-to/" + c.LogTo)
	ctx.Count("upstream/" + c.Upstream)
	ctx.Count(fmt.Sprintf("secrets-per-case/%d", nsec))
	for _, st := range plans[0].Settings {
		src := c.Source[st.Flag]
		if src == "file" {
			src += ":" + c.ConfigFmt
		}
		ctx.Count("flag/" + st.Flag + "/" + src)
	}
	for _, it := range plans[0].Secrets {
		if it.PEM != nil {
			ctx.Count("secret-kind/data-payload")
		} else {
			ctx.Count("secret-kind/password")
			if strings.Contains(it.Secret, "@") {
				ctx.Count("secret-has/at-sign")
			}
			if strings.Contains(it.Secret, ":") {
				ctx.Count("secret-has/colon")
			}
			if strings.Contains(it.Secret, "%") {
				ctx.Count("secret-has/percent")
			}
			if strings.ContainsAny(it.Secret, " /+=") {
				ctx.Count("secret-has/space-slash-plus-equals")
			}
		}
	}
}
