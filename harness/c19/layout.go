package c19

import (
	"crypto/rand"
	"crypto/rsa"
	"crypto/x509"
	"crypto/x509/pkix"
	"encoding/base64"
	"encoding/pem"
	"errors"
	"fmt"
	"math/big"
	"net"
	"strings"
	"sync"
	"time"

	"github.com/saucelabs/forwarder/verifharness/core"
)

// The TEXTUAL FORM of an inline data: value is a generated dimension: the same key material written
// the way people produce it (`base64 key.pem` wraps at 76 characters, openssl at 64, editors add CR LF
// and a final line break, block scalars of YAML/TOML keep the line breaks) and the ways they get it
// wrong (TABs, blanks, URL alphabet, missing padding, percent-encoding, a media type in front).
// Which forms the tree accepts is not assumed: acceptedInline mirrors the documented contract
// (data:[base64,]<standard base64, CR and LF ignored>) with the standard library's decoder, the serving
// cases draw from the forms it accepts, the failing start-ups from all the others.

// layoutsAccepted: CR and LF are ignored by base64.StdEncoding.
//
// scheme-upper / scheme-capital / scheme-mixed: the scheme of the URI spelled DATA: / Data: / dAtA: - URI
// schemes are case-insensitive (RFC 3986 3.1, RFC 2397), so such a value IS an inline value: it must load
// and serve like its lower-case spelling and be redacted wherever that one is (F54: the tree used to take
// it for a file name and os.ReadFile's error carried the whole value into the log).
var layoutsAccepted = []string{"single", "wrap76-lf", "wrap64-lf", "wrap76-crlf", "wrap64-crlf",
	"trailing-lf", "trailing-crlf", "wrap76-lf-trailing", "one-break", "leading-lf",
	"scheme-upper", "scheme-capital", "scheme-mixed"}

// layoutsRejected: forms the decoder refuses (or that are no base64 data: value at all). A form that
// happens to decode for one payload (URL alphabet without '-' and '_', nothing to pad) simply serves.
var layoutsRejected = []string{"wrap76-tab", "tab-inside", "blank-inside", "wrap76-blank", "leading-space",
	"trailing-space", "trailing-tab", "urlsafe", "nopad", "pct-padding", "pct-line-breaks", "pct-all",
	"vtab-inside", "del-inside", "bad-char", "truncated", "media-type", "semicolon-base64", "double-comma"}

// layoutsFileName: the whole value is NOT a data: URI (white space in front of the scheme, something else
// in front of it, another scheme): by definition it is a file name, whatever its tail looks like. What the
// tree prints about a file it cannot open (os.ReadFile's error names the file) is outside the property;
// such start-ups are run and counted under a neutral label, not judged (see knownClass / specFail).
var layoutsFileName = []string{"value-leading-space", "value-leading-tab", "value-leading-lf",
	"prefix-dot-slash", "scheme-misspelt", "scheme-without-colon"}

// fileNameLabel: see knownClass.
const fileNameLabel = "value-is-a-file-name"

func isFileNameLayout(layout string) bool {
	for _, l := range layoutsFileName {
		if l == layout {
			return true
		}
	}
	return false
}

// isDataURI: the value is an inline value - the scheme `data` in any spelling, followed by a colon.
func isDataURI(v string) bool {
	return len(v) >= 5 && strings.EqualFold(v[:5], "data:")
}

func wrap(s string, n int, sep string) string {
	var b strings.Builder
	for len(s) > n {
		b.WriteString(s[:n])
		b.WriteString(sep)
		s = s[n:]
	}
	b.WriteString(s)
	return b.String()
}

func pctSome(s, chars string) string {
	var b strings.Builder
	for i := 0; i < len(s); i++ {
		if strings.IndexByte(chars, s[i]) >= 0 {
			fmt.Fprintf(&b, "%%%02X", s[i])
		} else {
			b.WriteByte(s[i])
		}
	}
	return b.String()
}

// inlineValue writes payload p (single-line standard base64) as a data: value in the given layout;
// style = "data" (data:<p>) | "data-base64" (data:base64,<p>).
func inlineValue(style, layout, p string) string {
	pre := "data:"
	if style == "data-base64" {
		pre = "data:base64,"
	}
	mid := len(p) / 2
	switch layout {
	case "", "single":
		return pre + p
	case "wrap76-lf":
		return pre + wrap(p, 76, "\n")
	case "wrap64-lf":
		return pre + wrap(p, 64, "\n")
	case "wrap76-crlf":
		return pre + wrap(p, 76, "\r\n")
	case "wrap64-crlf":
		return pre + wrap(p, 64, "\r\n")
	case "trailing-lf":
		return pre + p + "\n"
	case "trailing-crlf":
		return pre + p + "\r\n"
	case "wrap76-lf-trailing":
		return pre + wrap(p, 76, "\n") + "\n"
	case "one-break":
		return pre + p[:mid] + "\n" + p[mid:]
	case "leading-lf":
		return pre + "\n" + wrap(p, 76, "\n")
	case "wrap76-tab":
		return pre + wrap(p, 76, "\t")
	case "tab-inside":
		return pre + p[:mid] + "\t" + p[mid:]
	case "blank-inside":
		return pre + p[:mid] + " " + p[mid:]
	case "wrap76-blank":
		return pre + wrap(p, 76, " ")
	case "leading-space":
		return pre + " " + p
	case "trailing-space":
		return pre + p + " "
	case "trailing-tab":
		return pre + wrap(p, 76, "\n") + "\t"
	case "urlsafe":
		return pre + strings.NewReplacer("+", "-", "/", "_").Replace(p)
	case "nopad":
		return pre + strings.TrimRight(p, "=")
	case "pct-padding":
		return pre + pctSome(p, "=+/")
	case "pct-line-breaks":
		return pre + wrap(p, 76, "%0A")
	case "pct-all":
		return pre + pctAll(p, true)
	case "vtab-inside":
		return pre + p[:mid] + "\v" + p[mid:]
	case "del-inside":
		return pre + wrap(p, 76, "\x7f")
	case "bad-char":
		return pre + p[:mid] + "!" + p[mid:]
	case "truncated":
		return pre + wrap(p[:len(p)-len(p)/4-1], 76, "\n")
	case "media-type":
		return "data:application/x-pem-file;base64," + p
	case "semicolon-base64":
		return "data:;base64," + wrap(p, 76, "\n")
	case "double-comma":
		return "data:base64,," + p
	case "value-leading-space":
		return " " + pre + p
	case "value-leading-tab":
		return "\t" + pre + wrap(p, 76, "\n")
	case "scheme-upper":
		return "DATA:" + strings.TrimPrefix(pre, "data:") + p
	case "scheme-capital":
		return "Data:" + strings.TrimPrefix(pre, "data:") + wrap(p, 64, "\n")
	case "scheme-mixed":
		return "dAtA:" + strings.TrimPrefix(pre, "data:") + wrap(p, 76, "\n") + "\n"
	case "value-leading-lf":
		return "\n" + pre + p
	case "prefix-dot-slash":
		return "./" + pre + p
	case "scheme-misspelt":
		return "dta:" + strings.TrimPrefix(pre, "data:") + p
	case "scheme-without-colon":
		return "data;" + strings.TrimPrefix(pre, "data:") + p
	}
	core.Fatalf("C19: unknown layout %q", layout)
	return ""
}

// inlineOutcome says what the documented contract makes of a value: "file" (not an inline value),
// "format" (a format other than base64 named before the comma), "ok", or "corrupt" with the offset the
// standard decoder reports. It uses encoding/base64 only - nothing of the tree under verification.
func inlineOutcome(raw string) (kind string, offset int) {
	if !isDataURI(raw) {
		return "file", 0
	}
	v := strings.TrimPrefix(raw[5:], "//")
	if i := strings.IndexByte(v, ','); i >= 0 {
		if v[:i] != "base64" {
			return "format", 0
		}
		v = v[i+1:]
	}
	_, err := base64.StdEncoding.DecodeString(v)
	var ce base64.CorruptInputError
	switch {
	case err == nil:
		return "ok", 0
	case errors.As(err, &ce):
		return "corrupt", int(ce)
	}
	return "corrupt", -1
}

// layoutKey names an inline value of a case: the flag, with the entry index for --cacert-file.
func layoutKey(flag string, index int) string {
	if flag == "cacert-file" {
		return fmt.Sprintf("cacert-file/%d", index)
	}
	return flag
}

func (c *Case) layoutOf(flag string, index int) string {
	if l := c.Layouts[layoutKey(flag, index)]; l != "" {
		return l
	}
	return "single"
}

// inlineKeys lists the inline values of a configuration.
func (c *Case) inlineKeys() []string {
	var ks []string
	inline := func(style string) bool { return style == "data" || style == "data-base64" }
	if c.TLSCert != "none" && inline(c.TLSCert) {
		ks = append(ks, "tls-cert-file")
	}
	if c.TLSCert != "none" && inline(c.TLSKey) {
		ks = append(ks, "tls-key-file")
	}
	if inline(c.MITM) {
		ks = append(ks, "mitm-cacert-file", "mitm-cakey-file")
	}
	for i, st := range c.CACerts {
		if inline(st) {
			ks = append(ks, layoutKey("cacert-file", i))
		}
	}
	return ks
}

// genLayouts draws the textual form of every inline value (half of them stay on one line, which is
// what every case had before) and how multi-line values are written in a config file.
func genLayouts(r *core.Rand, c *Case) {
	c.Layouts = nil
	for _, k := range c.inlineKeys() {
		if r.Chance(55) {
			if c.Layouts == nil {
				c.Layouts = map[string]string{}
			}
			c.Layouts[k] = core.Pick(r, layoutsAccepted[1:])
		}
	}
	c.FileQuoting = core.Pick(r, []string{"", "block"})
	if r.Chance(12) {
		c.KeyAlg = "rsa4096"
	}
}

// ---- long payloads: RSA-4096 pairs ----

var (
	rsaOnce [2]sync.Once
	rsaKeys [2]*rsa.PrivateKey
)

// rsaKey returns one of two process-wide RSA-4096 keys (generating one takes seconds, so a run shares
// them: secret assignment k of every case that asks for long payloads uses key k).
func rsaKey(k int) *rsa.PrivateKey {
	rsaOnce[k].Do(func() {
		key, err := rsa.GenerateKey(rand.Reader, 4096)
		if err != nil {
			core.Fatalf("C19: cannot generate an RSA key: %v", err)
		}
		rsaKeys[k] = key
	})
	return rsaKeys[k]
}

// rsaPair is keyPair with an RSA-4096 key: the PKCS#8 PEM is about 3.2 KiB, its base64 about 4.3 KiB.
func rsaPair(k int, seed uint64, ca bool) (certPEM, keyPEM []byte) {
	priv := rsaKey(k)
	tmpl := &x509.Certificate{
		SerialNumber:          new(big.Int).SetUint64(seed | 1),
		Subject:               pkix.Name{CommonName: fmt.Sprintf("c19-%x", seed), Organization: []string{"verif"}},
		NotBefore:             time.Date(2020, 1, 1, 0, 0, 0, 0, time.UTC),
		NotAfter:              time.Date(2090, 1, 1, 0, 0, 0, 0, time.UTC),
		KeyUsage:              x509.KeyUsageDigitalSignature | x509.KeyUsageCertSign | x509.KeyUsageKeyEncipherment,
		ExtKeyUsage:           []x509.ExtKeyUsage{x509.ExtKeyUsageServerAuth},
		BasicConstraintsValid: true,
		IsCA:                  ca,
		IPAddresses:           []net.IP{net.IPv4(127, 0, 0, 1)},
		DNSNames:              []string{"localhost"},
	}
	der, err := x509.CreateCertificate(rand.Reader, tmpl, tmpl, priv.Public(), priv)
	if err != nil {
		core.Fatalf("C19: cannot create certificate: %v", err)
	}
	kder, err := x509.MarshalPKCS8PrivateKey(priv)
	if err != nil {
		core.Fatalf("C19: cannot marshal key: %v", err)
	}
	return pem.EncodeToMemory(&pem.Block{Type: "CERTIFICATE", Bytes: der}), pem.EncodeToMemory(&pem.Block{Type: "PRIVATE KEY", Bytes: kder})
}

// ---- windows of key material ----

// windowLen: any run of this many characters of the base64 text of an inline value (or of the PEM body
// it decodes to) counts as the secret, however the output breaks, escapes or re-encodes the lines.
const windowLen = 24

func isB64Byte(c byte) bool {
	return c >= 'A' && c <= 'Z' || c >= 'a' && c <= 'z' || c >= '0' && c <= '9' || c == '+' || c == '/' || c == '-' || c == '_' || c == '='
}

func isHexByte(c byte) bool {
	return c >= '0' && c <= '9' || c >= 'a' && c <= 'f' || c >= 'A' && c <= 'F'
}

func unhex(c byte) byte {
	switch {
	case c >= 'a':
		return c - 'a' + 10
	case c >= 'A':
		return c - 'A' + 10
	}
	return c - '0'
}

// squeeze removes from a diagnostic text what a layout (or the quoting of one: %q, JSON, percent
// encoding) can put between two characters of a payload: white space and control characters, their
// escapes (\n \r \t \v \f \xNN \u00NN, with any number of backslashes), %0A-style triples; other
// percent triples are decoded, '-' and '_' are read as '+' and '/'. pos maps back to the text.
func squeeze(text string) (out []byte, pos []int) {
	out = make([]byte, 0, len(text))
	pos = make([]int, 0, len(text))
	emit := func(c byte, at int) {
		switch c {
		case '-':
			c = '+'
		case '_':
			c = '/'
		}
		out = append(out, c)
		pos = append(pos, at)
	}
	for i := 0; i < len(text); {
		c := text[i]
		switch {
		case c <= ' ' || c == 0x7f:
			i++
		case c == '\\':
			j := i
			for j < len(text) && text[j] == '\\' {
				j++
			}
			switch {
			case j < len(text) && strings.IndexByte("nrtvf", text[j]) >= 0:
				i = j + 1
			case j+2 < len(text) && text[j] == 'x' && isHexByte(text[j+1]) && isHexByte(text[j+2]) && unhex(text[j+1])<<4|unhex(text[j+2]) <= ' ':
				i = j + 3
			case j+4 < len(text) && text[j] == 'u' && text[j+1] == '0' && text[j+2] == '0' && isHexByte(text[j+3]) && isHexByte(text[j+4]) && unhex(text[j+3])<<4|unhex(text[j+4]) <= ' ':
				i = j + 5
			default:
				emit('\\', i)
				i = j
			}
		case c == '%' && i+2 < len(text) && isHexByte(text[i+1]) && isHexByte(text[i+2]):
			if b := unhex(text[i+1])<<4 | unhex(text[i+2]); b > ' ' && b != 0x7f {
				emit(b, i)
			}
			i += 3
		default:
			emit(c, i)
			i++
		}
	}
	return out, pos
}

// windowsOf lists the windows of a secret's base64 text and of the body of the PEM it decodes to.
func windowsOf(it secretItem) map[string]bool {
	ws := map[string]bool{}
	add := func(s string) {
		s = strings.NewReplacer("-", "+", "_", "/").Replace(s)
		for i := 0; i+windowLen <= len(s); i++ {
			ws[s[i:i+windowLen]] = true
		}
	}
	if it.PEM == nil {
		return ws
	}
	add(strings.TrimRight(it.Secret, "="))
	var body strings.Builder
	for _, line := range strings.Split(string(it.PEM), "\n") {
		if strings.HasPrefix(line, "-----") {
			add(body.String())
			body.Reset()
			continue
		}
		body.WriteString(strings.TrimSpace(line))
	}
	add(body.String())
	return ws
}

// planWindows: per secret of the plan, the windows that occur in no other secret of the plan (PEM
// framing and shared certificate fields cannot be attributed to one flag).
func planWindows(p *plan) []map[string]bool {
	all := make([]map[string]bool, len(p.Secrets))
	for i, it := range p.Secrets {
		all[i] = windowsOf(it)
	}
	out := make([]map[string]bool, len(p.Secrets))
	for i := range all {
		out[i] = map[string]bool{}
	next:
		for w := range all[i] {
			for j := range all {
				// the same material in two slots (a certificate pasted into the key slot) stays with the first
				if j != i && all[j][w] && (p.Secrets[j].Secret != p.Secrets[i].Secret || j < i) {
					continue next
				}
			}
			out[i][w] = true
		}
	}
	return out
}

// findWindow looks for any of the windows in a squeezed text; it returns the offset in the original.
func findWindow(sq []byte, pos []int, ws map[string]bool) int {
	if len(ws) == 0 {
		return -1
	}
	run := 0
	for i := 0; i < len(sq); i++ {
		if isB64Byte(sq[i]) {
			run++
		} else {
			run = 0
		}
		if run >= windowLen && ws[string(sq[i+1-windowLen:i+1])] {
			return pos[i+1-windowLen]
		}
	}
	return -1
}

// ---- config files: block quoting of multi-line values ----

// blockable: a value that a YAML literal block scalar / a TOML multi-line basic string holds verbatim:
// LF line breaks only, no empty line inside, no line beginning or ending with white space, nothing to escape.
func blockable(v string) bool {
	if !strings.Contains(v, "\n") || strings.ContainsAny(v, "\r\t\\\"\v\x7f") {
		return false
	}
	body := strings.TrimSuffix(v, "\n")
	for _, l := range strings.Split(body, "\n") {
		if l == "" || l != strings.TrimSpace(l) {
			return false
		}
	}
	return true
}

func yamlBlock(v, indent string) string {
	ind := "|-"
	if strings.HasSuffix(v, "\n") {
		ind = "|"
	}
	var b strings.Builder
	b.WriteString(ind + "\n")
	for _, l := range strings.Split(strings.TrimSuffix(v, "\n"), "\n") {
		b.WriteString(indent + l + "\n")
	}
	return b.String()
}

func tomlBlock(v string) string {
	// a line break right after the opening delimiter is dropped by TOML
	return "\"\"\"\n" + v + "\"\"\""
}
