package c19

import (
	"encoding/json"
	"fmt"
	"regexp"
	"sort"
	"strconv"
	"strings"
	"sync"
	"time"

	"github.com/saucelabs/forwarder/verifharness/core"
)

// --log-http per module, and the exchange history of a run.
//
// The property speaks about a request log LINE: what it may carry is decided by the mode of the module
// that wrote it (proxy, api) and by its own exchange - under none, short-url, url (any status) and under
// errors for an exchange below 500 a line carries no header field.  Two dimensions follow that a single
// mode for all modules and a fixed order of exchanges never visit:
//
//   - the mode is drawn PER MODULE and written in one of the forms the flag's parser reads (a bare mode
//     for every module, `api:A,proxy:P` in either order, a named entry plus a bare default before or
//     after it, one named entry alone with the other module left at the default `errors`, the flag
//     repeated / a config-file list), given as flag, FORWARDER_LOG_HTTP or config-file entry;
//   - the HISTORY of a run is drawn: bursts of exchanges whose headers `errors` mode dumps by right
//     (a proxied 5xx of a site with --credentials, the proxy's own 502 for a dropped exchange, an API 5xx
//     carrying the API's basic auth) interleaved in every order with successful exchanges on the proxy
//     AND on the API server (/configz, /version, /healthz, /readyz with the right credentials) and with
//     401s, sequentially from one client and from several client goroutines at once, alternating
//     between the modules.  Anything a logger keeps between two lines (a recycled builder, a shared
//     buffer) shows up as header fields of an earlier exchange in a line that is not entitled to any.
//
// Every line written during the history is attributed to its module (the logger's `module` attribute)
// and its exchange's status (the line's own response field); lines that the module's mode entitles to
// header fields are kept apart (outside the property), all others are searched for the secrets and
// compared between the two runs.

// LogHTTPSpec is the per-module part of --log-http (Case.LogHTTP stays the proxy module's mode).
type LogHTTPSpec struct {
	API    string `json:"api"`    // mode of the api module
	Form   string `json:"form"`   // bare | both | both-rev | api-then-default | default-then-proxy | default-then-api | only-api | only-proxy | repeated
	Source string `json:"source"` // flag | env | file
}

var logHTTPModes = []string{"none", "short-url", "url", "errors"}

func genLogHTTP(r *core.Rand, c *Case) {
	sp := &LogHTTPSpec{API: c.LogHTTP, Source: core.Pick(r, []string{"flag", "flag", "env", "file"})}
	if r.Chance(65) {
		sp.API = core.Pick(r, logHTTPModes)
	}
	var forms []string
	if sp.API == c.LogHTTP {
		forms = append(forms, "bare", "bare")
	}
	forms = append(forms, "both", "both-rev", "api-then-default", "default-then-proxy", "default-then-api", "repeated")
	if c.LogHTTP == "errors" {
		forms = append(forms, "only-api", "only-api")
	}
	if sp.API == "errors" {
		forms = append(forms, "only-proxy", "only-proxy")
	}
	sp.Form = core.Pick(r, forms)
	c.LogHTTPSpec = sp
}

// apiMode is the mode of the api module (cases written before the dimension existed: the one mode).
func (c *Case) apiMode() string {
	if c.LogHTTPSpec != nil && c.LogHTTPSpec.API != "" {
		return c.LogHTTPSpec.API
	}
	return c.LogHTTP
}

func (c *Case) modeOf(module string) string {
	switch module {
	case "proxy":
		return c.LogHTTP
	case "api":
		return c.apiMode()
	}
	return ""
}

// logHTTPValues renders the value(s) of --log-http: one value per occurrence of the flag / list entry.
// A form that cannot express the pair of modes falls back to naming both modules.
func (c *Case) logHTTPValues() []string {
	p, a := c.LogHTTP, c.apiMode()
	form := "bare"
	if c.LogHTTPSpec != nil {
		form = c.LogHTTPSpec.Form
	}
	switch {
	case form == "bare" && p == a:
		return []string{p}
	case form == "both-rev":
		return []string{"proxy:" + p + ",api:" + a}
	case form == "api-then-default":
		return []string{"api:" + a + "," + p}
	case form == "default-then-proxy":
		return []string{a + ",proxy:" + p}
	case form == "default-then-api":
		return []string{p + ",api:" + a}
	case form == "only-api" && p == "errors":
		return []string{"api:" + a}
	case form == "only-proxy" && a == "errors":
		return []string{"proxy:" + p}
	case form == "repeated":
		return []string{"api:" + a, "proxy:" + p}
	}
	return []string{"api:" + a + ",proxy:" + p}
}

// logHTTPSettings adds --log-http to the invocation in the drawn source.
func logHTTPSettings(c *Case, p *plan, fileVals map[string]any) {
	vals := c.logHTTPValues()
	src := "flag"
	if c.LogHTTPSpec != nil {
		src = c.LogHTTPSpec.Source
	}
	switch src {
	case "env":
		p.Env = append(p.Env, envName("log-http")+"="+strings.Join(vals, ","))
	case "file":
		if len(vals) == 1 {
			fileVals["log-http"] = vals[0]
		} else {
			fileVals["log-http"] = vals
		}
	default:
		for _, v := range vals {
			p.Args = append(p.Args, "--log-http", v)
		}
	}
}

// ---- the history ----

// HistStep is one burst of the history: N exchanges of Kind (alternating with Alt when set) sent by
// Par client goroutines (1 = one after the other).
type HistStep struct {
	Kind string `json:"kind"`
	Alt  string `json:"alt,omitempty"`
	N    int    `json:"n"`
	Par  int    `json:"par"`
}

var (
	// exchanges whose header fields `errors` mode dumps by right (>= 500), and the 401/407 refusals
	histDumping = []string{"site-5xx", "dead-502", "api-5xx"}
	histRefused = []string{"api-401", "proxy-407"}
	histProxyOK = []string{"proxy-ok", "proxy-connect-ok"}
	histAPIOK   = []string{"api-configz", "api-version", "api-healthz", "api-readyz"}
)

func histModule(kind string) string {
	if strings.HasPrefix(kind, "api-") {
		return "api"
	}
	return "proxy"
}

// genHistory draws the order: every dumping kind and every successful kind of both modules occurs, in a
// drawn order, some of them twice; about half of the bursts alternate with an exchange of the other module.
func genHistory(r *core.Rand, c *Case) {
	var kinds []string
	kinds = append(kinds, histDumping...)
	kinds = append(kinds, histRefused...)
	kinds = append(kinds, histProxyOK...)
	kinds = append(kinds, histAPIOK...)
	again := []string{"site-5xx", "dead-502", "proxy-ok"}
	again = append(again, histAPIOK...)
	for n := r.Range(3, 6); n > 0; n-- {
		kinds = append(kinds, core.Pick(r, again))
	}
	for i := len(kinds) - 1; i > 0; i-- {
		j := r.Intn(i + 1)
		kinds[i], kinds[j] = kinds[j], kinds[i]
	}
	for _, k := range kinds {
		st := HistStep{Kind: k, N: r.Range(4, 9), Par: core.Pick(r, []int{1, 1, 1, 4, 8})}
		if k == "api-5xx" {
			st.N, st.Par = 1, 1 // one pair of overlapping trace requests
		} else if r.Chance(50) {
			if histModule(k) == "api" {
				st.Alt = core.Pick(r, histProxyOK[:1])
			} else {
				st.Alt = core.Pick(r, histAPIOK)
			}
		}
		c.History = append(c.History, st)
	}
}

// histResult is what the clients of one step got back: status → number of exchanges.
type histResult struct {
	Step   int
	Kind   string
	Status map[string]int // "<kind>=<status>" → number of exchanges (a burst may alternate between two kinds)
	Each   map[string]int // "<kind>#<index>=<status>": what every single exchange of the burst was answered
	Errs   int
}

type histRunner struct {
	c            *Case
	k            int
	paddr, aaddr string
	useTLS       bool
	pauth, aauth string
	origin, dead string
}

// exchange performs one exchange of a kind and returns the statuses the client saw.
func (h *histRunner) exchange(kind string, step, i int) []reply {
	path := fmt.Sprintf("/c19/%s/hist/%d/%d", h.c.ID, step, i)
	switch kind {
	case "site-5xx":
		return []reply{proxyGet(h.paddr, h.useTLS, h.origin, path+"/"+originFailMark+"?x=1", h.pauth)}
	case "dead-502":
		return []reply{proxyGet(h.paddr, h.useTLS, h.dead, path+"/dead", h.pauth)}
	case "proxy-407":
		return []reply{proxyGet(h.paddr, h.useTLS, h.origin, path+"/denied", basic("nobody", "wrong-"+h.c.ID))}
	case "proxy-ok":
		return []reply{proxyGet(h.paddr, h.useTLS, h.origin, path+"/get?x=1", h.pauth)}
	case "proxy-connect-ok":
		cr, inner := proxyConnectGetT(h.paddr, h.useTLS, h.origin, path+"/tunnel?x=1", h.pauth, h.c.MITM != "none", exchangeTimeout)
		return []reply{cr, inner}
	case "api-401":
		return []reply{apiGet(h.aaddr, "/configz", basic("nobody", "wrong-"+h.c.ID))}
	case "api-configz":
		return []reply{apiGet(h.aaddr, "/configz", h.aauth)}
	case "api-version":
		return []reply{apiGet(h.aaddr, "/version", h.aauth)}
	case "api-healthz":
		return []reply{apiGet(h.aaddr, "/healthz", h.aauth)}
	case "api-readyz":
		return []reply{apiGet(h.aaddr, "/readyz", h.aauth)}
	case "api-5xx":
		// the API server has one endpoint that can be made to answer 500 at will: a second execution
		// trace while one is being taken ("tracing is already enabled"). Both requests carry the API's
		// credentials; which of the two is refused depends on scheduling, the pair of lines does not.
		var wg sync.WaitGroup
		rs := make([]reply, 2)
		for j := range rs {
			wg.Add(1)
			go func(j int) {
				defer wg.Done()
				rs[j] = apiGet(h.aaddr, "/debug/pprof/trace?seconds=0.25", h.aauth)
			}(j)
			time.Sleep(60 * time.Millisecond)
		}
		wg.Wait()
		for j := range rs {
			rs[j].Dump, rs[j].Body = "", "" // (a binary trace)
		}
		return rs
	}
	return nil
}

// run plays the history and reports, per step, the statuses seen.
func (h *histRunner) run() []histResult {
	var out []histResult
	for si, st := range h.c.History {
		res := histResult{Step: si, Kind: st.Kind, Status: map[string]int{}, Each: map[string]int{}}
		var mu sync.Mutex
		note := func(kind string, i int, rs []reply) {
			mu.Lock()
			defer mu.Unlock()
			for _, r := range rs {
				out := fmt.Sprint(r.Status)
				if r.Err != "" {
					res.Errs++
					out = "client-error"
				} else if r.Status == 0 {
					continue
				}
				res.Status[kind+"="+out]++
				if kind == "api-5xx" {
					res.Each[kind+"="+out]++ // which of the overlapping pair is refused depends on scheduling
				} else {
					res.Each[fmt.Sprintf("%s#%d=%s", kind, i, out)]++
				}
			}
		}
		one := func(i int) {
			note(st.Kind, i, h.exchange(st.Kind, si, i))
			if st.Alt != "" {
				note(st.Alt, i, h.exchange(st.Alt, si, i))
			}
		}
		if st.Par <= 1 {
			for i := 0; i < st.N; i++ {
				one(i)
			}
		} else {
			var wg sync.WaitGroup
			next := make(chan int)
			for w := 0; w < st.Par; w++ {
				wg.Add(1)
				go func() {
					defer wg.Done()
					for i := range next {
						one(i)
					}
				}()
			}
			for i := 0; i < st.N; i++ {
				next <- i
			}
			close(next)
			wg.Wait()
		}
		out = append(out, res)
	}
	return out
}

func (r histResult) String() string {
	var ks []string
	for s := range r.Status {
		ks = append(ks, s)
	}
	sort.Strings(ks)
	var b strings.Builder
	fmt.Fprintf(&b, "%d:%s", r.Step, r.Kind)
	for _, s := range ks {
		fmt.Fprintf(&b, " %s×%d", s, r.Status[s])
	}
	return b.String()
}

// ---- judging the lines ----

// dumpLine is one request-log record: the module that wrote it and the status of its exchange, both
// read off the record itself.
type dumpLine struct {
	Module string
	Status int
}

func parseDumpLine(format, line string) (dumpLine, bool) {
	if !reDumpJSON.MatchString(line) && !reDumpText.MatchString(line) {
		return dumpLine{}, false
	}
	recs := parseRecords(format, line)
	if len(recs) != 1 {
		return dumpLine{}, true
	}
	d := dumpLine{Module: recs[0].Attrs["module"]}
	resp := recs[0].Attrs["response"]
	if format == "json" {
		var m struct {
			StatusCode int `json:"status_code"`
		}
		if json.Unmarshal([]byte(resp), &m) == nil {
			d.Status = m.StatusCode
		}
	} else {
		n := 0
		for n < len(resp) && resp[n] >= '0' && resp[n] <= '9' {
			n++
		}
		d.Status, _ = strconv.Atoi(resp[:n])
	}
	return d, true
}

var (
	logRecordMu    sync.Mutex
	logRecordCache = map[string]string{}
	reExtraFields  = regexp.MustCompile(`, (protocol|host|headers|transfer_encoding|content_length|body|body_error|trailers|status_text)=`)
)

// modelRecord asks Model.C19.logRecord what the logger of a module in the given mode writes for an exchange
// with the given status: "nothing" | "record" (no header fields) | "record+headers".
func modelRecord(ctx *core.Ctx, mode string, status int) string {
	key := fmt.Sprintf("%s %d", mode, status)
	logRecordMu.Lock()
	defer logRecordMu.Unlock()
	if a, ok := logRecordCache[key]; ok {
		return a
	}
	a := ctx.Model.MustAsk("C19", "logrecord", mode, fmt.Sprint(status))
	logRecordCache[key] = a
	return a
}

// hasExtraFields says whether a request-log record carries anything besides method, URL and status:
// header fields, protocol, host, bodies - what only WithHeaders / WithBody put into a record.
func hasExtraFields(format, line string) bool {
	recs := parseRecords(format, line)
	if len(recs) != 1 {
		return false
	}
	req, resp := recs[0].Attrs["request"], recs[0].Attrs["response"]
	if format == "json" {
		for i, obj := range []string{req, resp} {
			var m map[string]json.RawMessage
			if json.Unmarshal([]byte(obj), &m) != nil {
				continue
			}
			for k := range m {
				if i == 0 && (k == "method" || k == "url") || i == 1 && k == "status_code" {
					continue
				}
				return true
			}
		}
		return false
	}
	return reExtraFields.MatchString(req) || reExtraFields.MatchString(resp)
}

// splitHistory separates the lines of the history's log into those the property covers (every line that
// is not a request-log record, and the records whose module's mode entitles them to no header field) and
// the records that `errors` mode dumps with their header fields by right. What a module's mode makes of
// an exchange is Model.C19.logRecord's answer (c19_log_line_depends_only_on_own_exchange: a function of
// the mode and of the record's own exchange); a record the model does not have, or one with fields the
// model's record lacks, is a disagreement with the model.
func splitHistory(ctx *core.Ctx, c *Case, text string) (covered, dumps string, nlines map[string]int) {
	var cv, d strings.Builder
	nlines = map[string]int{}
	reported := map[string]bool{}
	disagree := func(rel string, line, want string) {
		if !reported[rel] { // one report per relation and run
			reported[rel] = true
			ctx.Disagree(rel, c, short(line, 700), want)
		}
	}
	for _, line := range strings.SplitAfter(text, "\n") {
		dl, isDump := parseDumpLine(c.Format, line)
		if !isDump {
			cv.WriteString(line)
			continue
		}
		mode := c.modeOf(dl.Module)
		if mode == "" {
			cv.WriteString(line)
			nlines["history-lines/module-not-named"]++
			continue
		}
		what := modelRecord(ctx, mode, dl.Status)
		label := "history-lines/" + dl.Module + "=" + mode + "/"
		switch what {
		case "record+headers":
			d.WriteString(line)
			nlines[label+"entitled-to-headers"]++
		case "record":
			cv.WriteString(line)
			nlines[label+"no-headers"]++
			if hasExtraFields(c.Format, line) {
				disagree("a request-log record of a module in mode "+mode+" = Model.C19.logRecord: method, URL, status, duration, id and no other field", line, "no header fields, protocol, host or body")
			}
		default:
			cv.WriteString(line)
			nlines[label+"record-the-model-does-not-have"]++
			disagree(fmt.Sprintf("a module in mode %s writes no request-log record for an exchange answered %d (Model.C19.logRecord)", mode, dl.Status), line, what)
		}
	}
	return cv.String(), d.String(), nlines
}

// sameHistory says whether the clients of the two runs saw the same status for every single exchange of
// every step (if not, the runs' environments differed - a time-out on a loaded machine hits one exchange
// in one run and another one in the other, the race inside the api-5xx pair - and the two logs cannot be
// compared line by line: the lines name the exchange).
func sameHistory(a, b []histResult) bool {
	if len(a) != len(b) {
		return false
	}
	for i := range a {
		if len(a[i].Each) != len(b[i].Each) {
			return false
		}
		for k, n := range a[i].Each {
			if b[i].Each[k] != n {
				return false
			}
		}
	}
	return true
}

func countHistory(ctx *core.Ctx, c *Case, o *observation) {
	for _, r := range o.History {
		for s, n := range r.Status {
			ctx.CountN("history/"+s, n)
		}
	}
	for k, n := range o.HistLines {
		ctx.CountN(k, n)
	}
	for _, st := range c.History {
		ctx.Count(fmt.Sprintf("history-step/clients=%d", st.Par))
		if st.Alt != "" {
			ctx.Count("history-step/alternating/" + histModule(st.Kind) + "↔" + histModule(st.Alt))
		}
	}
}
