package c19

import (
	"bufio"
	"crypto/tls"
	"fmt"
	"io"
	"net"
	"net/http"
	"sort"
	"strings"
	"time"
)

// reply is everything a client gets back for one exchange.
type reply struct {
	Status int
	Dump   string // status line, header fields (sorted), blank line, body
	Body   string
	Err    string
}

func dumpResponse(res *http.Response) reply {
	body, _ := io.ReadAll(io.LimitReader(res.Body, 1<<20))
	res.Body.Close()
	var b strings.Builder
	fmt.Fprintf(&b, "%s %s\n", res.Proto, res.Status)
	keys := make([]string, 0, len(res.Header))
	for k := range res.Header {
		keys = append(keys, k)
	}
	sort.Strings(keys)
	for _, k := range keys {
		for _, v := range res.Header[k] {
			fmt.Fprintf(&b, "%s: %s\n", k, v)
		}
	}
	b.WriteString("\n")
	b.Write(body)
	return reply{Status: res.StatusCode, Dump: b.String(), Body: string(body)}
}

// exchangeTimeout bounds one client exchange.
const exchangeTimeout = 8 * time.Second

func dialProxy(addr string, useTLS bool, timeout time.Duration) (net.Conn, error) {
	c, err := net.DialTimeout("tcp4", addr, 3*time.Second)
	if err != nil {
		return nil, err
	}
	c.SetDeadline(time.Now().Add(timeout))
	if useTLS {
		tc := tls.Client(c, &tls.Config{InsecureSkipVerify: true}) //nolint:gosec // scripted loopback peer
		if err := tc.Handshake(); err != nil {
			c.Close()
			return nil, err
		}
		return tc, nil
	}
	return c, nil
}

// proxyGet sends an absolute-form GET through the proxy at addr.
func proxyGet(addr string, useTLS bool, target, path, proxyAuth string) reply {
	return proxyGetT(addr, useTLS, target, path, proxyAuth, exchangeTimeout)
}

func proxyGetT(addr string, useTLS bool, target, path, proxyAuth string, timeout time.Duration) reply {
	c, err := dialProxy(addr, useTLS, timeout)
	if err != nil {
		return reply{Err: err.Error()}
	}
	defer c.Close()
	var b strings.Builder
	fmt.Fprintf(&b, "GET http://%s%s HTTP/1.1\r\nHost: %s\r\n", target, path, target)
	if proxyAuth != "" {
		fmt.Fprintf(&b, "Proxy-Authorization: %s\r\n", proxyAuth)
	}
	b.WriteString("User-Agent: c19\r\nConnection: close\r\n\r\n")
	if _, err := io.WriteString(c, b.String()); err != nil {
		return reply{Err: err.Error()}
	}
	res, err := http.ReadResponse(bufio.NewReader(c), &http.Request{Method: "GET"})
	if err != nil {
		return reply{Err: err.Error()}
	}
	return dumpResponse(res)
}

// proxyConnectGet opens a CONNECT tunnel to target through the proxy and sends a GET inside it.
func proxyConnectGet(addr string, useTLS bool, target, path, proxyAuth string) (connect, inner reply) {
	return proxyConnectGetT(addr, useTLS, target, path, proxyAuth, false, exchangeTimeout)
}

// brConn reads through the reader that parsed the CONNECT response.
type brConn struct {
	net.Conn
	r *bufio.Reader
}

func (b *brConn) Read(p []byte) (int, error) { return b.r.Read(p) }

// proxyConnectGetT is proxyConnectGet with a deadline; with innerTLS the client starts TLS inside
// the tunnel (the proxy intercepts it when MITM is on) and sends the GET over it.
func proxyConnectGetT(addr string, useTLS bool, target, path, proxyAuth string, innerTLS bool, timeout time.Duration) (connect, inner reply) {
	c, err := dialProxy(addr, useTLS, timeout)
	if err != nil {
		return reply{Err: err.Error()}, reply{}
	}
	defer c.Close()
	var b strings.Builder
	fmt.Fprintf(&b, "CONNECT %s HTTP/1.1\r\nHost: %s\r\n", target, target)
	if proxyAuth != "" {
		fmt.Fprintf(&b, "Proxy-Authorization: %s\r\n", proxyAuth)
	}
	b.WriteString("User-Agent: c19\r\n\r\n")
	if _, err := io.WriteString(c, b.String()); err != nil {
		return reply{Err: err.Error()}, reply{}
	}
	br := bufio.NewReader(c)
	res, err := http.ReadResponse(br, &http.Request{Method: "CONNECT"})
	if err != nil {
		return reply{Err: err.Error()}, reply{}
	}
	if res.StatusCode != 200 {
		return dumpResponse(res), reply{}
	}
	connect = reply{Status: 200, Dump: res.Proto + " " + res.Status + "\n"}
	if innerTLS {
		host, _, _ := net.SplitHostPort(target)
		tc := tls.Client(&brConn{c, br}, &tls.Config{InsecureSkipVerify: true, ServerName: host}) //nolint:gosec // scripted loopback peer
		if err := tc.Handshake(); err != nil {
			return connect, reply{Err: "tls inside the tunnel: " + err.Error()}
		}
		c, br = tc, bufio.NewReader(tc)
	}
	innerAuth := ""
	if innerTLS && proxyAuth != "" {
		// an intercepted request passes the proxy's authentication like any other request
		innerAuth = "Proxy-Authorization: " + proxyAuth + "\r\n"
	}
	fmt.Fprintf(c, "GET %s HTTP/1.1\r\nHost: %s\r\n%sUser-Agent: c19\r\nConnection: close\r\n\r\n", path, target, innerAuth)
	res2, err := http.ReadResponse(br, &http.Request{Method: "GET"})
	if err != nil {
		return connect, reply{Err: err.Error()}
	}
	return connect, dumpResponse(res2)
}

// apiGet fetches a path from the API server.
func apiGet(addr, path, auth string) reply {
	c, err := net.DialTimeout("tcp4", addr, 3*time.Second)
	if err != nil {
		return reply{Err: err.Error()}
	}
	defer c.Close()
	c.SetDeadline(time.Now().Add(8 * time.Second))
	var b strings.Builder
	fmt.Fprintf(&b, "GET %s HTTP/1.1\r\nHost: %s\r\n", path, addr)
	if auth != "" {
		fmt.Fprintf(&b, "Authorization: %s\r\n", auth)
	}
	b.WriteString("User-Agent: c19\r\nConnection: close\r\n\r\n")
	if _, err := io.WriteString(c, b.String()); err != nil {
		return reply{Err: err.Error()}
	}
	res, err := http.ReadResponse(bufio.NewReader(c), &http.Request{Method: "GET"})
	if err != nil {
		return reply{Err: err.Error()}
	}
	return dumpResponse(res)
}
