package c19

import (
	"bufio"
	"crypto/tls"
	"encoding/binary"
	"fmt"
	"io"
	"net"
	"strings"
	"time"
)

// A front with socks set is a scripted SOCKS5 proxy (RFC 1928, user/password authentication of RFC 1929)
// for the `SOCKS5 host:port` entries of a PAC script.  Unarmed it serves CONNECT requests: names under
// .c19.test resolve to 127.0.0.1, the credentials of the handshake are reported to onAuth.  Armed, the
// fault shapes of front.go are mapped to the places a SOCKS5 exchange can break:
//
//	read-close        read the greeting, close
//	truncated         read the greeting, send half a method selection, close
//	garbage           read the greeting, answer with an SSH banner
//	status-407[-body] authenticate, then reject the credentials (no acceptable method if none are offered)
//	truncated-status  authenticate, read the request, send half a reply
//	status-403, status-403-body, status-502, status-502-body
//	                  authenticate, read the request, reply "not allowed by ruleset" / "connection refused" /
//	                  "host unreachable" / "general failure"
//	stall             read the greeting, then hold the connection open
//
// The request head recorded for a faulted connection is a text rendering of the handshake, with the
// credentials on a Proxy-Authorization line so that the fault phase finds them like an HTTP proxy's.

func newSocksFront(name string, onAuth func(string), dead string) (*front, error) {
	f, err := newFront(name, "", tls.Certificate{})
	if err != nil {
		return nil, err
	}
	f.mu.Lock()
	f.socks, f.onAuth, f.dead = true, onAuth, dead
	f.mu.Unlock()
	return f, nil
}

func (f *front) serveSocks(raw net.Conn, fault string) {
	br := bufio.NewReader(raw)
	var head strings.Builder
	head.WriteString("SOCKS5 handshake\r\n")
	record := func() {
		if fault != "" {
			f.mu.Lock()
			f.heads = append(f.heads, head.String()+"\r\n")
			f.mu.Unlock()
		}
	}
	hdr := make([]byte, 2)
	if _, err := io.ReadFull(br, hdr); err != nil || hdr[0] != 5 {
		return
	}
	methods := make([]byte, hdr[1])
	if _, err := io.ReadFull(br, methods); err != nil {
		return
	}
	fmt.Fprintf(&head, "Methods: %v\r\n", methods)
	switch fault {
	case "read-close":
		record()
		return
	case "truncated":
		record()
		raw.Write([]byte{5})
		return
	case "garbage":
		record()
		io.WriteString(raw, "SSH-2.0-OpenSSH_9.6p1 Ubuntu-3ubuntu13.5\r\n\x00\x00\x03\x14\x08\x14\xfe\x01\x02 not socks at all\r\n\r\n")
		return
	case "stall":
		record()
		raw.SetReadDeadline(time.Now().Add(6 * time.Second))
		io.Copy(io.Discard, br)
		return
	}
	userpass, noauth := false, false
	for _, m := range methods {
		userpass = userpass || m == 2
		noauth = noauth || m == 0
	}
	reject := strings.HasPrefix(fault, "status-407")
	auth := ""
	switch {
	case userpass:
		raw.Write([]byte{5, 2})
		b := make([]byte, 2)
		if _, err := io.ReadFull(br, b); err != nil || b[0] != 1 {
			return
		}
		u := make([]byte, b[1])
		if _, err := io.ReadFull(br, u); err != nil {
			return
		}
		l := make([]byte, 1)
		if _, err := io.ReadFull(br, l); err != nil {
			return
		}
		pw := make([]byte, l[0])
		if _, err := io.ReadFull(br, pw); err != nil {
			return
		}
		auth = socksAuth(string(u), string(pw))
		head.WriteString("Proxy-Authorization: " + auth + "\r\n")
		if reject {
			record()
			raw.Write([]byte{1, 1})
			return
		}
		raw.Write([]byte{1, 0})
	case noauth && !reject:
		raw.Write([]byte{5, 0})
	default:
		record()
		raw.Write([]byte{5, 0xff})
		return
	}
	req := make([]byte, 4)
	if _, err := io.ReadFull(br, req); err != nil || req[0] != 5 || req[1] != 1 {
		return
	}
	host := ""
	switch req[3] {
	case 1, 4:
		a := make([]byte, map[byte]int{1: 4, 4: 16}[req[3]])
		if _, err := io.ReadFull(br, a); err != nil {
			return
		}
		host = net.IP(a).String()
	case 3:
		l := make([]byte, 1)
		if _, err := io.ReadFull(br, l); err != nil {
			return
		}
		a := make([]byte, l[0])
		if _, err := io.ReadFull(br, a); err != nil {
			return
		}
		host = string(a)
	default:
		return
	}
	pb := make([]byte, 2)
	if _, err := io.ReadFull(br, pb); err != nil {
		return
	}
	target := net.JoinHostPort(host, fmt.Sprint(binary.BigEndian.Uint16(pb)))
	head.WriteString("Connect: " + target + "\r\n")
	reply := func(code byte) { raw.Write([]byte{5, code, 0, 1, 0, 0, 0, 0, 0, 0}) }
	if fault != "" {
		record()
		switch fault {
		case "truncated-status":
			raw.Write([]byte{5, 0, 0})
		case "status-403":
			reply(2)
		case "status-403-body":
			reply(5)
		case "status-502":
			reply(4)
		default:
			reply(1)
		}
		return
	}
	if auth != "" && f.onAuth != nil {
		f.onAuth(auth)
	}
	target = resolveTest(target)
	if target == f.dead {
		return // the proxy drops the exchange
	}
	dst, err := net.DialTimeout("tcp4", target, 3*time.Second)
	if err != nil {
		reply(5)
		return
	}
	defer dst.Close()
	dst.SetDeadline(time.Now().Add(20 * time.Second))
	reply(0)
	done := make(chan struct{}, 2)
	go func() {
		io.Copy(dst, br)
		dst.(*net.TCPConn).CloseWrite()
		done <- struct{}{}
	}()
	go func() {
		io.Copy(raw, dst)
		if cw, ok := raw.(closeWriter); ok {
			cw.CloseWrite()
		}
		done <- struct{}{}
	}()
	<-done
	<-done
}

// resolveTest maps the names of the test domain to the loopback address.
func resolveTest(hostport string) string {
	h, p, err := net.SplitHostPort(hostport)
	if err == nil && strings.HasSuffix(h, testDomain) {
		return net.JoinHostPort("127.0.0.1", p)
	}
	return hostport
}
