package c19

import (
	"bytes"
	"encoding/json"
	"fmt"
	"net"
	"os"
	"path/filepath"
	"regexp"
	"strconv"
	"strings"
	"sync"
	"syscall"
	"time"

	"github.com/saucelabs/forwarder/verifharness/core"
)

// syncBuf collects a child's output stream.
type syncBuf struct {
	mu sync.Mutex
	b  bytes.Buffer
}

func (s *syncBuf) Write(p []byte) (int, error) {
	s.mu.Lock()
	defer s.mu.Unlock()
	return s.b.Write(p)
}

func (s *syncBuf) String() string {
	s.mu.Lock()
	defer s.mu.Unlock()
	return s.b.String()
}

// observation is everything one run of the binary emitted, split into the channels of the property.
type observation struct {
	Args    []string
	Startup string // log up to the moment both servers listen (+ stderr)
	ReqLog  string // log written while the successful exchanges ran
	FailLog string // log written during the failing exchanges and shutdown (not covered by the property)
	// fault phase (faults.go): log of the faults with a scheduling-independent outcome, log of the racy
	// ones, and the request-log dumps of failed exchanges taken out of both (--log-http errors)
	FaultLog, FaultLogRacy, FaultDumps string
	Faults                             []faultReply
	OriginPort, UpstreamPort           string // this run's fault fronts
	// with a PAC script: the scripted proxy the script does not answer by default, the server the script
	// is fetched from, the value of --pac (a data: URI spells out this run's ports)
	AuxPort, PACPort, PACRaw string
	Stderr                             string
	Configz                            reply
	API401                             reply
	Resp407                            reply
	Resp502                            reply
	OK                                 []reply // successful exchanges
	ProxyPort                          string
	APIPort                            string
	Dir                                string
	Problem                            string // start-up trouble that is not a leak
	SlowStop                           bool   // had to be killed after SIGTERM (shutdown is C11's subject, only counted here)
	UsedUp                             bool   // the upstream proxy saw the configured credentials
	UsedSite                           bool   // the origin saw the configured site credentials
	PortRace                           bool   // all start attempts lost their port to another process (no verdict)

	// history (history.go): the lines the property covers, the records `errors` mode dumps by right, the
	// statuses the clients saw per step, and how many records each module wrote
	HistLog, HistDumps string
	History            []histResult
	HistLines          map[string]int
	HistTime           time.Duration
}

var (
	proxyListenRe = regexp.MustCompile(`PROXY server listen.*?address"?[=:]"?(127\.0\.0\.1:\d+)`)
	apiListenRe   = regexp.MustCompile(`HTTP server listen.*?address"?[=:]"?(127\.0\.0\.1:\d+)`)
)

// freePorts returns two distinct loopback addresses that were free a moment ago.
func freePorts() (string, string) {
	a, err := net.Listen("tcp4", "127.0.0.1:0")
	if err != nil {
		core.Fatalf("C19: no free loopback port: %v", err)
	}
	defer a.Close()
	b, err := net.Listen("tcp4", "127.0.0.1:0")
	if err != nil {
		core.Fatalf("C19: no free loopback port: %v", err)
	}
	defer b.Close()
	return a.Addr().String(), b.Addr().String()
}

// listening reports whether process pid owns a socket listening on the loopback address. It reads
// /proc/net/tcp and /proc/<pid>/fd: no connection is made (so the process under test logs nothing
// about the probe) and a socket of some other process on the same port is not mistaken for it.
func listening(pid int, addr string) bool {
	_, port := hostPort(addr)
	n, _ := strconv.Atoi(port)
	want := fmt.Sprintf("0100007F:%04X", n)
	b, err := os.ReadFile("/proc/net/tcp")
	if err != nil {
		core.Fatalf("C19: cannot read /proc/net/tcp: %v", err)
	}
	inode := ""
	for _, line := range strings.Split(string(b), "\n") {
		f := strings.Fields(line)
		if len(f) > 9 && f[1] == want && f[3] == "0A" {
			inode = f[9]
		}
	}
	if inode == "" {
		return false
	}
	fds, _ := os.ReadDir(fmt.Sprintf("/proc/%d/fd", pid))
	for _, fd := range fds {
		if l, err := os.Readlink(fmt.Sprintf("/proc/%d/fd/%s", pid, fd.Name())); err == nil && l == "socket:["+inode+"]" {
			return true
		}
	}
	return false
}

// runOnce starts the binary for secret assignment k of case c, drives it and collects its output.
func runOnce(ctx *core.Ctx, c *Case, k int) (*observation, *plan) {
	g := getRig()
	dir := filepath.Join(workDir(ctx), fmt.Sprintf("%s-%d", c.ID, k))
	os.MkdirAll(dir, 0o755)
	defer os.RemoveAll(dir)

	for attempt := 0; ; attempt++ {
		o, p, retry := runAttempt(ctx, c, k, g, dir)
		if !retry {
			return o, p
		}
		if attempt >= 7 {
			// every attempt lost its pre-picked port to another process of this machine: that says
			// nothing about the binary
			o.PortRace = true
			return o, p
		}
	}
}

func runAttempt(ctx *core.Ctx, c *Case, k int, g *rig, dir string) (o *observation, p *plan, retry bool) {
	fixed := c.Level == "error" // no listen lines at error level: choose the ports ourselves
	paddr, aaddr := "127.0.0.1:0", "127.0.0.1:0"
	if fixed {
		paddr, aaddr = freePorts()
	}
	// this run's fault fronts: the configuration points at them instead of the shared servers
	originFront, err := newFront("origin", g.originAddr, g.frontCert)
	if err != nil {
		core.Fatalf("C19: no loopback listener: %v", err)
	}
	defer originFront.close()
	ep := endpoints{Origin: originFront.addr, Upstream: g.upstreamAddr}
	var upFront *front
	if c.Upstream != "none" {
		if upFront, err = newFront("upstream", g.upstreamAddr, g.frontCert); err != nil {
			core.Fatalf("C19: no loopback listener: %v", err)
		}
		defer upFront.close()
		ep.Upstream = upFront.addr
	}
	auxPort, pacPort := "", ""
	if c.PAC != nil {
		// the script's proxies: the HTTP(S) front above and a SOCKS5 front; the faults go to the one the
		// script answers by default
		s5, err := newSocksFront("upstream", g.noteUpstream, g.deadAddr)
		if err != nil {
			core.Fatalf("C19: no loopback listener: %v", err)
		}
		defer s5.close()
		ep.HTTPProxy, ep.Socks5 = upFront.addr, s5.addr
		_, auxPort = hostPort(s5.addr)
		if c.PAC.Main == "SOCKS5" {
			_, auxPort = hostPort(upFront.addr)
			upFront, ep.Upstream = s5, s5.addr
		}
		if c.PAC.Form == "http" {
			ps, err := newPACServer()
			if err != nil {
				core.Fatalf("C19: no loopback listener: %v", err)
			}
			defer ps.close()
			ep.PACServer = ps.addr
			_, pacPort = hostPort(ps.addr)
			ps.set(c.PAC.script(ep))
		}
	}
	p = assemble(c, k, ep, dir, paddr, aaddr)
	for name, content := range p.Files {
		if err := os.WriteFile(filepath.Join(dir, name), content, 0o600); err != nil {
			core.Fatalf("C19: %v", err)
		}
	}
	os.Remove(filepath.Join(dir, "forwarder.log")) // left over from an attempt that lost its port
	o = &observation{Args: p.Args, Dir: dir, AuxPort: auxPort, PACPort: pacPort, PACRaw: p.PACRaw}
	_, o.OriginPort = hostPort(ep.Origin)
	_, o.UpstreamPort = hostPort(ep.Upstream)
	var stdout, stderr syncBuf
	// (own termination log: a child that loses a port race must not write the machine's file)
	termLogSetup(ctx)
	cmd := termLogCommand(fwdBinary(ctx), p.Args, filepath.Join(dir, "termination-log"))
	cmd.Env = p.Env
	cmd.Dir = dir
	cmd.Stdout, cmd.Stderr = &stdout, &stderr
	if p.Stdin != "" {
		cmd.Stdin = strings.NewReader(p.Stdin)
	}
	if err := cmd.Start(); err != nil {
		core.Fatalf("C19: cannot start the binary: %v", err)
	}
	exited := make(chan error, 1)
	go func() { exited <- cmd.Wait() }()
	logText := func() string {
		if c.LogTo == "file" {
			b, _ := os.ReadFile(filepath.Join(dir, "forwarder.log"))
			return stdout.String() + string(b)
		}
		return stdout.String()
	}
	kill := func() {
		cmd.Process.Kill()
		<-exited
	}

	// wait until both servers listen
	deadline := time.Now().Add(15 * time.Second)
	for {
		select {
		case err := <-exited:
			o.Startup, o.Stderr = logText(), stderr.String()
			o.Problem = fmt.Sprintf("process exited during start-up: %v", err)
			if isolationBroke(o.Stderr) {
				termLog.isolated.Store(false)
				ctx.Count("termination-log/isolation-lost")
				return o, p, true
			}
			if strings.Contains(o.Startup+o.Stderr, "address already in use") {
				return o, p, true
			}
			return o, p, false
		default:
		}
		if fixed {
			if listening(cmd.Process.Pid, paddr) && listening(cmd.Process.Pid, aaddr) {
				break
			}
		} else {
			t := logText()
			pm, am := proxyListenRe.FindStringSubmatch(t), apiListenRe.FindStringSubmatch(t)
			if pm != nil && am != nil {
				paddr, aaddr = pm[1], am[1]
				break
			}
		}
		if time.Now().After(deadline) {
			kill()
			o.Startup, o.Stderr = logText(), stderr.String()
			o.Problem = "servers did not come up within 15s"
			return o, p, false
		}
		time.Sleep(5 * time.Millisecond)
	}
	_, o.ProxyPort = hostPort(paddr)
	_, o.APIPort = hostPort(aaddr)
	quiesce := func(min time.Duration) int {
		last, since := len(logText()), time.Now()
		for time.Since(since) < min {
			time.Sleep(10 * time.Millisecond)
			if n := len(logText()); n != last {
				last, since = n, time.Now()
			}
		}
		return last
	}
	s0 := quiesce(40 * time.Millisecond)

	// --- successful exchanges that use the credentials ---
	useTLS := c.TLSCert != "none"
	pauth := ""
	if c.BasicAuth != nil {
		pw := ""
		if c.BasicAuth.HasPass {
			pw = c.Secrets[k].BasicAuth
		}
		pauth = basic(c.BasicAuth.User, pw)
	}
	path := "/c19/" + c.ID
	o.OK = append(o.OK, proxyGet(paddr, useTLS, ep.Origin, path+"/get?x=1", pauth))
	if c.MITM == "none" {
		cr, inner := proxyConnectGet(paddr, useTLS, ep.Origin, path+"/tunnel", pauth)
		o.OK = append(o.OK, cr, inner)
	} else {
		// intercepted: the proxy terminates the client's TLS and sends the request on over its own
		cr, inner := proxyConnectGetT(paddr, useTLS, ep.Origin, path+"/mitm?x=1", pauth, true, exchangeTimeout)
		o.OK = append(o.OK, cr, inner)
	}
	aauth := ""
	if c.APIBasicAuth != nil {
		pw := ""
		if c.APIBasicAuth.HasPass {
			pw = c.Secrets[k].APIBasicAuth
		}
		aauth = basic(c.APIBasicAuth.User, pw)
	}
	o.Configz = apiGet(aaddr, "/configz", aauth)
	o.OK = append(o.OK, apiGet(aaddr, "/version", aauth))
	if p.UpstreamAuth != "" {
		o.UsedUp = g.sawUpstream(p.UpstreamAuth)
	}
	if p.OriginAuth != "" {
		o.UsedSite = g.sawOrigin(p.OriginAuth)
	}
	s1 := quiesce(60 * time.Millisecond)

	// --- failing exchanges ---
	if c.APIBasicAuth != nil {
		o.API401 = apiGet(aaddr, "/configz", basic(c.APIBasicAuth.User, "wrong-"+c.ID))
	}
	if c.BasicAuth != nil {
		o.Resp407 = proxyGet(paddr, useTLS, ep.Origin, path+"/denied", basic(c.BasicAuth.User, "wrong-"+c.ID))
	}
	o.Resp502 = proxyGet(paddr, useTLS, g.deadAddr, path+"/dead", pauth)
	s2 := quiesce(40 * time.Millisecond)

	// --- every fault shape of the peers the credentials are for ---
	fr := &faultRunner{c: c, p: p, o: o, paddr: paddr, useTLS: useTLS, pauth: pauth, up: upFront, origin: originFront,
		requestKinds: []string{"get", "connect"}}
	if c.MITM != "none" {
		fr.requestKinds = []string{"get", "mitm-get"}
	}
	fr.afterHead()
	fr.pac()
	s3 := quiesce(40 * time.Millisecond)

	// --- the drawn history: dumping and successful exchanges of both modules, interleaved ---
	if len(c.History) > 0 {
		t0 := time.Now()
		defer func() { ctx.CountN("history-phase-milliseconds", int(o.HistTime/time.Millisecond)) }()
		hr := &histRunner{c: c, k: k, paddr: paddr, aaddr: aaddr, useTLS: useTLS, pauth: pauth, aauth: aauth,
			origin: ep.Origin, dead: g.deadAddr}
		o.History = hr.run()
		o.HistTime = time.Since(t0)
	}
	s3h := quiesce(60 * time.Millisecond)
	fr.racy()
	s4 := quiesce(40 * time.Millisecond)

	// --- stop ---
	select {
	case err := <-exited:
		o.Startup, o.Stderr = logText(), stderr.String()
		o.Problem = fmt.Sprintf("process exited on its own while serving: %v", err)
		return o, p, strings.Contains(o.Startup+o.Stderr, "address already in use")
	default:
	}
	cmd.Process.Signal(syscall.SIGTERM)
	select {
	case <-exited:
	case <-time.After(20 * time.Second):
		kill()
		o.SlowStop = true
	}
	all := logText()
	cut := func(n int) int {
		if n > len(all) {
			return len(all)
		}
		return n
	}
	s0, s1, s2, s3, s3h, s4 = cut(s0), cut(s1), cut(s2), cut(s3), cut(s3h), cut(s4)
	o.Startup, o.ReqLog, o.FailLog = all[:s0], all[s0:s1], all[s1:s2]+all[s4:]
	o.FaultLog, o.FaultLogRacy = all[s2:s3], all[s3h:s4]
	o.HistLog, o.HistDumps, o.HistLines = splitHistory(ctx, c, all[s3:s3h])
	if c.LogHTTP == "errors" {
		var d1, d2 string
		o.FaultLog, d1 = splitHTTPDumps(o.FaultLog)
		o.FaultLogRacy, d2 = splitHTTPDumps(o.FaultLogRacy)
		o.FaultDumps = d1 + d2
	}
	o.Stderr = stderr.String()
	return o, p, false
}

// ---- log records ----

type record struct {
	Msg   string
	Attrs map[string]string
}

var textPairRe = regexp.MustCompile(`([A-Za-z0-9_. -]+?)=("(?:[^"\\]|\\.)*"|\S*)(?: |$)`)

// parseRecords reads slog text or JSON lines (unparsable lines become a record with Msg = line).
func parseRecords(format, text string) []record {
	var out []record
	for _, line := range strings.Split(text, "\n") {
		if strings.TrimSpace(line) == "" {
			continue
		}
		r := record{Attrs: map[string]string{}}
		if format == "json" {
			var m map[string]any
			if json.Unmarshal([]byte(line), &m) != nil {
				r.Msg = line
			} else {
				for k, v := range m {
					s, ok := v.(string)
					if !ok {
						b, _ := json.Marshal(v)
						s = string(b)
					}
					if k == "msg" {
						r.Msg = s
					} else {
						r.Attrs[k] = s
					}
				}
			}
		} else {
			ms := textPairRe.FindAllStringSubmatch(line, -1)
			if ms == nil {
				r.Msg = line
			}
			for _, m := range ms {
				v := m[2]
				if strings.HasPrefix(v, `"`) {
					if u, err := strconv.Unquote(v); err == nil {
						v = u
					}
				}
				if m[1] == "msg" {
					r.Msg = v
				} else {
					r.Attrs[m[1]] = v
				}
			}
		}
		out = append(out, r)
	}
	return out
}

// configLine extracts the flag → value map of a OneLine configuration dump
// ("configuration: a=b, c=d" / "all configuration: …").
func configLine(recs []record, prefix string) (map[string]string, bool) {
	for _, r := range recs {
		if !strings.HasPrefix(r.Msg, prefix) {
			continue
		}
		m := map[string]string{}
		for _, kv := range strings.Split(strings.TrimPrefix(r.Msg, prefix), ", ") {
			k, v, ok := strings.Cut(kv, "=")
			if ok {
				m[k] = v
			}
		}
		return m, true
	}
	return nil, false
}

// configzMap extracts the flag → value map of the Plain dump served at /configz.
func configzMap(body string) map[string]string {
	m := map[string]string{}
	for _, line := range strings.Split(body, "\n") {
		if k, v, ok := strings.Cut(line, "="); ok {
			m[k] = v
		}
	}
	return m
}
