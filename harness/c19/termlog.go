package c19

import (
	"os"
	"os/exec"
	"path/filepath"
	"strings"
	"sync"
	"sync/atomic"

	"github.com/saucelabs/forwarder/verifharness/core"
)

// cmd/forwarder copies the error of a failed start-up to /dev/termination-log (the Kubernetes
// convention).  The harness gives every child its own file there: the child is started in a private
// mount namespace (unshare -m) with a file of the run directory bind-mounted over the path, so
// children running in parallel do not overwrite each other's text and the machine's real file is
// never touched.  Where that is not permitted the children write the real file: its content is saved
// before the first of them starts and put back when the scenario ends; it is then read after each
// child exits and only searched for that child's own secrets (another process may have overwritten
// it in between, which can hide a leak but not invent one).

const termLogPath = "/dev/termination-log"

// isolationFailed is what the wrapper prints when the bind mount does not work after all.
const isolationFailed = "C19-TERMLOG-ISOLATION-FAILED"

var termLog struct {
	once     sync.Once
	isolated atomic.Bool
	// not isolated: the saved state of the real file
	existed bool
	saved   []byte
	mode    os.FileMode
	created bool // isolated: the mount point did not exist and was created empty
}

func termLogSetup(ctx *core.Ctx) {
	termLog.once.Do(func() {
		st, err := os.Stat(termLogPath)
		if err == nil && st.Mode().IsRegular() {
			termLog.existed, termLog.mode = true, st.Mode().Perm()
			termLog.saved, _ = os.ReadFile(termLogPath)
		}
		if os.Getenv("C19_NO_UNSHARE") == "" {
			if err != nil {
				// a mount point is needed
				if f, cerr := os.OpenFile(termLogPath, os.O_CREATE|os.O_EXCL|os.O_WRONLY, 0o644); cerr == nil {
					f.Close()
					termLog.created = true
				}
			}
			probe := filepath.Join(workDir(ctx), "termlog-probe")
			if os.WriteFile(probe, nil, 0o600) == nil {
				cmd := exec.Command("unshare", "-m", "sh", "-c", `mount --bind "$1" `+termLogPath+` && echo probe > `+termLogPath, "sh", probe)
				if out, err := cmd.CombinedOutput(); err == nil && len(out) == 0 {
					if b, _ := os.ReadFile(probe); string(b) == "probe\n" {
						termLog.isolated.Store(true)
					}
				}
				os.Remove(probe)
			}
			if !termLog.isolated.Load() && termLog.created {
				os.Remove(termLogPath)
				termLog.created = false
			}
		}
		if termLog.isolated.Load() {
			ctx.Count("termination-log/private-mount-namespace")
		} else {
			ctx.Count("termination-log/shared-file-saved-and-restored")
		}
	})
}

// termLogRestore undoes what the scenario did to the real file.
func termLogRestore() {
	ran := true
	termLog.once.Do(func() { ran = false })
	if !ran {
		return
	}
	switch {
	case termLog.isolated.Load() && termLog.created:
		os.Remove(termLogPath)
	case termLog.isolated.Load():
	case termLog.existed:
		os.WriteFile(termLogPath, termLog.saved, termLog.mode)
	default:
		os.Remove(termLogPath)
	}
}

// termLogCommand builds the command that runs bin with its own termination log at file.
func termLogCommand(bin string, args []string, file string) *exec.Cmd {
	if !termLog.isolated.Load() {
		return exec.Command(bin, args...)
	}
	os.WriteFile(file, nil, 0o600)
	script := `mount --bind "$1" ` + termLogPath + ` || { echo ` + isolationFailed + ` >&2; exit 97; }; shift; exec "$@"`
	return exec.Command("unshare", append([]string{"-m", "sh", "-c", script, "sh", file, bin}, args...)...)
}

// termLogRead returns what the child left in its termination log.
func termLogRead(file string) string {
	if termLog.isolated.Load() {
		b, _ := os.ReadFile(file)
		return string(b)
	}
	b, _ := os.ReadFile(termLogPath)
	return string(b)
}

func isolationBroke(stderr string) bool { return strings.Contains(stderr, isolationFailed) }
