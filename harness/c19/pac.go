package c19

import (
	"encoding/base64"
	"fmt"
	"net"
	"net/http"
	"sort"
	"strings"
	"sync"
	"time"

	"github.com/saucelabs/forwarder/verifharness/core"
)

// The PAC dimension (Case.Upstream == "pac"): the binary is started with --pac instead of --proxy.  The
// script answers, per target host, every kind of entry pacProxy (http_proxy.go) can meet:
//
//	PROXY / HTTP / HTTPS h:p, SOCKS5 h:p   supported: the --credentials entry that matches h:p is merged into
//	                                       the proxy URL and used toward that proxy (the scripted fronts)
//	SOCKS / SOCKS4 h:p                     unsupported: the request is failed with an error response
//	entries that do not parse              (host:port missing / invalid, port out of range): error response
//	a script that throws / returns a number: error response
//	DIRECT, several entries                the first entry decides
//
// and the --credentials table has entries (exact, *:port, host:*, *:*) for the host:port of every one of
// those proxies - also of the ones the request is refused for.  Every host class is asked for with each
// request kind of the run; what the client gets back and what is logged meanwhile is searched like the
// fault phase, compared with Model.C19.pacProxy (error text; credentials seen by the scripted proxy) and
// diffed between the two secret assignments.

const (
	pacGateway  = "legacy-gw.c19.test:1080" // SOCKS/SOCKS4 gateways: never dialled by the unchanged tree
	pacGateway2 = "10.11.12.13:1081"
	testDomain  = ".c19.test" // the scripted proxies resolve these names to 127.0.0.1
	proxyName   = "fwd-c19"   // --name: the first word of X-Forwarder-Error
)

// PACRoute is one rule of the script: what FindProxyForURL does for one host.
type PACRoute struct {
	Host  string `json:"host"`
	Class string `json:"class"` // supported | unsupported | invalid | script-error | direct
	// Result is the string the script returns ({UP} {S5} {GW} {GW2} = host:port of the scripted HTTP(S) proxy,
	// the scripted SOCKS5 proxy, the two gateways); for class script-error a JavaScript statement
	Result string `json:"result"`
}

// PACSpec is the PAC part of a configuration.
type PACSpec struct {
	Form   string     `json:"form"`  // path | file-url | data | data-base64 | http | stdin
	Main   string     `json:"main"`  // PROXY | HTTP | HTTPS | SOCKS5: the entry for every host without a rule
	Style  string     `json:"style"` // eq | dns-domain-is | sh-exp-match | switch
	Routes []PACRoute `json:"routes"`
}

var pacInvalid = []PACRoute{
	{"bad-port.c19.test", "invalid", "PROXY legacy-gw.c19.test:99999"},
	{"bad-port-text.c19.test", "invalid", "HTTPS legacy-gw.c19.test:80x"},
	{"no-host.c19.test", "invalid", "PROXY :1080"},
	{"no-port.c19.test", "invalid", "SOCKS5 legacy-gw.c19.test"},
	{"no-hostport.c19.test", "invalid", "PROXY"},
	{"space-host.c19.test", "invalid", "PROXY legacy gw.c19.test:1080"},
	{"colons.c19.test", "invalid", "SOCKS4 legacy-gw.c19.test:1080:1081; DIRECT"},
	{"long-port.c19.test", "invalid", "SOCKS {GW}0000"},
}

var pacScriptErrors = []PACRoute{
	{"throws.c19.test", "script-error", `throw new Error("no proxy for " + host);`},
	{"number.c19.test", "script-error", `return 42;`},
}

// genPACCase draws a configuration whose upstream proxies are selected by a PAC script.
func genPACCase(r *core.Rand, i int) *Case {
	c := genConfig(r, i)
	c.ID = "p" + c.ID
	c.Upstream, c.UpstreamUser, c.UpstreamTLS, c.ProxyScheme = "pac", nil, false, false
	var creds []CredSpec
	anyPort, global := false, false
	for _, cr := range c.Creds {
		if cr.Target == "upstream" {
			continue
		}
		anyPort = anyPort || cr.Target == "origin" && cr.Pattern == "any-port"
		global = global || cr.Pattern == "global"
		creds = append(creds, cr)
	}
	c.Creds = creds
	ps := &PACSpec{
		Form:  core.Pick(r, []string{"path", "file-url", "data", "data-base64", "http", "stdin"}),
		Main:  core.Pick(r, []string{"PROXY", "PROXY", "HTTP", "HTTPS", "HTTPS", "SOCKS5", "SOCKS5"}),
		Style: core.Pick(r, []string{"eq", "dns-domain-is", "sh-exp-match", "switch"}),
	}
	c.UpstreamTLS = ps.Main == "HTTPS"
	gw := func() string { return core.Pick(r, []string{"{GW}", "{GW}", "{GW2}"}) }
	ps.Routes = []PACRoute{
		{"proxy.c19.test", "supported", "PROXY {UP}"},
		{"http.c19.test", "supported", "HTTP {UP}"},
		{"https.c19.test", "supported", "HTTPS {UP}"},
		{"socks5.c19.test", "supported", "SOCKS5 {S5}"},
		{"socks.c19.test", "unsupported", "SOCKS " + gw()},
		{"socks4.c19.test", "unsupported", "SOCKS4 " + gw()},
		{"localhost", "direct", "DIRECT"},
		{"several-a.c19.test", "unsupported", core.Pick(r, []string{"SOCKS4", "SOCKS"}) + " " + gw() + "; PROXY {UP}; DIRECT"},
		{"several-b.c19.test", "supported", core.Pick(r, []string{"PROXY", "HTTPS"}) + " {UP}; SOCKS " + gw()},
		{"several-c.c19.test", "supported", "  HTTP {UP} ;DIRECT"},
	}
	at, step := r.Intn(len(pacInvalid)), 1+2*r.Intn(2) // three distinct shapes (8 shapes, odd step)
	for n := 0; n < 3; n++ {
		ps.Routes = append(ps.Routes, pacInvalid[(at+n*step)%len(pacInvalid)])
	}
	ps.Routes = append(ps.Routes, core.Pick(r, pacScriptErrors))
	c.PAC = ps

	pattern := func(ps ...string) string {
		for {
			switch p := core.Pick(r, ps); {
			case p == "global" && global, p == "any-port-loopback" && anyPort:
			case p == "global":
				global = true
				return p
			case p == "any-port-loopback":
				anyPort = true
				return "any-port"
			default:
				return p
			}
		}
	}
	if r.Chance(85) {
		c.Creds = append(c.Creds, CredSpec{User: *genUser(r, true, 90), Target: "pac-http",
			Pattern: pattern("exact", "exact", "any-host", "any-port-loopback", "global")})
	}
	if r.Chance(75) {
		c.Creds = append(c.Creds, CredSpec{User: *genUser(r, true, 90), Target: "pac-socks5",
			Pattern: pattern("exact", "exact", "any-host")})
	}
	if r.Chance(85) {
		c.Creds = append(c.Creds, CredSpec{User: *genUser(r, true, 90), Target: "gateway",
			Pattern: pattern("exact", "exact", "any-host", "any-port", "global")})
	}
	if r.Chance(60) {
		c.Creds = append(c.Creds, CredSpec{User: *genUser(r, true, 90), Target: "gateway2",
			Pattern: pattern("exact", "any-host", "any-port")})
	}
	genSecrets(r, c)
	return c
}

// subst fills the endpoints of one run into a rule.
func (rt PACRoute) subst(ep endpoints) string {
	return strings.NewReplacer("{UP}", ep.HTTPProxy, "{S5}", ep.Socks5, "{GW}", pacGateway, "{GW2}", pacGateway2).Replace(rt.Result)
}

func (ps *PACSpec) mainResult(ep endpoints) string {
	if ps.Main == "SOCKS5" {
		return "SOCKS5 " + ep.Socks5
	}
	return ps.Main + " " + ep.HTTPProxy
}

// script renders the PAC script of one run.
func (ps *PACSpec) script(ep endpoints) string {
	var b strings.Builder
	b.WriteString("// c19: one rule per host class\nfunction FindProxyForURL(url, host) {\n")
	body := func(rt PACRoute) string {
		if rt.Class == "script-error" {
			return rt.Result
		}
		return fmt.Sprintf("return %q;", rt.subst(ep))
	}
	if ps.Style == "switch" {
		b.WriteString("  switch (host) {\n")
		for _, rt := range ps.Routes {
			fmt.Fprintf(&b, "  case %q: %s\n", rt.Host, body(rt))
		}
		b.WriteString("  }\n")
	} else {
		for _, rt := range ps.Routes {
			cond := fmt.Sprintf("host == %q", rt.Host)
			switch ps.Style {
			case "dns-domain-is":
				cond = fmt.Sprintf("dnsDomainIs(host, %q)", rt.Host)
			case "sh-exp-match":
				cond = fmt.Sprintf("shExpMatch(host, %q)", rt.Host)
			}
			fmt.Fprintf(&b, "  if (%s) { %s }\n", cond, body(rt))
		}
	}
	fmt.Fprintf(&b, "  return %q;\n}\n", ps.mainResult(ep))
	return b.String()
}

// pacArgs adds --pac in the form the case asks for.
func pacArgs(c *Case, ep endpoints, dir string, p *plan) {
	js := c.PAC.script(ep)
	p.PACScript = js
	switch c.PAC.Form {
	case "path":
		p.Files["proxy.pac"] = []byte(js)
		p.PACRaw = dir + "/proxy.pac"
	case "file-url":
		p.Files["proxy.pac"] = []byte(js)
		p.PACRaw = "file://" + dir + "/proxy.pac"
	case "data":
		p.PACRaw = "data:" + base64.StdEncoding.EncodeToString([]byte(js))
	case "data-base64":
		p.PACRaw = "data:base64," + base64.StdEncoding.EncodeToString([]byte(js))
	case "http":
		p.PACRaw = "http://" + ep.PACServer + "/c19/proxy.pac"
	default: // stdin
		p.PACRaw, p.Stdin = "-", js
	}
	p.Args = append(p.Args, "--pac", p.PACRaw)
}

// credEntry is one --credentials entry of a run as the matcher sees it.
type credEntry struct {
	Host, Port string // "*" = wildcard
	User, Pass string
	HasPass    bool
}

// matchCred is CredentialsMatcher.Match: exact, then *:port, then host:*, then *:*.
func matchCred(es []credEntry, hostport string) *credEntry {
	h, port := hostPort(hostport)
	for _, want := range [][2]string{{h, port}, {"*", port}, {h, "*"}, {"*", "*"}} {
		for i := range es {
			if es[i].Host == want[0] && es[i].Port == want[1] {
				return &es[i]
			}
		}
	}
	return nil
}

func socksAuth(user, pass string) string { return "SOCKS5 " + user + ":" + pass }

// authToward says which credentials value the scripted proxy at addr records when the proxy under test
// authenticates with the matching entry ("" if no entry matches).
func (p *plan) authToward(addr string, socks bool) string {
	e := matchCred(p.CredEntries, addr)
	switch {
	case e == nil:
		return ""
	case socks:
		return socksAuth(e.User, e.Pass)
	}
	return basic(e.User, e.Pass)
}

// pacServer serves the script of one run (--pac http://…).
type pacServer struct {
	ln   net.Listener
	addr string
	mu   sync.Mutex
	js   string
}

func newPACServer() (*pacServer, error) {
	ln, err := net.Listen("tcp4", "127.0.0.1:0")
	if err != nil {
		return nil, err
	}
	s := &pacServer{ln: ln, addr: ln.Addr().String()}
	srv := &http.Server{ReadHeaderTimeout: 5 * time.Second, Handler: http.HandlerFunc(func(w http.ResponseWriter, r *http.Request) {
		s.mu.Lock()
		js := s.js
		s.mu.Unlock()
		w.Header().Set("Content-Type", "application/x-ns-proxy-autoconfig")
		w.Write([]byte(js))
	})}
	go srv.Serve(ln)
	return s, nil
}

func (s *pacServer) set(js string) {
	s.mu.Lock()
	s.js = js
	s.mu.Unlock()
}

func (s *pacServer) close() { s.ln.Close() }

// ---- the PAC phase of a run ----

// pacOutcome is Model.C19.pacProxy's answer for one result string and the run's --credentials table.
type pacOutcome struct {
	Kind             string // err | direct | via
	Text             string // err: the error text
	Scheme, HostPort string // via
	User, Pass       string
	HasUser, HasPass bool
}

func askPAC(ctx *core.Ctx, result string, p *plan) (pacOutcome, string) {
	var raws []string
	for _, st := range p.Settings {
		if st.Flag == "credentials" {
			raws = st.Raws
		}
	}
	ans := ctx.Model.MustAsk("C19", "pacproxy", core.HexS(result), core.HexList(raws))
	fs := strings.Fields(ans)
	un := func(s string) (string, bool) {
		if s == "-" {
			return "", false
		}
		return string(core.MustUnHex(s)), true
	}
	switch {
	case len(fs) == 2 && fs[0] == "err":
		return pacOutcome{Kind: "err", Text: string(core.MustUnHex(fs[1]))}, ans
	case len(fs) == 1 && fs[0] == "direct":
		return pacOutcome{Kind: "direct"}, ans
	case len(fs) == 5 && fs[0] == "via":
		o := pacOutcome{Kind: "via", Scheme: string(core.MustUnHex(fs[1])), HostPort: string(core.MustUnHex(fs[2]))}
		o.User, o.HasUser = un(fs[3])
		o.Pass, o.HasPass = un(fs[4])
		return o, ans
	}
	core.Fatalf("C19: pacproxy: unexpected answer %q", ans)
	return pacOutcome{}, ans
}

// pac sends, for every rule of the script, one request of each kind of the run.
func (fr *faultRunner) pac() {
	if fr.c.PAC == nil {
		return
	}
	_, oport := hostPort(fr.p.OriginAddr)
	for _, rt := range fr.c.PAC.Routes {
		for _, kind := range fr.requestKinds {
			label := "pac/" + rt.Host + "/" + kind
			target := rt.Host + ":" + oport
			path := "/c19/" + fr.c.ID + "/" + label
			var got []reply
			switch kind {
			case "get":
				got = []reply{proxyGetT(fr.paddr, fr.useTLS, target, path, fr.pauth, exchangeTimeout)}
			case "connect":
				cr, inner := proxyConnectGetT(fr.paddr, fr.useTLS, target, path, fr.pauth, false, exchangeTimeout)
				got = []reply{cr, inner}
			case "mitm-get":
				cr, inner := proxyConnectGetT(fr.paddr, fr.useTLS, target, path, fr.pauth, true, exchangeTimeout)
				got = []reply{cr, inner}
			}
			f := faultReply{Label: label, Deterministic: true, Outcome: "no-response", Hits: 1}
			for _, r := range got {
				if r.Dump == "" {
					if r.Err != "" {
						f.Err = r.Err
					}
					continue
				}
				f.Dump += r.Dump + "\n"
				kindOf := "relayed"
				if strings.Contains(r.Dump, "\nX-Forwarder-Error: ") {
					kindOf = "forwarder"
				}
				f.Outcome = fmt.Sprintf("%s-%d", kindOf, r.Status)
				f.Status = r.Status
			}
			fr.o.Faults = append(fr.o.Faults, f)
		}
	}
}

func forwarderError(dump string) (string, bool) {
	for _, line := range strings.Split(dump, "\n") {
		if v, ok := strings.CutPrefix(line, "X-Forwarder-Error: "); ok {
			return v, true
		}
	}
	return "", false
}

// comparePAC ties the PAC phase to Model.C19.pacProxy: the error text of a request whose PAC result cannot
// be used, and - for a usable one - the credentials the selected proxy received.
func comparePAC(ctx *core.Ctx, c *Case, o *observation, p *plan) {
	if c.PAC == nil {
		return
	}
	g := getRig()
	ep := p.Endpoints
	byLabel := map[string]faultReply{}
	for _, f := range o.Faults {
		byLabel[f.Label] = f
	}
	kinds := []string{"get", "connect"}
	if c.MITM != "none" {
		kinds = []string{"get", "mitm-get"}
	}
	for _, rt := range c.PAC.Routes {
		var want pacOutcome
		ans := ""
		if rt.Class != "script-error" {
			want, ans = askPAC(ctx, rt.subst(ep), p)
		}
		for _, kind := range kinds {
			f, ok := byLabel["pac/"+rt.Host+"/"+kind]
			if !ok {
				continue
			}
			ctx.Count("pac/" + rt.Class + "/" + kind + "=" + f.Outcome)
			got, isErr := forwarderError(f.Dump)
			switch {
			case rt.Class == "script-error":
				// the text comes from the script engine; the scan and the diff cover it
				if !isErr || !strings.HasPrefix(got, proxyName+" PAC script: ") {
					ctx.Disagree("a request for which the PAC script fails is answered with the proxy's error response naming the script error", c,
						short(f.Dump+f.Err, 400), "X-Forwarder-Error: "+proxyName+" PAC script: …")
				}
			case want.Kind == "err":
				if !isErr || got != proxyName+" "+want.Text || !strings.Contains(f.Dump, "\n"+want.Text+"\n") {
					ctx.Disagree("error response of a request whose PAC result ("+rt.Class+") cannot be used: X-Forwarder-Error and body = Model.C19.pacProxy", c,
						short(f.Dump+f.Err, 500), ans+" = "+want.Text)
				} else {
					ctx.TraceValidated()
				}
			case want.Kind == "direct":
				if f.Status != 200 || isErr {
					ctx.Disagree("a request the PAC script sends DIRECT is served", c, short(f.Dump+f.Err, 400), "200")
				}
			default:
				socks := want.Scheme == "socks5"
				usable := !(socks && want.HasUser && (!want.HasPass || want.Pass == "" || want.User == ""))
				if usable && (f.Status != 200 || isErr) {
					ctx.Disagree("a request the PAC script sends through a supported proxy is served", c, short(f.Dump+f.Err, 400), ans)
				}
				if want.HasUser && usable {
					auth := basic(want.User, want.Pass)
					if socks {
						auth = socksAuth(want.User, want.Pass)
					}
					if auth != p.authToward(want.HostPort, socks) {
						core.Fatalf("C19: the harness and Model.C19.credMatch pick different --credentials entries for %s", want.HostPort)
					}
					seen := g.sawUpstream(auth)
					ctx.Count(fmt.Sprintf("pac/credentials-used/%s=%v", want.Scheme, seen))
					if !seen {
						ctx.Disagree("the proxy the PAC script selects receives the credentials of the matching --credentials entry (Model.C19.credMatch)", c,
							"not received", ans)
					} else {
						ctx.TraceValidated()
					}
				}
			}
		}
	}
	pats := map[string]bool{}
	for _, cr := range c.Creds {
		if strings.HasPrefix(cr.Target, "gateway") || strings.HasPrefix(cr.Target, "pac-") {
			pats[cr.Target+"/"+cr.Pattern] = true
		}
	}
	ks := make([]string, 0, len(pats))
	for k := range pats {
		ks = append(ks, k)
	}
	sort.Strings(ks)
	for _, k := range ks {
		ctx.Count("pac/credentials-entry/" + k)
	}
	ctx.Count("pac/form/" + c.PAC.Form)
	ctx.Count("pac/main/" + c.PAC.Main)
	ctx.Count("pac/style/" + c.PAC.Style)
}
