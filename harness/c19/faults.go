package c19

import (
	"fmt"
	"regexp"
	"strings"
	"time"

	"github.com/saucelabs/forwarder/verifharness/core"
)

// The fault phase of a run: every request kind that involves configured credentials is sent once
// per fault shape of the peer the credentials are for (the upstream proxy of --proxy/--credentials,
// the origin of a site --credentials entry), and everything the client gets back - status line,
// header fields, body - and the log written meanwhile is searched for the secrets.

// stallTimeout is the --http-response-header-timeout of cases that inject stalls.
const stallTimeout = 900 * time.Millisecond

// faultReply is what the client received in one faulted exchange.
type faultReply struct {
	Label         string // <site>/<request kind>/<fault>
	Deterministic bool   // the outcome does not depend on scheduling: compared between the two runs
	Dump          string // everything received: answer to CONNECT (if any) and the (inner) response
	Outcome       string // forwarder-NNN (the proxy's own error response) | relayed-NNN | no-response
	Hits          int    // connections that met the fault
	SawAuth       bool   // a faulted connection carried the configured credentials
	Status        int    // PAC phase (pac.go): status of the last response, client-side error if there was none
	Err           string
}

// faults that are decided before the peer reads anything race with the proxy's write of the
// request: EOF, ECONNRESET or EPIPE depending on scheduling.
var (
	faultsAfterHead = []string{"read-close", "truncated", "truncated-status", "garbage",
		"status-407", "status-407-body", "status-403", "status-403-body", "status-502", "status-502-body"}
	faultsAtAccept = []string{"accept-close", "reset"}
)

// slowStall: a stalled upstream proxy is waited for a fixed minute when the proxy sends it a CONNECT
// (no flag shortens that): a client CONNECT, or an intercepted request on its way to the origin.
func slowStall(site, kind string) bool {
	return site == "upstream" && (kind == "connect" || kind == "mitm-get")
}

// slow: the same for every request through a stalled SOCKS5 proxy (the handshake is part of the dial).
func (fr *faultRunner) slow(site *front, kind string) bool {
	return slowStall(site.name, kind) || site.socks
}

func faultForSite(site, fault string) string {
	if site == "origin" && strings.HasPrefix(fault, "status-407") {
		return strings.Replace(fault, "407", "401", 1)
	}
	return fault
}

type faultRunner struct {
	c            *Case
	p            *plan
	o            *observation
	paddr        string
	useTLS       bool
	pauth        string
	up, origin   *front
	requestKinds []string
}

func (fr *faultRunner) sites() []*front {
	var fs []*front
	if fr.up != nil {
		fs = append(fs, fr.up)
	}
	return append(fs, fr.origin)
}

// one sends one request of the given kind while the site is armed with the fault.
func (fr *faultRunner) one(site *front, kind, fault string, deterministic bool) {
	label := site.name + "/" + kind + "/" + fault
	timeout := 4 * time.Second
	if fault == "stall" {
		timeout = stallTimeout + 3*time.Second
		if fr.slow(site, kind) {
			// CONNECT to an upstream proxy waits up to a fixed minute: the client gives up first
			timeout = 400 * time.Millisecond
		}
	}
	if fault == "refused" {
		site.refuse()
	} else {
		site.arm(fault)
	}
	path := "/c19/" + fr.c.ID + "/fault/" + label
	target := fr.p.OriginAddr
	var got []reply
	switch kind {
	case "get":
		got = []reply{proxyGetT(fr.paddr, fr.useTLS, target, path, fr.pauth, timeout)}
	case "connect":
		cr, inner := proxyConnectGetT(fr.paddr, fr.useTLS, target, path, fr.pauth, false, timeout)
		got = []reply{cr, inner}
	case "mitm-get":
		cr, inner := proxyConnectGetT(fr.paddr, fr.useTLS, target, path, fr.pauth, true, timeout)
		got = []reply{cr, inner}
	}
	var hits int
	var heads []string
	if fault != "refused" {
		hits, heads = site.disarm()
	}
	f := faultReply{Label: label, Deterministic: deterministic, Hits: hits, Outcome: "no-response"}
	for _, r := range got {
		if r.Dump == "" {
			continue
		}
		f.Dump += r.Dump + "\n"
		kindOf := "relayed"
		if strings.Contains(r.Dump, "\nX-Forwarder-Error: ") {
			kindOf = "forwarder"
		}
		f.Outcome = fmt.Sprintf("%s-%d", kindOf, r.Status)
	}
	want := ""
	switch site.name {
	case "upstream":
		if fr.p.UpstreamAuth != "" {
			want = "Proxy-Authorization: " + fr.p.UpstreamAuth + "\r\n"
		}
	case "origin":
		if fr.p.OriginAuth != "" {
			want = "Authorization: " + fr.p.OriginAuth + "\r\n"
		}
	}
	for _, h := range heads {
		if want != "" && strings.Contains(h, "\n"+want) {
			f.SawAuth = true
		}
	}
	fr.o.Faults = append(fr.o.Faults, f)
}

// afterHead runs the faults whose outcome is a function of the configuration.
func (fr *faultRunner) afterHead() {
	for _, site := range fr.sites() {
		for _, kind := range fr.requestKinds {
			for _, fault := range faultsAfterHead {
				fr.one(site, kind, faultForSite(site.name, fault), true)
			}
			if fr.c.Stall && kind != "connect" && !fr.slow(site, kind) {
				fr.one(site, kind, "stall", true)
			}
		}
	}
}

// racy runs the faults whose outcome depends on scheduling and, last, closes the listeners.
func (fr *faultRunner) racy() {
	for _, site := range fr.sites() {
		for _, kind := range fr.requestKinds {
			for _, fault := range faultsAtAccept {
				fr.one(site, kind, fault, false)
			}
			if fr.c.Stall && fr.slow(site, kind) {
				fr.one(site, kind, "stall", false)
			}
		}
	}
	// connection refused: the origin first (the upstream proxy must still be there to report it).
	// A connection the proxy opened ahead of time is reset instead, so the outcome is not compared.
	for _, kind := range fr.requestKinds {
		fr.one(fr.origin, kind, "refused", false)
	}
	if fr.up != nil {
		for _, kind := range fr.requestKinds {
			fr.one(fr.up, kind, "refused", false)
		}
	}
}

// countFaults records what the fault phase exercised.
func countFaults(ctx *core.Ctx, c *Case, o *observation, p *plan) {
	for _, f := range o.Faults {
		ctx.Count("fault/" + f.Label + "=" + f.Outcome)
		if f.Hits == 0 && !strings.HasSuffix(f.Label, "/refused") {
			ctx.Count("fault-not-reached/" + f.Label)
		}
		site := strings.SplitN(f.Label, "/", 2)[0]
		if f.Hits > 0 && (site == "upstream" && p.UpstreamAuth != "" || site == "origin" && p.OriginAuth != "" && !strings.Contains(f.Label, "/connect/")) &&
			!strings.Contains(f.Label, "/accept-close") && !strings.Contains(f.Label, "/reset") {
			ctx.Count(fmt.Sprintf("fault-with-credentials/%s=%v", site, f.SawAuth))
		}
	}
}

var (
	reDumpJSON = regexp.MustCompile(`msg"?[=:]"?HTTP dump`)
	reDumpText = regexp.MustCompile(`msg="?(\[[^\]]*\] )?[A-Z]+ \S+ status=\d+ duration=`)
)

// splitHTTPDumps separates the request-log records from the rest of a log segment.  With
// --log-http errors a failed exchange is dumped with its header fields, which the property does not
// cover (it speaks about request log lines of successful exchanges).
func splitHTTPDumps(text string) (rest, dumps string) {
	var r, d strings.Builder
	for _, line := range strings.SplitAfter(text, "\n") {
		if reDumpJSON.MatchString(line) || reDumpText.MatchString(line) {
			d.WriteString(line)
		} else {
			r.WriteString(line)
		}
	}
	return r.String(), d.String()
}
