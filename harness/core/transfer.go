package core

import (
	"encoding/hex"
	"encoding/json"
)

// CtxDump is what a scenario's child process (a part of the run that needs its own process
// environment, e.g. another time zone) hands back to the parent run: everything Ctx accumulated.
type CtxDump struct {
	Evals     int                `json:"evals"`
	Distinct  []string           `json:"distinct"`
	Hist      map[string]int     `json:"hist"`
	Findings  []Finding          `json:"findings"`
	Known     map[string]int     `json:"known"`
	KnownSeen map[string]Finding `json:"known_seen"`
	Traces    int                `json:"traces"`
	Asks      int64              `json:"asks"`
}

// Dump serialises what this context accumulated so far (used by a child process instead of Finish).
func (c *Ctx) Dump() []byte {
	c.mu.Lock()
	defer c.mu.Unlock()
	d := CtxDump{Evals: c.evals, Hist: c.hist, Findings: c.findings, Known: c.known, KnownSeen: c.knownSeen, Traces: c.traces}
	if c.Model != nil {
		c.Model.mu.Lock()
		d.Asks = c.Model.Asks
		c.Model.mu.Unlock()
	}
	for k := range c.distinct {
		d.Distinct = append(d.Distinct, hex.EncodeToString(k[:]))
	}
	b, _ := json.Marshal(d)
	return b
}

// Absorb adds what a child process accumulated (its Dump) to this context.
func (c *Ctx) Absorb(b []byte) error {
	var d CtxDump
	if err := json.Unmarshal(b, &d); err != nil {
		return err
	}
	c.mu.Lock()
	defer c.mu.Unlock()
	c.evals += d.Evals
	for _, h := range d.Distinct {
		raw, err := hex.DecodeString(h)
		if err != nil || len(raw) != 16 {
			continue
		}
		var k [16]byte
		copy(k[:], raw)
		c.distinct[k] = struct{}{}
	}
	for k, v := range d.Hist {
		c.hist[k] += v
	}
	for _, f := range d.Findings {
		if len(c.findings) < 200 {
			c.findings = append(c.findings, f)
		}
	}
	for k, v := range d.Known {
		c.known[k] += v
	}
	for k, f := range d.KnownSeen {
		if _, ok := c.knownSeen[k]; !ok {
			c.knownSeen[k] = f
		}
	}
	c.traces += d.Traces
	if c.Model != nil {
		c.Model.mu.Lock()
		c.Model.Asks += d.Asks
		c.Model.mu.Unlock()
	}
	return nil
}
