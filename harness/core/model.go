package core

import (
	"bufio"
	"encoding/hex"
	"fmt"
	"io"
	"os"
	"os/exec"
	"strconv"
	"strings"
	"sync"
)

// Model is a pool of `fwdmodel` processes (the compiled Lean model driver) spoken to over the
// line protocol described in lean/FwdVerif/Lib/Wire.lean.
type Model struct {
	path string
	mu   sync.Mutex
	idle []*modelProc
	all  []*modelProc
	Asks int64
}

type modelProc struct {
	cmd *exec.Cmd
	in  io.WriteCloser
	out *bufio.Reader
}

func NewModel(path string) (*Model, error) {
	if _, err := os.Stat(path); err != nil {
		return nil, fmt.Errorf("model driver missing: %w", err)
	}
	m := &Model{path: path}
	ans, err := m.Ask("ping")
	if err != nil || ans != "pong" {
		return nil, fmt.Errorf("model driver does not answer ping: %q %v", ans, err)
	}
	return m, nil
}

func (m *Model) spawn() (*modelProc, error) {
	cmd := exec.Command(m.path)
	in, err := cmd.StdinPipe()
	if err != nil {
		return nil, err
	}
	out, err := cmd.StdoutPipe()
	if err != nil {
		return nil, err
	}
	cmd.Stderr = os.Stderr
	if err := cmd.Start(); err != nil {
		return nil, err
	}
	return &modelProc{cmd: cmd, in: in, out: bufio.NewReaderSize(out, 1<<20)}, nil
}

// Ask sends one request line and returns the answer line. Safe for concurrent use.
func (m *Model) Ask(line string) (string, error) {
	if strings.ContainsAny(line, "\r\n") {
		return "", fmt.Errorf("model request contains newline")
	}
	m.mu.Lock()
	var p *modelProc
	if n := len(m.idle); n > 0 {
		p = m.idle[n-1]
		m.idle = m.idle[:n-1]
	}
	m.Asks++
	m.mu.Unlock()
	if p == nil {
		var err error
		p, err = m.spawn()
		if err != nil {
			return "", err
		}
		m.mu.Lock()
		m.all = append(m.all, p)
		m.mu.Unlock()
	}
	if _, err := io.WriteString(p.in, line+"\n"); err != nil {
		return "", fmt.Errorf("model write: %w", err)
	}
	ans, err := p.out.ReadString('\n')
	if err != nil {
		return "", fmt.Errorf("model read (driver died?): %w", err)
	}
	m.mu.Lock()
	m.idle = append(m.idle, p)
	m.mu.Unlock()
	return strings.TrimRight(ans, "\r\n"), nil
}

// MustAsk is Ask for scenarios: a driver failure aborts the run (exit 2, never a VIOLATION).
func (m *Model) MustAsk(fields ...string) string {
	ans, err := m.Ask(strings.Join(fields, " "))
	if err != nil {
		Fatalf("model driver failure: %v", err)
	}
	if ans == "bad-op" {
		Fatalf("model driver rejected request %q", strings.Join(fields, " "))
	}
	return ans
}

func (m *Model) Close() {
	m.mu.Lock()
	defer m.mu.Unlock()
	for _, p := range m.all {
		p.in.Close()
		p.cmd.Wait()
	}
	m.all, m.idle = nil, nil
}

// ---- wire encoding helpers (mirror of Wire.lean) ----

func Hex(b []byte) string {
	if len(b) == 0 {
		return "_"
	}
	return hex.EncodeToString(b)
}

func HexS(s string) string { return Hex([]byte(s)) }

func UnHex(s string) ([]byte, error) {
	if s == "_" {
		return []byte{}, nil
	}
	return hex.DecodeString(s)
}

func MustUnHex(s string) []byte {
	b, err := UnHex(s)
	if err != nil {
		Fatalf("bad hex from model: %q", s)
	}
	return b
}

func JoinList(xs []string) string {
	if len(xs) == 0 {
		return "~"
	}
	return strings.Join(xs, ",")
}

func SplitList(s string) []string {
	if s == "~" {
		return nil
	}
	return strings.Split(s, ",")
}

func JoinList2(xs []string) string {
	if len(xs) == 0 {
		return "~"
	}
	return strings.Join(xs, ";")
}

func SplitList2(s string) []string {
	if s == "~" {
		return nil
	}
	return strings.Split(s, ";")
}

func HexList(xs []string) string {
	hs := make([]string, len(xs))
	for i, x := range xs {
		hs[i] = HexS(x)
	}
	return JoinList(hs)
}

func UnHexList(s string) []string {
	var out []string
	for _, a := range SplitList(s) {
		out = append(out, string(MustUnHex(a)))
	}
	return out
}

func Itoa(n int) string { return strconv.Itoa(n) }

func B01(b bool) string {
	if b {
		return "1"
	}
	return "0"
}
