package core

import (
	"bytes"
	"fmt"
	"os"
	"os/exec"
	"path/filepath"
	"regexp"
	"sort"
	"strings"
)

// ProofResult describes the proof-obligation step of one run (DESIGN.md §3 step 2).
type ProofResult struct {
	Obligations int
	Discharged  int
	Theorems    []string
	Axioms      []string // union of axioms the property theorems depend on
	CheckerCmd  string
	LeanChecker string
	TrustedBase []string
	Failures    []ProofFailure
}

type ProofFailure struct {
	Theorem string
	Reason  string
}

var (
	theoremRe   = regexp.MustCompile(`(?m)^(?:@\[[^\]]*\]\s*)?theorem\s+([A-Za-z0-9_.']+)`)
	axiomLineRe = regexp.MustCompile(`'([^']+)' (depends on axioms: \[([^\]]*)\]|does not depend on any axioms)`)
	allowedAx   = map[string]bool{"propext": true, "Classical.choice": true, "Quot.sound": true}
	forbidden   = []string{"sorry", "admit", "native_decide", "bv_decide", "implemented_by", "unsafe ", "maxHeartbeats 0", "axiom "}
)

// stripComments removes `--` line comments and `/- … -/` block comments (nesting aware) from Lean
// source, and string literals are left alone (none of the forbidden tokens is expected in one).
func stripComments(src string) string {
	var out strings.Builder
	depth := 0
	for i := 0; i < len(src); i++ {
		if depth == 0 && strings.HasPrefix(src[i:], "--") {
			for i < len(src) && src[i] != '\n' {
				i++
			}
			out.WriteByte('\n')
			continue
		}
		if strings.HasPrefix(src[i:], "/-") {
			depth++
			i++
			continue
		}
		if depth > 0 && strings.HasPrefix(src[i:], "-/") {
			depth--
			i++
			continue
		}
		if depth == 0 {
			out.WriteByte(src[i])
		} else if src[i] == '\n' {
			out.WriteByte('\n')
		}
	}
	return out.String()
}

// CheckProofs rebuilds the theorem module of prop, audits the axioms of every property theorem and
// scans the Lean sources for escape hatches.
func CheckProofs(root, prop string, thorough bool) *ProofResult {
	lean := filepath.Join(root, "lean")
	mod := "FwdVerif.Theorems." + prop
	file := filepath.Join(lean, "FwdVerif", "Theorems", prop+".lean")
	pr := &ProofResult{
		CheckerCmd: fmt.Sprintf("cd lean && lake build %s && lake env lean .audit/%s.lean  # #print axioms of every property theorem", mod, prop),
		TrustedBase: []string{
			"Lean 4.33.0 kernel (lake build; leanchecker re-check in the thorough tier)",
			"hand-written Lean model of the anchored code, tied to /repo by the correspondence runs of this check (differential, sampled)",
			"Go harness: generators, observers, canonicalisation, line protocol",
		},
	}
	src, err := os.ReadFile(file)
	if err != nil {
		pr.Obligations = 1
		pr.Failures = append(pr.Failures, ProofFailure{mod, "theorem file missing: " + err.Error()})
		return pr
	}
	clean := stripComments(string(src))
	for _, m := range theoremRe.FindAllStringSubmatch(clean, -1) {
		pr.Theorems = append(pr.Theorems, m[1])
	}
	pr.Obligations = len(pr.Theorems)
	if pr.Obligations == 0 {
		pr.Obligations = 1
		pr.Failures = append(pr.Failures, ProofFailure{mod, "no property theorem found"})
		return pr
	}

	// textual scan over every Lean source of the project
	scanBad := map[string]string{}
	filepath.Walk(filepath.Join(lean, "FwdVerif"), func(p string, info os.FileInfo, err error) error {
		if err != nil || info.IsDir() || !strings.HasSuffix(p, ".lean") {
			return nil
		}
		b, _ := os.ReadFile(p)
		c := stripComments(string(b))
		for _, tok := range forbidden {
			if idx := strings.Index(c, tok); idx >= 0 {
				// "axiom " must be at the start of a declaration to count
				if tok == "axiom " {
					if !regexp.MustCompile(`(?m)^\s*(private\s+|protected\s+)?axiom\s`).MatchString(c) {
						continue
					}
				}
				scanBad[p] = tok
			}
		}
		return nil
	})

	build := exec.Command("lake", "build", mod)
	build.Dir = lean
	var bout bytes.Buffer
	build.Stdout, build.Stderr = &bout, &bout
	if err := build.Run(); err != nil {
		msg := tail(bout.String(), 1500)
		for _, t := range pr.Theorems {
			pr.Failures = append(pr.Failures, ProofFailure{prop + "." + t, "lake build " + mod + " failed: " + msg})
		}
		return pr
	}
	if strings.Contains(bout.String(), "declaration uses 'sorry'") {
		for _, t := range pr.Theorems {
			pr.Failures = append(pr.Failures, ProofFailure{prop + "." + t, "module uses sorry"})
		}
		return pr
	}

	// axiom audit
	auditDir := filepath.Join(lean, ".audit")
	os.MkdirAll(auditDir, 0o755)
	var a strings.Builder
	fmt.Fprintf(&a, "import %s\nopen FwdVerif FwdVerif.%s\n", mod, prop)
	for _, t := range pr.Theorems {
		fmt.Fprintf(&a, "#print axioms %s\n", t)
	}
	af := filepath.Join(auditDir, prop+".lean")
	os.WriteFile(af, []byte(a.String()), 0o644)
	audit := exec.Command("lake", "env", "lean", af)
	audit.Dir = lean
	var aout bytes.Buffer
	audit.Stdout, audit.Stderr = &aout, &aout
	aerr := audit.Run()
	flat := strings.Join(strings.Fields(aout.String()), " ")
	seen := map[string][]string{}
	for _, m := range axiomLineRe.FindAllStringSubmatch(flat, -1) {
		name := m[1]
		var axs []string
		if m[3] != "" {
			for _, x := range strings.Split(m[3], ",") {
				axs = append(axs, strings.TrimSpace(x))
			}
		}
		short := name[strings.LastIndex(name, ".")+1:]
		seen[short] = axs
		seen[name] = axs
	}
	axset := map[string]bool{}
	for _, t := range pr.Theorems {
		axs, ok := seen[t]
		if !ok {
			short := t[strings.LastIndex(t, ".")+1:]
			axs, ok = seen[short]
		}
		if !ok {
			reason := "axiom audit produced no line for this theorem"
			if aerr != nil {
				reason += ": " + tail(aout.String(), 600)
			}
			pr.Failures = append(pr.Failures, ProofFailure{prop + "." + t, reason})
			continue
		}
		bad := ""
		for _, x := range axs {
			axset[x] = true
			if !allowedAx[x] {
				bad = x
			}
		}
		if bad != "" {
			pr.Failures = append(pr.Failures, ProofFailure{prop + "." + t, "depends on non-standard axiom " + bad})
			continue
		}
		pr.Discharged++
	}
	for x := range axset {
		pr.Axioms = append(pr.Axioms, x)
	}
	sort.Strings(pr.Axioms)
	if len(scanBad) > 0 {
		for p, tok := range scanBad {
			pr.Failures = append(pr.Failures, ProofFailure{prop, fmt.Sprintf("forbidden token %q in %s", tok, p)})
		}
		pr.Discharged = 0
	}
	pr.TrustedBase = append(pr.TrustedBase, "axioms used by the property theorems: "+strings.Join(pr.Axioms, ", "))

	if thorough {
		lc := exec.Command("lake", "env", "leanchecker", mod)
		lc.Dir = lean
		var lout bytes.Buffer
		lc.Stdout, lc.Stderr = &lout, &lout
		if err := lc.Run(); err != nil {
			pr.Failures = append(pr.Failures, ProofFailure{prop, "leanchecker rejected " + mod + ": " + tail(lout.String(), 600)})
			pr.Discharged = 0
			pr.LeanChecker = "failed"
		} else {
			pr.LeanChecker = "lake env leanchecker " + mod + ": accepted"
		}
	}
	return pr
}

func tail(s string, n int) string {
	if len(s) > n {
		return "…" + s[len(s)-n:]
	}
	return s
}
