package core

import (
	"crypto/sha256"
	"encoding/binary"
	"encoding/json"
	"fmt"
	"os"
	"path/filepath"
	"sort"
	"strconv"
	"strings"
	"sync"
	"time"
)

// Fatalf aborts the run with exit status 2: the machinery itself failed (this is not a verdict
// about the property and never prints a VIOLATION line).
func Fatalf(format string, a ...any) {
	fmt.Fprintf(os.Stderr, "fwdcheck: fatal: "+format+"\n", a...)
	os.Exit(2)
}

// Finding is one case on which something broke.
type Finding struct {
	Kind   string `json:"kind"`             // "spec" | "correspondence" | "proof" | "crash" | "build"
	Clause string `json:"clause"`           // property clause / relation / theorem that no longer checks
	Class  string `json:"class,omitempty"`  // known-finding class the input falls in, if any
	Case   any    `json:"case,omitempty"`   // replayable input
	Impl   string `json:"impl,omitempty"`   // what the implementation did
	Model  string `json:"model,omitempty"`  // what the model says
	Detail string `json:"detail,omitempty"` // free text
}

// KnownFinding is an entry of /verif/known_findings.json (committed, never written at run time).
type KnownFinding struct {
	ID       string `json:"id"`
	Property string `json:"property"`
	Class    string `json:"class"`
	Status   string `json:"status"` // "open" | "fixed"
	What     string `json:"what"`
	Witness  string `json:"witness,omitempty"`
	Line     string `json:"line,omitempty"` // "fixed: property=<id> <commit> <what failed>" for fixed entries
}

type Ctx struct {
	Prop  string
	Tier  string
	Seed  uint64
	Rng   *Rand
	Model *Model
	Root  string // /verif

	start time.Time

	mu         sync.Mutex
	evals      int
	distinct   map[[16]byte]struct{}
	hist       map[string]int
	samples    []any
	findings   []Finding
	known      map[string]int
	knownSeen  map[string]Finding
	traces     int
	exhaustive bool
	rule       string
	extra      map[string]any
	assume     []string
	kf         []KnownFinding
}

func NewCtx(root, prop, tier string, seed uint64, model *Model) *Ctx {
	c := &Ctx{
		Prop: prop, Tier: tier, Seed: seed, Rng: NewRand(seed ^ hashStr(prop)), Model: model, Root: root,
		start:    time.Now(),
		distinct: map[[16]byte]struct{}{}, hist: map[string]int{}, known: map[string]int{},
		knownSeen: map[string]Finding{}, extra: map[string]any{},
	}
	c.kf = LoadKnown(root)
	return c
}

func hashStr(s string) uint64 {
	h := sha256.Sum256([]byte(s))
	return binary.LittleEndian.Uint64(h[:8])
}

func LoadKnown(root string) []KnownFinding {
	var f struct {
		Findings []KnownFinding `json:"findings"`
	}
	b, err := os.ReadFile(filepath.Join(root, "known_findings.json"))
	if err != nil {
		return nil
	}
	if err := json.Unmarshal(b, &f); err != nil {
		Fatalf("known_findings.json: %v", err)
	}
	return f.Findings
}

// Quick reports whether this is the quick tier.
func (c *Ctx) Quick() bool { return c.Tier != "thorough" }

// N picks a case count by tier.
func (c *Ctx) N(quick, thorough int) int {
	if c.Quick() {
		return quick
	}
	return thorough
}

func (c *Ctx) Elapsed() time.Duration { return time.Since(c.start) }

// Case counts one evaluated case. key identifies the canonical input; nontrivial says whether it
// exercised a non-default branch by the scenario's stated rule.
func (c *Ctx) Case(key string, nontrivial bool) {
	c.mu.Lock()
	defer c.mu.Unlock()
	c.evals++
	if nontrivial {
		h := sha256.Sum256([]byte(key))
		var k [16]byte
		copy(k[:], h[:16])
		c.distinct[k] = struct{}{}
	}
}

// Count adds to a named bucket of the input-distribution histogram.
func (c *Ctx) Count(label string) { c.CountN(label, 1) }

func (c *Ctx) CountN(label string, n int) {
	c.mu.Lock()
	c.hist[label] += n
	c.mu.Unlock()
}

// Sample keeps up to five cases written out in full.
func (c *Ctx) Sample(v any) {
	c.mu.Lock()
	if len(c.samples) < 5 {
		c.samples = append(c.samples, v)
	}
	c.mu.Unlock()
}

func (c *Ctx) TraceValidated()       { c.mu.Lock(); c.traces++; c.mu.Unlock() }
func (c *Ctx) SetRule(r string)      { c.rule = r }
func (c *Ctx) SetExhaustive(b bool)  { c.exhaustive = b }
func (c *Ctx) Assume(s string)       { c.mu.Lock(); c.assume = append(c.assume, s); c.mu.Unlock() }
func (c *Ctx) Extra(k string, v any) { c.mu.Lock(); c.extra[k] = v; c.mu.Unlock() }

// Disagree records a correspondence break: implementation and model differ on a case.
func (c *Ctx) Disagree(relation string, cs any, impl, model string) {
	c.add(Finding{Kind: "correspondence", Clause: relation, Case: cs, Impl: impl, Model: model})
}

// SpecFail records that the property itself is false of what the implementation did on a case.
// class names the known-finding class the *input* falls in ("" if none).
func (c *Ctx) SpecFail(clause, class string, cs any, impl, detail string) {
	c.add(Finding{Kind: "spec", Clause: clause, Class: class, Case: cs, Impl: impl, Detail: detail})
}

// Crash records a crash/hang of the code under test.
func (c *Ctx) Crash(clause, class string, cs any, detail string) {
	c.add(Finding{Kind: "crash", Clause: clause, Class: class, Case: cs, Detail: detail})
}

func (c *Ctx) add(f Finding) {
	c.mu.Lock()
	defer c.mu.Unlock()
	if f.Class != "" && f.Kind != "correspondence" {
		for _, k := range c.kf {
			if k.Property == c.Prop && k.Class == f.Class && k.Status == "open" {
				c.known[k.ID]++
				if _, ok := c.knownSeen[k.ID]; !ok {
					c.knownSeen[k.ID] = f
				}
				return
			}
		}
	}
	if len(c.findings) < 200 {
		c.findings = append(c.findings, f)
	}
}

// NumFindings returns how many unexplained findings were recorded so far.
func (c *Ctx) NumFindings() int { c.mu.Lock(); defer c.mu.Unlock(); return len(c.findings) }

// Finish decides the run, writes evidence and (if needed) the replay file, prints the verdict lines
// and returns the exit status.
func (c *Ctx) Finish(pr *ProofResult) int {
	c.mu.Lock()
	defer c.mu.Unlock()

	// proof obligations that no longer check are findings of kind "proof"
	if pr != nil {
		for _, f := range pr.Failures {
			c.findings = append(c.findings, Finding{Kind: "proof", Clause: f.Theorem, Detail: f.Reason})
		}
	}

	// known findings re-observed
	ids := make([]string, 0, len(c.known))
	for id := range c.known {
		ids = append(ids, id)
	}
	sort.Strings(ids)
	for _, id := range ids {
		for _, k := range c.kf {
			if k.ID == id && k.Property == c.Prop {
				fmt.Printf("KNOWN-FINDING: property=%s %s: %s (re-observed on %d cases)\n", c.Prop, k.ID, k.What, c.known[id])
			}
		}
	}

	status := 0
	violations := 0
	if len(c.findings) > 0 {
		status = 1
		// prefer a concrete failing input
		var spec []Finding
		var other []Finding
		for _, f := range c.findings {
			if f.Kind == "spec" || f.Kind == "crash" {
				spec = append(spec, f)
			} else {
				other = append(other, f)
			}
		}
		violations = len(spec)
		os.MkdirAll(filepath.Join(c.Root, "replays"), 0o755)
		if len(spec) > 0 {
			p := c.writeReplay(spec[0], spec, other)
			fmt.Printf("VIOLATION property=%s replay=%s\n", c.Prop, p)
		} else {
			violations = 1
			p := c.writeReplay(other[0], nil, other)
			fmt.Printf("VIOLATION property=%s replay=%s no-failing-input-found\n", c.Prop, p)
		}
	}
	c.writeEvidence(pr, violations)
	if status == 0 {
		fmt.Printf("OK property=%s tier=%s seed=%d evaluations=%d distinct_nontrivial=%d wall=%.1fs\n",
			c.Prop, c.Tier, c.Seed, c.evals, len(c.distinct), time.Since(c.start).Seconds())
	}
	return status
}

func (c *Ctx) writeReplay(first Finding, spec, other []Finding) string {
	doc := map[string]any{
		"property": c.Prop, "tier": c.Tier, "seed": c.Seed,
		"first": first,
	}
	if len(spec) > 1 {
		doc["more_failing_inputs"] = trim(spec[1:], 10)
	}
	if len(other) > 0 {
		doc["no_longer_checks"] = trim(other, 10)
	}
	b, _ := json.MarshalIndent(doc, "", " ")
	h := sha256.Sum256(b)
	rel := filepath.Join("replays", fmt.Sprintf("%s-%x.json", c.Prop, h[:6]))
	if err := os.WriteFile(filepath.Join(c.Root, rel), b, 0o644); err != nil {
		Fatalf("cannot write replay: %v", err)
	}
	return rel
}

func trim(fs []Finding, n int) []Finding {
	if len(fs) > n {
		return fs[:n]
	}
	return fs
}

func (c *Ctx) writeEvidence(pr *ProofResult, violations int) {
	cov := map[string]any{
		"evaluations":                   c.evals,
		"distinct_nontrivial":           len(c.distinct),
		"rule":                          c.rule,
		"samples":                       c.samples,
		"traces_validated_against_impl": c.traces,
		"input_distribution":            c.hist,
		"exhaustive":                    c.exhaustive,
		"model_requests":                c.Model.Asks,
	}
	if len(c.samples) == 0 {
		cov["samples"] = []any{}
	}
	tb := []string{}
	if pr != nil {
		cov["obligations"] = pr.Obligations
		cov["discharged"] = pr.Discharged
		cov["checker_cmd"] = pr.CheckerCmd
		cov["theorems"] = pr.Theorems
		cov["axioms_used"] = pr.Axioms
		if pr.LeanChecker != "" {
			cov["leanchecker"] = pr.LeanChecker
		}
		tb = append(tb, pr.TrustedBase...)
	}
	tb = append(tb, c.assume...)
	cov["trusted_base"] = tb
	known := map[string]int{}
	for k, v := range c.known {
		known[k] = v
	}
	cov["known_findings_reobserved"] = known
	for k, v := range c.extra {
		cov[k] = v
	}
	ev := map[string]any{
		"property_id": c.Prop,
		"tier":        c.Tier,
		"seed":        int64(c.Seed & 0x7fffffffffffffff),
		"level":       "proof",
		"coverage":    cov,
		"assumptions": tb,
		"wall_s":      float64(int(time.Since(c.start).Seconds()*10)) / 10,
		"violations":  violations,
	}
	b, _ := json.MarshalIndent(ev, "", " ")
	evdir := os.Getenv("VERIF_EVIDENCE_DIR")
	if evdir == "" {
		evdir = filepath.Join(c.Root, "evidence")
	}
	os.MkdirAll(evdir, 0o755)
	if err := os.WriteFile(filepath.Join(evdir, c.Prop+".json"), b, 0o644); err != nil {
		Fatalf("cannot write evidence: %v", err)
	}
}

// SeedFromEnv parses VERIF_SEED (default 1).
func SeedFromEnv() uint64 {
	s := strings.TrimSpace(os.Getenv("VERIF_SEED"))
	if s == "" {
		return 1
	}
	if v, err := strconv.ParseUint(s, 10, 64); err == nil {
		return v
	}
	if v, err := strconv.ParseInt(s, 10, 64); err == nil {
		return uint64(v)
	}
	return hashStr(s)
}
