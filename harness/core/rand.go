package core

// Rand is a splitmix64 generator: every random choice of a run derives from one state
// seeded by VERIF_SEED, and every case carries its own sub-seed so that it replays alone.
type Rand struct{ s uint64 }

func NewRand(seed uint64) *Rand { return &Rand{s: seed} }

func (r *Rand) U64() uint64 {
	r.s += 0x9e3779b97f4a7c15
	z := r.s
	z = (z ^ (z >> 30)) * 0xbf58476d1ce4e5b9
	z = (z ^ (z >> 27)) * 0x94d049bb133111eb
	return z ^ (z >> 31)
}

// Sub derives an independent generator (for one case).
func (r *Rand) Sub() *Rand { return &Rand{s: r.U64()} }

func (r *Rand) Seed() uint64 { return r.s }

// Intn returns a value in [0,n).
func (r *Rand) Intn(n int) int {
	if n <= 0 {
		return 0
	}
	return int(r.U64() % uint64(n))
}

// Range returns a value in [lo,hi].
func (r *Rand) Range(lo, hi int) int { return lo + r.Intn(hi-lo+1) }

func (r *Rand) Bool() bool { return r.U64()&1 == 1 }

// Chance returns true with probability pct/100.
func (r *Rand) Chance(pct int) bool { return r.Intn(100) < pct }

func Pick[T any](r *Rand, xs []T) T { return xs[r.Intn(len(xs))] }

func (r *Rand) Bytes(n int) []byte {
	b := make([]byte, n)
	for i := range b {
		b[i] = byte(r.U64())
	}
	return b
}

// Shuffle permutes xs in place.
func Shuffle[T any](r *Rand, xs []T) {
	for i := len(xs) - 1; i > 0; i-- {
		j := r.Intn(i + 1)
		xs[i], xs[j] = xs[j], xs[i]
	}
}
