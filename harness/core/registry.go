package core

import (
	"encoding/json"
	"os"
	"path/filepath"
	"sort"
	"strings"
)

// Scenario is the correspondence part of one property's check.
type Scenario struct {
	// Run generates cases for the tier, runs implementation and model and reports through ctx.
	Run func(ctx *Ctx)
	// Replay re-runs one recorded case (the "case" object of a replay or corpus file).
	Replay func(ctx *Ctx, c json.RawMessage)
	// Prepare (optional) runs before the proof step, e.g. to regenerate a Lean file that is
	// derived from /repo's sources. Failures it finds are reported through ctx like any other.
	Prepare func(ctx *Ctx)
}

var scenarios = map[string]Scenario{}

func Register(prop string, s Scenario) { scenarios[prop] = s }

func Lookup(prop string) (Scenario, bool) { s, ok := scenarios[prop]; return s, ok }

func Registered() []string {
	var ps []string
	for p := range scenarios {
		ps = append(ps, p)
	}
	sort.Strings(ps)
	return ps
}

// LoadCorpus returns the recorded cases of /verif/corpus/<prop>/*.json (minimised past
// disagreements and witnesses of findings), in name order. Each file holds one case object, or a
// replay document with a "first":{"case":…} member.
func LoadCorpus(root, prop string) []json.RawMessage {
	dir := filepath.Join(root, "corpus", prop)
	ents, err := os.ReadDir(dir)
	if err != nil {
		return nil
	}
	var out []json.RawMessage
	for _, e := range ents {
		if e.IsDir() || !strings.HasSuffix(e.Name(), ".json") {
			continue
		}
		b, err := os.ReadFile(filepath.Join(dir, e.Name()))
		if err != nil {
			continue
		}
		out = append(out, CaseOf(b))
	}
	return out
}

// CaseOf extracts the case object from a replay document (or returns the document itself).
func CaseOf(b []byte) json.RawMessage {
	var doc struct {
		First *struct {
			Case json.RawMessage `json:"case"`
		} `json:"first"`
		NoLonger []struct {
			Case json.RawMessage `json:"case"`
		} `json:"no_longer_checks"`
	}
	if json.Unmarshal(b, &doc) == nil && doc.First != nil {
		if len(doc.First.Case) > 0 && string(doc.First.Case) != "null" {
			return doc.First.Case
		}
		for _, n := range doc.NoLonger {
			if len(n.Case) > 0 && string(n.Case) != "null" {
				return n.Case
			}
		}
	}
	return json.RawMessage(b)
}
