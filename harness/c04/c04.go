// Package c04 ties the access-control part of the request pipeline model (Model/Req.lean:
// securityCheck, isLocalhost, parseBasicAuth, processConnect, errorHeadersReceived; Model/C04.lean:
// time frames) to the real proxy: generated keep-alive client connections (GET/POST/HEAD/CONNECT,
// also inside an intercepted tunnel) go through forwarder configured with every combination of the
// four controls, and every dial the proxy attempts as well as every accept/byte at the scripted hops
// is observed.
package c04

import (
	"crypto/tls"
	"encoding/base64"
	"encoding/json"
	"fmt"
	"net/netip"
	"net/url"
	"sort"
	"strings"
	"sync"
	"time"

	"github.com/saucelabs/forwarder"
	"github.com/saucelabs/forwarder/hostsfile"
	"github.com/saucelabs/forwarder/ruleset"
	"github.com/saucelabs/forwarder/verifharness/core"
	"github.com/saucelabs/forwarder/verifharness/srcgen"
	"github.com/saucelabs/forwarder/verifharness/reqmodel"
	"github.com/saucelabs/forwarder/verifharness/rig"
)

func init() { core.Register("C04", core.Scenario{Run: Run, Replay: Replay, Prepare: srcgen.PrepareC04}) }

const (
	ctlTime  = 1
	ctlAuth  = 2
	ctlLocal = 4
	ctlDeny  = 8

	proxyName = "fwdverif"
	authUser  = "user"
	authPass  = "p:w d"
)

var denyRules = []reqmodel.DomRule{
	{Kind: "s", Lit: ".blocked.test"},
	{Kind: "e", Lit: "exact-deny.test"},
	{Kind: "c", Lit: "evil"},
	{Kind: "e", Lit: "ok.blocked.test", Exclude: true},
	{Kind: "p", Lit: "ok-evil", Exclude: true},
}

// item is one request of a client connection.
type item struct {
	Connect *reqmodel.ConnectReq `json:"connect,omitempty"`
	Req     *reqmodel.Request    `json:"req,omitempty"`
	Label   string               `json:"label,omitempty"` // generator classes (host class / credential variant)
}

// connCase is one client connection.
type connCase struct {
	Kind     string `json:"kind"`      // "conn"
	Mask     int    `json:"mask"`      // enabled controls (ctl* bits)
	TimeOpen bool   `json:"time_open"` // day-granular frames (Frames == ""): they allow "now" (meaningful with ctlTime)
	Mode     string `json:"mode"`      // "direct" | "upstream" | "mitm"
	// Frames: hour-granular frame family laid around the local (or the UTC) wall clock at the time the
	// proxy is started, see frameKinds; "" = the day-granular open/closed frames of TimeOpen
	Frames string `json:"frames,omitempty"`
	// Zone: the process-wide local time zone the proxy runs in ("" = the harness's own, UTC in the
	// sandbox): "tz:<IANA name>" (TZ in the environment of a child process) or "fixed:<seconds east>"
	// (time.Local assigned in a child process before anything starts), see zones.go
	Zone string `json:"zone,omitempty"`
	// Hosts: text of the hosts file the proxy instance is constructed with ("" = the machine's own): the
	// names it gives to loopback addresses are localhost names of that instance, see hostsfile.go
	Hosts string `json:"hosts,omitempty"`
	// HostsState: a hosts file that is no text — "empty" | "missing" | "dir" (opens, cannot be read), see hostsSrc
	HostsState string `json:"hosts_state,omitempty"`
	// Server: the serving path of the instance — "" = martian's connection loop (the default), "handler" = martian as
	// http.Handler under net/http's server (HTTPProxyConfig.TestingHTTPHandler; no interception there)
	Server string `json:"server,omitempty"`
	Items  []item `json:"items"`
}

type dialRec struct{ pre, post string }

// env is one running configuration with its own scripted hops.
type env struct {
	mask     int
	timeOpen bool
	mode     string
	server   string
	frameKind string
	mu       sync.Mutex // one client connection at a time (activity is attributed by counters)
	proxy    *rig.Proxy
	origin   *rig.Peer // catch-all plain origin ("sink")
	tlsOrig  *rig.Peer
	up       *rig.Peer
	cfg      reqmodel.Cfg
	clock    *reqmodel.Clock
	frames   []reqmodel.TimeFrame
	dmu      sync.Mutex
	dials    []dialRec
	names    []string
	hosts    string                // text of the hosts file the instance was constructed with ("" = the machine's)
	hostRecs []reqmodel.HostsRecord // its records, as the harness reads them
	// hostsState: see hostsSrc.State; hostsGen: constructed on a generated hosts file; hostsReject: why the
	// construction had to fail ("" = it had not): the instance exists although the file is rejected, hostRecs are the
	// records of the lines that can be read and names the localhost names a complete reading would have given
	hostsState  string
	hostsGen    bool
	hostsReject string
}

func (e *env) close() {
	if e.proxy != nil {
		e.proxy.Stop()
	}
	for _, p := range []*rig.Peer{e.origin, e.tlsOrig, e.up} {
		if p != nil {
			p.Close()
		}
	}
}

func okResponder(w *rig.PeerConn, ex *rig.Exchange) bool {
	body := "ok"
	b := rig.Head("HTTP/1.1 200 OK", []rig.Field{{Name: "Content-Length", Value: fmt.Sprint(len(body))}})
	if ex.Req.Method != "HEAD" {
		b = append(b, body...)
	}
	w.Write(b)
	return !strings.EqualFold(ex.Req.Get("Connection"), "close")
}

var (
	aliasOnce sync.Once
	aliases   []string
)

// localNames: the seed list of newHTTPProxy plus the hosts-file aliases (lower-cased), as NewHTTPProxy
// composes hp.localhost.
func localNames() []string {
	aliasOnce.Do(func() {
		hostsMu.RLock() // no generated hosts file is installed while the machine's own is read
		defer hostsMu.RUnlock()
		lh, err := hostsfile.LocalhostAliases()
		if err != nil {
			core.Fatalf("cannot read localhost aliases: %v", err)
		}
		for _, a := range lh {
			aliases = append(aliases, strings.ToLower(a))
		}
	})
	return append([]string{"localhost", "0.0.0.0", "::"}, aliases...)
}

// timeFrames yields entries that allow (or do not allow) the current local time robustly: "open" =
// whole days yesterday..tomorrow; "closed" = a whole day three days from now.
func timeFrames(open bool) []reqmodel.TimeFrame {
	wd := int(time.Now().Weekday())
	if open {
		return []reqmodel.TimeFrame{{Weekday: (wd + 6) % 7, HourStart: 0, HourEnd: 24}, {Weekday: wd, HourStart: 0, HourEnd: 24},
			{Weekday: (wd + 1) % 7, HourStart: 0, HourEnd: 24}}
	}
	return []reqmodel.TimeFrame{{Weekday: (wd + 3) % 7, HourStart: 0, HourEnd: 24}, {Weekday: (wd + 4) % 7, HourStart: 9, HourEnd: 17}}
}

func newEnv(ctx *core.Ctx, mask int, timeOpen bool, mode string, frameKind string, hosts string) (*env, error) {
	return newEnvSrc(ctx, mask, timeOpen, mode, frameKind, hostsSrc{Text: hosts}, "")
}

func newEnvSrc(ctx *core.Ctx, mask int, timeOpen bool, mode string, frameKind string, src hostsSrc, server string) (e *env, err error) {
	e = &env{mask: mask, timeOpen: timeOpen, mode: mode, server: server, frameKind: frameKind, names: localNames(), hosts: src.Text, hostsState: src.State, hostsGen: src.generated()}
	if e.hostsGen {
		e.hostsReject, e.hostRecs = src.expect()
		e.names = namesFromHosts(e.hostRecs)
	}
	made := e
	defer func() {
		if err != nil {
			made.close() // (a construction that fails is the expected outcome for part of the generated hosts files)
			e = nil
		}
	}()
	if e.origin, err = rig.NewPeer("origin", okResponder); err != nil {
		return nil, err
	}
	ca, err := rig.NewCA("verif c04 CA")
	if err != nil {
		return nil, err
	}
	leaf, err := ca.ValidLeaf("origin.test")
	if err != nil {
		return nil, err
	}
	if e.tlsOrig, err = rig.NewTLSPeer("tls-origin", &tls.Config{Certificates: []tls.Certificate{leaf}}, okResponder); err != nil {
		return nil, err
	}
	// the scripted upstream proxy never dials onward (it answers CONNECT with 502), so that every
	// accept at a scripted hop corresponds to exactly one dial of the proxy under test
	if e.up, err = rig.NewForwardProxy("upstream", func(string) string { return "" }); err != nil {
		return nil, err
	}
	caFile, err := ca.WriteFile(ctx.Root+"/.work", fmt.Sprintf("c04-ca-%d.pem", time.Now().UnixNano()))
	if err != nil {
		return nil, err
	}
	fc := reqmodel.FullCfg{Base: reqmodel.Cfg{Name: proxyName, TimeAllowed: true, LocalNames: e.names}}
	if mask&ctlAuth != 0 {
		fc.Base.HasAuth, fc.Base.AuthUser, fc.Base.AuthPass = true, authUser, authPass
	}
	if mask&ctlLocal != 0 {
		fc.Base.DenyLocal = true
	}
	if mask&ctlDeny != 0 {
		fc.Base.DenyRules = denyRules
	}
	if mask&ctlTime != 0 {
		if frameKind != "" {
			e.frames = hourFrames(frameKind, time.Now())
		} else {
			e.frames = timeFrames(timeOpen)
		}
		// every entry goes through the flag parser as well (what --allow-time-frame does)
		for _, f := range e.frames {
			repr := fmt.Sprintf("%s/%d-%d", dayNames[f.Weekday], f.HourStart, f.HourEnd)
			pe, err := ruleset.ParseTimeFrameEntry(repr)
			if err != nil || int(pe.Weekday) != f.Weekday || pe.HourStart != f.HourStart || pe.HourEnd != f.HourEnd {
				ctx.Disagree("ParseTimeFrameEntry(weekday/start-end) yields that entry", map[string]any{"kind": "time-frame", "repr": repr},
					fmt.Sprintf("%+v %v", pe, err), fmt.Sprintf("%+v", f))
			}
		}
	}
	switch mode {
	case "upstream":
		fc.Route.Base = "static"
		fc.Route.Static = &reqmodel.ProxyURL{Scheme: "http", Host: "upstream.test:3128"}
		fc.Base.Upstream = "upstream.test:3128"
	case "mitm":
		fc.Base.MITM = true
	}
	opts, err := reqmodel.ProxyOpts(&fc, e.frames, nil, []string{caFile})
	if err != nil {
		return nil, err
	}
	if server == "handler" {
		configure := opts.Configure
		opts.Configure = func(cfg *forwarder.HTTPProxyConfig) {
			configure(cfg)
			cfg.TestingHTTPHandler = true
		}
	}
	inner := opts.Transport
	opts.Transport = func(tc *forwarder.HTTPTransportConfig) {
		inner(tc)
		// every dial the proxy attempts is recorded and lands on a scripted loopback listener
		tc.RedirectFunc = func(network, address string) (string, string) {
			post := e.origin.Addr
			switch address {
			case "upstream.test:3128":
				post = e.up.Addr
			case "origin.test:443":
				post = e.tlsOrig.Addr
			}
			e.dmu.Lock()
			e.dials = append(e.dials, dialRec{address, post})
			e.dmu.Unlock()
			return network, post
		}
	}
	if e.proxy, err = startProxyWithHosts(ctx, opts, src, e.hostRecs, e.hostsReject); err != nil {
		return nil, err
	}
	e.cfg = fc.Base
	e.cfg.Tag = "unknown-tag" // no generated request carries a Via naming this instance
	return e, nil
}

func (e *env) dialCount() int {
	e.dmu.Lock()
	defer e.dmu.Unlock()
	return len(e.dials)
}

func (e *env) dialsFrom(n int) []string {
	e.dmu.Lock()
	defer e.dmu.Unlock()
	var out []string
	for _, d := range e.dials[n:] {
		out = append(out, d.pre)
	}
	return out
}

type counters struct{ accepts, bytes int64 }

func (e *env) counters() counters {
	var c counters
	for _, p := range []*rig.Peer{e.origin, e.tlsOrig, e.up} {
		c.accepts += p.Accepts()
		c.bytes += p.BytesIn()
	}
	return c
}

// quiesce waits until every dial recorded so far has been accepted by its listener and the byte
// counters stopped moving, so that later activity can be attributed to the next request.
func (e *env) quiesce() counters {
	deadline := time.Now().Add(8 * time.Second)
	last := e.counters()
	stable := 0
	for time.Now().Before(deadline) {
		c := e.counters()
		if int(c.accepts) >= e.dialCount() && c == last {
			stable++
			if stable >= 2 {
				return c
			}
		} else {
			stable = 0
		}
		last = c
		time.Sleep(300 * time.Microsecond)
	}
	return e.counters()
}

// ---- the property's own decision, evaluated on the input (independent of the model) ----

type verdict struct {
	refuse bool
	status int
	why    string
}

func decodeBasic(v string) (user, pass string, ok bool) {
	if len(v) < 6 || !strings.EqualFold(v[:6], "Basic ") {
		return
	}
	c, err := base64.StdEncoding.DecodeString(v[6:])
	if err != nil {
		return
	}
	user, pass, ok = strings.Cut(string(c), ":")
	return
}

// specLocalhost: a configured localhost name, or a loopback or unspecified IP literal in any spelling.
func specLocalhost(names []string, host string) (is bool, unspecNonCanon bool) {
	h := strings.ToLower(host)
	for _, n := range names {
		if n == h {
			return true, false
		}
	}
	a, err := netip.ParseAddr(h)
	if err != nil || a.Zone() != "" {
		return false, false
	}
	a = a.Unmap()
	if a.IsLoopback() {
		return true, false
	}
	if a.IsUnspecified() {
		return true, true
	}
	return false, false
}

func specDenied(host string) bool { return reqmodel.MatchSpec(denyRules, host) }

// hostOf: the host name the controls are asked about (URL host without port).
func hostOf(authority string) (string, bool) {
	u, err := url.Parse("http://" + authority)
	if err != nil || u.Host == "" {
		return "", false
	}
	return u.Hostname(), true
}

func (e *env) spec(timeAllowed bool, hostname string, pa []string) (verdict, string) {
	if e.mask&ctlTime != 0 && !timeAllowed {
		return verdict{true, 451, "time-frame"}, ""
	}
	if e.mask&ctlAuth != 0 {
		ok := false
		if len(pa) > 0 && pa[0] != "" {
			if u, p, k := decodeBasic(pa[0]); k && u == authUser && p == authPass {
				ok = true
			}
		}
		if !ok {
			return verdict{true, 407, "auth"}, ""
		}
	}
	if e.mask&ctlLocal != 0 {
		if is, _ := specLocalhost(e.names, hostname); is {
			// (an unspecified-address literal in a non-canonical spelling was the known class F2 until
			// isLocalhost learnt IsUnspecified(): a miss is a plain violation again)
			return verdict{true, 403, "localhost"}, ""
		}
	}
	if e.mask&ctlDeny != 0 && specDenied(hostname) {
		return verdict{true, 403, "denied"}, ""
	}
	return verdict{}, ""
}

// ---- running one connection ----

type oneItem struct {
	Kind     string `json:"kind"` // "one"
	Mask     int    `json:"mask"`
	TimeOpen bool   `json:"time_open"`
	Mode     string `json:"mode"`
	Frames   string `json:"frames,omitempty"`
	Zone     string `json:"zone,omitempty"`
	Hosts    string `json:"hosts,omitempty"`
	HostsState string `json:"hosts_state,omitempty"`
	Server   string `json:"server,omitempty"`
	// informative (a replay lays the frame family around the clock of the replaying run)
	FramesUsed []reqmodel.TimeFrame `json:"frames_used,omitempty"`
	LocalClock string               `json:"local_clock,omitempty"`
	Position int    `json:"position"`
	Inner    bool   `json:"inner,omitempty"` // sent inside the intercepted tunnel
	Prefix   []item `json:"prefix,omitempty"`
	Item     item   `json:"item"`
}

func paValues(fs []rig.Field) []string {
	var out []string
	for _, f := range fs {
		if strings.EqualFold(f.Name, "Proxy-Authorization") {
			out = append(out, f.Value)
		}
	}
	return out
}

func (it *item) authority() (string, bool) {
	if it.Connect != nil {
		return it.Connect.Authority, true
	}
	r := it.Req
	if r.Absolute {
		return r.Authority, true
	}
	for _, f := range r.Fields {
		if strings.EqualFold(f.Name, "Host") {
			return f.Value, true
		}
	}
	return "", false
}

func (it *item) fields() []rig.Field {
	if it.Connect != nil {
		return it.Connect.Fields
	}
	return it.Req.Fields
}

// targetForm: how the request spells its target.
func (it *item) targetForm() string {
	switch {
	case it.Connect != nil:
		return "authority-form"
	case it.Req.Absolute:
		return "absolute-form"
	}
	return "origin-form"
}

func (e *env) serverName() string {
	if e.server == "" {
		return "conn-loop"
	}
	return e.server
}

func (it *item) method() string {
	if it.Connect != nil {
		return "CONNECT"
	}
	return it.Req.Method
}

func (it *item) wire() []byte {
	if it.Connect != nil {
		return it.Connect.Wire()
	}
	return it.Req.Wire()
}

// clockAt: what the model is told about the time — the instant and the local zone's offset; it reads
// the local wall clock itself (Model/C04.lean timeAllowedAt).
func (e *env) clockAt(now time.Time) *reqmodel.Clock {
	if e.mask&ctlTime == 0 {
		return &reqmodel.Clock{HostsFile: e.hostsGen, Hosts: e.hostRecs}
	}
	_, off := now.Zone()
	return &reqmodel.Clock{Entries: e.frames, At: true, Unix: now.Unix(), Offset: off, HostsFile: e.hostsGen, Hosts: e.hostRecs}
}

// specTimeAllowed: the documented meaning of --allow-time-frame evaluated on the local wall clock,
// computed from the instant and the zone offset by integer arithmetic (not by time.Time's accessors,
// not by the model).
func specTimeAllowed(frames []reqmodel.TimeFrame, now time.Time) bool {
	if len(frames) == 0 {
		return true
	}
	wd, hour := wallClock(now)
	for _, f := range frames {
		if f.Weekday == wd && f.HourStart <= hour && hour < f.HourEnd {
			return true
		}
	}
	return false
}

func floorDiv(a, b int64) int64 {
	q := a / b
	if a%b != 0 && (a < 0) != (b < 0) {
		q--
	}
	return q
}

// wallClock: weekday (Sunday = 0) and hour of the instant's wall clock in the zone the value carries.
func wallClock(t time.Time) (weekday, hour int) {
	_, off := t.Zone()
	x := t.Unix() + int64(off)
	day := floorDiv(x, 86400)
	return int(((day+4)%7 + 7) % 7), int((x - day*86400) / 3600)
}

func localHourIndex(t time.Time) int64 {
	_, off := t.Zone()
	return floorDiv(t.Unix()+int64(off), 3600)
}

func (e *env) runConn(ctx *core.Ctx, cc *connCase) {
	e.mu.Lock()
	defer e.mu.Unlock()
	c, err := rig.Dial(e.proxy.Addr)
	if err != nil {
		ctx.Crash("proxy accepts a client connection", "", cc, err.Error())
		return
	}
	defer c.Close()
	secure := false
	for i := range cc.Items {
		it := &cc.Items[i]
		one := oneItem{Kind: "one", Mask: cc.Mask, TimeOpen: cc.TimeOpen, Mode: cc.Mode, Frames: cc.Frames, Zone: cc.Zone, Hosts: cc.Hosts, HostsState: cc.HostsState, Server: cc.Server, Position: i, Inner: secure,
			Prefix: cc.Items[:i], Item: *it}
		before := e.quiesce()
		d0 := e.dialCount()
		mctx := reqmodel.Ctx{ClientIP: "127.0.0.1", Secure: secure}
		now := time.Now()
		clock := e.clockAt(now)
		if e.mask&ctlTime != 0 {
			one.FramesUsed, one.LocalClock = e.frames, now.Format("Mon 2006-01-02 15:04:05 -07:00 MST")
		}

		serr := c.Send(it.wire(), nil)
		var res *rig.Msg
		var rerr error
		if serr == nil {
			res, rerr = c.ReadResponse(it.method(), 10*time.Second)
		}
		if e.server == "handler" && i > 0 && res == nil && e.dialCount() == d0 {
			// net/http's server decides about keep-alive by its own rules (it may have closed the connection after
			// the previous reply without announcing it): the request is sent again on a connection of its own and
			// judged there in full
			ctx.Count("handler/request-resent-on-a-new-connection")
			c.Close()
			if c, err = rig.Dial(e.proxy.Addr); err != nil {
				ctx.Crash("proxy accepts a client connection", "", cc, err.Error())
				return
			}
			defer c.Close()
			now = time.Now()
			clock = e.clockAt(now)
			if serr = c.Send(it.wire(), nil); serr == nil {
				res, rerr = c.ReadResponse(it.method(), 10*time.Second)
			}
		}
		if serr != nil {
			ctx.Crash("client connection stays usable", "", one, "write: "+serr.Error())
			return
		}
		after := e.quiesce()
		dials := e.dialsFrom(d0)
		if e.mask&ctlTime != 0 && localHourIndex(time.Now()) != localHourIndex(now) {
			// the local clock hour changed while the request was in flight: which hour the proxy read is
			// not known, the case is not judged
			ctx.Count("hour-boundary-not-judged")
			return
		}
		timeAllowed := specTimeAllowed(e.frames, now)

		var out reqmodel.Outcome
		if it.Connect != nil {
			out = reqmodel.AskConnectOn(ctx.Model, e.server, &e.cfg, clock, &mctx, it.Connect)
		} else {
			out = reqmodel.AskRequestOn(ctx.Model, e.server, &e.cfg, clock, &mctx, it.Req)
		}
		authority, hasAuthority := it.authority()
		hn, hostOK := hostOf(authority)
		key := fmt.Sprintf("%d|%v|%s|%v|%s", cc.Mask, cc.TimeOpen, cc.Mode, secure, it.wire())
		if cc.Frames != "" || cc.Zone != "" {
			key += "|" + cc.Frames + "|" + cc.Zone
		}
		if cc.Hosts != "" || cc.HostsState != "" {
			key += "|hosts:" + cc.HostsState + ":" + cc.Hosts
		}
		if cc.Server != "" {
			key += "|server:" + cc.Server
		}
		pa := paValues(it.fields())
		sv, class := e.spec(timeAllowed, hn, pa)
		if e.mask&ctlTime != 0 {
			ctx.Count("time-frame/" + map[bool]string{true: "allows-now", false: "outside"}[timeAllowed])
			if cc.Frames != "" {
				ctx.Count("time-frame-family/" + cc.Frames)
			}
			if uw, uh := wallClock(now.UTC()); true {
				lw, lh := wallClock(now)
				if lw != uw {
					ctx.Count("time-frame/local-weekday-differs-from-utc")
				}
				if lh != uh {
					ctx.Count("time-frame/local-hour-differs-from-utc")
				}
			}
		}
		if cc.Zone != "" {
			ctx.Count("zone/" + cc.Zone)
		}
		if cc.Hosts != "" || cc.HostsState != "" {
			e.countHostsCase(ctx, hn)
		}
		nontrivial := e.mask != 0 && (sv.refuse || len(pa) > 0 || it.Connect != nil)
		ctx.Case(key, nontrivial)
		ctx.Count("controls/" + fmt.Sprint(cc.Mask))
		ctx.Count("mode/" + cc.Mode)
		ctx.Count("server/" + e.serverName() + "/" + it.targetForm())
		if sv.refuse && (sv.why == "localhost" || sv.why == "denied") {
			ctx.Count("server/" + e.serverName() + "/" + it.targetForm() + "/effective-target-fails-" + sv.why)
		}
		ctx.Count("method/" + strings.ToUpper(it.method()))
		ctx.Count("position/" + fmt.Sprint(i))
		if secure {
			ctx.Count("inside-mitm")
		}
		for _, l := range strings.Split(it.Label, ",") {
			if l != "" {
				ctx.Count("gen/" + l)
			}
		}
		ctx.Count("model/" + out.Kind)
		if out.Kind == "refused" {
			ctx.Count("model-refusal/" + out.Why)
		}

		impl := summarise(res, rerr, dials, before, after)
		if out.Kind == "unreadable" || !hasAuthority || !hostOK {
			// outside the modelled domain (net/http refuses the request line or the model does not
			// cover the shape): the connection is closed or answered 400; nothing may be dialled
			ctx.Count("out-of-domain")
			if rerr != nil || res == nil || res.Status == 400 {
				return
			}
			continue
		}
		if rerr != nil || res == nil {
			ctx.Disagree("every request is answered", one, impl, out.Kind)
			return
		}

		// --- correspondence with the model ---
		var want []string
		for _, a := range out.Actions {
			want = append(want, a.HopAddr)
		}
		if strings.Join(dials, " ") != strings.Join(want, " ") {
			ctx.Disagree("addresses dialled on behalf of the request = Model actions", one, impl, fmt.Sprintf("%s dials=%v", out.Kind, want))
		} else {
			ctx.TraceValidated()
		}
		switch out.Kind {
		case "refused":
			if res.Status != out.Status {
				ctx.Disagree("refusal status", one, impl, fmt.Sprintf("%d %s", out.Status, out.Why))
			}
			if out.Why != "loop" {
				got := res.FieldMap()
				for _, k := range []string{"proxy-authenticate", "x-forwarder-error"} {
					if strings.Join(got[k], "\x00") != strings.Join(out.ErrRecv[k], "\x00") {
						ctx.Disagree("error response field "+k+" as received = Model errorHeadersReceived", one, impl, fmt.Sprintf("%q", out.ErrRecv[k]))
					}
				}
			}
		case "badreq":
			if res.Status != 400 {
				ctx.Disagree("bad framing is answered 400", one, impl, "400")
			}
		case "srvbadreq":
			if res.Status != 400 {
				ctx.Disagree("net/http's server answers an HTTP/1.1 request without Host field 400 itself", one, impl, "400")
			}
		case "nohost":
			// the request modifiers passed on a URL without host and the transport refuses that URL
			if res.Status != 500 {
				ctx.Disagree("a request whose URL has no host when the round trip starts gets the proxy's own error response", one, impl, "500")
			}
		case "fwd", "tunnel", "mitm":
			if res.Status == 407 || res.Status == 403 || res.Status == 451 {
				ctx.Disagree("request accepted by the model is not refused", one, impl, out.Kind)
			}
			if out.Kind == "mitm" && res.Status != 200 {
				ctx.Disagree("intercepted CONNECT is answered 200", one, impl, "200")
			}
		}

		// --- the property itself, on what was observed ---
		if sv.refuse {
			// The verdict sv is about the EFFECTIVE target (URL host, else Host field). On the handler path the controls
			// are handed the URL of an origin-form request as sent (no host): when a host control is the one that fails,
			// the request is not answered 403 there, it errors out (the proxy's own 4xx/5xx) — demanded in that
			// case: an error response of the proxy and, as everywhere, nothing dialled.
			errorsOut := e.server == "handler" && it.targetForm() == "origin-form" && (sv.why == "localhost" || sv.why == "denied") &&
				res.Status >= 400 && res.Status != sv.status
			if errorsOut {
				ctx.Count("handler/origin-form-target-failing-a-host-control-errors-out/" + fmt.Sprint(res.Status))
			} else if out.Kind == "srvbadreq" && res.Status == 400 {
				// an HTTP/1.1 request without Host field never reaches the proxy's handler: net/http's server answers it
				// 400 itself (the correspondence part above holds it to that); nothing may be dialled, as everywhere
				ctx.Count("handler/answered-400-by-the-http-server-itself")
			} else if res.Status != sv.status {
				ctx.SpecFail("a request failing an enabled control is answered "+fmt.Sprint(sv.status)+" ("+sv.why+")", class, one, impl,
					fmt.Sprintf("status %d", res.Status))
			}
			// Every connection the proxy under test can open to a scripted listener goes through the recording dial
			// function (the targets are names only that function resolves), so the dials of this request decide
			// "no connection is opened"; the listeners' byte counters decide "no byte is sent" over a connection the
			// transport had kept from an earlier request. An ACCEPT that shows up in this window without a dial of
			// this request is not the proxy's doing in this request: it is an earlier dial of this environment whose
			// listener was slow to report it (loaded machine: quiesce gave up waiting), or a stranger - another
			// process on the machine whose late connection hits a port number this environment's listener has
			// meanwhile been given. It is counted and not judged.
			strayAccept := len(dials) == 0 && after.accepts != before.accepts
			if strayAccept {
				if after.bytes == before.bytes && int(after.accepts) <= e.dialCount() {
					ctx.Count("late-accept-attributed-to-an-earlier-dial")
				} else {
					ctx.Count("stray-connection-at-a-scripted-listener-without-a-dial-of-the-proxy")
				}
			} else if len(dials) > 0 || after.accepts != before.accepts || after.bytes != before.bytes {
				ctx.SpecFail("no connection is opened and no byte is sent upstream for a refused request", class, one, impl,
					fmt.Sprintf("dials=%v accepts+%d bytes+%d", dials, after.accepts-before.accepts, after.bytes-before.bytes))
			}
			if sv.status == 407 && res.Status == 407 {
				wantCh := fmt.Sprintf("Basic realm=%q", proxyName)
				if got := res.Values("Proxy-Authenticate"); len(got) != 1 || got[0] != wantCh {
					ctx.SpecFail("a 407 carries Proxy-Authenticate: Basic realm=\"<name>\"", "", one, impl, fmt.Sprintf("Proxy-Authenticate=%q", got))
				}
			}
		} else if out.Kind == "fwd" || out.Kind == "tunnel" || out.Kind == "mitm" {
			if res.Status == 407 || res.Status == 403 || res.Status == 451 {
				ctx.SpecFail("a request passing every enabled control is forwarded", "", one, impl, fmt.Sprintf("status %d", res.Status))
			}
			if out.Kind != "mitm" && len(dials) == 0 {
				ctx.SpecFail("a request passing every enabled control is forwarded", "", one, impl, "no upstream connection was attempted")
			}
		}

		// --- what happens to the connection next ---
		if it.Connect != nil && res.Status == 200 {
			if cc.Mode != "mitm" {
				return // a tunnel now
			}
			if _, err := c.StartTLS("origin.test", nil, true); err != nil {
				ctx.Disagree("intercepted tunnel accepts a TLS handshake", one, impl+" "+err.Error(), "handshake ok")
				return
			}
			secure = true
			continue
		}
		if hasClose(res) {
			return
		}
	}
}

func hasClose(res *rig.Msg) bool {
	for _, v := range res.Values("Connection") {
		if strings.EqualFold(strings.TrimSpace(v), "close") {
			return true
		}
	}
	return false
}

func summarise(res *rig.Msg, err error, dials []string, before, after counters) string {
	var b strings.Builder
	if res != nil {
		fmt.Fprintf(&b, "status=%d", res.Status)
		for _, k := range []string{"Proxy-Authenticate", "X-Forwarder-Error"} {
			if vs := res.Values(k); len(vs) > 0 {
				fmt.Fprintf(&b, " %s=%q", k, vs)
			}
		}
	}
	if err != nil {
		fmt.Fprintf(&b, " client-err=%v", err)
	}
	fmt.Fprintf(&b, " dials=%v accepts+%d bytes+%d", dials, after.accepts-before.accepts, after.bytes-before.bytes)
	return b.String()
}

// ---- environments ----

type envKey struct {
	mask     int
	timeOpen bool
	mode     string
	frames   string
	hosts    string
	hostsState string
	server   string
}

type envSlot struct {
	once sync.Once
	env  *env
	err  error
}

type envPool struct {
	mu   sync.Mutex
	envs map[envKey]*envSlot
	ctx  *core.Ctx
}

func newEnvPool(ctx *core.Ctx) *envPool { return &envPool{envs: map[envKey]*envSlot{}, ctx: ctx} }

func (p *envPool) get(mask int, timeOpen bool, mode string, frames string, hosts string) (*env, error) {
	return p.getSrc(mask, timeOpen, mode, frames, hostsSrc{Text: hosts}, "")
}

func (cc *connCase) hostsSrc() hostsSrc { return hostsSrc{State: cc.HostsState, Text: cc.Hosts} }

func (p *envPool) getSrc(mask int, timeOpen bool, mode string, frames string, src hostsSrc, server string) (*env, error) {
	if mask&ctlTime == 0 {
		timeOpen, frames = true, ""
	}
	if frames != "" {
		timeOpen = true
	}
	k := envKey{mask, timeOpen, mode, frames, src.Text, src.State, server}
	p.mu.Lock()
	sl, ok := p.envs[k]
	if !ok {
		sl = &envSlot{}
		p.envs[k] = sl
	}
	p.mu.Unlock()
	// environments are started outside the pool's lock (several at a time)
	sl.once.Do(func() { sl.env, sl.err = newEnvSrc(p.ctx, mask, timeOpen, mode, frames, src, server) })
	return sl.env, sl.err
}

func (p *envPool) closeAll() {
	p.mu.Lock()
	defer p.mu.Unlock()
	for _, sl := range p.envs {
		if sl.env != nil {
			sl.env.close()
		}
	}
}

func Run(ctx *core.Ctx) {
	ctx.SetRule("keep-alive client connections of 1-4 generated requests (GET/POST/PUT/HEAD/CONNECT; origin-, absolute- and authority-form targets; " +
		"hosts: routed names, deny-list hits and exclusions, localhost names and hosts-file aliases in any case, IPv4/IPv6 loopback and unspecified literals " +
		"in canonical, expanded, compressed and IPv4-mapped spellings, other addresses; with/without port; Proxy-Authorization absent, right, scheme-case " +
		"variants, wrong scheme / other scheme spellings, malformed base64, padding and alphabet variants, and the family of credentials NEAR the configured pair: " +
		"user/password boundary shifted with the same concatenation, prefixes, suffixes, extensions, case variants, swapped, reversed, permuted, doubled colon, " +
		"empty user or password, space-padded, one part right, one byte changed, repeated; near credentials on the first line with the right ones on a second " +
		"line and vice versa) through the real proxy under all 16 combinations of the four controls, directly, through an upstream proxy and inside an " +
		"intercepted tunnel; time frames: whole days open/closed now, and hour-granular families laid around the local and the UTC wall clock (this hour, all but " +
		"this hour, from/until this hour, next/previous hour, other days this hour, the UTC hour, the UTC day, all but the UTC day, random), judged at request " +
		"time on the local wall clock computed from instant + zone offset; the same in child processes whose local time zone is not UTC (TZ=<IANA zone> with " +
		":30/:45 and DST zones, and fixed offsets chosen so that the local weekday differs from the UTC weekday); API level: net.ParseIP / IsLoopback / " +
		"IsUnspecified, url host splitting, ParseTimeFrameEntry + TimeFrameEntry.Match on explicit time.Time values in fixed (-12h..+14h, :30, :45, LMT, odd " +
		"seconds) and IANA zones, BasicAuth.AuthenticatedRequest under many configured pairs (passwords with colons, empty password, equal user and password, " +
		"non-ASCII) with the near family; " +
		"the same connections through proxy instances CONSTRUCTED ON GENERATED HOSTS FILES (the hosts-file library's Location variable is pointed at the file while " +
		"NewHTTPProxy runs): loopback records 127.0.0.1 / 127.x.y.z / ::1 in several spellings with names in mixed case (names that sort before and after " +
		"localhost, 0.0.0.0 and :: in byte order and differently once lower-cased), repeated names and repeated built-in names, lines of 15-40 names, comments, " +
		"records with other addresses (0.0.0.0, 10.x, fe80::1 ...) whose names must not become localhost; targets: every name of the file as spelt, lower, upper and " +
		"mixed case, the built-in names, loopback / unspecified literals, near misses; GET/HEAD/POST/CONNECT, with and without port, localhost denial on and off, " +
		"directly, through an upstream proxy and inside an intercepted tunnel; the model composes the localhost names from the file's records itself (hostsrec=); " +
		"the OUTCOME OF THE CONSTRUCTION on every hosts file: files the decoder rejects (an address without a name, a lone name, a first field that is no address, " +
		"a line of 64 KiB or more, a byte order mark — at the beginning, in the middle, at the end, next to well-formed loopback alias records), a missing file, a " +
		"directory, an empty file, comments only, CRLF and CR-only line ends, no final line feed, a record just below the line limit: NewHTTPProxy must fail exactly " +
		"when the model's all-or-nothing reader does (C04 hostsdecode), an instance that exists although its file is rejected has every loopback alias of the file " +
		"probed (GET/HEAD/CONNECT, several letter cases) and must refuse each; hosts-file texts through model, the harness's reading and the library's Decode; " +
		"non-trivial = some control enabled and (the property refuses the request, or it carries Proxy-Authorization, or it is a CONNECT); API cases: every " +
		"zoned time-frame case, every basic-auth case with a value; distinct = distinct (configuration, zone, frame family, position kind, request bytes)")
	maybeZoneChild(ctx)
	pool := newEnvPool(ctx)
	defer pool.closeAll()
	for _, c := range core.LoadCorpus(ctx.Root, "C04") {
		replayWith(ctx, pool, c)
	}
	apiChecks(ctx)
	nConn := ctx.N(5000, 40000)
	jobs := make(chan *connCase, 64)
	var wg sync.WaitGroup
	for w := 0; w < 12; w++ {
		wg.Add(1)
		go func() {
			defer wg.Done()
			for cc := range jobs {
				e, err := pool.getSrc(cc.Mask, cc.TimeOpen, cc.Mode, cc.Frames, cc.hostsSrc(), cc.Server)
				if err == errHostsRejected {
					ctx.Count("hosts-file/connection-not-run-construction-fails-as-modelled")
					continue
				}
				if err != nil {
					ctx.Crash("proxy starts with a valid configuration", "", cc, err.Error())
					continue
				}
				e.runConn(ctx, cc)
			}
		}()
	}
	for i := 0; i < nConn; i++ {
		r := ctx.Rng.Sub()
		cc := genConn(r, localNames())
		if i < 3 {
			ctx.Sample(cc)
		}
		jobs <- cc
	}
	// every target form x host class x serving path x route, the host controls deciding
	for i, cc := range targetMatrix(ctx.Rng.Sub(), localNames()) {
		if i == 0 {
			ctx.Sample(cc)
		}
		jobs <- cc
	}
	// the same with proxy instances constructed on generated hosts files
	hostsFiles := genHostsFiles(ctx)
	for i, n := 0, ctx.N(1500, 12000); i < n; i++ {
		r := ctx.Rng.Sub()
		cc := genHostsConn(r, hostsFiles[i%len(hostsFiles)])
		if i == 0 {
			ctx.Sample(cc)
		}
		jobs <- cc
	}
	// the outcome of the construction on every hosts file of this run; the aliases of an instance that exists
	// although its hosts file is rejected are probed
	for _, hf := range hostsFiles {
		for _, cc := range hostsConstructCases(ctx, hf) {
			jobs <- cc
		}
	}
	close(jobs)
	wg.Wait()
	hostsAPI(ctx, hostsFiles)
	hostsDecodeAPI(ctx, hostsFiles)
	runZones(ctx)
	var ks []string
	for k := range pool.envs {
		ks = append(ks, fmt.Sprintf("%d/%v/%s/%s", k.mask, k.timeOpen, k.mode, k.server))
	}
	sort.Strings(ks)
	ctx.Extra("configurations_run", len(ks))
	ctx.Extra("hosts_files_run", len(hostsFiles))
}

func replayWith(ctx *core.Ctx, pool *envPool, raw json.RawMessage) {
	var k struct {
		Kind string `json:"kind"`
	}
	json.Unmarshal(raw, &k)
	var cc connCase
	switch k.Kind {
	case "ip-literal", "host-split", "time-frame", "time-frame-zoned", "basic-auth":
		// API-level cases are regenerated from the seed; a recorded one is re-evaluated by value
		replayAPI(ctx, k.Kind, raw)
		return
	case "hostsfile":
		// what hostsfile.LocalhostAliases reads from a generated hosts file: compared when an instance is constructed on it
		var h struct {
			Hosts      string `json:"hosts"`
			HostsState string `json:"hosts_state"`
		}
		json.Unmarshal(raw, &h)
		e, err := newEnvSrc(ctx, ctlLocal, true, "direct", "", hostsSrc{State: h.HostsState, Text: h.Hosts}, "")
		if err != nil && err != errHostsRejected {
			ctx.Crash("proxy starts with a valid configuration", "", h, err.Error())
		}
		if e != nil {
			e.close()
		}
		return
	case "hosts-decode":
		var h struct {
			Hosts      string `json:"hosts"`
			HostsState string `json:"hosts_state"`
		}
		json.Unmarshal(raw, &h)
		hostsDecodeCase(ctx, hostsSrc{State: h.HostsState, Text: h.Hosts}, "replay")
		return
	case "one":
		var o oneItem
		if err := json.Unmarshal(raw, &o); err != nil {
			core.Fatalf("bad C04 case: %v", err)
		}
		cc = connCase{Kind: "conn", Mask: o.Mask, TimeOpen: o.TimeOpen, Mode: o.Mode, Frames: o.Frames, Zone: o.Zone, Hosts: o.Hosts, HostsState: o.HostsState, Server: o.Server, Items: append(append([]item{}, o.Prefix...), o.Item)}
	default:
		if err := json.Unmarshal(raw, &cc); err != nil {
			core.Fatalf("bad C04 case: %v", err)
		}
	}
	if cc.Zone != currentZone {
		// the case belongs to a process whose local time zone is cc.Zone
		runZoneChild(ctx, zoneJob{Zone: cc.Zone, Cases: []connCase{cc}})
		return
	}
	e, err := pool.getSrc(cc.Mask, cc.TimeOpen, cc.Mode, cc.Frames, cc.hostsSrc(), cc.Server)
	if err == errHostsRejected {
		return
	}
	if err != nil {
		ctx.Crash("proxy starts with a valid configuration", "", cc, err.Error())
		return
	}
	e.runConn(ctx, &cc)
}

func Replay(ctx *core.Ctx, raw json.RawMessage) {
	maybeZoneChild(ctx)
	pool := newEnvPool(ctx)
	defer pool.closeAll()
	replayWith(ctx, pool, raw)
}
