package c04

// The localhost names of a proxy instance are the three built-in ones plus whatever the machine's hosts
// file gives to loopback addresses (NewHTTPProxy → hostsfile.LocalhostAliases, which opens the file
// github.com/kevinburke/hostsfile/lib.Location names). The sandbox's own file has three lower-case names,
// so part of the scenario constructs its proxy instances on GENERATED hosts files (reqmodel.GenHosts):
// Location is a package variable, it is pointed at the generated file for the duration of NewHTTPProxy
// (all constructions of this process are serialised by hostsMu; the file is only read there). The names
// the harness expects are read from the text by the harness's own reader, lower-cased; the model is given
// the records and composes the list itself (`hostsrec=`, Model/C04.lean hpLocalhost).

import (
	"fmt"
	"os"
	"path/filepath"
	"sort"
	"strings"
	"sync"
	"time"

	hflib "github.com/kevinburke/hostsfile/lib"
	"github.com/saucelabs/forwarder/hostsfile"
	"github.com/saucelabs/forwarder/verifharness/core"
	"github.com/saucelabs/forwarder/verifharness/reqmodel"
	"github.com/saucelabs/forwarder/verifharness/rig"
)

// hostsMu serialises everything that reads or redirects hflib.Location.
var hostsMu sync.RWMutex

var hostsSeq int

// namesFromHosts: hp.localhost as the property expects it for an instance constructed on this hosts file.
func namesFromHosts(recs []reqmodel.HostsRecord) []string {
	loop, _ := reqmodel.LoopbackNames(recs)
	out := []string{"localhost", "0.0.0.0", "::"}
	for _, a := range loop {
		out = append(out, strings.ToLower(a))
	}
	return out
}

// startProxyWithHosts starts the proxy while hosts ("" = the machine's own file) is the hosts file; for a
// generated file it also compares what hostsfile.LocalhostAliases reads with the harness's own reading.
func startProxyWithHosts(ctx *core.Ctx, opts rig.ProxyOpts, hosts string, recs []reqmodel.HostsRecord) (*rig.Proxy, error) {
	if hosts == "" {
		// constructions on the machine's own file run side by side; none runs while a generated file is installed
		hostsMu.RLock()
		defer hostsMu.RUnlock()
		return rig.StartProxy(opts)
	}
	hostsMu.Lock()
	defer hostsMu.Unlock()
	hostsSeq++
	dir := filepath.Join(ctx.Root, ".work")
	os.MkdirAll(dir, 0o755)
	path := filepath.Join(dir, fmt.Sprintf("c04-hosts-%d-%d-%d", os.Getpid(), time.Now().UnixNano(), hostsSeq))
	if err := os.WriteFile(path, []byte(hosts), 0o644); err != nil {
		core.Fatalf("cannot write hosts file: %v", err)
	}
	defer os.Remove(path)
	saved := hflib.Location
	hflib.Location = path
	defer func() { hflib.Location = saved }()
	got, err := hostsfile.LocalhostAliases()
	want, _ := reqmodel.LoopbackNames(recs)
	cs := map[string]any{"kind": "hostsfile", "hosts": hosts}
	if err != nil {
		ctx.Disagree("hostsfile.LocalhostAliases reads a well-formed hosts file", cs, err.Error(), fmt.Sprint(want))
	} else {
		g, w := append([]string{}, got...), append([]string{}, want...)
		sort.Strings(g)
		sort.Strings(w)
		if strings.Join(g, "\x00") != strings.Join(w, "\x00") {
			ctx.Disagree("hostsfile.LocalhostAliases = names the hosts file gives to loopback addresses (as a set)", cs, fmt.Sprintf("%q", g), fmt.Sprintf("%q", w))
		} else {
			ctx.TraceValidated()
		}
	}
	return rig.StartProxy(opts)
}

// hostsFile is one generated hosts file with what the generator draws targets from.
type hostsFile struct {
	text  string
	recs  []reqmodel.HostsRecord
	loop  []string // names of loopback records, as spelt
	other []string // names only other records carry
	// mode: every instance constructed on this file runs in one mode (constructions on generated files are
	// serialised, so their number is kept small)
	mode string
}

func newHostsFile(text string) *hostsFile {
	hf := &hostsFile{text: text, recs: reqmodel.ParseHosts(text)}
	hf.loop, hf.other = reqmodel.LoopbackNames(hf.recs)
	return hf
}

// genHostsFiles draws the hosts files of this run; the first ones are fixed shapes: the hosts file of the
// project's own test data, a file without any loopback record, one whose only alias is a capitalised name.
func genHostsFiles(ctx *core.Ctx) []*hostsFile {
	texts := []string{
		"127.0.0.1\tlocalhost\n255.255.255.255\tbroadcasthost\n::1             localhost\n127.0.0.1 kubernetes.docker.internal\n127.0.0.1 SL-666\n",
		"10.0.0.5 build-host Build-Host.lan\n0.0.0.0 ads.example\n",
		"127.0.1.1 Zed\n",
	}
	r := ctx.Rng.Sub()
	for i, n := 0, ctx.N(14, 90); i < n; i++ {
		texts = append(texts, reqmodel.GenHosts(r.Sub()))
	}
	var out []*hostsFile
	for i, t := range texts {
		hf := newHostsFile(t)
		hf.mode = []string{"direct", "upstream", "direct", "mitm", "direct", "upstream"}[i%6]
		out = append(out, hf)
	}
	return out
}

func spellings(r *core.Rand, s string) string {
	switch r.Intn(5) {
	case 0:
		return strings.ToLower(s)
	case 1:
		return strings.ToUpper(s)
	case 2:
		return randCase(r, s)
	}
	return s
}

// genHost draws a target host for an instance constructed on hf.
func (hf *hostsFile) genHost(r *core.Rand) (string, string) {
	switch k := r.Intn(12); {
	case k < 5 && len(hf.loop) > 0:
		return spellings(r, core.Pick(r, hf.loop)), "host-hostsfile-loopback-name"
	case k < 7 && len(hf.other) > 0:
		return spellings(r, core.Pick(r, hf.other)), "host-hostsfile-other-name"
	case k < 10:
		h := spellings(r, core.Pick(r, []string{"localhost", "localhost", "localhost", "0.0.0.0", "[::]"}))
		return h, "host-builtin-name"
	case k < 11:
		return core.Pick(r, append(append([]string{}, loopbackLiterals...), unspecNonCanonical...)), "host-loopback-or-unspecified-literal"
	}
	// near misses of the file's names
	base := "localhost"
	if len(hf.loop) > 0 && r.Bool() {
		base = core.Pick(r, hf.loop)
	}
	return core.Pick(r, []string{base + "x", "x" + base, base + ".example", base[:len(base)-1] + "_"}), "host-hostsfile-near-miss"
}

// genHostsConn: a connection for an instance constructed on hf. The localhost control is on in most cases
// (alone in many, so that its verdict is what the client sees), never the time frame.
func genHostsConn(r *core.Rand, hf *hostsFile) *connCase {
	names := append([]string{"localhost", "0.0.0.0", "::"}, hf.loop...)
	cc := genConnWith(r, names, hf)
	cc.Hosts = hf.text
	cc.Frames, cc.TimeOpen = "", true
	cc.Mask = core.Pick(r, []int{ctlLocal, ctlLocal, ctlLocal, ctlLocal | ctlDeny, ctlLocal | ctlAuth, 0})
	if cc.Mask&ctlAuth != 0 {
		// the credentials are right, so that the localhost control decides
		for i := range cc.Items {
			it := &cc.Items[i]
			if len(paValues(it.fields())) > 0 {
				continue
			}
			if it.Connect != nil {
				it.Connect.Fields = append(it.Connect.Fields, rightAuthField())
			} else {
				it.Req.Fields = append(it.Req.Fields, rightAuthField())
			}
		}
	}
	return cc
}

func (e *env) countHostsCase(ctx *core.Ctx, hn string) {
	ctx.Count("hosts-file/requests")
	lower := strings.ToLower(hn)
	for _, n := range e.names[3:] {
		if n == lower {
			ctx.Count("hosts-file/target-is-alias")
			if lower != hn {
				ctx.Count("hosts-file/target-is-alias-in-another-case")
			}
			break
		}
	}
	if lower == "localhost" {
		ctx.Count("hosts-file/target-is-localhost")
	}
	// would the names still be in byte order had they been sorted as the file spells them and lower-cased afterwards?
	asSpelt := append([]string{"localhost", "0.0.0.0", "::"}, func() []string { l, _ := reqmodel.LoopbackNames(e.hostRecs); return l }()...)
	sort.Strings(asSpelt)
	for i := range asSpelt {
		asSpelt[i] = strings.ToLower(asSpelt[i])
	}
	if !sort.StringsAreSorted(asSpelt) {
		ctx.Count("hosts-file/lower-casing-changes-the-byte-order-of-the-names")
	}
}

// hostsAPI: the model's composition of the localhost names from a hosts file (`C04 localhostof`: the alias
// list and the classifier of an instance constructed on it) against the harness's own reading, for every
// name of the file in several spellings, near misses and literals.
func hostsAPI(ctx *core.Ctx, files []*hostsFile) {
	r := ctx.Rng.Sub()
	for _, hf := range files {
		tok := reqmodel.HostsRecordsToken(hf.recs)
		names := namesFromHosts(hf.recs)
		var hosts []string
		for _, n := range append(append([]string{}, hf.loop...), hf.other...) {
			hosts = append(hosts, n, strings.ToLower(n), strings.ToUpper(n), randCase(r, n), n+"x")
		}
		hosts = append(hosts, "localhost", "LOCALHOST", "LocalHost", "0.0.0.0", "::", "127.0.0.1", "::1", "127.9.9.9", "10.0.0.5", "localhostx", "")
		for _, h := range hosts {
			ans := ctx.Model.MustAsk("C04", "localhostof", tok, core.HexS(h))
			f := strings.Fields(ans)
			if len(f) != 2 || !strings.HasPrefix(f[0], "aliases=") || !strings.HasPrefix(f[1], "local=") {
				core.Fatalf("unparsable localhostof answer %q", ans)
			}
			mAliases := core.UnHexList(strings.TrimPrefix(f[0], "aliases="))
			mSet := map[string]bool{}
			for _, a := range mAliases {
				mSet[a] = true
			}
			same := len(mSet) == len(hf.loop)
			for _, a := range hf.loop {
				if !mSet[a] {
					same = false
				}
			}
			is, _ := specLocalhost(names, h)
			// (model against the harness's oracle: a difference is a fault of the check, not of the proxy)
			if !same {
				core.Fatalf("hosts file %q: Model localhostAliases %q, the harness reads %q", hf.text, mAliases, hf.loop)
			}
			if (f[1] == "local=1") != is {
				core.Fatalf("hosts file %q, host %q: Model isLocalhostOf %s, the harness's reading %v", hf.text, h, f[1], is)
			}
			ctx.Count("api/hostsfile-name-model-vs-oracle")
		}
	}
}
