package c04

// The localhost names of a proxy instance are the three built-in ones plus whatever the machine's hosts
// file gives to loopback addresses (NewHTTPProxy → hostsfile.LocalhostAliases, which opens the file
// github.com/kevinburke/hostsfile/lib.Location names). The sandbox's own file has three lower-case names,
// so part of the scenario constructs its proxy instances on GENERATED hosts files (reqmodel.GenHosts):
// Location is a package variable, it is pointed at the generated file for the duration of NewHTTPProxy
// (all constructions of this process are serialised by hostsMu; the file is only read there). The names
// the harness expects are read from the text by the harness's own reader, lower-cased; the model is given
// the records and composes the list itself (`hostsrec=`, Model/C04.lean hpLocalhost).
//
// CONSTRUCTION OUTCOME. The library that decodes the file is all or nothing: on the first line it cannot read
// (fewer than two fields, a first field that is no address, a line of 64 KiB or more) it returns an empty file
// and the error, wherever the line is, and NewHTTPProxy fails with it (Model/C04.lean hpLocalhostOf: Except).
// So part of the generated files are ones the decoder REJECTS (reqmodel.GenHostsMalformed: such a line at the
// beginning / in the middle / at the end, next to well-formed loopback alias records), files that are missing or
// cannot be read (a directory), and other forms of a well-formed file (empty, only comments, CRLF, CR only, no
// final line feed, a record just below the line limit). For each the outcome of the construction is compared
// with the model's (`C04 hostsdecode`) and with the harness's own reading (reqmodel.ReadHostsStrict). When the
// implementation constructs an instance although the file is rejected, the instance is kept and JUDGED: every
// name the line-by-line reading of the file (reqmodel.ReadHostsLoose: what the machine's resolver makes of it)
// gives to a loopback address must still be refused with localhost denial on — each is probed (GET, HEAD,
// CONNECT; as spelt, lower, upper case), and a probe that is forwarded is a violation of the property with the
// hosts file and the request as the failing input.

import (
	"fmt"
	"net/netip"
	"os"
	"path/filepath"
	"sort"
	"strings"
	"sync"
	"time"

	hflib "github.com/kevinburke/hostsfile/lib"
	"github.com/saucelabs/forwarder/hostsfile"
	"github.com/saucelabs/forwarder/verifharness/core"
	"github.com/saucelabs/forwarder/verifharness/reqmodel"
	"github.com/saucelabs/forwarder/verifharness/rig"
)

// hostsSrc says where the hosts file of an instance comes from.
type hostsSrc struct {
	// State: "" = a file with Text (Text == "": the machine's own file) | "empty" = an empty file |
	// "missing" = no such file | "dir" = a directory (opens, cannot be read)
	State string
	Text  string
}

func (s hostsSrc) generated() bool { return s.State != "" || s.Text != "" }

// modelToken: the source as `C04 hostsdecode` takes it.
func (s hostsSrc) modelToken() string {
	switch s.State {
	case "missing":
		return "missing"
	case "dir":
		return "unreadable"
	case "empty":
		return core.HexS("")
	}
	return core.HexS(s.Text)
}

// expect: the harness's own reading of the source — the reason the construction must fail ("" = it succeeds)
// and the records: all of them for a file that is read, those of the lines that can be read for a rejected one.
func (s hostsSrc) expect() (reject string, recs []reqmodel.HostsRecord) {
	switch s.State {
	case "missing":
		return "open", nil
	case "dir":
		return "read", nil
	case "empty":
		return "", nil
	}
	if _, kind := reqmodel.ReadHostsStrict(s.Text); kind != "" {
		return kind, reqmodel.ReadHostsLoose(s.Text)
	}
	return "", reqmodel.ParseHosts(s.Text)
}

// errHostsRejected: the construction failed on a hosts file that must be rejected (model and implementation agree).
var errHostsRejected = fmt.Errorf("hosts file rejected, as modelled")

// errKindOf: the reason hostsfile.LocalhostAliases gives, as the model names it ("other" when it is none of them).
func errKindOf(err error) string {
	m := err.Error()
	switch {
	case strings.Contains(m, "token too long"):
		return "too-long"
	case strings.Contains(m, "invalid hostsfile entry"):
		return "entry"
	case strings.Contains(m, "no such file"):
		return "open"
	case strings.Contains(m, "is a directory"):
		return "read"
	case strings.Contains(m, "lookup ") || strings.Contains(m, "no such host"):
		return "address"
	}
	return "other"
}

// hostsMu serialises everything that reads or redirects hflib.Location.
var hostsMu sync.RWMutex

var hostsSeq int

// namesFromHosts: hp.localhost as the property expects it for an instance constructed on this hosts file.
func namesFromHosts(recs []reqmodel.HostsRecord) []string {
	loop, _ := reqmodel.LoopbackNames(recs)
	out := []string{"localhost", "0.0.0.0", "::"}
	for _, a := range loop {
		out = append(out, strings.ToLower(a))
	}
	return out
}

// startProxyWithHosts starts the proxy while src is the hosts file; for a generated file it also compares what
// hostsfile.LocalhostAliases reads with the harness's own reading, and the outcome of the construction with the
// expected one (reject != "": NewHTTPProxy must fail). errHostsRejected = it failed as expected; an instance that
// exists although the file is rejected is reported and returned (the caller probes it).
func startProxyWithHosts(ctx *core.Ctx, opts rig.ProxyOpts, src hostsSrc, recs []reqmodel.HostsRecord, reject string) (*rig.Proxy, error) {
	if !src.generated() {
		// constructions on the machine's own file run side by side; none runs while a generated file is installed
		hostsMu.RLock()
		defer hostsMu.RUnlock()
		return rig.StartProxy(opts)
	}
	hostsMu.Lock()
	defer hostsMu.Unlock()
	hostsSeq++
	dir := filepath.Join(ctx.Root, ".work")
	os.MkdirAll(dir, 0o755)
	path := filepath.Join(dir, fmt.Sprintf("c04-hosts-%d-%d-%d", os.Getpid(), time.Now().UnixNano(), hostsSeq))
	switch src.State {
	case "missing":
	case "dir":
		if err := os.Mkdir(path, 0o755); err != nil {
			core.Fatalf("cannot make the directory that stands for the hosts file: %v", err)
		}
	default:
		if err := os.WriteFile(path, []byte(src.Text), 0o644); err != nil {
			core.Fatalf("cannot write hosts file: %v", err)
		}
	}
	defer os.Remove(path)
	saved := hflib.Location
	hflib.Location = path
	defer func() { hflib.Location = saved }()
	got, err := hostsfile.LocalhostAliases()
	want, _ := reqmodel.LoopbackNames(recs)
	cs := map[string]any{"kind": "hostsfile", "hosts": src.Text}
	if src.State != "" {
		cs["hosts_state"] = src.State
	}
	switch {
	case reject != "" && err == nil:
		ctx.Disagree("hostsfile.LocalhostAliases fails on a hosts file that cannot be read completely (Model hpLocalhostOf = error)", cs,
			fmt.Sprintf("no error, aliases %q", got), "error: "+reject)
	case reject != "":
		ctx.Count("hosts-file/localhost-aliases-error/" + errKindOf(err))
		if k := errKindOf(err); k != reject {
			ctx.Disagree("the reason hostsfile.LocalhostAliases fails = Model hpLocalhostOf's error", cs, k+": "+err.Error(), reject)
		} else {
			ctx.TraceValidated()
		}
	case err != nil:
		ctx.Disagree("hostsfile.LocalhostAliases reads a well-formed hosts file", cs, err.Error(), fmt.Sprint(want))
	default:
		g, w := append([]string{}, got...), append([]string{}, want...)
		sort.Strings(g)
		sort.Strings(w)
		if strings.Join(g, "\x00") != strings.Join(w, "\x00") {
			ctx.Disagree("hostsfile.LocalhostAliases = names the hosts file gives to loopback addresses (as a set)", cs, fmt.Sprintf("%q", g), fmt.Sprintf("%q", w))
		} else {
			ctx.TraceValidated()
		}
	}
	p, err := rig.StartProxy(opts)
	if reject == "" {
		return p, err
	}
	if err != nil {
		ctx.Count("hosts-file/construction-fails-as-modelled")
		ctx.TraceValidated()
		return nil, errHostsRejected
	}
	ctx.Count("hosts-file/CONSTRUCTED-ALTHOUGH-REJECTED")
	ctx.Disagree("NewHTTPProxy fails on a hosts file that cannot be read completely (Model hpLocalhostOf = error)", cs,
		"an instance was constructed", "construction fails: "+reject)
	return p, nil
}

// hostsFile is one generated hosts file with what the generator draws targets from.
type hostsFile struct {
	text  string
	recs  []reqmodel.HostsRecord
	loop  []string // names of loopback records, as spelt
	other []string // names only other records carry
	// mode: every instance constructed on this file runs in one mode (constructions on generated files are
	// serialised, so their number is kept small)
	mode string
	// state: see hostsSrc.State; reject: why the construction must fail ("" = it succeeds; then recs are the records
	// of the lines that can be read); form / where / classes: what the generator made (for the histogram)
	state   string
	reject  string
	form    string
	where   string
	classes []string
}

func (hf *hostsFile) src() hostsSrc { return hostsSrc{State: hf.state, Text: hf.text} }

func newHostsFile(text string) *hostsFile { return newHostsFileSrc(hostsSrc{Text: text}) }

func newHostsFileSrc(src hostsSrc) *hostsFile {
	hf := &hostsFile{text: src.Text, state: src.State}
	hf.reject, hf.recs = src.expect()
	hf.loop, hf.other = reqmodel.LoopbackNames(hf.recs)
	return hf
}

// genHostsFiles draws the hosts files of this run; the first ones are fixed shapes: the hosts file of the
// project's own test data, a file without any loopback record, one whose only alias is a capitalised name.
func genHostsFiles(ctx *core.Ctx) []*hostsFile {
	texts := []string{
		"127.0.0.1\tlocalhost\n255.255.255.255\tbroadcasthost\n::1             localhost\n127.0.0.1 kubernetes.docker.internal\n127.0.0.1 SL-666\n",
		"10.0.0.5 build-host Build-Host.lan\n0.0.0.0 ads.example\n",
		"127.0.1.1 Zed\n",
	}
	r := ctx.Rng.Sub()
	for i, n := 0, ctx.N(14, 90); i < n; i++ {
		texts = append(texts, reqmodel.GenHosts(r.Sub()))
	}
	var out []*hostsFile
	for i, t := range texts {
		hf := newHostsFile(t)
		hf.mode = []string{"direct", "upstream", "direct", "mitm", "direct", "upstream"}[i%6]
		out = append(out, hf)
	}
	// other forms of a well-formed file, and the sources that are no text
	add := func(hf *hostsFile, form string) {
		hf.form = form
		hf.mode = []string{"direct", "upstream", "direct", "mitm"}[len(out)%4]
		out = append(out, hf)
	}
	add(newHostsFileSrc(hostsSrc{State: "empty"}), "empty")
	add(newHostsFileSrc(hostsSrc{State: "missing"}), "missing")
	add(newHostsFileSrc(hostsSrc{State: "dir"}), "unreadable")
	add(newHostsFile("# Host Database\r\n#\r\n127.0.0.1\tlocalhost\r\n127.0.1.1\tDevBox devbox.lan\r\n::1\tip6-localhost ip6-loopback\r\n"), "crlf")
	for i, n := 0, ctx.N(5, 30); i < n; i++ {
		t, form := reqmodel.GenHostsForm(r.Sub())
		for form == "hash-inside-a-name" {
			// (a name with a '#' inside is no request target the pipeline model covers: such files go through hostsDecodeAPI only)
			t, form = reqmodel.GenHostsForm(r.Sub())
		}
		add(newHostsFile(t), form)
	}
	// files the decoder rejects: the line it cannot read at the beginning, in the middle, at the end, next to
	// well-formed loopback alias records
	for _, t := range []string{
		"127.0.0.1\n127.0.1.1 devbox\n::1 ip6-localhost ip6-loopback\n",
		"127.0.0.1 localhost\n127.0.1.1 devbox\n10.8.0.1\n::1 ip6-localhost ip6-loopback\n",
		"127.0.0.1 localhost registry.local kubernetes.docker.internal\n127.0.1.1 DevBox\n::1 ip6-localhost\n127.0.0.1",
		"\xef\xbb\xbf127.0.0.1 localhost\n127.0.1.1 devbox\n",
		"127.0.1.1 devbox\n127.0.0.1:80 web.local\n",
	} {
		hf := newHostsFile(t)
		add(hf, "rejected")
	}
	for i, n := 0, ctx.N(12, 80); i < n; i++ {
		t, classes, where := reqmodel.GenHostsMalformed(r.Sub())
		hf := newHostsFile(t)
		hf.classes, hf.where = classes, where
		add(hf, "rejected")
	}
	for _, hf := range out {
		if hf.form == "rejected" && hf.reject == "" {
			core.Fatalf("generated hosts file %q is not rejected by the harness's reading", hf.text)
		}
		if hf.form != "rejected" && hf.state == "" && hf.reject != "" {
			// a file meant to be well-formed came out unreadable (a drawn line of names beyond the scanner's
			// 64 KiB limit): it is a rejected file like the others
			hf.form = "rejected"
		}
	}
	return out
}

func spellings(r *core.Rand, s string) string {
	switch r.Intn(5) {
	case 0:
		return strings.ToLower(s)
	case 1:
		return strings.ToUpper(s)
	case 2:
		return randCase(r, s)
	}
	return s
}

// genHost draws a target host for an instance constructed on hf.
func (hf *hostsFile) genHost(r *core.Rand) (string, string) {
	switch k := r.Intn(12); {
	case k < 5 && len(hf.loop) > 0:
		return spellings(r, core.Pick(r, hf.loop)), "host-hostsfile-loopback-name"
	case k < 7 && len(hf.other) > 0:
		return spellings(r, core.Pick(r, hf.other)), "host-hostsfile-other-name"
	case k < 10:
		h := spellings(r, core.Pick(r, []string{"localhost", "localhost", "localhost", "0.0.0.0", "[::]"}))
		return h, "host-builtin-name"
	case k < 11:
		return core.Pick(r, append(append([]string{}, loopbackLiterals...), unspecNonCanonical...)), "host-loopback-or-unspecified-literal"
	}
	// near misses of the file's names
	base := "localhost"
	if len(hf.loop) > 0 && r.Bool() {
		base = core.Pick(r, hf.loop)
	}
	return core.Pick(r, []string{base + "x", "x" + base, base + ".example", base[:len(base)-1] + "_"}), "host-hostsfile-near-miss"
}

// genHostsConn: a connection for an instance constructed on hf. The localhost control is on in most cases
// (alone in many, so that its verdict is what the client sees), never the time frame.
func genHostsConn(r *core.Rand, hf *hostsFile) *connCase {
	names := append([]string{"localhost", "0.0.0.0", "::"}, hf.loop...)
	cc := genConnWith(r, names, hf)
	cc.Hosts, cc.HostsState = hf.text, hf.state
	cc.Frames, cc.TimeOpen = "", true
	cc.Mask = core.Pick(r, []int{ctlLocal, ctlLocal, ctlLocal, ctlLocal | ctlDeny, ctlLocal | ctlAuth, 0})
	if cc.Mask&ctlAuth != 0 {
		// the credentials are right, so that the localhost control decides
		for i := range cc.Items {
			it := &cc.Items[i]
			if len(paValues(it.fields())) > 0 {
				continue
			}
			if it.Connect != nil {
				it.Connect.Fields = append(it.Connect.Fields, rightAuthField())
			} else {
				it.Req.Fields = append(it.Req.Fields, rightAuthField())
			}
		}
	}
	return cc
}

func (e *env) countHostsCase(ctx *core.Ctx, hn string) {
	ctx.Count("hosts-file/requests")
	lower := strings.ToLower(hn)
	for _, n := range e.names[3:] {
		if n == lower {
			ctx.Count("hosts-file/target-is-alias")
			if lower != hn {
				ctx.Count("hosts-file/target-is-alias-in-another-case")
			}
			break
		}
	}
	if lower == "localhost" {
		ctx.Count("hosts-file/target-is-localhost")
	}
	// would the names still be in byte order had they been sorted as the file spells them and lower-cased afterwards?
	asSpelt := append([]string{"localhost", "0.0.0.0", "::"}, func() []string { l, _ := reqmodel.LoopbackNames(e.hostRecs); return l }()...)
	sort.Strings(asSpelt)
	for i := range asSpelt {
		asSpelt[i] = strings.ToLower(asSpelt[i])
	}
	if !sort.StringsAreSorted(asSpelt) {
		ctx.Count("hosts-file/lower-casing-changes-the-byte-order-of-the-names")
	}
}

// hostsAPI: the model's composition of the localhost names from a hosts file (`C04 localhostof`: the alias
// list and the classifier of an instance constructed on it) against the harness's own reading, for every
// name of the file in several spellings, near misses and literals.
func hostsAPI(ctx *core.Ctx, files []*hostsFile) {
	r := ctx.Rng.Sub()
	for _, hf := range files {
		tok := reqmodel.HostsRecordsToken(hf.recs)
		names := namesFromHosts(hf.recs)
		var hosts []string
		all := append(append([]string{}, hf.loop...), hf.other...)
		if len(all) > 40 {
			// (a record just below the line limit has thousands of names)
			core.Shuffle(r, all)
			all = all[:40]
		}
		for _, n := range all {
			hosts = append(hosts, n, strings.ToLower(n), strings.ToUpper(n), randCase(r, n), n+"x")
		}
		hosts = append(hosts, "localhost", "LOCALHOST", "LocalHost", "0.0.0.0", "::", "127.0.0.1", "::1", "127.9.9.9", "10.0.0.5", "localhostx", "")
		for _, h := range hosts {
			ans := ctx.Model.MustAsk("C04", "localhostof", tok, core.HexS(h))
			f := strings.Fields(ans)
			if len(f) != 2 || !strings.HasPrefix(f[0], "aliases=") || !strings.HasPrefix(f[1], "local=") {
				core.Fatalf("unparsable localhostof answer %q", ans)
			}
			mAliases := core.UnHexList(strings.TrimPrefix(f[0], "aliases="))
			mSet := map[string]bool{}
			for _, a := range mAliases {
				mSet[a] = true
			}
			same := len(mSet) == len(hf.loop)
			for _, a := range hf.loop {
				if !mSet[a] {
					same = false
				}
			}
			is, _ := specLocalhost(names, h)
			// (model against the harness's oracle: a difference is a fault of the check, not of the proxy)
			if !same {
				core.Fatalf("hosts file %q: Model localhostAliases %q, the harness reads %q", hf.text, mAliases, hf.loop)
			}
			if (f[1] == "local=1") != is {
				core.Fatalf("hosts file %q, host %q: Model isLocalhostOf %s, the harness's reading %v", hf.text, h, f[1], is)
			}
			ctx.Count("api/hostsfile-name-model-vs-oracle")
		}
	}
}

// ---- the outcome of reading a hosts file: model, harness, library ----

// decodeAnswer is what `C04 hostsdecode` says.
type decodeAnswer struct {
	reject  string
	recs    []reqmodel.HostsRecord
	aliases []string
	names   []string
	loose   []reqmodel.HostsRecord
}

func unRecords(tok string) []reqmodel.HostsRecord {
	var out []reqmodel.HostsRecord
	for _, e := range core.SplitList2(tok) {
		atoms := core.UnHexList(e)
		out = append(out, reqmodel.HostsRecord{IP: atoms[0], Names: atoms[1:]})
	}
	return out
}

func askHostsDecode(ctx *core.Ctx, src hostsSrc) decodeAnswer {
	ans := ctx.Model.MustAsk("C04", "hostsdecode", src.modelToken())
	var d decodeAnswer
	f := strings.Fields(ans)
	kv := map[string]string{}
	for _, t := range f {
		if k, v, ok := strings.Cut(t, "="); ok {
			kv[k] = v
		}
	}
	switch {
	case len(f) > 0 && strings.HasPrefix(f[0], "err="):
		d.reject = kv["err"]
	case len(f) > 0 && f[0] == "ok":
		d.recs, d.aliases, d.names = unRecords(kv["recs"]), core.UnHexList(kv["aliases"]), core.UnHexList(kv["names"])
	default:
		core.Fatalf("unparsable hostsdecode answer %q", ans)
	}
	d.loose = unRecords(kv["loose"])
	return d
}

func recordsEqual(a, b []reqmodel.HostsRecord) bool {
	if len(a) != len(b) {
		return false
	}
	for i := range a {
		if a[i].IP != b[i].IP || strings.Join(a[i].Names, "\x00") != strings.Join(b[i].Names, "\x00") {
			return false
		}
	}
	return true
}

// libRecords: what the library's Decode yields, in the harness's terms (names sorted: the library keeps a set).
func libRecords(text string) (recs []reqmodel.HostsRecord, loopback []bool, err error) {
	h, err := hflib.Decode(strings.NewReader(text))
	for _, r := range h.Records() {
		if r.Hostnames == nil {
			continue
		}
		rec := reqmodel.HostsRecord{IP: r.IpAddress.IP.String()}
		for n := range r.Hostnames {
			rec.Names = append(rec.Names, n)
		}
		sort.Strings(rec.Names)
		recs = append(recs, rec)
		loopback = append(loopback, r.IpAddress.IP.IsLoopback())
	}
	return recs, loopback, err
}

func sortedSet(xs []string) []string {
	m := map[string]bool{}
	for _, x := range xs {
		m[x] = true
	}
	var out []string
	for x := range m {
		out = append(out, x)
	}
	sort.Strings(out)
	return out
}

// hostsDecodeCase: one hosts-file text through the model's reader (`C04 hostsdecode`), the harness's own reading and
// the library's Decode: rejected or not and why, the records, which of them are loopback records, the aliases.
// Model against harness is a check of the check (fatal); the library against both is the correspondence.
func hostsDecodeCase(ctx *core.Ctx, src hostsSrc, label string) {
	reject, recs := src.expect()
	d := askHostsDecode(ctx, src)
	cs := map[string]any{"kind": "hosts-decode", "hosts": src.Text, "hosts_state": src.State}
	ctx.Case("hosts-decode|"+src.State+"|"+src.Text, reject != "" || len(recs) > 0)
	ctx.Count("hosts-decode/" + label)
	if reject != "" {
		ctx.Count("hosts-decode/rejected/" + reject)
	} else {
		ctx.Count("hosts-decode/read")
	}
	if d.reject != reject {
		core.Fatalf("hosts file %q (%s): Model hpLocalhostOf says %q, the harness's reading %q", src.Text, src.State, d.reject, reject)
	}
	if reject == "" {
		strict, _ := reqmodel.ReadHostsStrict(src.Text)
		loop, _ := reqmodel.LoopbackNames(strict)
		if !recordsEqual(d.recs, strict) || strings.Join(sortedSet(d.aliases), "\x00") != strings.Join(sortedSet(loop), "\x00") {
			core.Fatalf("hosts file %q: Model decodeHosts %v aliases %q, the harness reads %v aliases %q", src.Text, d.recs, d.aliases, strict, loop)
		}
		want := []string{"localhost", "0.0.0.0", "::"}
		for _, a := range d.aliases {
			want = append(want, strings.ToLower(a))
		}
		if strings.Join(d.names, "\x00") != strings.Join(want, "\x00") {
			core.Fatalf("hosts file %q: Model hp.localhost %q, expected %q", src.Text, d.names, want)
		}
	}
	if !recordsEqual(d.loose, reqmodel.ReadHostsLoose(src.Text)) {
		core.Fatalf("hosts file %q: Model looseRecords %v, the harness reads %v", src.Text, d.loose, reqmodel.ReadHostsLoose(src.Text))
	}
	if src.State != "" && src.State != "empty" {
		return // (no text: the library is exercised through LocalhostAliases when an instance is constructed)
	}
	lrecs, lloop, lerr := libRecords(src.Text)
	switch {
	case reject != "" && lerr == nil:
		ctx.Disagree("hostsfile Decode fails on a text that cannot be read completely (Model decodeHosts = error)", cs, fmt.Sprintf("no error, records %v", lrecs), "error: "+reject)
	case reject != "":
		if k := errKindOf(lerr); k != reject {
			ctx.Disagree("the reason Decode fails = Model decodeHosts' error", cs, k+": "+lerr.Error(), reject)
		} else if len(lrecs) != 0 {
			ctx.Disagree("Decode returns no record with an error (all or nothing)", cs, fmt.Sprint(lrecs), "no records")
		} else {
			ctx.TraceValidated()
		}
	case lerr != nil:
		ctx.Disagree("hostsfile Decode reads a well-formed text (Model decodeHosts = records)", cs, lerr.Error(), fmt.Sprint(d.recs))
	default:
		ok := len(lrecs) == len(d.recs)
		for i := 0; ok && i < len(lrecs); i++ {
			a, err := netip.ParseAddr(d.recs[i].IP)
			ok = err == nil && a.Unmap().String() == lrecs[i].IP &&
				strings.Join(sortedSet(d.recs[i].Names), "\x00") == strings.Join(lrecs[i].Names, "\x00") &&
				reqmodel.IsLoopbackIP(d.recs[i].IP) == lloop[i]
		}
		if !ok {
			ctx.Disagree("records Decode yields (address, names as a set, IsLoopback) = Model decodeHosts", cs, fmt.Sprint(lrecs, lloop), fmt.Sprint(d.recs))
		} else {
			ctx.TraceValidated()
		}
	}
}

var hostsZoneLines = []string{"::1%lo devzone", "::1%lo0 Zoned.local zoned", "fe80::1%eth0 router.lan", "::ffff:127.0.0.1%x mapped-zone", "0:0:0:0:0:0:0:1%1 one"}

// hostsDecodeAPI: the hosts files of this run and many more texts (well-formed, other forms, rejected, with zoned
// addresses) through hostsDecodeCase.
func hostsDecodeAPI(ctx *core.Ctx, files []*hostsFile) {
	for _, hf := range files {
		hostsDecodeCase(ctx, hf.src(), "file-of-this-run")
	}
	for _, l := range reqmodel.HostsBadAddrs() {
		if !reqmodel.HostsAddrNeverResolved(l) {
			core.Fatalf("generator: %q may be resolved as a host name", l)
		}
		hostsDecodeCase(ctx, hostsSrc{Text: "127.0.1.1 devbox\n" + l + " name\n"}, "bad-address-pool")
	}
	r := ctx.Rng.Sub()
	for i, n := 0, ctx.N(400, 4000); i < n; i++ {
		switch k := r.Intn(10); {
		case k < 2:
			hostsDecodeCase(ctx, hostsSrc{Text: reqmodel.GenHosts(r.Sub())}, "well-formed")
		case k < 4:
			t, form := reqmodel.GenHostsForm(r.Sub())
			hostsDecodeCase(ctx, hostsSrc{Text: t}, "form/"+form)
		case k < 5:
			t := reqmodel.GenHosts(r.Sub())
			lines := strings.Split(strings.TrimSuffix(t, "\n"), "\n")
			at := r.Intn(len(lines) + 1)
			lines = append(lines[:at:at], append([]string{core.Pick(r, hostsZoneLines)}, lines[at:]...)...)
			hostsDecodeCase(ctx, hostsSrc{Text: strings.Join(lines, "\n") + "\n"}, "zoned-address")
		default:
			t, classes, where := reqmodel.GenHostsMalformed(r.Sub())
			hostsDecodeCase(ctx, hostsSrc{Text: t}, "rejected/"+where)
			for _, c := range classes {
				ctx.Count("hosts-decode/bad-line/" + c)
			}
		}
	}
}

// ---- the outcome of the construction, and the aliases of an instance that exists ----

// probeItem: one request for authority — a CONNECT, or a generated GET/HEAD/POST (inner: inside the intercepted tunnel).
func probeItem(r *core.Rand, authority string, connect, inner bool, label string) item {
	id := fmt.Sprintf("c04-%d-probe", idSeq.Add(1))
	if connect {
		return item{Connect: &reqmodel.ConnectReq{Authority: authority, Minor: 1, Fields: []rig.Field{{Name: "Host", Value: authority}, {Name: "Case-Id", Value: id}}},
			Label: label + ",connect"}
	}
	scheme := "http"
	if inner {
		scheme = "https"
	}
	q := reqmodel.GenRequest(r, reqmodel.GenOpts{Host: authority, Scheme: scheme, ID: id, AllowBody: false})
	var fs []rig.Field
	for _, f := range q.Fields {
		if !strings.EqualFold(f.Name, "Proxy-Authorization") {
			fs = append(fs, f)
		}
	}
	q.Fields = fs
	return item{Req: q, Label: label}
}

// hostsConstructCases counts the construction case of hf and yields the probes of its loopback aliases: one connection
// per probe (a CONNECT that is accepted ends its connection), localhost denial on and alone, in the file's mode. On a
// file that is read they are ordinary cases (every alias of every file is aimed at, not only the ones the random
// connections draw); on a rejected file they run only when the implementation constructed an instance all the same —
// then every one of them must be refused (env.spec: the names of the loopback records the line-by-line reading finds
// are localhost names), and a probe that is forwarded is reported as a violation with the hosts file and the request.
func hostsConstructCases(ctx *core.Ctx, hf *hostsFile) []*connCase {
	r := ctx.Rng.Sub()
	ctx.Case("hosts-construct|"+hf.state+"|"+hf.text, hf.reject != "" || len(hf.loop) > 0)
	if hf.reject != "" {
		ctx.Count("hosts-file/construct/must-fail/" + hf.reject)
		if hf.where != "" {
			ctx.Count("hosts-file/construct/unreadable-line-at/" + hf.where)
		}
		for _, c := range hf.classes {
			ctx.Count("hosts-file/construct/unreadable-line/" + c)
		}
		if len(hf.loop) > 0 {
			ctx.Count("hosts-file/construct/must-fail-with-loopback-aliases-beside")
		}
	} else {
		ctx.Count("hosts-file/construct/must-succeed")
	}
	if hf.form != "" {
		ctx.Count("hosts-file/form/" + hf.form)
	}
	aliases := append([]string{}, hf.loop...)
	if len(aliases) > 12 {
		core.Shuffle(r, aliases)
		aliases = aliases[:12]
	}
	aliases = append(aliases, "localhost")
	var out []*connCase
	mk := func(it item) {
		cc := &connCase{Kind: "conn", Mask: ctlLocal, TimeOpen: true, Mode: hf.mode, Hosts: hf.text, HostsState: hf.state}
		if hf.mode == "mitm" && it.Connect == nil {
			cc.Items = append(cc.Items, item{Connect: &reqmodel.ConnectReq{Authority: "origin.test:443", Minor: 1,
				Fields: []rig.Field{{Name: "Host", Value: "origin.test:443"}, {Name: "Case-Id", Value: fmt.Sprintf("c04-%d-open", idSeq.Add(1))}}}, Label: "host-routed,connect,mitm-open"})
		}
		cc.Items = append(cc.Items, it)
		out = append(out, cc)
	}
	for _, a := range aliases {
		port := core.Pick(r, []string{"", ":80", ":8080"})
		mk(probeItem(r, spellings(r, a)+port, false, hf.mode == "mitm", "probe-alias"))
		mk(probeItem(r, core.Pick(r, []string{a, strings.ToLower(a), strings.ToUpper(a)})+core.Pick(r, []string{":443", ":22", ":80"}), true, false, "probe-alias"))
	}
	return out
}
