package c04

import (
	"encoding/json"
	"fmt"
	"net"
	"net/http"
	"net/url"
	"strings"
	"time"

	"github.com/saucelabs/forwarder/middleware"
	"github.com/saucelabs/forwarder/ruleset"
	"github.com/saucelabs/forwarder/verifharness/core"
)

// apiChecks compare the building blocks of the model with the library / exported functions they
// mirror, on generated inputs: IP literal parsing and classification (net.ParseIP, IsLoopback,
// IsUnspecified), URL host splitting (net/url), time frames (ruleset.TimeFrameEntry.Match) and the
// basic-auth check (middleware.BasicAuth.AuthenticatedRequest).
func apiChecks(ctx *core.Ctx) {
	ipLiterals(ctx)
	hostSplitting(ctx)
	timeFramesAPI(ctx)
	basicAuthAPI(ctx)
}

func genHexGroup(r *core.Rand) string {
	n := core.Pick(r, []int{1, 1, 2, 3, 4, 4, 5, 0})
	const hx = "0123456789abcdefABCDEF0000fff"
	var b strings.Builder
	for i := 0; i < n; i++ {
		b.WriteByte(hx[r.Intn(len(hx))])
	}
	if r.Chance(30) {
		return core.Pick(r, []string{"0", "0", "1", "ffff", "FFFF", "7f00", "0000", "00", "127"})
	}
	return b.String()
}

func genV4(r *core.Rand) string {
	n := core.Pick(r, []int{4, 4, 4, 4, 3, 5})
	var ps []string
	for i := 0; i < n; i++ {
		ps = append(ps, core.Pick(r, []string{"0", "0", "127", "1", "255", "256", "01", "00", "", "10", "1a", fmt.Sprint(r.Intn(300))}))
	}
	return strings.Join(ps, ".")
}

func genIPLiteral(r *core.Rand) string {
	switch r.Intn(10) {
	case 0:
		return genV4(r)
	case 1:
		return core.Pick(r, append(append(append([]string{}, loopbackLiterals...), unspecNonCanonical...), otherLiterals...))
	}
	n := r.Range(0, 9)
	var gs []string
	for i := 0; i < n; i++ {
		gs = append(gs, genHexGroup(r))
	}
	s := strings.Join(gs, ":")
	if r.Chance(60) {
		// put a "::" somewhere
		k := r.Intn(len(gs) + 1)
		s = strings.Join(gs[:k], ":") + "::" + strings.Join(gs[k:], ":")
	}
	if r.Chance(25) {
		if s != "" && !strings.HasSuffix(s, ":") {
			s += ":"
		}
		s += genV4(r)
	}
	if r.Chance(5) {
		s += "%eth0"
	}
	if r.Chance(5) {
		s = ":" + s
	}
	if r.Chance(5) {
		s += ":"
	}
	return s
}

func ipFields(ip net.IP) string {
	if ip == nil {
		return "none"
	}
	b := ip.To16()
	var fs []string
	for i := 0; i < 16; i += 2 {
		fs = append(fs, fmt.Sprint(int(b[i])<<8|int(b[i+1])))
	}
	return "ip " + strings.Join(fs, ",")
}

func ipLiterals(ctx *core.Ctx) {
	n := ctx.N(6000, 60000)
	for i := 0; i < n; i++ {
		r := ctx.Rng.Sub()
		s := genIPLiteral(r)
		ip := net.ParseIP(s)
		impl := ipFields(ip)
		model := ctx.Model.MustAsk("C04", "parseip", core.HexS(s))
		cs := map[string]any{"kind": "ip-literal", "s": s}
		ctx.Case("ip|"+s, ip != nil)
		ctx.Count("api/parse-ip/" + strings.Fields(impl)[0])
		if impl != model {
			ctx.Disagree("net.ParseIP = Model parseIP", cs, impl, model)
			continue
		}
		ctx.TraceValidated()
		// classification as isLocalhost makes it (lower-cased, no names) and as the specification has it
		low := strings.ToLower(s)
		lip := net.ParseIP(low)
		isLoop := lip != nil && lip.IsLoopback()
		isUnspec := lip != nil && lip.IsUnspecified()
		// isLocalhost on an IP literal (no configured names): IsLoopback() || IsUnspecified() = the specification
		implLocal := isLoop || isUnspec
		specLocal := isLoop || isUnspec
		ans := ctx.Model.MustAsk("C04", "islocal", "~", core.HexS(s))
		if want := fmt.Sprintf("impl=%s spec=%s loopback=%s unspecified=%s", core.B01(implLocal), core.B01(specLocal), core.B01(isLoop), core.B01(isUnspec)); ans != want {
			ctx.Disagree("IsLoopback / IsUnspecified = Model ipIsLoopback / ipIsUnspecified", cs, want, ans)
		}
		if isUnspec {
			ctx.Count("api/unspecified-literal")
		}
	}
}

func hostSplitting(ctx *core.Ctx) {
	n := ctx.N(3000, 30000)
	hosts := append(append(append(append([]string{}, routedHosts...), loopbackLiterals...), unspecNonCanonical...), otherLiterals...)
	for i := 0; i < n; i++ {
		r := ctx.Rng.Sub()
		a := core.Pick(r, hosts)
		switch r.Intn(6) {
		case 0:
		case 1:
			a += ":"
		case 2:
			a += ":" + core.Pick(r, []string{"80", "443", "0", "65536", "08"})
		case 3:
			a += ":" + core.Pick(r, []string{"8x", "http", "-1"})
		case 4:
			a = strings.Trim(a, "[]") + ":" + core.Pick(r, []string{"80", "1"})
		default:
			a += ":" + fmt.Sprint(r.Intn(70000))
		}
		u, err := url.Parse("http://" + a)
		if err != nil || u.Host != a {
			ctx.Count("api/host-split/rejected-by-net-url")
			continue
		}
		impl := "ok " + core.HexS(u.Hostname()) + " " + core.HexS(u.Port())
		model := ctx.Model.MustAsk("C04", "hostname", core.HexS(a))
		ctx.Case("hostsplit|"+a, strings.ContainsAny(a, ":["))
		ctx.Count("api/host-split")
		if impl != model {
			ctx.Disagree("url.Hostname/Port = Model urlSplitHostPort", map[string]any{"kind": "host-split", "s": a}, impl, model)
		} else {
			ctx.TraceValidated()
		}
	}
}

func timeFramesAPI(ctx *core.Ctx) {
	n := ctx.N(1500, 15000)
	days := []string{"sun", "mon", "tue", "wed", "thu", "fri", "sat"}
	for i := 0; i < n; i++ {
		r := ctx.Rng.Sub()
		wd := r.Intn(7)
		hs := r.Range(0, 24)
		he := r.Range(hs, 24)
		repr := fmt.Sprintf("%s/%d-%d", core.Pick(r, []string{days[wd], strings.ToUpper(days[wd]), " " + days[wd] + " "}), hs, he)
		e, err := ruleset.ParseTimeFrameEntry(repr)
		if err != nil {
			ctx.Disagree("ParseTimeFrameEntry accepts weekday/start-end", map[string]any{"kind": "time-frame", "repr": repr}, err.Error(), "accepted")
			continue
		}
		// a moment with a chosen weekday and hour (2026-09-20 is a Sunday)
		w, h, m := r.Intn(7), r.Intn(24), r.Intn(60)
		if r.Chance(60) {
			w = wd
		}
		if r.Chance(50) {
			h = core.Pick(r, []int{hs, hs - 1, he, he - 1, (hs + he) / 2})
			if h < 0 || h > 23 {
				h = r.Intn(24)
			}
		}
		t := time.Date(2026, 9, 20+w, h, m, r.Intn(60), 0, time.Local)
		impl := core.B01(e.Match(t))
		model := ctx.Model.MustAsk("C04", "timeframe", fmt.Sprintf("%d-%d-%d", int(e.Weekday), e.HourStart, e.HourEnd), core.Itoa(int(t.Weekday())), core.Itoa(t.Hour()))
		ctx.Case(fmt.Sprintf("timeframe|%s|%d|%d", repr, w, h), true)
		ctx.Count("api/time-frame/" + impl)
		if impl != model {
			ctx.Disagree("TimeFrameEntry.Match = Model TimeFrame.matches", map[string]any{"kind": "time-frame", "repr": repr, "weekday": w, "hour": h}, impl, model)
		} else {
			ctx.TraceValidated()
		}
		// the documented meaning: same weekday and start <= hour < end
		if want := core.B01(w == wd && hs <= h && h < he); impl != want {
			ctx.SpecFail("a time frame allows exactly its weekday's hours [start, end)", "", map[string]any{"kind": "time-frame", "repr": repr, "weekday": w, "hour": h}, impl, want)
		}
	}
	timeFramesZonedAPI(ctx)
}

var (
	dayLong = []string{"sunday", "monday", "tuesday", "wednesday", "thursday", "friday", "saturday"}
	// fixed zones of the API-level check (seconds east of UTC): every whole hour -12..+14, the :30 and
	// :45 zones, historical local mean times, the odd second
	apiOffsets = func() []int {
		out := []int{12600, 16200, 19800, 20700, 23400, 31500, 34200, 37800, 45900, 49500, -12600, -9000, -34200, 1172, -17762, 8400, 1, -1, 59, 3599, -3601, 86399, -86399}
		for h := -12; h <= 14; h++ {
			out = append(out, h*3600)
		}
		return out
	}()
)

type zonedCase struct {
	Kind   string `json:"kind"` // "time-frame-zoned"
	Repr   string `json:"repr"`
	Unix   int64  `json:"unix"`
	Offset int    `json:"offset"`         // seconds east of UTC
	Zone   string `json:"zone,omitempty"` // IANA name the offset was taken from (informative)
	Local  string `json:"local,omitempty"`
}

// timeFramesZonedAPI: TimeFrameEntry.Match on explicit time.Time values carried in many zones. What it
// must look at is the wall clock of the zone the value carries: weekday and hour of (instant + offset).
func timeFramesZonedAPI(ctx *core.Ctx) {
	n := ctx.N(4000, 40000)
	var locs []*time.Location
	for _, name := range namedZones {
		if l, err := time.LoadLocation(name); err == nil {
			locs = append(locs, l)
		}
	}
	for i := 0; i < n; i++ {
		r := ctx.Rng.Sub()
		wd := r.Intn(7)
		hs := r.Range(0, 24)
		he := r.Range(hs, 24)
		if r.Chance(25) {
			hs, he = core.Pick(r, []int{0, 0, 12, 23, 24}), 24
		}
		repr := fmt.Sprintf("%s/%d-%d", core.Pick(r, []string{dayNames[wd], dayLong[wd], strings.ToUpper(dayNames[wd]), " " + dayLong[wd] + " ", strings.ToUpper(dayLong[wd][:1]) + dayLong[wd][1:]}), hs, he)
		e, err := ruleset.ParseTimeFrameEntry(repr)
		if err != nil {
			ctx.Disagree("ParseTimeFrameEntry accepts weekday/start-end", map[string]any{"kind": "time-frame", "repr": repr}, err.Error(), "accepted")
			continue
		}
		if int(e.Weekday) != wd || e.HourStart != hs || e.HourEnd != he {
			ctx.SpecFail("the allow-time-frame parser yields the weekday and hours written", "", map[string]any{"kind": "time-frame", "repr": repr}, fmt.Sprintf("%+v", e),
				fmt.Sprintf("weekday %d hours %d-%d", wd, hs, he))
			continue
		}
		// the zone
		var loc *time.Location
		zname := ""
		if len(locs) > 0 && r.Chance(30) {
			loc = core.Pick(r, locs)
			zname = loc.String()
		} else {
			loc = time.FixedZone("", core.Pick(r, apiOffsets))
		}
		// the instant: laid on the zone's wall clock around the frame, or on the UTC wall clock around the
		// frame (where a UTC reading and a local reading part), or anywhere in ±130 years
		var t time.Time
		switch r.Intn(5) {
		case 0, 1:
			w, h := wd, core.Pick(r, []int{hs, hs - 1, he, he - 1, (hs + he) / 2, r.Intn(24)})
			if r.Chance(25) {
				w = r.Intn(7)
			}
			t = time.Date(2026, 9, 20+w, h, core.Pick(r, []int{0, 0, 59, r.Intn(60)}), core.Pick(r, []int{0, 59, r.Intn(60)}), 0, loc)
		case 2, 3:
			w, h := wd, core.Pick(r, []int{hs, hs - 1, he, he - 1, (hs + he) / 2, r.Intn(24)})
			t = time.Date(core.Pick(r, []int{2026, 2026, 2024, 1999, 2038}), time.Month(r.Range(1, 12)), 20+w, h, core.Pick(r, []int{0, 59, r.Intn(60)}), r.Intn(60), 0, time.UTC).In(loc)
		default:
			t = time.Unix(int64(r.U64()%(2*4102444800))-4102444800, int64(r.Intn(1e9))).In(loc)
		}
		_, off := t.Zone()
		tf := fmt.Sprintf("%d-%d-%d", int(e.Weekday), e.HourStart, e.HourEnd)
		cs := zonedCase{Kind: "time-frame-zoned", Repr: repr, Unix: t.Unix(), Offset: off, Zone: zname, Local: t.Format("Mon 2006-01-02 15:04:05 -07:00")}
		judgeZoned(ctx, cs, &e, tf, t)
	}
}

func judgeZoned(ctx *core.Ctx, cs zonedCase, e *ruleset.TimeFrameEntry, tf string, t time.Time) {
	impl := core.B01(e.Match(t))
	ans := strings.Fields(ctx.Model.MustAsk("C04", "timeframe-at", tf, fmt.Sprint(cs.Unix), fmt.Sprint(cs.Offset)))
	if len(ans) != 3 {
		core.Fatalf("C04 timeframe-at: unexpected answer %q", ans)
	}
	w, h := wallClock(t)
	utcW, utcH := wallClock(t.UTC())
	ctx.Case(fmt.Sprintf("timeframe-zoned|%s|%d|%d", tf, cs.Unix, cs.Offset), true)
	ctx.Count("api/time-frame-zoned/" + impl)
	if w != utcW {
		ctx.Count("api/time-frame-zoned/local-weekday-differs-from-utc")
	}
	if h != utcH {
		ctx.Count("api/time-frame-zoned/local-hour-differs-from-utc")
	}
	if cs.Offset%3600 != 0 {
		ctx.Count("api/time-frame-zoned/offset-not-whole-hours")
	}
	if cs.Zone != "" {
		ctx.Count("api/time-frame-zoned/iana-zone")
	}
	// the model's reading of the local wall clock = the standard library's = integer arithmetic
	if got := fmt.Sprintf("%d %d", int(t.Weekday()), t.Hour()); got != ans[1]+" "+ans[2] || got != fmt.Sprintf("%d %d", w, h) {
		ctx.Disagree("Time.Weekday/Hour in the value's zone = Model localWeekday/localHour", cs, got, ans[1]+" "+ans[2])
		return
	}
	if impl != ans[0] {
		ctx.Disagree("TimeFrameEntry.Match(t) = Model TimeFrame.matchesAt", cs, impl, ans[0])
	} else {
		ctx.TraceValidated()
	}
	// the documented meaning, on the wall clock of the zone the value carries
	if want := core.B01(w == int(e.Weekday) && e.HourStart <= h && h < e.HourEnd); impl != want {
		ctx.SpecFail("a time frame allows exactly its weekday's hours [start, end) of the local wall clock, in every time zone", "", cs, impl,
			fmt.Sprintf("%s (local weekday %d hour %d; UTC weekday %d hour %d)", want, w, h, utcW, utcH))
	}
}

// configured pairs of the API-level basic-auth check (the user name of a configuration has no colon;
// passwords may)
var configuredPairs = [][2]string{{authUser, authPass}, {"user", "pass"}, {"user", "pass"}, {"a", "b"}, {"admin", ""}, {"u s", " p "}, {"üser", "pässwörd"},
	{"user", ":"}, {"x", "::y"}, {"User", "user"}, {"aa", "aa"}, {"ab", "ba"}, {"alice", "alice:alice"}, {"sauce", "c29tZTpwYXNz"}, {"j", "longer-password-0123456789"}}

func genConfiguredPair(r *core.Rand) (string, string) {
	if r.Chance(70) {
		p := core.Pick(r, configuredPairs)
		return p[0], p[1]
	}
	gen := func(alpha string, lo, hi int) string {
		var b strings.Builder
		for k := r.Range(lo, hi); k > 0; k-- {
			b.WriteByte(alpha[r.Intn(len(alpha))])
		}
		return b.String()
	}
	return gen("abAB1 -_.u", 1, 6), gen("abAB1: =p", 0, 8)
}

func basicAuthAPI(ctx *core.Ctx) {
	n := ctx.N(6000, 60000)
	ba := middleware.NewProxyBasicAuth()
	for i := 0; i < n; i++ {
		r := ctx.Rng.Sub()
		user, pass := genConfiguredPair(r)
		vals, label := genAuthFor(r, user, pass, false)
		if r.Chance(7) {
			// arbitrary printable value
			k := r.Range(0, 30)
			var b strings.Builder
			for j := 0; j < k; j++ {
				b.WriteByte(byte(r.Range(33, 126)))
			}
			vals, label = []string{core.Pick(r, []string{"Basic ", "basic ", ""}) + b.String()}, "auth-arbitrary"
		}
		judgeBasicAuth(ctx, ba, user, pass, vals, label)
	}
}

func judgeBasicAuth(ctx *core.Ctx, ba *middleware.BasicAuth, user, pass string, vals []string, label string) {
	req := &http.Request{Header: http.Header{}}
	for _, v := range vals {
		req.Header.Add("Proxy-Authorization", v)
	}
	impl := core.B01(ba.AuthenticatedRequest(req, user, pass))
	first := ""
	if len(vals) > 0 {
		first = vals[0]
	}
	model := ctx.Model.MustAsk("C04", "auth", core.HexS(user), core.HexS(pass), core.HexS(first))
	cs := map[string]any{"kind": "basic-auth", "user": user, "pass": pass, "values": vals}
	ctx.Case("basicauth|"+user+"\x00"+pass+"\x00"+strings.Join(vals, "\x00"), len(vals) > 0)
	if label != "" {
		ctx.Count("api/basic-auth/" + label + "/" + impl)
	}
	if impl != model {
		ctx.Disagree("BasicAuth.AuthenticatedRequest = Model authenticated", cs, impl, model)
	} else {
		ctx.TraceValidated()
	}
	// the property: authenticated iff the first value decodes to exactly the configured pair — user and
	// password each compared as a whole, the decoded string split at its first colon
	u, p, ok := decodeBasic(first)
	want := first != "" && ok && u == user && p == pass
	if ok && !want && u+p == user+pass {
		ctx.Count("api/basic-auth/same-concatenation-other-pair")
	}
	if ok && !want && u+":"+p == user+":"+pass {
		core.Fatalf("C04 oracle: equal credential strings split into different pairs")
	}
	if impl != core.B01(want) {
		ctx.SpecFail("authenticated only by Basic credentials equal to the configured user and password", "", cs, impl, core.B01(want))
	}
}

// replayAPI re-evaluates one recorded API-level case.
func replayAPI(ctx *core.Ctx, kind string, raw json.RawMessage) {
	var c struct {
		S      string   `json:"s"`
		Values []string `json:"values"`
		User   *string  `json:"user"`
		Pass   *string  `json:"pass"`
	}
	json.Unmarshal(raw, &c)
	switch kind {
	case "ip-literal":
		impl, model := ipFields(net.ParseIP(c.S)), ctx.Model.MustAsk("C04", "parseip", core.HexS(c.S))
		ctx.Case("ip|"+c.S, true)
		fmt.Printf("net.ParseIP(%q): impl=%s model=%s\n", c.S, impl, model)
		if impl != model {
			ctx.Disagree("net.ParseIP = Model parseIP", map[string]any{"kind": kind, "s": c.S}, impl, model)
		}
	case "host-split":
		u, err := url.Parse("http://" + c.S)
		if err != nil {
			return
		}
		impl, model := "ok "+core.HexS(u.Hostname())+" "+core.HexS(u.Port()), ctx.Model.MustAsk("C04", "hostname", core.HexS(c.S))
		ctx.Case("hostsplit|"+c.S, true)
		if impl != model {
			ctx.Disagree("url.Hostname/Port = Model urlSplitHostPort", map[string]any{"kind": kind, "s": c.S}, impl, model)
		}
	case "basic-auth":
		user, pass := authUser, authPass
		if c.User != nil && c.Pass != nil {
			user, pass = *c.User, *c.Pass
		}
		judgeBasicAuth(ctx, middleware.NewProxyBasicAuth(), user, pass, c.Values, "")
	case "time-frame-zoned":
		var z zonedCase
		json.Unmarshal(raw, &z)
		e, err := ruleset.ParseTimeFrameEntry(z.Repr)
		if err != nil {
			ctx.Disagree("ParseTimeFrameEntry accepts weekday/start-end", z, err.Error(), "accepted")
			return
		}
		t := time.Unix(z.Unix, 0).In(time.FixedZone("", z.Offset))
		judgeZoned(ctx, z, &e, fmt.Sprintf("%d-%d-%d", int(e.Weekday), e.HourStart, e.HourEnd), t)
	}
}
