package c04

import (
	"encoding/json"
	"fmt"
	"net"
	"net/http"
	"net/url"
	"strings"
	"time"

	"github.com/saucelabs/forwarder/middleware"
	"github.com/saucelabs/forwarder/ruleset"
	"github.com/saucelabs/forwarder/verifharness/core"
)

// apiChecks compare the building blocks of the model with the library / exported functions they
// mirror, on generated inputs: IP literal parsing and classification (net.ParseIP, IsLoopback,
// IsUnspecified), URL host splitting (net/url), time frames (ruleset.TimeFrameEntry.Match) and the
// basic-auth check (middleware.BasicAuth.AuthenticatedRequest).
func apiChecks(ctx *core.Ctx) {
	ipLiterals(ctx)
	hostSplitting(ctx)
	timeFramesAPI(ctx)
	basicAuthAPI(ctx)
}

func genHexGroup(r *core.Rand) string {
	n := core.Pick(r, []int{1, 1, 2, 3, 4, 4, 5, 0})
	const hx = "0123456789abcdefABCDEF0000fff"
	var b strings.Builder
	for i := 0; i < n; i++ {
		b.WriteByte(hx[r.Intn(len(hx))])
	}
	if r.Chance(30) {
		return core.Pick(r, []string{"0", "0", "1", "ffff", "FFFF", "7f00", "0000", "00", "127"})
	}
	return b.String()
}

func genV4(r *core.Rand) string {
	n := core.Pick(r, []int{4, 4, 4, 4, 3, 5})
	var ps []string
	for i := 0; i < n; i++ {
		ps = append(ps, core.Pick(r, []string{"0", "0", "127", "1", "255", "256", "01", "00", "", "10", "1a", fmt.Sprint(r.Intn(300))}))
	}
	return strings.Join(ps, ".")
}

func genIPLiteral(r *core.Rand) string {
	switch r.Intn(10) {
	case 0:
		return genV4(r)
	case 1:
		return core.Pick(r, append(append(append([]string{}, loopbackLiterals...), unspecNonCanonical...), otherLiterals...))
	}
	n := r.Range(0, 9)
	var gs []string
	for i := 0; i < n; i++ {
		gs = append(gs, genHexGroup(r))
	}
	s := strings.Join(gs, ":")
	if r.Chance(60) {
		// put a "::" somewhere
		k := r.Intn(len(gs) + 1)
		s = strings.Join(gs[:k], ":") + "::" + strings.Join(gs[k:], ":")
	}
	if r.Chance(25) {
		if s != "" && !strings.HasSuffix(s, ":") {
			s += ":"
		}
		s += genV4(r)
	}
	if r.Chance(5) {
		s += "%eth0"
	}
	if r.Chance(5) {
		s = ":" + s
	}
	if r.Chance(5) {
		s += ":"
	}
	return s
}

func ipFields(ip net.IP) string {
	if ip == nil {
		return "none"
	}
	b := ip.To16()
	var fs []string
	for i := 0; i < 16; i += 2 {
		fs = append(fs, fmt.Sprint(int(b[i])<<8|int(b[i+1])))
	}
	return "ip " + strings.Join(fs, ",")
}

func ipLiterals(ctx *core.Ctx) {
	n := ctx.N(6000, 60000)
	for i := 0; i < n; i++ {
		r := ctx.Rng.Sub()
		s := genIPLiteral(r)
		ip := net.ParseIP(s)
		impl := ipFields(ip)
		model := ctx.Model.MustAsk("C04", "parseip", core.HexS(s))
		cs := map[string]any{"kind": "ip-literal", "s": s}
		ctx.Case("ip|"+s, ip != nil)
		ctx.Count("api/parse-ip/" + strings.Fields(impl)[0])
		if impl != model {
			ctx.Disagree("net.ParseIP = Model parseIP", cs, impl, model)
			continue
		}
		ctx.TraceValidated()
		// classification as isLocalhost makes it (lower-cased, no names) and as the specification has it
		low := strings.ToLower(s)
		lip := net.ParseIP(low)
		isLoop := lip != nil && lip.IsLoopback()
		isUnspec := lip != nil && lip.IsUnspecified()
		// isLocalhost on an IP literal (no configured names): IsLoopback() || IsUnspecified() = the specification
		implLocal := isLoop || isUnspec
		specLocal := isLoop || isUnspec
		ans := ctx.Model.MustAsk("C04", "islocal", "~", core.HexS(s))
		if want := fmt.Sprintf("impl=%s spec=%s loopback=%s unspecified=%s", core.B01(implLocal), core.B01(specLocal), core.B01(isLoop), core.B01(isUnspec)); ans != want {
			ctx.Disagree("IsLoopback / IsUnspecified = Model ipIsLoopback / ipIsUnspecified", cs, want, ans)
		}
		if isUnspec {
			ctx.Count("api/unspecified-literal")
		}
	}
}

func hostSplitting(ctx *core.Ctx) {
	n := ctx.N(3000, 30000)
	hosts := append(append(append(append([]string{}, routedHosts...), loopbackLiterals...), unspecNonCanonical...), otherLiterals...)
	for i := 0; i < n; i++ {
		r := ctx.Rng.Sub()
		a := core.Pick(r, hosts)
		switch r.Intn(6) {
		case 0:
		case 1:
			a += ":"
		case 2:
			a += ":" + core.Pick(r, []string{"80", "443", "0", "65536", "08"})
		case 3:
			a += ":" + core.Pick(r, []string{"8x", "http", "-1"})
		case 4:
			a = strings.Trim(a, "[]") + ":" + core.Pick(r, []string{"80", "1"})
		default:
			a += ":" + fmt.Sprint(r.Intn(70000))
		}
		u, err := url.Parse("http://" + a)
		if err != nil || u.Host != a {
			ctx.Count("api/host-split/rejected-by-net-url")
			continue
		}
		impl := "ok " + core.HexS(u.Hostname()) + " " + core.HexS(u.Port())
		model := ctx.Model.MustAsk("C04", "hostname", core.HexS(a))
		ctx.Case("hostsplit|"+a, strings.ContainsAny(a, ":["))
		ctx.Count("api/host-split")
		if impl != model {
			ctx.Disagree("url.Hostname/Port = Model urlSplitHostPort", map[string]any{"kind": "host-split", "s": a}, impl, model)
		} else {
			ctx.TraceValidated()
		}
	}
}

func timeFramesAPI(ctx *core.Ctx) {
	n := ctx.N(1500, 15000)
	days := []string{"sun", "mon", "tue", "wed", "thu", "fri", "sat"}
	for i := 0; i < n; i++ {
		r := ctx.Rng.Sub()
		wd := r.Intn(7)
		hs := r.Range(0, 24)
		he := r.Range(hs, 24)
		repr := fmt.Sprintf("%s/%d-%d", core.Pick(r, []string{days[wd], strings.ToUpper(days[wd]), " " + days[wd] + " "}), hs, he)
		e, err := ruleset.ParseTimeFrameEntry(repr)
		if err != nil {
			ctx.Disagree("ParseTimeFrameEntry accepts weekday/start-end", map[string]any{"kind": "time-frame", "repr": repr}, err.Error(), "accepted")
			continue
		}
		// a moment with a chosen weekday and hour (2026-09-20 is a Sunday)
		w, h, m := r.Intn(7), r.Intn(24), r.Intn(60)
		if r.Chance(60) {
			w = wd
		}
		if r.Chance(50) {
			h = core.Pick(r, []int{hs, hs - 1, he, he - 1, (hs + he) / 2})
			if h < 0 || h > 23 {
				h = r.Intn(24)
			}
		}
		t := time.Date(2026, 9, 20+w, h, m, r.Intn(60), 0, time.Local)
		impl := core.B01(e.Match(t))
		model := ctx.Model.MustAsk("C04", "timeframe", fmt.Sprintf("%d-%d-%d", int(e.Weekday), e.HourStart, e.HourEnd), core.Itoa(int(t.Weekday())), core.Itoa(t.Hour()))
		ctx.Case(fmt.Sprintf("timeframe|%s|%d|%d", repr, w, h), true)
		ctx.Count("api/time-frame/" + impl)
		if impl != model {
			ctx.Disagree("TimeFrameEntry.Match = Model TimeFrame.matches", map[string]any{"kind": "time-frame", "repr": repr, "weekday": w, "hour": h}, impl, model)
		} else {
			ctx.TraceValidated()
		}
		// the documented meaning: same weekday and start <= hour < end
		if want := core.B01(w == wd && hs <= h && h < he); impl != want {
			ctx.SpecFail("a time frame allows exactly its weekday's hours [start, end)", "", map[string]any{"kind": "time-frame", "repr": repr, "weekday": w, "hour": h}, impl, want)
		}
	}
}

func basicAuthAPI(ctx *core.Ctx) {
	n := ctx.N(3000, 30000)
	ba := middleware.NewProxyBasicAuth()
	for i := 0; i < n; i++ {
		r := ctx.Rng.Sub()
		vals, label := genAuth(r)
		if r.Chance(10) {
			// arbitrary printable value
			k := r.Range(0, 30)
			var b strings.Builder
			for j := 0; j < k; j++ {
				b.WriteByte(byte(r.Range(33, 126)))
			}
			vals, label = []string{core.Pick(r, []string{"Basic ", "basic ", ""}) + b.String()}, "auth-arbitrary"
		}
		req := &http.Request{Header: http.Header{}}
		for _, v := range vals {
			req.Header.Add("Proxy-Authorization", v)
		}
		impl := core.B01(ba.AuthenticatedRequest(req, authUser, authPass))
		first := ""
		if len(vals) > 0 {
			first = vals[0]
		}
		model := ctx.Model.MustAsk("C04", "auth", core.HexS(authUser), core.HexS(authPass), core.HexS(first))
		cs := map[string]any{"kind": "basic-auth", "values": vals}
		ctx.Case("basicauth|"+strings.Join(vals, "\x00"), len(vals) > 0)
		ctx.Count("api/basic-auth/" + label + "/" + impl)
		if impl != model {
			ctx.Disagree("BasicAuth.AuthenticatedRequest = Model authenticated", cs, impl, model)
		} else {
			ctx.TraceValidated()
		}
		// the property: authenticated iff the first value decodes to exactly the configured pair
		u, p, ok := decodeBasic(first)
		if want := core.B01(first != "" && ok && u == authUser && p == authPass); impl != want {
			ctx.SpecFail("authenticated only by Basic credentials equal to the configured user and password", "", cs, impl, want)
		}
	}
}

// replayAPI re-evaluates one recorded API-level case.
func replayAPI(ctx *core.Ctx, kind string, raw json.RawMessage) {
	var c struct {
		S      string   `json:"s"`
		Values []string `json:"values"`
	}
	json.Unmarshal(raw, &c)
	switch kind {
	case "ip-literal":
		impl, model := ipFields(net.ParseIP(c.S)), ctx.Model.MustAsk("C04", "parseip", core.HexS(c.S))
		ctx.Case("ip|"+c.S, true)
		fmt.Printf("net.ParseIP(%q): impl=%s model=%s\n", c.S, impl, model)
		if impl != model {
			ctx.Disagree("net.ParseIP = Model parseIP", map[string]any{"kind": kind, "s": c.S}, impl, model)
		}
	case "host-split":
		u, err := url.Parse("http://" + c.S)
		if err != nil {
			return
		}
		impl, model := "ok "+core.HexS(u.Hostname())+" "+core.HexS(u.Port()), ctx.Model.MustAsk("C04", "hostname", core.HexS(c.S))
		ctx.Case("hostsplit|"+c.S, true)
		if impl != model {
			ctx.Disagree("url.Hostname/Port = Model urlSplitHostPort", map[string]any{"kind": kind, "s": c.S}, impl, model)
		}
	case "basic-auth":
		req := &http.Request{Header: http.Header{}}
		for _, v := range c.Values {
			req.Header.Add("Proxy-Authorization", v)
		}
		first := ""
		if len(c.Values) > 0 {
			first = c.Values[0]
		}
		impl := core.B01(middleware.NewProxyBasicAuth().AuthenticatedRequest(req, authUser, authPass))
		model := ctx.Model.MustAsk("C04", "auth", core.HexS(authUser), core.HexS(authPass), core.HexS(first))
		ctx.Case("basicauth|"+strings.Join(c.Values, "\x00"), true)
		if impl != model {
			ctx.Disagree("BasicAuth.AuthenticatedRequest = Model authenticated", map[string]any{"kind": kind, "values": c.Values}, impl, model)
		}
	}
}
