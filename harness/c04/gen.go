package c04

import (
	"encoding/base64"
	"fmt"
	"strings"
	"sync/atomic"

	"github.com/saucelabs/forwarder/verifharness/core"
	"github.com/saucelabs/forwarder/verifharness/reqmodel"
	"github.com/saucelabs/forwarder/verifharness/rig"
)

var idSeq atomic.Int64

func b64(s string) string { return base64.StdEncoding.EncodeToString([]byte(s)) }

func randCase(r *core.Rand, s string) string {
	b := []byte(s)
	for i := range b {
		if r.Bool() {
			if b[i] >= 'a' && b[i] <= 'z' {
				b[i] -= 32
			} else if b[i] >= 'A' && b[i] <= 'Z' {
				b[i] += 32
			}
		}
	}
	return string(b)
}

// genAuth draws the Proxy-Authorization field lines of a request and a label (proxy-level cases: the
// one configured pair).
func genAuth(r *core.Rand) ([]string, string) { return genAuthFor(r, authUser, authPass, true) }

func swapCase(s string) string {
	b := []byte(s)
	for i := range b {
		if b[i] >= 'a' && b[i] <= 'z' {
			b[i] -= 32
		} else if b[i] >= 'A' && b[i] <= 'Z' {
			b[i] += 32
		}
	}
	return string(b)
}

func reverse(s string) string {
	b := []byte(s)
	for i, j := 0, len(b)-1; i < j; i, j = i+1, j-1 {
		b[i], b[j] = b[j], b[i]
	}
	return string(b)
}

// nearCredentials draws a credentials string (what goes into base64) that is close to user:pass
// without (in general) being it: whether it is the configured pair is for the oracle to say, from the
// value alone (a shifted colon can land on the configured pair again when the password has colons).
func nearCredentials(r *core.Rand, user, pass string) (string, string) {
	cat := user + pass
	cut := func(s string) int {
		if len(s) == 0 {
			return 0
		}
		return r.Intn(len(s) + 1)
	}
	switch r.Intn(16) {
	case 0, 1, 2:
		// the user/password boundary shifted: same bytes around the colon, another pair
		k := cut(cat)
		if k == len(user) && len(cat) > 0 {
			k = (k + 1 + r.Intn(len(cat))) % (len(cat) + 1)
		}
		return cat[:k] + ":" + cat[k:], "near-shifted-boundary"
	case 3:
		return core.Pick(r, []string{":" + cat, cat + ":", cat, ":" + user + pass + ":", user, pass, ":", "", user + ";" + pass, user + "\x00" + pass,
			user + ": " + pass, user + " :" + pass, user + " : " + pass, user + "=" + pass}), "near-boundary-edge"
	case 4:
		u, p := user, pass
		switch r.Intn(4) {
		case 0:
			u = u[:cut(u)]
		case 1:
			u = u[cut(u):]
		case 2:
			p = p[:cut(p)]
		default:
			p = p[cut(p):]
		}
		return u + ":" + p, "near-prefix-suffix"
	case 5:
		x := core.Pick(r, []string{"x", " ", "\x00", ":", "\n", "\t", user, pass, "0"})
		return core.Pick(r, []string{user + x + ":" + pass, x + user + ":" + pass, user + ":" + pass + x, user + ":" + x + pass}), "near-extended"
	case 6:
		u, p := user, pass
		f := core.Pick(r, []func(string) string{strings.ToUpper, strings.ToLower, swapCase, func(s string) string { return randCase(r, s) }})
		switch r.Intn(3) {
		case 0:
			u = f(u)
		case 1:
			p = f(p)
		default:
			u, p = f(u), f(p)
		}
		return u + ":" + p, "near-case-variant"
	case 7:
		return core.Pick(r, []string{pass + ":" + user, pass + ":" + pass, user + ":" + user, user + ":" + reverse(pass), reverse(user) + ":" + pass,
			reverse(user + ":" + pass), reverse(pass) + ":" + reverse(user)}), "near-swapped-reversed"
	case 8:
		return core.Pick(r, []string{user + "::" + pass, user + ":" + pass + ":", ":" + user + ":" + pass, user + ":::" + pass, "::" + cat}), "near-doubled-colon"
	case 9:
		return core.Pick(r, []string{":" + pass, user + ":", ":", user + ": ", " :" + pass}), "near-empty-part"
	case 10:
		return core.Pick(r, []string{" " + user + ":" + pass, user + " :" + pass, user + ": " + pass, user + ":" + pass + " ", user + ":" + pass + "\n",
			user + ":" + pass + "\r\n", "\t" + user + ":" + pass, user + ":" + pass + "\x00", " " + user + ":" + pass + " "}), "near-space-padded"
	case 11:
		return core.Pick(r, []string{user + ":wrong", "wrong:" + pass, user + ":" + user + pass, cat + ":" + pass, user + ":" + cat, "other:secret"}), "near-one-part-right"
	case 12:
		return core.Pick(r, []string{user + ":" + pass + pass, user + user + ":" + pass, user + ":" + pass + ":" + user + ":" + pass, user + ":" + pass + user + ":" + pass}), "near-repeated"
	case 13, 14:
		// one byte changed, same lengths (also: a multiple-of-256 / bit-flip neighbour)
		b := []byte(user + ":" + pass)
		k := r.Intn(len(b))
		if b[k] == ':' && r.Chance(70) && len(b) > 1 {
			k = (k + 1) % len(b)
		}
		b[k] ^= byte(1 << r.Intn(8))
		return string(b), "near-one-byte-changed"
	default:
		// characters permuted: same multiset of bytes in user and in password
		ub, pb := []byte(user), []byte(pass)
		if r.Bool() {
			core.Shuffle(r, ub)
		} else {
			core.Shuffle(r, pb)
		}
		return string(ub) + ":" + string(pb), "near-permuted"
	}
}

const b64Alphabet = "ABCDEFGHIJKLMNOPQRSTUVWXYZabcdefghijklmnopqrstuvwxyz0123456789+/"

// nonCanonicalB64: another base64 spelling of the same bytes (non-zero padding bits), if there is one.
func nonCanonicalB64(r *core.Rand, good string) (string, bool) {
	g := []byte(good)
	n := len(g)
	switch {
	case n >= 4 && g[n-1] == '=' && g[n-2] == '=':
		i := strings.IndexByte(b64Alphabet, g[n-3])
		g[n-3] = b64Alphabet[i^(1+r.Intn(15))]
	case n >= 4 && g[n-1] == '=':
		i := strings.IndexByte(b64Alphabet, g[n-2])
		g[n-2] = b64Alphabet[i^(1+r.Intn(3))]
	default:
		return good, false
	}
	return string(g), true
}

// schemeSpellings: how the scheme token and the separator may be written (only the first three are
// `Basic` + one space in some case).
var schemeSpellings = []string{"basic ", "BASIC ", "bAsIc ", "Basic", "Basic  ", "Basic\t", "Basic: ", "Basi c ", "Basic,", "Basic=", "Bearer ", "Negotiate ",
	"Digest ", "", "Basic Basic ", "Basicc ", "asic ", "Bäsic ", "Baſic ", "Baſic", "BAſIC "}

// paddingVariants: spellings of a base64 text that differ in padding / alphabet / trailing bytes.
func paddingVariants(r *core.Rand, good string) string {
	raw := strings.TrimRight(good, "=")
	vs := []string{raw, good + "=", good + "==", good + "====", raw + "=", raw + "==", raw + "===", "=" + good, good + "A", good + "AA==", good + " x", good + ",",
		strings.NewReplacer("+", "-", "/", "_").Replace(good), good + good, raw + good}
	if len(good) > 4 {
		vs = append(vs, good[:4]+" "+good[4:], good[:len(good)-2], good[:len(good)-1], good[:4]+"="+good[4:], good[:2]+"=="+good[2:])
	}
	return core.Pick(r, vs)
}

// genAuthFor draws the Proxy-Authorization field lines for the configured pair user/pass and a label.
// wire: the values travel in a serialised request (no leading/trailing white space, which the request
// parser would trim before the control sees the value).
func genAuthFor(r *core.Rand, user, pass string, wire bool) ([]string, string) {
	right := "Basic " + b64(user+":"+pass)
	switch r.Intn(28) {
	case 0, 1:
		return nil, "auth-absent"
	case 2, 3, 4, 5, 6:
		return []string{right}, "auth-right"
	case 7:
		return []string{core.Pick(r, []string{"basic ", "BASIC ", "bAsIc "}) + b64(user+":"+pass)}, "auth-right-scheme-case"
	case 8:
		v := core.Pick(r, []string{"Bearer " + b64(user+":"+pass), "Digest username=\"user\"", "Basic", "Basic" + b64(user+":"+pass),
			"Basic\t" + b64(user+":"+pass), "Negotiate " + b64(user+":"+pass), b64(user + ":" + pass), "Basic  " + b64(user+":"+pass)})
		return []string{v}, "auth-wrong-scheme"
	case 9:
		good := b64(user + ":" + pass)
		v := core.Pick(r, []string{"Basic !!!!", "Basic " + strings.TrimRight(good, "="), "Basic " + good + "=", "Basic " + good + " x", "Basic " + good[:len(good)-2],
			"Basic =" + good, "Basic " + strings.ReplaceAll(good, "c", "-"), "Basic ", "Basic " + good + good[:3], "Basic " + good + "===="})
		return []string{v}, "auth-malformed-base64"
	case 10, 11:
		// prefix / suffix variants of user or password
		u, p := user, pass
		switch r.Intn(8) {
		case 0:
			if len(u) > 0 {
				u = u[:len(u)-1]
			}
		case 1:
			u = u + "x"
		case 2:
			u = "x" + u
		case 3:
			if len(p) > 0 {
				p = p[:len(p)-1]
			}
		case 4:
			p = p + "x"
		case 5:
			p = " " + p
		case 6:
			p = ""
		case 7:
			u = ""
		}
		return []string{"Basic " + b64(u+":"+p)}, "auth-prefix-suffix"
	case 12:
		u, p := user, pass
		if r.Bool() {
			u = strings.ToUpper(u)
		} else {
			p = strings.ToUpper(p)
		}
		return []string{"Basic " + b64(u+":"+p)}, "auth-case-variant"
	case 13:
		v := core.Pick(r, []string{b64(user + pass), b64(user), b64(user + ";" + pass), b64(pass + ":" + user), b64(":" + user + ":" + pass)})
		return []string{"Basic " + v}, "auth-no-colon-or-swapped"
	case 14:
		return []string{"Basic " + b64("other:secret")}, "auth-other-account"
	case 15:
		return []string{"Basic " + b64("other:secret"), right}, "auth-repeated-wrong-first"
	case 16:
		return []string{right, core.Pick(r, []string{"Basic " + b64("other:secret"), "Bearer x", ""})}, "auth-repeated-right-first"
	case 17:
		return []string{"", right}, "auth-repeated-empty-first"
	case 18:
		// a different base64 spelling of the right credentials (non-zero padding bits): same decoded pair
		if v, ok := nonCanonicalB64(r, b64(user+":"+pass)); ok {
			return []string{"Basic " + v}, "auth-right-noncanonical-base64"
		}
		return []string{right}, "auth-right"
	case 19, 20, 21, 22:
		// the "near" family, canonical scheme and encoding
		c, l := nearCredentials(r, user, pass)
		return []string{"Basic " + b64(c)}, "auth-" + l
	case 23:
		// near credentials first, the right ones on a second line (only the first line counts) — or the other way round
		c, l := nearCredentials(r, user, pass)
		if r.Chance(65) {
			return []string{"Basic " + b64(c), right}, "auth-" + l + "-then-right"
		}
		return []string{right, "Basic " + b64(c)}, "auth-right-then-" + l
	case 24:
		// the right (or near) credentials under another spelling of the scheme
		c, l := user+":"+pass, "right"
		if r.Chance(40) {
			c, l = nearCredentials(r, user, pass)
		}
		sp := core.Pick(r, schemeSpellings)
		if wire && (sp == "" || strings.TrimSpace(sp) != sp && strings.TrimSpace(sp) == "") {
			sp = "Basic,"
		}
		return []string{sp + b64(c)}, "auth-scheme-spelling-" + l
	case 25:
		// the right (or near) credentials in another padding / alphabet of base64
		c, l := user+":"+pass, "right"
		if r.Chance(40) {
			c, l = nearCredentials(r, user, pass)
		}
		v := "Basic " + paddingVariants(r, b64(c))
		if wire {
			v = strings.TrimSpace(v)
		}
		return []string{v}, "auth-base64-spelling-" + l
	case 26:
		if wire {
			c, l := nearCredentials(r, user, pass)
			if v, ok := nonCanonicalB64(r, b64(c)); ok {
				return []string{"Basic " + v}, "auth-" + l + "-noncanonical-base64"
			}
			return []string{"Basic " + b64(c)}, "auth-" + l
		}
		// white space around the value (the field value as the control sees it, API level only)
		c, l := user+":"+pass, "right"
		if r.Chance(40) {
			c, l = nearCredentials(r, user, pass)
		}
		return []string{core.Pick(r, []string{" Basic " + b64(c), "Basic " + b64(c) + " ", "\tBasic " + b64(c), "Basic " + b64(c) + "\t", " Basic " + b64(c) + " "})}, "auth-value-white-space-" + l
	default:
		return []string{right}, "auth-right"
	}
}

var (
	routedHosts      = []string{"origin.test", "origin.test", "www.origin.test", "ok.blocked.test", "ok-evil.test", "other.example"}
	deniedHosts      = []string{"a.blocked.test", "x.y.blocked.test", "exact-deny.test", "evil.test", "my-evil-site.example", "ok.blocked.test.evil", "nok.blocked.test"}
	nearDeniedHosts  = []string{"blocked.test", "exact-deny.test.x", "xexact-deny.test", "A.BLOCKED.TEST", "EVIL.test", "blocked.test.example"}
	loopbackLiterals = []string{"127.0.0.1", "127.0.0.2", "127.255.255.254", "127.8.9.10", "[::1]", "[0:0:0:0:0:0:0:1]", "[0000:0000:0000:0000:0000:0000:0000:0001]",
		"[::0:1]", "[0::1]", "[::0001]", "[::ffff:127.0.0.1]", "[::ffff:7f00:1]", "[::FFFF:7F00:0001]", "[0:0:0:0:0:ffff:127.1.2.3]", "[::ffff:127.255.0.1]", "[0:0::0:1]"}
	unspecCanonical    = []string{"0.0.0.0", "[::]"}
	unspecNonCanonical = []string{"[0:0:0:0:0:0:0:0]", "[::0]", "[0::]", "[0::0]", "[::0:0]", "[0000::]", "[::ffff:0.0.0.0]", "[::ffff:0:0]", "[0:0:0:0:0:ffff:0.0.0.0]",
		"[0:0:0:0:0:FFFF:0:0]", "[::0.0.0.0]", "[0:0:0::0:0]"}
	otherLiterals = []string{"10.1.2.3", "128.0.0.1", "126.255.255.255", "1.0.0.127", "[2001:db8::1]", "[::2]", "[::ffff:128.0.0.1]", "[::ffff:10.0.0.1]", "[1::]",
		"[::1:0]", "[fe80::1]", "0.0.0.1", "[::fffe:127.0.0.1]", "[0:0:0:0:0:fffe:0:0]", "1.2.3", "127.1", "0", "0.0.0.00", "127.0.0.01", "[::1", "localhost.example", "notlocalhost", "localhostx"}
)

// genAuthority draws the target authority and a label for it.
func genAuthority(r *core.Rand, names []string, connect bool, hf *hostsFile) (string, string) {
	var host, label string
	pick := r.Intn(20)
	if hf != nil && r.Chance(70) {
		pick = 100
	}
	switch pick {
	case 100:
		// a name of the generated hosts file (of a loopback record or of another one), a built-in name or an IP
		// literal, as spelt and in other letter cases
		host, label = hf.genHost(r)
	case 0, 1, 2, 3, 4:
		host, label = core.Pick(r, routedHosts), "host-routed"
	case 5, 6, 7:
		host, label = core.Pick(r, deniedHosts), "host-denied"
	case 8:
		host, label = core.Pick(r, nearDeniedHosts), "host-near-denied"
	case 9, 10:
		host, label = core.Pick(r, names), "host-localhost-name"
		if strings.Contains(host, ":") {
			host = "[" + host + "]"
		}
		if r.Chance(60) {
			host, label = randCase(r, host), "host-localhost-name-case"
		}
	case 11, 12, 13:
		host, label = core.Pick(r, loopbackLiterals), "host-loopback-literal"
		if r.Chance(30) {
			host = strings.ToUpper(host)
		}
	case 14:
		host, label = core.Pick(r, unspecCanonical), "host-unspecified-canonical"
	case 15, 16, 17:
		host, label = core.Pick(r, unspecNonCanonical), "host-unspecified-noncanonical"
		if r.Chance(30) {
			host = strings.ToUpper(host)
		}
	case 18:
		host, label = core.Pick(r, otherLiterals), "host-other-literal"
	default:
		host, label = randCase(r, core.Pick(r, append(append([]string{}, routedHosts...), deniedHosts...))), "host-case-variant"
	}
	// ports
	switch {
	case connect:
		if r.Chance(92) || strings.HasPrefix(host, "[") && !strings.HasSuffix(host, "]") {
			host += ":" + core.Pick(r, []string{"443", "443", "80", "8443", "22"})
		} else {
			label += ",no-port"
		}
	case r.Chance(55):
		host += ":" + core.Pick(r, []string{"80", "8080", "443", "3000"})
	default:
		label += ",no-port"
	}
	return host, label
}

func genItem(r *core.Rand, names []string, inner bool, last bool, hf *hostsFile) item {
	connect := !inner && r.Chance(28)
	authority, hl := genAuthority(r, names, connect, hf)
	pas, al := genAuth(r)
	label := hl + "," + al
	var extra []rig.Field
	for _, v := range pas {
		n := "Proxy-Authorization"
		if r.Chance(30) {
			n = randCase(r, n)
		}
		extra = append(extra, rig.Field{Name: n, Value: v})
	}
	if r.Chance(15) {
		extra = append(extra, rig.Field{Name: "Connection", Value: core.Pick(r, []string{"Proxy-Authorization", "proxy-authorization, keep-alive", "Keep-Alive"})})
		label += ",connection-nominates"
	}
	if r.Chance(10) {
		extra = append(extra, rig.Field{Name: "Authorization", Value: "Basic " + b64(authUser+":"+authPass)})
		label += ",authorization-decoy"
	}
	id := fmt.Sprintf("c04-%d-%x", idSeq.Add(1), r.U64()&0xffffff)
	if connect {
		fs := []rig.Field{}
		if r.Chance(85) {
			hv := authority
			if r.Chance(15) {
				hv = "other.example:443"
			}
			fs = append(fs, rig.Field{Name: "Host", Value: hv})
		}
		fs = append(fs, rig.Field{Name: "Case-Id", Value: id})
		if r.Chance(30) {
			fs = append(fs, rig.Field{Name: "User-Agent", Value: "curl/8"})
		}
		if r.Chance(15) {
			fs = append(fs, rig.Field{Name: "Proxy-Connection", Value: "Keep-Alive"})
		}
		fs = append(fs, extra...)
		core.Shuffle(r, fs)
		minor := 1
		if r.Chance(10) {
			minor = 0
			fs = append(fs, rig.Field{Name: "Connection", Value: "keep-alive"})
		}
		return item{Connect: &reqmodel.ConnectReq{Authority: authority, Minor: minor, Fields: fs}, Label: label + ",connect"}
	}
	scheme := "http"
	if inner {
		scheme = "https"
	}
	q := reqmodel.GenRequest(r, reqmodel.GenOpts{Host: authority, Scheme: scheme, Last: false, ID: id, AllowBody: false})
	if q.Minor == 0 && last {
		// an HTTP/1.0 request without keep-alive ends the connection: fine for a last request
	}
	// own Proxy-Authorization lines only
	var fs []rig.Field
	for _, f := range q.Fields {
		if strings.EqualFold(f.Name, "Proxy-Authorization") {
			continue
		}
		fs = append(fs, f)
	}
	at := r.Intn(len(fs) + 1)
	fs = append(fs[:at:at], append(extra, fs[at:]...)...)
	q.Fields = fs
	if q.Method == "POST" || q.Method == "PUT" {
		if r.Chance(60) && !hasField(fs, "Content-Length") && !hasField(fs, "Transfer-Encoding") {
			body := r.Bytes(r.Range(1, 300))
			q.BodyHex = core.Hex(body)
			q.Fields = append(q.Fields, rig.Field{Name: "Content-Length", Value: fmt.Sprint(len(body))})
			label += ",body"
		}
	}
	if q.Absolute {
		label += ",absolute-form"
	} else {
		label += ",origin-form"
	}
	return item{Req: q, Label: label}
}

func hasField(fs []rig.Field, n string) bool {
	for _, f := range fs {
		if strings.EqualFold(f.Name, n) {
			return true
		}
	}
	return false
}

// rightAuthField is what a client that knows the credentials sends.
func rightAuthField() rig.Field {
	return rig.Field{Name: "Proxy-Authorization", Value: "Basic " + b64(authUser+":"+authPass)}
}

func genConn(r *core.Rand, names []string) *connCase { return genConnWith(r, names, nil) }

func genConnWith(r *core.Rand, names []string, hf *hostsFile) *connCase {
	cc := &connCase{Kind: "conn", Mask: r.Intn(16), TimeOpen: r.Chance(75), Mode: core.Pick(r, []string{"direct", "direct", "upstream", "mitm"})}
	if cc.Mask&ctlTime != 0 && r.Chance(30) {
		cc.Frames = core.Pick(r, frameKinds)
	}
	if hf != nil {
		cc.Mode = hf.mode
	}
	if cc.Mode != "mitm" && r.Chance(35) {
		// every configuration also runs served through martian's http.Handler (no interception there)
		// (with the day-granular time frames only: the frame families are about the clock, not about the serving path)
		cc.Server, cc.Frames = "handler", ""
	}
	n := r.Range(1, 4)
	if cc.Mode == "mitm" {
		// some requests before the tunnel, then a CONNECT that has a good chance of being accepted,
		// then requests inside the intercepted session
		pre := r.Intn(2)
		for i := 0; i < pre; i++ {
			cc.Items = append(cc.Items, genItem(r, names, false, false, hf))
		}
		fs := []rig.Field{{Name: "Host", Value: "origin.test:443"}, {Name: "Case-Id", Value: fmt.Sprintf("c04-%d-open", idSeq.Add(1))}}
		label := "host-routed,connect,mitm-open"
		if r.Chance(85) {
			fs = append(fs, rightAuthField())
			label += ",auth-right"
		} else {
			label += ",auth-absent"
		}
		cc.Items = append(cc.Items, item{Connect: &reqmodel.ConnectReq{Authority: "origin.test:443", Minor: 1, Fields: fs}, Label: label})
		for i := 0; i < n; i++ {
			cc.Items = append(cc.Items, genItem(r, names, true, i == n-1, hf))
		}
		return cc
	}
	for i := 0; i < n; i++ {
		cc.Items = append(cc.Items, genItem(r, names, false, i == n-1, hf))
	}
	return cc
}

// targetMatrix: the target forms (origin-form, absolute-form, CONNECT authority) crossed with every host class,
// both serving paths and both routes, under the host controls alone and together with the others: one request per
// connection whose credentials are right and whose clock is inside the frame, so that the host controls decide.
func targetMatrix(r *core.Rand, names []string) []*connCase {
	var local []string
	for _, n := range names {
		if strings.Contains(n, ":") {
			n = "[" + n + "]"
		}
		local = append(local, n)
	}
	classes := []struct {
		label string
		hosts []string
	}{
		{"host-routed", routedHosts}, {"host-denied", deniedHosts}, {"host-near-denied", nearDeniedHosts}, {"host-localhost-name", local},
		{"host-loopback-literal", loopbackLiterals}, {"host-unspecified-canonical", unspecCanonical},
		{"host-unspecified-noncanonical", unspecNonCanonical}, {"host-other-literal", otherLiterals},
	}
	var out []*connCase
	for _, server := range []string{"", "handler"} {
		for _, mode := range []string{"direct", "upstream"} {
			for _, mask := range []int{ctlLocal, ctlDeny, ctlLocal | ctlDeny | ctlAuth, ctlLocal | ctlDeny | ctlAuth | ctlTime} {
				for _, form := range []string{"origin-form", "absolute-form", "authority-form"} {
					for _, cl := range classes {
						host, label := core.Pick(r, cl.hosts), cl.label
						if cl.label == "host-localhost-name" && r.Bool() {
							host, label = randCase(r, host), "host-localhost-name-case"
						}
						cc := &connCase{Kind: "conn", Mask: mask, TimeOpen: true, Mode: mode, Server: server}
						cc.Items = []item{matrixItem(r, host, label, form, mask&ctlAuth != 0)}
						out = append(out, cc)
					}
				}
			}
		}
	}
	return out
}

func matrixItem(r *core.Rand, host, label, form string, auth bool) item {
	id := fmt.Sprintf("c04-%d-%x", idSeq.Add(1), r.U64()&0xffffff)
	label += "," + form + ",matrix"
	if form == "authority-form" {
		fs := []rig.Field{{Name: "Host", Value: host + ":443"}, {Name: "Case-Id", Value: id}}
		if auth {
			fs = append(fs, rightAuthField())
		}
		return item{Connect: &reqmodel.ConnectReq{Authority: host + ":443", Minor: 1, Fields: fs}, Label: label + ",connect"}
	}
	if r.Bool() || strings.HasPrefix(host, "[") && !strings.HasSuffix(host, "]") {
		host += ":" + core.Pick(r, []string{"80", "8080", "443", "3000"})
	} else {
		label += ",no-port"
	}
	var q *reqmodel.Request
	for {
		q = reqmodel.GenRequest(r, reqmodel.GenOpts{Host: host, Scheme: "http", Last: false, ID: id, AllowBody: false})
		if q.Absolute == (form == "absolute-form") {
			break
		}
	}
	var fs []rig.Field
	for _, f := range q.Fields {
		if !strings.EqualFold(f.Name, "Proxy-Authorization") {
			fs = append(fs, f)
		}
	}
	if auth {
		fs = append(fs, rightAuthField())
	}
	q.Fields = fs
	return item{Req: q, Label: label}
}
