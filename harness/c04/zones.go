package c04

// The allowed time frame is read on the machine's LOCAL wall clock (time.Now() carries time.Local).
// The sandbox runs in UTC, where local and UTC clocks coincide; so part of the scenario runs in child
// processes whose local zone is something else: either TZ=<IANA name> in the child's environment (the
// way a deployment gets its zone) or time.Local assigned a fixed offset before anything starts (offsets
// chosen from the current UTC time so that the local weekday differs from the UTC weekday, :30/:45
// offsets …). A child generates keep-alive connections like the parent, always with the time-frame
// control enabled and with hour-granular frame families laid around the local and the UTC wall clock,
// judges them against its own model process and hands its counters and findings back (core.Ctx.Dump).

import (
	"bytes"
	"encoding/json"
	"fmt"
	"os"
	"os/exec"
	"path/filepath"
	"strconv"
	"strings"
	"sync"
	"time"

	"github.com/saucelabs/forwarder/verifharness/core"
	"github.com/saucelabs/forwarder/verifharness/reqmodel"
)

const childEnv = "VERIF_CHILD"

// currentZone is the zone spec this process runs under ("" = the harness's own environment).
var currentZone string

var dayNames = []string{"sun", "mon", "tue", "wed", "thu", "fri", "sat"}

// frameKinds: hour-granular frame families; each is laid out from the wall clock at proxy start and
// judged at request time on the wall clock of that moment (so a family is not "open" or "closed" by
// construction: the oracle decides).
var frameKinds = []string{"this-hour", "all-but-this-hour", "from-this-hour", "until-this-hour", "next-hour", "previous-hour",
	"other-days-this-hour", "utc-hour", "utc-day-all-but-utc-hour", "utc-day", "all-but-utc-day", "random"}

func hourFrames(kind string, now time.Time) []reqmodel.TimeFrame {
	wd, h := wallClock(now)
	uwd, uh := wallClock(now.UTC())
	tf := func(w, a, b int) reqmodel.TimeFrame { return reqmodel.TimeFrame{Weekday: ((w % 7) + 7) % 7, HourStart: a, HourEnd: b} }
	switch kind {
	case "this-hour":
		return []reqmodel.TimeFrame{tf(wd, h, h+1)}
	case "all-but-this-hour":
		return []reqmodel.TimeFrame{tf(wd, 0, h), tf(wd, h+1, 24)}
	case "from-this-hour":
		return []reqmodel.TimeFrame{tf(wd, h, 24)}
	case "until-this-hour":
		return []reqmodel.TimeFrame{tf(wd, 0, h)}
	case "next-hour":
		if h == 23 {
			return []reqmodel.TimeFrame{tf(wd+1, 0, 1)}
		}
		return []reqmodel.TimeFrame{tf(wd, h+1, h+2)}
	case "previous-hour":
		if h == 0 {
			return []reqmodel.TimeFrame{tf(wd-1, 23, 24)}
		}
		return []reqmodel.TimeFrame{tf(wd, h-1, h)}
	case "other-days-this-hour":
		var out []reqmodel.TimeFrame
		for d := 1; d < 7; d++ {
			out = append(out, tf(wd+d, h, h+1))
		}
		return out
	case "utc-hour":
		return []reqmodel.TimeFrame{tf(uwd, uh, uh+1)}
	case "utc-day-all-but-utc-hour":
		return []reqmodel.TimeFrame{tf(uwd, 0, uh), tf(uwd, uh+1, 24)}
	case "utc-day":
		return []reqmodel.TimeFrame{tf(uwd, 0, 24)}
	case "all-but-utc-day":
		var out []reqmodel.TimeFrame
		for d := 1; d < 7; d++ {
			out = append(out, tf(uwd+d, 0, 24))
		}
		return out
	default: // "random": derived from the clock so that a replay in the same hour lays the same frames
		r := core.NewRand(uint64(now.Unix()/3600)*977 + uint64(len(kind)))
		n := r.Range(1, 4)
		var out []reqmodel.TimeFrame
		for i := 0; i < n; i++ {
			a := r.Range(0, 24)
			out = append(out, tf(wd+core.Pick(r, []int{0, 0, 0, 1, 6, r.Intn(7)}), a, r.Range(a, 24)))
		}
		return out
	}
}

// ---- zones ----

var namedZones = []string{"Asia/Kolkata", "Asia/Kathmandu", "America/St_Johns", "Australia/Eucla", "Pacific/Chatham", "Pacific/Kiritimati",
	"Pacific/Pago_Pago", "America/Los_Angeles", "Europe/Berlin", "Asia/Tokyo", "Pacific/Marquesas", "Etc/GMT+12", "Australia/Adelaide", "America/Caracas"}

// offsets of fixed zones (seconds east of UTC): whole hours, :30 and :45, east and west, the extremes
var fixedOffsets = []int{3600, -3600, 7200, 10800, -10800, -18000, 28800, -28800, 43200, -43200, 50400, 46800, 12600, 16200, 19800, 20700, 23400, 31500,
	34200, 37800, 45900, 49500, -12600, -9000, -34200}

// weekdayShiftingOffsets: fixed offsets (whole hours, and one with :30) under which the local weekday
// differs from the UTC weekday right now (and for at least the next half hour).
func weekdayShiftingOffsets(nowUTC time.Time) []int {
	h := nowUTC.Hour()
	var out []int
	if e := 24 - h; e <= 14 {
		out = append(out, e*3600)
		if e+1 <= 13 {
			out = append(out, (e+1)*3600+1800)
		}
	}
	if w := h + 2; w <= 12 {
		out = append(out, -w*3600)
	} else if w := h + 1; w <= 12 {
		out = append(out, -w*3600)
	}
	if w := h + 1; w <= 11 {
		out = append(out, -w*3600-1800)
	}
	return out
}

func fixedSpec(off int) string { return fmt.Sprintf("fixed:%+d", off) }

// applyZone makes spec this process's local zone; it returns the zone's offset now.
func applyZone(spec string) (int, error) {
	switch {
	case strings.HasPrefix(spec, "fixed:"):
		off, err := strconv.Atoi(strings.TrimPrefix(spec, "fixed:"))
		if err != nil {
			return 0, err
		}
		sign, a := "+", off
		if a < 0 {
			sign, a = "-", -a
		}
		time.Local = time.FixedZone(fmt.Sprintf("F%s%02d%02d", sign, a/3600, a%3600/60), off)
		return off, nil
	case strings.HasPrefix(spec, "tz:"):
		// TZ was set by the parent; time.Local initialises itself from it
		if os.Getenv("TZ") != strings.TrimPrefix(spec, "tz:") {
			return 0, fmt.Errorf("TZ=%q does not name the zone of %q", os.Getenv("TZ"), spec)
		}
		_, off := time.Now().Zone()
		return off, nil
	}
	return 0, fmt.Errorf("unknown zone spec %q", spec)
}

type zoneJob struct {
	Zone       string     `json:"zone"`
	Seed       uint64     `json:"seed"`
	Conns      int        `json:"conns"`
	Cases      []connCase `json:"cases,omitempty"` // replay: run exactly these
	WantOffset *int       `json:"want_offset,omitempty"`
	Out        string     `json:"out"`
}

// maybeZoneChild turns this process into a zone child when it was started as one (never returns then).
func maybeZoneChild(ctx *core.Ctx) {
	v := os.Getenv(childEnv)
	if !strings.HasPrefix(v, "c04:") {
		return
	}
	fail := func(format string, a ...any) {
		fmt.Fprintf(os.Stderr, "c04 child: "+format+"\n", a...)
		os.Exit(3)
	}
	b, err := os.ReadFile(strings.TrimPrefix(v, "c04:"))
	if err != nil {
		fail("%v", err)
	}
	var job zoneJob
	if err := json.Unmarshal(b, &job); err != nil {
		fail("%v", err)
	}
	off, err := applyZone(job.Zone)
	if err != nil {
		fail("%v", err)
	}
	if job.WantOffset != nil && *job.WantOffset != off {
		fail("zone %s: offset %d in effect, expected %d", job.Zone, off, *job.WantOffset)
	}
	if _, o := time.Now().Zone(); o != off {
		fail("zone %s is not in effect (offset %d)", job.Zone, o)
	}
	currentZone = job.Zone
	pool := newEnvPool(ctx)
	cases := make(chan *connCase, 16)
	var wg sync.WaitGroup
	for w := 0; w < 6; w++ {
		wg.Add(1)
		go func() {
			defer wg.Done()
			for cc := range cases {
				e, err := pool.getSrc(cc.Mask, cc.TimeOpen, cc.Mode, cc.Frames, cc.hostsSrc(), cc.Server)
				if err != nil {
					ctx.Crash("proxy starts with a valid configuration", "", cc, err.Error())
					continue
				}
				e.runConn(ctx, cc)
			}
		}()
	}
	if len(job.Cases) > 0 {
		for i := range job.Cases {
			cases <- &job.Cases[i]
		}
	} else {
		rng := core.NewRand(job.Seed)
		for i := 0; i < job.Conns; i++ {
			cases <- genZoneConn(rng.Sub(), localNames(), job.Zone)
		}
	}
	close(cases)
	wg.Wait()
	pool.closeAll()
	if err := os.WriteFile(job.Out, ctx.Dump(), 0o644); err != nil {
		fail("%v", err)
	}
	ctx.Model.Close()
	os.Exit(0)
}

// genZoneConn: a connection for a zone child — the time-frame control is always on (alone in a third
// of the cases, so that its verdict is what the client sees), mostly with an hour-granular family.
func genZoneConn(r *core.Rand, names []string, zone string) *connCase {
	cc := genConn(r, names)
	cc.Zone = zone
	cc.Mask |= ctlTime
	if r.Chance(35) {
		cc.Mask = ctlTime
	}
	if r.Chance(90) {
		cc.Frames = core.Pick(r, frameKinds)
	}
	if cc.Mask&ctlAuth != 0 && r.Chance(60) {
		// let the credentials be right more often, so that the time frame decides
		for i := range cc.Items {
			it := &cc.Items[i]
			if len(paValues(it.fields())) > 0 {
				continue
			}
			if it.Connect != nil {
				it.Connect.Fields = append(it.Connect.Fields, rightAuthField())
			} else {
				it.Req.Fields = append(it.Req.Fields, rightAuthField())
			}
		}
	}
	return cc
}

var zoneSeq struct {
	sync.Mutex
	n int
}

// runZoneChild runs a job in a child process under the job's zone and absorbs what it found.
func runZoneChild(ctx *core.Ctx, job zoneJob) {
	zoneSeq.Lock()
	zoneSeq.n++
	n := zoneSeq.n
	zoneSeq.Unlock()
	dir := filepath.Join(ctx.Root, ".work")
	os.MkdirAll(dir, 0o755)
	base := filepath.Join(dir, fmt.Sprintf("c04-zone-%d-%d", os.Getpid(), n))
	job.Out = base + ".out.json"
	b, _ := json.Marshal(job)
	if err := os.WriteFile(base+".json", b, 0o644); err != nil {
		core.Fatalf("cannot write zone job: %v", err)
	}
	defer os.Remove(base + ".json")
	defer os.Remove(job.Out)
	// this very binary, also when the file was replaced by a newer build meanwhile
	exe := "/proc/self/exe"
	if _, err := os.Stat(exe); err != nil {
		if exe, err = os.Executable(); err != nil {
			core.Fatalf("os.Executable: %v", err)
		}
	}
	cmd := exec.Command(exe, "--root", ctx.Root, "--tier", ctx.Tier, "--no-proofs", "C04")
	env := []string{}
	for _, kv := range os.Environ() {
		if !strings.HasPrefix(kv, "TZ=") && !strings.HasPrefix(kv, childEnv+"=") {
			env = append(env, kv)
		}
	}
	env = append(env, childEnv+"=c04:"+base+".json")
	if name, ok := strings.CutPrefix(job.Zone, "tz:"); ok {
		env = append(env, "TZ="+name)
	}
	cmd.Env = env
	var stderr, stdout bytes.Buffer
	cmd.Stderr, cmd.Stdout = &stderr, &stdout
	if err := cmd.Start(); err != nil {
		core.Fatalf("cannot start zone child: %v", err)
	}
	done := make(chan error, 1)
	go func() { done <- cmd.Wait() }()
	var werr error
	select {
	case werr = <-done:
	case <-time.After(time.Duration(120+job.Conns/2) * time.Second):
		cmd.Process.Kill()
		<-done
		ctx.Crash("the proxy keeps answering under local zone "+job.Zone, "", job, "zone child did not finish; stderr: "+tail(stderr.String(), 1500))
		return
	}
	out, rerr := os.ReadFile(job.Out)
	if werr != nil || rerr != nil {
		if strings.Contains(stderr.String(), "c04 child:") || strings.Contains(stderr.String(), "fwdcheck: fatal:") {
			core.Fatalf("zone child %s could not set up: %s", job.Zone, tail(stderr.String(), 1500))
		}
		ctx.Crash("the proxy process survives requests under local zone "+job.Zone, "", job, fmt.Sprintf("zone child died: %v; stderr: %s", werr, tail(stderr.String(), 1500)))
		return
	}
	if err := ctx.Absorb(out); err != nil {
		core.Fatalf("zone child %s: unreadable result: %v", job.Zone, err)
	}
}

func tail(s string, n int) string {
	if len(s) > n {
		return "…" + s[len(s)-n:]
	}
	return s
}

// runZones: the zone part of a run.
func runZones(ctx *core.Ctx) {
	r := ctx.Rng.Sub()
	now := time.Now().UTC()
	var specs []string
	shifting := weekdayShiftingOffsets(now)
	var named []string
	for _, n := range namedZones {
		if _, err := time.LoadLocation(n); err == nil {
			named = append(named, n)
		} else {
			ctx.Count("zone-unavailable/" + n)
		}
	}
	core.Shuffle(r, named)
	fixed := append([]int{}, fixedOffsets...)
	core.Shuffle(r, fixed)
	if ctx.Quick() {
		specs = append(specs, fixedSpec(core.Pick(r, shifting)))
		if len(shifting) > 1 {
			specs = append(specs, fixedSpec(shifting[len(shifting)-1]))
		}
		specs = append(specs, fixedSpec(fixed[0]))
		for i := 0; i < 3 && i < len(named); i++ {
			specs = append(specs, "tz:"+named[i])
		}
	} else {
		for _, o := range shifting {
			specs = append(specs, fixedSpec(o))
		}
		for _, o := range fixed[:8] {
			specs = append(specs, fixedSpec(o))
		}
		for _, n := range named {
			specs = append(specs, "tz:"+n)
		}
	}
	seen := map[string]bool{}
	sem := make(chan struct{}, 3)
	var wg sync.WaitGroup
	for _, sp := range specs {
		if seen[sp] {
			continue
		}
		seen[sp] = true
		job := zoneJob{Zone: sp, Seed: r.U64(), Conns: ctx.N(110, 700)}
		if name, ok := strings.CutPrefix(sp, "tz:"); ok {
			loc, _ := time.LoadLocation(name)
			_, off := time.Now().In(loc).Zone()
			if _, o2 := time.Now().Add(10 * time.Minute).In(loc).Zone(); o2 == off {
				job.WantOffset = &off
			}
		}
		wg.Add(1)
		sem <- struct{}{}
		go func() {
			defer wg.Done()
			defer func() { <-sem }()
			runZoneChild(ctx, job)
		}()
	}
	wg.Wait()
	ctx.Extra("local_time_zones_run", len(seen))
}
