package srcgen

import (
	"fmt"
	"strings"

	"github.com/saucelabs/forwarder/verifharness/core"
)

// prepare runs one generator and reports what it could not translate as a correspondence break of
// the property (never as a machinery failure: a change to /repo can cause it).
func prepare(ctx *core.Ctx, module, what string, gen func(repo string) (string, error)) {
	content, err := gen(RepoDir())
	if err != nil {
		ctx.Disagree("the translator can read "+what+" off the source (lean/FwdVerif/Model/"+module+".lean is regenerated on every run)",
			map[string]string{"module": module}, err.Error(), "")
		return
	}
	rewritten, werr := WriteIfChanged(ctx.Root, module, content)
	if werr != nil {
		core.Fatalf("srcgen: %v", werr)
	}
	ctx.Extra("generated_"+module+"_rewritten", rewritten)
	ctx.Extra("generated_"+module+"_bytes", len(content))
}

// PrepareC20 regenerates Model/C20Gen.lean: `defaultMaxBurstSize` and `newRateLimiter` of
// ratelimit/ratelimit.go, translated statement by statement.
func PrepareC20(ctx *core.Ctx) {
	prepare(ctx, "C20Gen", "ratelimit/ratelimit.go (defaultMaxBurstSize, newRateLimiter)", func(repo string) (string, error) {
		f, err := Parse(repo, "ratelimit/ratelimit.go")
		if err != nil {
			return "", err
		}
		c, err := f.IntConst("defaultMaxBurstSize")
		if err != nil {
			return "", err
		}
		fn, err := f.IntFunc("newRateLimiter")
		if err != nil {
			return "", err
		}
		return Module("C20Gen", "ratelimit/ratelimit.go", []string{
			fmt.Sprintf("def defaultMaxBurstSize : Int := %d", c),
			"/-- `newRateLimiter(bandwidth)`: the arguments of `rate.NewLimiter` (rate in bytes/s, burst) -/\n" + fn,
		}), nil
	})
}

// PrepareC09 regenerates Model/C09Gen.lean: the protocol constants of internal/martian/h2/relay.go.
func PrepareC09(ctx *core.Ctx) {
	prepare(ctx, "C09Gen", "internal/martian/h2/relay.go (protocol constants)", func(repo string) (string, error) {
		f, err := Parse(repo, "internal/martian/h2/relay.go")
		if err != nil {
			return "", err
		}
		var defs []string
		for _, n := range []string{"initialMaxFrameSize", "initialMaxHeaderTableSize", "defaultInitialWindowSize", "headersPriorityMetadataLength"} {
			v, err := f.IntConst(n)
			if err != nil {
				return "", err
			}
			defs = append(defs, fmt.Sprintf("def %s : Int := %d", n, v))
		}
		return Module("C09Gen", "internal/martian/h2/relay.go", defs), nil
	})
}

// PrepareC01 regenerates Model/C01Gen.lean: the hop-by-hop field table of
// internal/martian/header/hopbyhop_modifier.go (shared by requests and responses).
func PrepareC01(ctx *core.Ctx) { prepareHop(ctx, "C01Gen") }

// PrepareC02 is the same table for the response side (a module of its own, so that checks of the
// two properties running at the same time do not write one file).
func PrepareC02(ctx *core.Ctx) { prepareHop(ctx, "C02Gen") }

func prepareHop(ctx *core.Ctx, module string) {
	prepare(ctx, module, "internal/martian/header/hopbyhop_modifier.go (hopByHopHeaders)", func(repo string) (string, error) {
		f, err := Parse(repo, "internal/martian/header/hopbyhop_modifier.go")
		if err != nil {
			return "", err
		}
		hs, err := f.StringSlice("hopByHopHeaders")
		if err != nil {
			return "", err
		}
		var q []string
		for _, h := range hs {
			q = append(q, LeanStr(h))
		}
		return Module(module, "internal/martian/header/hopbyhop_modifier.go", []string{
			"def hopByHopHeaders : List String := [" + strings.Join(q, ", ") + "]",
		}), nil
	})
}

// PrepareC04 / PrepareC05 regenerate Model/C04Gen.lean / C05Gen.lean: the built-in localhost names
// the proxy starts with (`localhost: []string{…}` in http_proxy.go), to which the hosts-file aliases
// are appended.
func PrepareC04(ctx *core.Ctx) { prepareLocalhost(ctx, "C04Gen") }
func PrepareC05(ctx *core.Ctx) { prepareLocalhost(ctx, "C05Gen") }

func prepareLocalhost(ctx *core.Ctx, module string) {
	prepare(ctx, module, "http_proxy.go (the built-in localhost names)", func(repo string) (string, error) {
		f, err := Parse(repo, "http_proxy.go")
		if err != nil {
			return "", err
		}
		hs, err := f.FieldStringSlice("localhost")
		if err != nil {
			return "", err
		}
		var q []string
		for _, h := range hs {
			q = append(q, LeanStr(h))
		}
		return Module(module, "http_proxy.go", []string{
			"def builtinLocalhost : List String := [" + strings.Join(q, ", ") + "]",
		}), nil
	})
}
