// Package srcgen is the small translator that regenerates, on every run, the parts of the Lean model
// that can be read off /repo's source mechanically: integer constants, string tables and
// straight-line integer functions. The generated modules (lean/FwdVerif/Model/C01Gen.lean,
// C09Gen.lean, C20Gen.lean) are tied to the hand-written models by theorems in Theorems/Cxx.lean
// (c01_generated_…, c09_generated_…, c20_generated_…), so a change of the translated source breaks a
// proof obligation of the property even where the sampled correspondence run would not reach it.
//
// Only syntax is used (go/parser, go/ast; constant expressions of literals are folded with
// go/types.Eval in the universe scope). What the translator does not understand is an error, never
// a guess.
package srcgen

import (
	"fmt"
	"go/ast"
	"go/constant"
	"go/parser"
	"go/printer"
	"go/token"
	"go/types"
	"os"
	"path/filepath"
	"strconv"
	"strings"
)

// File is one parsed source file of the tree under verification.
type File struct {
	Path string
	fset *token.FileSet
	f    *ast.File
}

func Parse(repo, rel string) (*File, error) {
	fset := token.NewFileSet()
	p := filepath.Join(repo, rel)
	f, err := parser.ParseFile(fset, p, nil, parser.SkipObjectResolution)
	if err != nil {
		return nil, err
	}
	return &File{Path: rel, fset: fset, f: f}, nil
}

func (s *File) text(n ast.Node) string {
	var b strings.Builder
	_ = printer.Fprint(&b, s.fset, n)
	return b.String()
}

// IntConst folds the package-level constant `name` whose initialiser is an expression of integer
// literals and of other such constants of the same file.
func (s *File) IntConst(name string) (int64, error) {
	return s.intConst(name, 0)
}

func (s *File) intConst(name string, depth int) (int64, error) {
	if depth > 8 {
		return 0, fmt.Errorf("%s: constant %s: reference chain too deep", s.Path, name)
	}
	for _, d := range s.f.Decls {
		gd, ok := d.(*ast.GenDecl)
		if !ok || gd.Tok != token.CONST {
			continue
		}
		for _, sp := range gd.Specs {
			vs := sp.(*ast.ValueSpec)
			for i, n := range vs.Names {
				if n.Name != name {
					continue
				}
				if i >= len(vs.Values) {
					return 0, fmt.Errorf("%s: constant %s has no initialiser of its own (iota group?)", s.Path, name)
				}
				return s.foldInt(vs.Values[i], depth)
			}
		}
	}
	return 0, fmt.Errorf("%s: no package-level constant %s", s.Path, name)
}

func (s *File) foldInt(e ast.Expr, depth int) (int64, error) {
	// substitute identifiers by the constants of this file, then fold
	var err error
	subst := map[string]int64{}
	ast.Inspect(e, func(n ast.Node) bool {
		if id, ok := n.(*ast.Ident); ok && err == nil {
			if _, seen := subst[id.Name]; !seen {
				var v int64
				v, err = s.intConst(id.Name, depth+1)
				subst[id.Name] = v
			}
		}
		if _, ok := n.(*ast.SelectorExpr); ok && err == nil {
			err = fmt.Errorf("%s: constant expression %q refers to another package", s.Path, s.text(e))
		}
		return err == nil
	})
	if err != nil {
		return 0, err
	}
	src := s.text(e)
	pkg := types.NewPackage("srcgen", "srcgen")
	for k, v := range subst {
		pkg.Scope().Insert(types.NewConst(token.NoPos, pkg, k, types.Typ[types.UntypedInt], constant.MakeInt64(v)))
	}
	tv, terr := types.Eval(token.NewFileSet(), pkg, token.NoPos, src)
	if terr != nil {
		return 0, fmt.Errorf("%s: cannot fold %q: %v", s.Path, src, terr)
	}
	if tv.Value == nil {
		return 0, fmt.Errorf("%s: %q is not constant", s.Path, src)
	}
	v, perr := strconv.ParseInt(tv.Value.ExactString(), 10, 64)
	if perr != nil {
		return 0, fmt.Errorf("%s: %q = %s is not an int64", s.Path, src, tv.Value.ExactString())
	}
	return v, nil
}

// StringSlice returns the elements of the package-level `var name = []string{…}` (string literals only).
func (s *File) StringSlice(name string) ([]string, error) {
	for _, d := range s.f.Decls {
		gd, ok := d.(*ast.GenDecl)
		if !ok || gd.Tok != token.VAR {
			continue
		}
		for _, sp := range gd.Specs {
			vs := sp.(*ast.ValueSpec)
			for i, n := range vs.Names {
				if n.Name != name || i >= len(vs.Values) {
					continue
				}
				cl, ok := vs.Values[i].(*ast.CompositeLit)
				if !ok || s.text(cl.Type) != "[]string" {
					return nil, fmt.Errorf("%s: %s is not a []string literal", s.Path, name)
				}
				var out []string
				for _, el := range cl.Elts {
					bl, ok := el.(*ast.BasicLit)
					if !ok || bl.Kind != token.STRING {
						return nil, fmt.Errorf("%s: %s has an element that is not a string literal: %s", s.Path, name, s.text(el))
					}
					v, err := strconv.Unquote(bl.Value)
					if err != nil {
						return nil, err
					}
					out = append(out, v)
				}
				return out, nil
			}
		}
	}
	return nil, fmt.Errorf("%s: no package-level []string variable %s", s.Path, name)
}

// IntFunc translates a function whose parameters are integers and whose body is a straight line of
//
//	x := e | x = e | if a OP b { x = e … } | return CALL(… e1 … e2 …)
//
// into a Lean definition over Int returning the tuple of the integer arguments found (in source
// order, conversions such as int(·), int64(·), rate.Limit(·) looked through) in the returned call.
// Division is Go's truncated division (Int.tdiv), as are the comparison operators Go's.
func (s *File) IntFunc(name string) (string, error) {
	var fd *ast.FuncDecl
	for _, d := range s.f.Decls {
		if f, ok := d.(*ast.FuncDecl); ok && f.Recv == nil && f.Name.Name == name {
			fd = f
		}
	}
	if fd == nil || fd.Body == nil {
		return "", fmt.Errorf("%s: no function %s", s.Path, name)
	}
	var params []string
	for _, fl := range fd.Type.Params.List {
		t := s.text(fl.Type)
		if !isIntType(t) {
			return "", fmt.Errorf("%s: %s: parameter of type %s", s.Path, name, t)
		}
		for _, n := range fl.Names {
			params = append(params, n.Name)
		}
	}
	var b strings.Builder
	fmt.Fprintf(&b, "def %s", name)
	for _, p := range params {
		fmt.Fprintf(&b, " (%s : Int)", p)
	}
	var lines []string
	nCond := 0
	var ret []string
	for i, st := range fd.Body.List {
		switch st := st.(type) {
		case *ast.AssignStmt:
			l, err := s.assign(st)
			if err != nil {
				return "", err
			}
			lines = append(lines, l)
		case *ast.IfStmt:
			if st.Init != nil || st.Else != nil {
				return "", fmt.Errorf("%s: %s: if with init or else", s.Path, name)
			}
			c, err := s.cond(st.Cond)
			if err != nil {
				return "", err
			}
			nCond++
			cv := fmt.Sprintf("c%d", nCond)
			lines = append(lines, fmt.Sprintf("let %s : Bool := decide (%s)", cv, c))
			for _, bs := range st.Body.List {
				as, ok := bs.(*ast.AssignStmt)
				if !ok || as.Tok != token.ASSIGN || len(as.Lhs) != 1 || len(as.Rhs) != 1 {
					return "", fmt.Errorf("%s: %s: unsupported statement in if body: %s", s.Path, name, s.text(bs))
				}
				id, ok := as.Lhs[0].(*ast.Ident)
				if !ok {
					return "", fmt.Errorf("%s: %s: unsupported assignment target %s", s.Path, name, s.text(as.Lhs[0]))
				}
				e, err := s.expr(as.Rhs[0])
				if err != nil {
					return "", err
				}
				lines = append(lines, fmt.Sprintf("let %s : Int := if %s then %s else %s", id.Name, cv, e, id.Name))
			}
		case *ast.ReturnStmt:
			if i != len(fd.Body.List)-1 || len(st.Results) != 1 {
				return "", fmt.Errorf("%s: %s: unsupported return", s.Path, name)
			}
			call, ok := st.Results[0].(*ast.CallExpr)
			if !ok {
				return "", fmt.Errorf("%s: %s: return of something that is not a call", s.Path, name)
			}
			for _, a := range call.Args {
				e, err := s.expr(a)
				if err != nil {
					return "", err
				}
				ret = append(ret, e)
			}
		default:
			return "", fmt.Errorf("%s: %s: unsupported statement %s", s.Path, name, s.text(st))
		}
	}
	if len(ret) == 0 {
		return "", fmt.Errorf("%s: %s: no return", s.Path, name)
	}
	fmt.Fprintf(&b, " : %s :=\n", strings.TrimSuffix(strings.Repeat("Int × ", len(ret)), " × "))
	for _, l := range lines {
		b.WriteString("  " + l + "\n")
	}
	b.WriteString("  (" + strings.Join(ret, ", ") + ")\n")
	return b.String(), nil
}

func isIntType(t string) bool {
	switch t {
	case "int", "int64", "int32", "uint", "uint32", "uint64":
		return true
	}
	return false
}

func (s *File) assign(st *ast.AssignStmt) (string, error) {
	if (st.Tok != token.DEFINE && st.Tok != token.ASSIGN) || len(st.Lhs) != 1 || len(st.Rhs) != 1 {
		return "", fmt.Errorf("%s: unsupported assignment %s", s.Path, s.text(st))
	}
	id, ok := st.Lhs[0].(*ast.Ident)
	if !ok {
		return "", fmt.Errorf("%s: unsupported assignment target %s", s.Path, s.text(st.Lhs[0]))
	}
	e, err := s.expr(st.Rhs[0])
	if err != nil {
		return "", err
	}
	return fmt.Sprintf("let %s : Int := %s", id.Name, e), nil
}

func (s *File) cond(e ast.Expr) (string, error) {
	be, ok := e.(*ast.BinaryExpr)
	if !ok {
		return "", fmt.Errorf("%s: unsupported condition %s", s.Path, s.text(e))
	}
	ops := map[token.Token]string{token.LSS: "<", token.LEQ: "≤", token.GTR: ">", token.GEQ: "≥", token.EQL: "=", token.NEQ: "≠"}
	op, ok := ops[be.Op]
	if !ok {
		return "", fmt.Errorf("%s: unsupported condition %s", s.Path, s.text(e))
	}
	l, err := s.expr(be.X)
	if err != nil {
		return "", err
	}
	r, err := s.expr(be.Y)
	if err != nil {
		return "", err
	}
	return l + " " + op + " " + r, nil
}

func (s *File) expr(e ast.Expr) (string, error) {
	switch e := e.(type) {
	case *ast.Ident:
		return e.Name, nil
	case *ast.BasicLit:
		if e.Kind != token.INT {
			return "", fmt.Errorf("%s: non-integer literal %s", s.Path, e.Value)
		}
		v, err := strconv.ParseInt(strings.ReplaceAll(e.Value, "_", ""), 0, 64)
		if err != nil {
			return "", err
		}
		return strconv.FormatInt(v, 10), nil
	case *ast.ParenExpr:
		return s.expr(e.X)
	case *ast.BinaryExpr:
		l, err := s.expr(e.X)
		if err != nil {
			return "", err
		}
		r, err := s.expr(e.Y)
		if err != nil {
			return "", err
		}
		switch e.Op {
		case token.ADD:
			return "(" + l + " + " + r + ")", nil
		case token.SUB:
			return "(" + l + " - " + r + ")", nil
		case token.MUL:
			return "(" + l + " * " + r + ")", nil
		case token.QUO:
			return "(Int.tdiv " + l + " " + r + ")", nil
		}
		return "", fmt.Errorf("%s: unsupported operator in %s", s.Path, s.text(e))
	case *ast.CallExpr:
		// a conversion: one argument, callee a type name we look through
		if len(e.Args) == 1 {
			switch s.text(e.Fun) {
			case "int", "int64", "int32", "uint32", "uint64", "rate.Limit", "float64":
				return s.expr(e.Args[0])
			}
		}
		return "", fmt.Errorf("%s: unsupported call %s", s.Path, s.text(e))
	}
	return "", fmt.Errorf("%s: unsupported expression %s", s.Path, s.text(e))
}

// LeanStr renders a Go string as a Lean string literal.
func LeanStr(s string) string {
	var b strings.Builder
	b.WriteByte('"')
	for _, r := range s {
		switch {
		case r == '"' || r == '\\':
			b.WriteByte('\\')
			b.WriteRune(r)
		case r < 0x20 || r > 0x7e:
			fmt.Fprintf(&b, "\\u{%x}", r)
		default:
			b.WriteRune(r)
		}
	}
	b.WriteByte('"')
	return b.String()
}

// Module assembles a generated Lean module.
func Module(ns, origin string, defs []string) string {
	var b strings.Builder
	b.WriteString("/-\n  GENERATED — do not edit.  Written by harness/srcgen (the Prepare step of every `bin/check`\n  of the property) from " + origin + " of $VERIF_REPO.  Core-only.\n-/\nnamespace FwdVerif\nnamespace " + ns + "\n\n")
	for _, d := range defs {
		b.WriteString(strings.TrimRight(d, "\n") + "\n\n")
	}
	b.WriteString("end " + ns + "\nend FwdVerif\n")
	return b.String()
}

// WriteIfChanged (re)writes lean/FwdVerif/Model/<module>.lean under root when its content differs.
func WriteIfChanged(root, module, content string) (rewritten bool, err error) {
	path := filepath.Join(root, "lean", "FwdVerif", "Model", module+".lean")
	if old, rerr := os.ReadFile(path); rerr == nil && string(old) == content {
		return false, nil
	}
	return true, os.WriteFile(path, []byte(content), 0o644)
}

// RepoDir is the tree under verification.
func RepoDir() string {
	if d := os.Getenv("VERIF_REPO"); d != "" {
		return d
	}
	return "/repo"
}

// FieldStringSlice returns the elements of the first `name: []string{…}` key-value pair of a
// composite literal in the file (a struct field initialised with a list of string literals).
func (s *File) FieldStringSlice(name string) ([]string, error) {
	var out []string
	var err error
	found := false
	ast.Inspect(s.f, func(n ast.Node) bool {
		kv, ok := n.(*ast.KeyValueExpr)
		if !ok || found {
			return !found
		}
		id, ok := kv.Key.(*ast.Ident)
		if !ok || id.Name != name {
			return true
		}
		cl, ok := kv.Value.(*ast.CompositeLit)
		if !ok || s.text(cl.Type) != "[]string" {
			return true
		}
		found = true
		for _, el := range cl.Elts {
			bl, ok := el.(*ast.BasicLit)
			if !ok || bl.Kind != token.STRING {
				err = fmt.Errorf("%s: field %s has an element that is not a string literal: %s", s.Path, name, s.text(el))
				return false
			}
			v, uerr := strconv.Unquote(bl.Value)
			if uerr != nil {
				err = uerr
				return false
			}
			out = append(out, v)
		}
		return false
	})
	if err != nil {
		return nil, err
	}
	if !found {
		return nil, fmt.Errorf("%s: no `%s: []string{…}` initialiser", s.Path, name)
	}
	return out, nil
}
