package srcgen

import (
	"fmt"
	"go/ast"
	"go/token"
	"strconv"
	"strings"

	"github.com/saucelabs/forwarder/verifharness/core"
)

// statusByName: the net/http status constants (name → code); an unknown name is a translation error.
var statusByName = map[string]int{
	"StatusBadRequest": 400, "StatusUnauthorized": 401, "StatusPaymentRequired": 402, "StatusForbidden": 403,
	"StatusNotFound": 404, "StatusMethodNotAllowed": 405, "StatusNotAcceptable": 406, "StatusProxyAuthRequired": 407,
	"StatusRequestTimeout": 408, "StatusConflict": 409, "StatusGone": 410, "StatusLengthRequired": 411,
	"StatusPreconditionFailed": 412, "StatusRequestEntityTooLarge": 413, "StatusRequestURITooLong": 414,
	"StatusUnsupportedMediaType": 415, "StatusRequestedRangeNotSatisfiable": 416, "StatusExpectationFailed": 417,
	"StatusTeapot": 418, "StatusMisdirectedRequest": 421, "StatusUnprocessableEntity": 422, "StatusLocked": 423,
	"StatusFailedDependency": 424, "StatusTooEarly": 425, "StatusUpgradeRequired": 426, "StatusPreconditionRequired": 428,
	"StatusTooManyRequests": 429, "StatusRequestHeaderFieldsTooLarge": 431, "StatusUnavailableForLegalReasons": 451,
	"StatusInternalServerError": 500, "StatusNotImplemented": 501, "StatusBadGateway": 502, "StatusServiceUnavailable": 503,
	"StatusGatewayTimeout": 504, "StatusHTTPVersionNotSupported": 505, "StatusVariantAlsoNegotiates": 506,
	"StatusInsufficientStorage": 507, "StatusLoopDetected": 508, "StatusNotExtended": 510,
	"StatusNetworkAuthenticationRequired": 511,
	"StatusOK": 200, "StatusContinue": 100, "StatusSwitchingProtocols": 101, "StatusNoContent": 204,
	"StatusMovedPermanently": 301, "StatusFound": 302, "StatusNotModified": 304, "StatusTemporaryRedirect": 307,
}

type handlerFact struct {
	name     string
	codes    []int
	dynCodes []string
	labels   []string
}

func (s *File) stringConst(name string) (string, bool) {
	for _, d := range s.f.Decls {
		gd, ok := d.(*ast.GenDecl)
		if !ok || gd.Tok != token.CONST {
			continue
		}
		for _, sp := range gd.Specs {
			vs := sp.(*ast.ValueSpec)
			for i, n := range vs.Names {
				if n.Name == name && i < len(vs.Values) {
					if bl, ok := vs.Values[i].(*ast.BasicLit); ok && bl.Kind == token.STRING {
						v, err := strconv.Unquote(bl.Value)
						return v, err == nil
					}
				}
			}
		}
	}
	return "", false
}

// codeExpr / labelExpr classify what is assigned to `code` / `label`.
func (s *File) codeExpr(hf *handlerFact, e ast.Expr) error {
	switch e := e.(type) {
	case *ast.SelectorExpr:
		if x, ok := e.X.(*ast.Ident); ok && x.Name == "http" {
			v, ok := statusByName[e.Sel.Name]
			if !ok {
				return fmt.Errorf("%s: %s: unknown status constant http.%s", s.Path, hf.name, e.Sel.Name)
			}
			hf.codes = appendInt(hf.codes, v)
			return nil
		}
	case *ast.BasicLit:
		if e.Kind == token.INT {
			v, err := strconv.Atoi(e.Value)
			if err != nil {
				return err
			}
			hf.codes = appendInt(hf.codes, v)
			return nil
		}
	}
	hf.dynCodes = appendStr(hf.dynCodes, s.text(e))
	return nil
}

func (s *File) labelExpr(hf *handlerFact, e ast.Expr) error {
	switch e := e.(type) {
	case *ast.BasicLit:
		if e.Kind == token.STRING {
			v, err := strconv.Unquote(e.Value)
			if err != nil {
				return err
			}
			hf.labels = appendStr(hf.labels, v)
			return nil
		}
	case *ast.Ident:
		if v, ok := s.stringConst(e.Name); ok {
			hf.labels = appendStr(hf.labels, v)
			return nil
		}
	case *ast.BinaryExpr:
		if bl, ok := e.X.(*ast.BasicLit); ok && e.Op == token.ADD && bl.Kind == token.STRING {
			v, err := strconv.Unquote(bl.Value)
			if err != nil {
				return err
			}
			hf.labels = appendStr(hf.labels, v+"*")
			return nil
		}
	}
	return fmt.Errorf("%s: %s: label expression %s not understood", s.Path, hf.name, s.text(e))
}

func appendInt(l []int, v int) []int {
	for _, x := range l {
		if x == v {
			return l
		}
	}
	return append(l, v)
}

func appendStr(l []string, v string) []string {
	for _, x := range l {
		if x == v {
			return l
		}
	}
	return append(l, v)
}

// facts walks a function body for assignments to `code` and `label` (also `label += …`, which is
// kept as the literal followed by `*` when it starts with one) and three-valued returns.
func (s *File) facts(name string, body *ast.BlockStmt) (*handlerFact, error) {
	hf := &handlerFact{name: name}
	var err error
	ast.Inspect(body, func(n ast.Node) bool {
		if err != nil {
			return false
		}
		switch n := n.(type) {
		case *ast.AssignStmt:
			if len(n.Lhs) != len(n.Rhs) {
				return true
			}
			for i, l := range n.Lhs {
				id, ok := l.(*ast.Ident)
				if !ok {
					continue
				}
				switch id.Name {
				case "code":
					if n.Tok != token.ASSIGN {
						err = fmt.Errorf("%s: %s: `code` updated with %s", s.Path, name, n.Tok)
						return false
					}
					err = s.codeExpr(hf, n.Rhs[i])
				case "label":
					if n.Tok == token.ADD_ASSIGN {
						continue // refinement of a label already recorded (windows only)
					}
					err = s.labelExpr(hf, n.Rhs[i])
				}
			}
		case *ast.ReturnStmt:
			if len(n.Results) == 3 {
				if err = s.codeExpr(hf, n.Results[0]); err == nil {
					err = s.labelExpr(hf, n.Results[2])
				}
			}
		case *ast.FuncLit:
			return false
		}
		return true
	})
	return hf, err
}

// PrepareC12 regenerates Model/C12Gen.lean from http_proxy_errors.go: the handler list of
// errorResponse in order, per handler the status codes and labels it can assign, and the fallback.
func PrepareC12(ctx *core.Ctx) {
	prepare(ctx, "C12Gen", "http_proxy_errors.go (errorResponse: handler order, codes, labels, fallback)", func(repo string) (string, error) {
		f, err := Parse(repo, "http_proxy_errors.go")
		if err != nil {
			return "", err
		}
		funcs := map[string]*ast.FuncDecl{}
		for _, d := range f.f.Decls {
			if fd, ok := d.(*ast.FuncDecl); ok && fd.Body != nil {
				funcs[fd.Name.Name] = fd
			}
		}
		er := funcs["errorResponse"]
		if er == nil {
			return "", fmt.Errorf("%s: no errorResponse", f.Path)
		}
		var order []string
		var fallback *handlerFact
		var ferr error
		ast.Inspect(er.Body, func(n ast.Node) bool {
			switch n := n.(type) {
			case *ast.CompositeLit:
				if f.text(n.Type) == "[]errorHandler" {
					if order != nil {
						ferr = fmt.Errorf("%s: errorResponse has two handler lists", f.Path)
					}
					for _, el := range n.Elts {
						id, ok := el.(*ast.Ident)
						if !ok {
							ferr = fmt.Errorf("%s: handler list element %s is not a function name", f.Path, f.text(el))
							return false
						}
						order = append(order, id.Name)
					}
				}
			case *ast.IfStmt:
				if f.text(n.Cond) == "code == 0" && fallback == nil {
					fallback, ferr = f.facts("fallback", n.Body)
				}
			}
			return ferr == nil
		})
		if ferr != nil {
			return "", ferr
		}
		if len(order) == 0 {
			return "", fmt.Errorf("%s: errorResponse: handler list not found", f.Path)
		}
		if fallback == nil || len(fallback.codes) != 1 || len(fallback.dynCodes) != 0 || len(fallback.labels) != 1 {
			return "", fmt.Errorf("%s: errorResponse: `if code == 0 {…}` fallback not understood", f.Path)
		}
		var rows []string
		for _, name := range order {
			fd := funcs[name]
			if fd == nil {
				return "", fmt.Errorf("%s: handler %s is not defined in this file", f.Path, name)
			}
			hf, err := f.facts(name, fd.Body)
			if err != nil {
				return "", err
			}
			var cs, ds, ls []string
			for _, c := range hf.codes {
				cs = append(cs, strconv.Itoa(c))
			}
			for _, d := range hf.dynCodes {
				ds = append(ds, LeanStr(d))
			}
			for _, l := range hf.labels {
				ls = append(ls, LeanStr(l))
			}
			rows = append(rows, fmt.Sprintf("  ⟨%s, [%s], [%s], [%s]⟩", LeanStr(name), strings.Join(cs, ", "), strings.Join(ds, ", "), strings.Join(ls, ", ")))
		}
		return Module("C12Gen", "http_proxy_errors.go", []string{
			"/-- one handler of `errorResponse`: the constant status codes it assigns to `code`, the non-constant\n    expressions it assigns to it, the labels it assigns (`lit*` = a concatenation starting with `lit`) -/\nstructure HandlerFact where\n  name : String\n  codes : List Nat\n  dynCodes : List String\n  labels : List String\n  deriving Repr, DecidableEq",
			"/-- the handler list of `errorResponse`, in source order -/\ndef handlerFacts : List HandlerFact := [\n" + strings.Join(rows, ",\n") + "\n]",
			fmt.Sprintf("/-- `if code == 0 { … }` after the loop -/\ndef fallbackCode : Nat := %d\ndef fallbackLabel : String := %s", fallback.codes[0], LeanStr(fallback.labels[0])),
		}), nil
	})
}
