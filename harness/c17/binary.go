package c17

import (
	"fmt"
	"regexp"
	"strings"
	"time"

	"github.com/saucelabs/forwarder/verifharness/core"
	"github.com/saucelabs/forwarder/verifharness/rig"
)

// binCase: a --deny-domains list given to the REAL binary; hosts are probed through it. This ties the
// flag plumbing (bind → command/run → ruleset) to the property, not only the ruleset package.
type binCase struct {
	Kind  string   `json:"kind"` // "binary"
	Rules []string `json:"rules"`
	Hosts []string `json:"hosts"`
}

var binPatterns = []string{`example\.com`, `^www\.`, `internal`, `\.test$`, `^127\.0\.0\.1$`, `localhost`, `foo|bar`, `[0-9]+\.corp`, `^intranet\.corp$`, `.*`, `o`,
	// regression targets (every rule on its own): an unscoped flag group must not reach the rules after
	// it — `(?i)nomatch` followed by `INTERNAL\.` denies nothing —, and an upper-case letter in one rule
	// must not capture the case-folded letter of another — `I.` next to `(?i:i.)` still denies `internal.corp`
	`(?i)nomatch`, `INTERNAL\.`, `I.`, `(?i:i.)`}
var binHosts = []string{"www.example.com", "example.com", "internal.corp", "127.0.0.1", "localhost", "a.test", "foo.test", "12.corp", "other.org", "intranet.corp", "bar.example.com"}

func genBin(r *core.Rand) binCase {
	bc := binCase{Kind: "binary", Hosts: binHosts}
	n := r.Range(1, 5)
	for i := 0; i < n; i++ {
		p := core.Pick(r, binPatterns)
		if r.Chance(35) {
			p = "-" + p
		}
		bc.Rules = append(bc.Rules, p)
	}
	if r.Chance(50) {
		// the same pattern as include and as exclude, in either order (exclusion must win in both)
		p := core.Pick(r, binPatterns)
		pair := []string{p, "-" + p}
		if r.Bool() {
			pair[0], pair[1] = pair[1], pair[0]
		}
		pos := r.Intn(len(bc.Rules) + 1)
		bc.Rules = append(bc.Rules[:pos], append(pair, bc.Rules[pos:]...)...)
	}
	core.Shuffle(r, bc.Hosts)
	return bc
}

func runBin(ctx *core.Ctx, bc binCase) {
	ctx.Case("binary:"+strings.Join(bc.Rules, ","), len(bc.Rules) > 1)
	ctx.Count("binary/lists")
	// oracle: per-rule evaluation by the regexp package
	var inc, exc []*regexp.Regexp
	for _, rs := range bc.Rules {
		if strings.HasPrefix(rs, "-") {
			exc = append(exc, regexp.MustCompile(rs[1:]))
		} else {
			inc = append(inc, regexp.MustCompile(rs))
		}
	}
	want := func(h string) bool {
		for _, e := range exc {
			if e.MatchString(h) {
				return false
			}
		}
		for _, i := range inc {
			if i.MatchString(h) {
				return true
			}
		}
		return false
	}
	up, err := rig.NewPeer("upstream", rig.OKResponder("ok"))
	if err != nil {
		core.Fatalf("upstream peer: %v", err)
	}
	defer up.Close()
	p, err := startBinaryRetry(ctx.Root, []string{"--proxy", "http://" + up.Addr, "--log-level", "error", "--proxy-localhost", "allow", "--deny-domains=" + strings.Join(bc.Rules, ",")}, nil)
	if len(inc) == 0 {
		if err == nil {
			p.Stop()
			ctx.SpecFail("a list without an include rule is rejected", "", bc, "binary started", "")
		}
		return
	}
	if err != nil {
		ctx.SpecFail("a valid rule list is accepted by the binary (rules are not dropped or merged)", "", bc, err.Error(), "forwarder did not start with this --deny-domains list")
		return
	}
	defer p.Stop()
	var bad []string
	for _, h := range bc.Hosts {
		c, err := rig.Dial(p.Addr)
		if err != nil {
			ctx.Crash("the forwarder binary accepts connections", "", bc, err.Error())
			return
		}
		c.Send([]byte("GET http://"+h+"/ HTTP/1.1\r\nHost: "+h+"\r\nConnection: close\r\n\r\n"), nil)
		res, rerr := c.ReadResponse("GET", 5*time.Second)
		c.Close()
		if rerr != nil {
			bad = append(bad, fmt.Sprintf("%s: no response (%v)", h, rerr))
			continue
		}
		denied := res.Status == 403
		if denied != want(h) || (!denied && res.Status != 200) {
			bad = append(bad, fmt.Sprintf("%s: status %d, union-minus-excludes says denied=%v", h, res.Status, want(h)))
		}
	}
	if len(bad) > 0 {
		ctx.SpecFail("deny-domains matches a host iff some include rule matches it on its own and no '-' rule does (through the real binary)", "", bc, strings.Join(bad, "; "), "")
	} else {
		ctx.TraceValidated()
	}
}
